/-
  Property C08 — set and multiset hunks have set / bag semantics.
  Statement file (proofs in JdProofs/SetPatch.lean: set and multiset hunks; JdProofs/KeyedPatch.lean,
  namespace `Jd.Keyed`: keyed members, section "Keyed members: general theorems"; the concrete
  keyed-member witnesses of the last section are evaluated here).

  Model side: `patchNode sw false n p …` / `patchAll sw n d` (JdModel/Patch.lean) is the library's
  `Patch`; `patchSetLeaf [.set] s remove add` and `patchMsetLeaf [.mset] a remove add` are the leaf
  cases of `jsonSet.patch` / `jsonMultiset.patch` (hash maps keyed by 64-bit identities), which is
  what `patchNode` runs for a path whose next element is `{}` / `[]` (`patchNode_set_leaf`,
  `patchNode_mset_leaf`, used inside the `_at_array` theorems).
  Spec side (JdSpec/HunkSem.lean), written with the advertised equivalence `equivB`, no hashes:
  `memEq m x l` (x is equivalent to a member of l), `applySetLeaf`, `bagRemove` / `applyBagLeaf`,
  `applyHunkRef` (the reference interpreter for any path); `cntEq m z l` counts the members of `l`
  equivalent to `z`; `setEqB` is equality as sets up to equivalence.

  The ONE hypothesis of the set / multiset theorems: `Faithful m E` on the finitely many elements at
  hand (`E` = members of the target ++ removed ++ added): identities (FNV-1a values) coincide
  exactly for equivalent elements and `equals` agrees with `equivB` on them. It excludes hash
  collisions and the aliases of KF-C04-alias; without it set hunks act on hash codes, not on
  values. It is satisfiable (`faithful_scalars`, evaluated in the kernel).

  WHAT IS STATED
  * SET hunk (`{}`): fails iff some removed element is absent — or listed twice (see FINDING);
    otherwise the members of the result are exactly (target minus removed) plus added, every member
    comes from the target or the added values (untouched), and the result order is a function of
    the member set only (strictly sorted identities) — hence independent of the order of the target
    (`set_hunk_order_independent`).
  * MULTISET hunk (`[]`): fails iff some removed element is not present often enough; otherwise
    the multiplicities are target − removed + added; independent of the order of the target.
  * Both against the reference interpreter at the addressed array (`*_hunk_at_array`).
  * FINDING of the proof (`set_hunk_duplicate_removal`): a set hunk listing two equivalent removed
    elements is rejected by the code where the first version of the reference accepted it. Within
    the property as worded ("failing if an element is absent"): the code is stricter.
  * KEYED MEMBER (`{"k":v}`), last sentence of the property — "the nested change is applied strictly
    inside the object matching the keys, and a failure there fails the whole patch".
    Model: `patchNode sw false (.arr t xs) (.setKeys po :: rest) …`: the search loop of `jsonSet.patch`
    over 64-bit identities (`pathIdent`, `pathIdentTol`, `identObj`), then the nested patch of the
    member found with the rest of the path. The model carries the switch `sw`: `sw = true` is THE
    CODE AS IT IS (set.go discards the result of the nested patch), `sw = false` the variant that
    propagates the error. Reference: `applyHunkRef` with `keyedMembers` (JdSpec/HunkSem.lean), no
    hashes: exactly one member must match; the nested reference result replaces it.
    - THE LOOKUP IS TWO-PASS, EXACT THEN TOLERANT (`keyed_lookup_two_pass`, `keyed_exact_test`,
      `keyed_tolerant_test`): if some member carries every key of the path object with an equivalent
      value, exactly those members match; only otherwise a member also matches when it LACKS a key
      for which the path object holds null (what `Diff` writes for a SetKeys member lacking a key;
      repair D27). Under the hypotheses the hash test of the code in the pass it chooses IS that
      test (`keyed_code_test_is_reference_test`).
    - GENERAL THEOREM FOR THE ERROR-PROPAGATING VARIANT = REFERENCE SEMANTICS: `keyed_member_step`
      (any rest of the path, both variants: no member matches → error; otherwise the first matching
      member is patched with the rest and put back in place, `Keyed.keyedOut`),
      `keyed_member_eq_reference_strict_rest` (rest = keys and indices), `keyed_member_eq_reference`,
      `keyed_path_eq_reference` (keys, indices and NESTED keyed elements): `patchNode false` IS
      `applyHunkRef` up to array tags — error when no member matches, error when the nested change
      fails, the nested result in place of the member and all other members untouched otherwise.
      `keyed_prefix_decomposition`, `keyed_then_set_leaf`, `keyed_then_multiset_leaf`: the same below any
      navigation prefix and for a final `{}` / `[]` leaf (results equal as sets / bags, with the
      `Faithful` hypothesis of the set / multiset theorems on the addressed array).
    - THE CODE AS IT IS SWALLOWS A NESTED FAILURE — now a GENERAL THEOREM, not only a witness: known
      finding KF-C08-swallow (TestIssue25 pins the behaviour, so it is not repaired).
      `keyed_nested_failure_is_swallowed`: ANY rest of the path, any target in the domain: whenever
      the nested patch of the matching member fails, `Patch` answers SUCCESS with the array
      unchanged; `…_below_prefix`: the same below any navigation prefix; `…_returns_document`: the
      result is the input document up to array tags — the hunk is silently NOT applied.
      `keyed_member_code_vs_reference`: the code as it is agrees with the reference wherever the
      reference applies the hunk, fails when no member matches, and answers `.ok` unchanged exactly
      where the reference and the error-propagating variant reject the nested change. So "a failure
      there fails the whole patch" is FALSE for `sw = true` and TRUE for `sw = false`
      (`keyed_nested_failure_propagated`, `…_below_prefix`); the other outcomes are the same in both
      variants (`keyed_nested_success`, `keyed_no_matching_member_fails`,
      `keyed_code_agrees_where_reference_applies`).
    - PERMUTATION INVARIANCE: `keyed_member_order_independent` (both variants, any rest): for a
      permutation of the target both runs are rejected, or the results are `xs.map f` and `xs'.map f`
      for ONE member-wise `f`; `keyed_reference_order_independent`: the same for the reference.
    - HYPOTHESES (all Bool-valued on the inputs): `t = .raw ∨ t = .set` (plain or set-typed array);
      `wfList xs`, `keysSorted po` (distinct sorted keys: Go maps); `Keyed.KeyedFaithful po xs` — no
      FNV collision between the path object and the objects hashed by the two passes, for every
      object member (without it the search acts on hash codes, not on key values);
      `(xs.filter (keyedMembers xs po)).length ≤ 1` — at most one member matches; for the comparison
      of the NESTED change with the reference `hunkListDoc h` and, along the rest of the path,
      `Keyed.okAlong` / `Keyed.okNav` (the same conditions at every further keyed element; arrays
      entered by an index plain or list-typed; the value edited at the end a list-mode document).
    - OUTSIDE: AMBIGUITY — two or more matching members: the reference rejects the hunk, the code
      patches the FIRST match (`keyed_member_ambiguous`); LIST-TYPED ARRAYS — on a `jsonList` /
      `jsonMultiset` typed array (left by an earlier index hunk of the same diff) the code rejects
      every keyed element, the reference ignores Go dynamic types (`keyed_member_on_list_typed_array`);
      for `sw = true` no general description of a run in which an INNER keyed element swallows a
      failure and an outer part of the path then goes on; `msetKeys` elements (no branch in the
      model, both sides reject).
    - CONCRETE WITNESSES by evaluation (last section): `keyed_member_failure_swallowed`,
      `keyed_member_failure_propagated_when_fixed`, `keyed_member_applies`.
-/
import JdProofs.SetPatch
import JdProofs.KeyedPatch

set_option autoImplicit false

namespace Jd.Props.C08
open Jd Jd.Spec

/-! ## Set hunks -/

/-- the set leaf: error iff a removed element is absent (clause 1) or two removed elements are
    equivalent (clause 2); otherwise (clause 3) a set-typed array whose members are old or added
    members, strictly sorted by identity, containing exactly (target \ removed) ∪ added -/
theorem set_hunk_semantics (s remove add : List Json)
    (hF : Faithful [.set] (s ++ remove ++ add)) :
    (remove.all (fun r => memEq [.set] r s) = false → patchSetLeaf [.set] s remove add = .err) ∧
    (distinctEq [.set] remove = false → patchSetLeaf [.set] s remove add = .err) ∧
    (remove.all (fun r => memEq [.set] r s) = true → distinctEq [.set] remove = true →
      ∃ ys, patchSetLeaf [.set] s remove add = .ok (.arr .set ys) ∧
        (∀ y ∈ ys, y ∈ s ∨ y ∈ add) ∧
        HSorted (ys.map (identOf [.set])) ∧
        ∀ z ∈ s ++ remove ++ add,
          memEq [.set] z ys =
            ((memEq [.set] z s && !(memEq [.set] z remove)) || memEq [.set] z add)) :=
  patchSetLeaf_spec s remove add hF

/-- regardless of the order of the members in the target: for a permutation of the target the
    hunk is rejected in both cases, or applies in both and the results carry the same identities in
    the same order (equal as sets) -/
theorem set_hunk_order_independent (m : Opts) {s s' : List Json} (hp : s'.Perm s)
    (remove add : List Json) (hF : Faithful m (s ++ remove ++ add)) :
    (patchSetLeaf m s remove add = .err ∧ patchSetLeaf m s' remove add = .err) ∨
    ∃ ys ys', patchSetLeaf m s remove add = .ok (.arr .set ys) ∧
      patchSetLeaf m s' remove add = .ok (.arr .set ys') ∧
      ys.map (identOf m) = ys'.map (identOf m) ∧ setEqB m ys ys' = true :=
  patchSetLeaf_perm m hp remove add hF

/-- against the reference `applySetLeaf`: rejected iff the reference rejects, otherwise equal as
    sets (for removed lists without equivalent duplicates) -/
theorem set_hunk_eq_reference (s : List Json) (h : Hunk)
    (hF : Faithful [.set] (s ++ h.remove ++ h.add)) (hd : distinctEq [.set] h.remove = true) :
    (applySetLeaf s h = none ∧ patchSetLeaf [.set] s h.remove h.add = .err) ∨
    ∃ zs ys, applySetLeaf s h = some zs ∧
      patchSetLeaf [.set] s h.remove h.add = .ok (.arr .set ys) ∧ setEqB [.set] ys zs = true :=
  patchSetLeaf_ref s h hF hd

/-- the library's `Patch` on a hunk addressed `{}` to an array (plain or set-typed), against the
    reference interpreter of hunks -/
theorem set_hunk_at_array (sw : Bool) (t : Tag) (ht : t = .raw ∨ t = .set) (xs : List Json)
    (rest : Path) (h : Hunk)
    (hF : Faithful [.set] (xs ++ h.remove ++ h.add)) (hd : distinctEq [.set] h.remove = true) :
    (applyHunkRef (.arr t xs) (.set :: rest) h = none ∧
      patchNode sw false (.arr t xs) (.set :: rest) h.before h.remove h.add h.after = .err) ∨
    ∃ zs ys, applyHunkRef (.arr t xs) (.set :: rest) h = some (.arr .raw zs) ∧
      patchNode sw false (.arr t xs) (.set :: rest) h.before h.remove h.add h.after =
        .ok (.arr .set ys) ∧ setEqB [.set] ys zs = true :=
  patchNode_set_ref sw t ht xs rest h hF hd

/-- FINDING: `- null - null` on `[null]` — the reference accepts (every removed element is a
    member), the code reports an error (the second removal no longer finds the entry in its map) -/
theorem set_hunk_duplicate_removal :
    applySetLeaf [.null] { path := [.set], remove := [.null, .null] } = some [] ∧
    patchSetLeaf [.set] [.null] [.null, .null] [] = .err :=
  setHunk_duplicate_removal

/-! ## Multiset hunks -/

/-- the multiset leaf: error iff the bag difference fails (an element is not present often
    enough); otherwise a multiset-typed array of old / removed-equivalent / added members, weakly
    sorted by hash, with multiplicities target − removed + added -/
theorem multiset_hunk_semantics (a remove add : List Json)
    (hF : Faithful [.mset] (a ++ remove ++ add)) :
    (bagRemove [.mset] a remove = none → patchMsetLeaf [.mset] a remove add = .err) ∧
    (∀ l', bagRemove [.mset] a remove = some l' →
      ∃ ys, patchMsetLeaf [.mset] a remove add = .ok (.arr .mset ys) ∧
        (∀ y ∈ ys, y ∈ a ++ remove ++ add) ∧
        HSortedLe (ys.map (hashCode [.mset])) ∧
        (∀ z ∈ a ++ remove ++ add,
          cntEq [.mset] z ys =
            cntEq [.mset] z a - cntEq [.mset] z remove + cntEq [.mset] z add) ∧
        (∀ z ∈ a ++ remove ++ add, cntEq [.mset] z ys = cntEq [.mset] z (l' ++ add))) :=
  patchMsetLeaf_spec a remove add hF

/-- regardless of the order of the target — no hypothesis on hashes at all -/
theorem multiset_hunk_order_independent (m : Opts) {a a' : List Json} (hp : a'.Perm a)
    (remove add : List Json) :
    (patchMsetLeaf m a remove add = .err ∧ patchMsetLeaf m a' remove add = .err) ∨
    ∃ ys ys', patchMsetLeaf m a remove add = .ok (.arr .mset ys) ∧
      patchMsetLeaf m a' remove add = .ok (.arr .mset ys') ∧
      ys.map (hashCode m) = ys'.map (hashCode m) :=
  patchMsetLeaf_perm m hp remove add

/-- against the reference `applyBagLeaf`: rejected iff the reference rejects, otherwise equal as
    bags on the elements at hand -/
theorem multiset_hunk_eq_reference (a : List Json) (h : Hunk)
    (hF : Faithful [.mset] (a ++ h.remove ++ h.add)) :
    (applyBagLeaf a h = none ∧ patchMsetLeaf [.mset] a h.remove h.add = .err) ∨
    ∃ zs ys, applyBagLeaf a h = some zs ∧
      patchMsetLeaf [.mset] a h.remove h.add = .ok (.arr .mset ys) ∧
      ∀ z ∈ a ++ h.remove ++ h.add, cntEq [.mset] z ys = cntEq [.mset] z zs :=
  patchMsetLeaf_ref a h hF

/-- the library's `Patch` on a hunk addressed `[]` to an array (plain or multiset-typed) -/
theorem multiset_hunk_at_array (sw : Bool) (t : Tag) (ht : t = .raw ∨ t = .mset) (xs : List Json)
    (rest : Path) (h : Hunk) (hF : Faithful [.mset] (xs ++ h.remove ++ h.add)) :
    (applyHunkRef (.arr t xs) (.mset :: rest) h = none ∧
      patchNode sw false (.arr t xs) (.mset :: rest) h.before h.remove h.add h.after = .err) ∨
    ∃ zs ys, applyHunkRef (.arr t xs) (.mset :: rest) h = some (.arr .raw zs) ∧
      patchNode sw false (.arr t xs) (.mset :: rest) h.before h.remove h.add h.after =
        .ok (.arr .mset ys) ∧
      ∀ z ∈ xs ++ h.remove ++ h.add, cntEq [.mset] z ys = cntEq [.mset] z zs :=
  patchNode_mset_ref sw t ht xs rest h hF

/-! ## Non-vacuity -/

/-- `Faithful` holds for `[true, null]`, removed `[null]`, added `[false]` -/
theorem faithful_is_satisfiable :
    Faithful [.set] ([.bool true, .null] ++ [.null] ++ [.bool false]) :=
  faithful_scalars

/-- … and the theorem then describes an actual run: `null` goes, `false` comes, `true` stays -/
example : ∃ ys, patchSetLeaf [.set] [.bool true, .null] [.null] [.bool false] = .ok (.arr .set ys) ∧
    memEq [.set] (.bool true) ys = true ∧ memEq [.set] .null ys = false ∧
    memEq [.set] (.bool false) ys = true := by
  obtain ⟨ys, e, _, _, hm⟩ := (set_hunk_semantics _ _ _ faithful_scalars).2.2
    (by simp [memEq, equivB]) (by simp [distinctEq, memEq])
  refine ⟨ys, e, ?_, ?_, ?_⟩
  · rw [hm _ (by simp)]; simp [memEq, equivB]
  · rw [hm _ (by simp)]; simp [memEq, equivB]
  · rw [hm _ (by simp)]; simp [memEq, equivB]

/-! ## Keyed members: general theorems (JdProofs/KeyedPatch.lean; names of `Jd.Keyed` written qualified)

  `xs` the members of the addressed array, `po` the key object of the path element `{"k":v}`, `rest`
  the rest of the path (not empty: a hunk addressed to the member itself is a set hunk). -/

/-- **the lookup is two-pass.** If some member passes the exact test, the matching members are
    exactly those passing the exact test; otherwise those passing the tolerant test -/
theorem keyed_lookup_two_pass (xs : List Json) (po : List (String × Json)) :
    keyedMembers xs po =
      if xs.any (Keyed.exactMember po) then Keyed.exactMember po else Keyed.tolMember po :=
  Keyed.keyedMembers_eq xs po

/-- the EXACT test on an object member `kvs`: it carries every key of the path object with an
    equivalent value -/
theorem keyed_exact_test (kvs po : List (String × Json)) (hP : (po.map Prod.fst).Nodup) :
    Keyed.exactMember po (.obj kvs) = true ↔
      ∀ k v', alookup k po = some v' → ∃ v, alookup k kvs = some v ∧ equivB [.set] v v' = true :=
  Keyed.matchesKeys_iff kvs po hP

/-- the TOLERANT test: as the exact one, but a key the member LACKS is accepted when the path object
    holds null for it -/
theorem keyed_tolerant_test (kvs po : List (String × Json)) (hP : (po.map Prod.fst).Nodup) :
    Keyed.tolMember po (.obj kvs) = true ↔
      ∀ k v', alookup k po = some v' →
        (match alookup k kvs with
          | some v => equivB [.set] v v'
          | none => v'.isNull) = true :=
  Keyed.matchesKeysTol_iff kvs po hP

/-- under the hypotheses the member test of the code — equality of 64-bit identities, in the pass
    `keyedTol po xs` it chooses — is the member test of the reference, on every member -/
theorem keyed_code_test_is_reference_test {po : List (String × Json)} {xs : List Json}
    (hwf : wfList xs = true) (hpo : keysSorted po = true) (hF : Keyed.KeyedFaithful po xs = true)
    {x : Json} (hx : x ∈ xs) :
    Keyed.hashMatch (keyedTol po xs) po x = keyedMembers xs po x :=
  Keyed.hashMatch_keyedMembers hwf hpo hF hx

/-- **the keyed step, ANY rest of the path, both variants.** Either no member matches — the code
    reports an error and the reference rejects — or the target is `l1 ++ m :: l2` with `m` the FIRST
    matching member, an object; the code patches `m` with the rest of the path and puts the outcome
    back in place (`Keyed.keyedOut sw`: a result replaces `m`; an error is an error for `sw = false`
    and the UNCHANGED array for `sw = true`); the reference does the same when no other member
    matches and rejects the hunk when another one does -/
theorem keyed_member_step (sw : Bool) (t : Tag) (ht : t = .raw ∨ t = .set) (xs : List Json)
    (po : List (String × Json)) (rest : Path) (hrest : rest ≠ []) (h : Hunk)
    (hwf : wfList xs = true) (hpo : keysSorted po = true) (hF : Keyed.KeyedFaithful po xs = true) :
    ((∀ x ∈ xs, keyedMembers xs po x = false) ∧
      patchNode sw false (.arr t xs) (.setKeys po :: rest) h.before h.remove h.add h.after = .err ∧
      applyHunkRef (.arr t xs) (.setKeys po :: rest) h = none) ∨
    ∃ l1 kvs l2, xs = l1 ++ .obj kvs :: l2 ∧ (∀ x ∈ l1, keyedMembers xs po x = false) ∧
      keyedMembers xs po (.obj kvs) = true ∧
      patchNode sw false (.arr t xs) (.setKeys po :: rest) h.before h.remove h.add h.after =
        Keyed.keyedOut sw l1 (.obj kvs) l2
          (patchNode sw false (.obj kvs) rest h.before h.remove h.add h.after) ∧
      ((∀ x ∈ l2, keyedMembers xs po x = false) →
        applyHunkRef (.arr t xs) (.setKeys po :: rest) h =
          (applyHunkRef (.obj kvs) rest h).map (fun v => Json.arr .raw (l1 ++ v :: l2))) ∧
      ((∃ x ∈ l2, keyedMembers xs po x = true) →
        applyHunkRef (.arr t xs) (.setKeys po :: rest) h = none) :=
  Keyed.keyed_step sw t ht xs po rest hrest h hwf hpo hF

/-- **the error-propagating variant IS the reference** (rest of the path: keys and indices): error
    when no member matches, error when the nested strict change fails, the nested result in place
    of the member and the other members untouched otherwise; up to array tags -/
theorem keyed_member_eq_reference_strict_rest (t : Tag) (ht : t = .raw ∨ t = .set) (xs : List Json)
    (po : List (String × Json)) (rest : Path) (hrest : rest ≠ []) (hp : strictPath rest = true)
    (h : Hunk) (hh : hunkListDoc h = true) (hl : listDocList xs = true)
    (hwf : wfList xs = true) (hpo : keysSorted po = true) (hF : Keyed.KeyedFaithful po xs = true)
    (huniq : (xs.filter (keyedMembers xs po)).length ≤ 1) :
    Outcome.mapO untag
        (patchNode false false (.arr t xs) (.setKeys po :: rest) h.before h.remove h.add h.after)
      = Outcome.mapO untag (optToOutcome (applyHunkRef (.arr t xs) (.setKeys po :: rest) h)) :=
  Keyed.keyed_strict_eq_ref t ht xs po rest hrest hp h hh hl hwf hpo hF huniq

/-- the same with a rest of the path made of keys, indices and NESTED keyed elements
    (`Keyed.navPath rest`; `Keyed.okAlong rest m`: the hypotheses again at every further keyed element
    on the way, in the matching member `m`) -/
theorem keyed_member_eq_reference (t : Tag) (ht : t = .raw ∨ t = .set) (xs : List Json)
    (po : List (String × Json)) (rest : Path) (hp : Keyed.navPath rest = true)
    (h : Hunk) (hh : hunkListDoc h = true)
    (hwf : wfList xs = true) (hpo : keysSorted po = true) (hF : Keyed.KeyedFaithful po xs = true)
    (huniq : (xs.filter (keyedMembers xs po)).length ≤ 1)
    (hm : ∀ m ∈ xs, keyedMembers xs po m = true → Keyed.okAlong rest m = true) :
    Outcome.mapO untag
        (patchNode false false (.arr t xs) (.setKeys po :: rest) h.before h.remove h.add h.after)
      = Outcome.mapO untag (optToOutcome (applyHunkRef (.arr t xs) (.setKeys po :: rest) h)) :=
  Keyed.keyed_eq_ref t ht xs po rest hp h hh hwf hpo hF huniq hm

/-- … and from any document `n`: on every path of keys, indices and keyed elements the
    error-propagating variant is the reference interpreter, up to array tags -/
theorem keyed_path_eq_reference (h : Hunk) (hh : hunkListDoc h = true) (p : Path) (n : Json)
    (hp : Keyed.navPath p = true) (hok : Keyed.okAlong p n = true) :
    Outcome.mapO untag (patchNode false false n p h.before h.remove h.add h.after)
      = Outcome.mapO untag (optToOutcome (applyHunkRef n p h)) :=
  Keyed.nav_eq_ref h hh p n hp hok

/-- the code AS IT IS agrees with the reference wherever the reference applies the hunk -/
theorem keyed_code_agrees_where_reference_applies (h : Hunk) (hh : hunkListDoc h = true) (p : Path)
    (n : Json) (hp : Keyed.navPath p = true) (hok : Keyed.okAlong p n = true) (r : Json)
    (hr : applyHunkRef n p h = some r) :
    Outcome.mapO untag (patchNode true false n p h.before h.remove h.add h.after) = .ok (untag r) :=
  Keyed.nav_swallow_success h hh p n hp hok r hr

/-- **decomposition along a navigation prefix** `q` (keys, indices, keyed elements; `Keyed.target q n`
    = the sub-document it addresses by reference navigation), for ANY non-empty continuation `lf`.
    Nothing addressed: the reference rejects and the error-propagating variant fails. `m` addressed:
    the reference result is the reference result on `m` put back in place (`Keyed.plug .raw .raw`); a
    successful patch of `m` by the code (either variant) is put back in place (`Keyed.plug .list .set`:
    the same document up to tags, `Keyed.plug_untag`); for `sw = false` a failure on `m` is a failure -/
theorem keyed_prefix_decomposition (sw : Bool) (h : Hunk) (lf : Path) (hlf : lf ≠ []) (q : Path)
    (n : Json) (hq : Keyed.navElems q = true) (hok : Keyed.okNav q n = true) :
    (Keyed.target q n = none →
      applyHunkRef n (q ++ lf) h = none ∧
      (sw = false → patchNode sw false n (q ++ lf) h.before h.remove h.add h.after = .err)) ∧
    (∀ m, Keyed.target q n = some m →
      applyHunkRef n (q ++ lf) h = (applyHunkRef m lf h).map (Keyed.plug .raw .raw q n) ∧
      (∀ v, patchNode sw false m lf h.before h.remove h.add h.after = .ok v →
        patchNode sw false n (q ++ lf) h.before h.remove h.add h.after
          = .ok (Keyed.plug .list .set q n v)) ∧
      (sw = false → patchNode sw false m lf h.before h.remove h.add h.after = .err →
        patchNode sw false n (q ++ lf) h.before h.remove h.add h.after = .err)) :=
  Keyed.nav_decomp sw h lf hlf q n hq hok

/-- a SET leaf `{}` below keys, indices and keyed elements (with `Faithful` on the addressed array, as
    in `set_hunk_at_array`): the reference rejects and the error-propagating variant fails, or both
    apply and the results are equal as sets, put back in the same place -/
theorem keyed_then_set_leaf (sw : Bool) (h : Hunk) (q r : Path) (n : Json)
    (hq : Keyed.navElems q = true) (hok : Keyed.okNav q n = true) {t : Tag} {xs : List Json}
    (ht : t = .raw ∨ t = .set) (htg : Keyed.target q n = some (.arr t xs))
    (hF : Faithful [.set] (xs ++ h.remove ++ h.add)) (hd : distinctEq [.set] h.remove = true) :
    (applyHunkRef n (q ++ .set :: r) h = none ∧
      (sw = false → patchNode sw false n (q ++ .set :: r) h.before h.remove h.add h.after = .err)) ∨
    ∃ zs ys, applyHunkRef n (q ++ .set :: r) h = some (Keyed.plug .raw .raw q n (.arr .raw zs)) ∧
      patchNode sw false n (q ++ .set :: r) h.before h.remove h.add h.after
        = .ok (Keyed.plug .list .set q n (.arr .set ys)) ∧
      setEqB [.set] ys zs = true :=
  Keyed.nav_set_ref sw h q r n hq hok ht htg hF hd

/-- a MULTISET leaf `[]` below keys, indices and keyed elements: results equal as bags -/
theorem keyed_then_multiset_leaf (sw : Bool) (h : Hunk) (q r : Path) (n : Json)
    (hq : Keyed.navElems q = true) (hok : Keyed.okNav q n = true) {t : Tag} {xs : List Json}
    (ht : t = .raw ∨ t = .mset) (htg : Keyed.target q n = some (.arr t xs))
    (hF : Faithful [.mset] (xs ++ h.remove ++ h.add)) :
    (applyHunkRef n (q ++ .mset :: r) h = none ∧
      (sw = false → patchNode sw false n (q ++ .mset :: r) h.before h.remove h.add h.after = .err)) ∨
    ∃ zs ys, applyHunkRef n (q ++ .mset :: r) h = some (Keyed.plug .raw .raw q n (.arr .raw zs)) ∧
      patchNode sw false n (q ++ .mset :: r) h.before h.remove h.add h.after
        = .ok (Keyed.plug .list .set q n (.arr .mset ys)) ∧
      ∀ z ∈ xs ++ h.remove ++ h.add, cntEq [.mset] z ys = cntEq [.mset] z zs :=
  Keyed.nav_mset_ref sw h q r n hq hok ht htg hF

/-! ### "a failure there fails the whole patch": FALSE for the code as it is, in general (KF-C08-swallow) -/

/-- **KF-C08-swallow, general form** (ANY rest of the path). The code as it is (`sw = true`): whenever
    the nested patch of the matching member fails, `Patch` reports SUCCESS and returns the array
    unchanged (as a set-typed array) -/
theorem keyed_nested_failure_is_swallowed (t : Tag) (ht : t = .raw ∨ t = .set) (xs : List Json)
    (po : List (String × Json)) (rest : Path) (hrest : rest ≠ []) (h : Hunk)
    (hwf : wfList xs = true) (hpo : keysSorted po = true) (hF : Keyed.KeyedFaithful po xs = true)
    (huniq : (xs.filter (keyedMembers xs po)).length ≤ 1)
    {m : Json} (hmem : m ∈ xs) (hkm : keyedMembers xs po m = true)
    (hfail : patchNode true false m rest h.before h.remove h.add h.after = .err) :
    patchNode true false (.arr t xs) (.setKeys po :: rest) h.before h.remove h.add h.after
      = .ok (.arr .set xs) :=
  Keyed.keyed_failure_is_swallowed t ht xs po rest hrest h hwf hpo hF huniq hmem hkm hfail

/-- the same with the keyed element below any prefix `q` of keys, indices and keyed elements
    addressing the array `xs`: SUCCESS, the addressed array put back unchanged -/
theorem keyed_nested_failure_is_swallowed_below_prefix (h : Hunk) (q : Path) (n : Json)
    (hq : Keyed.navElems q = true) (hok : Keyed.okNav q n = true) {t : Tag} {xs : List Json}
    (ht : t = .raw ∨ t = .set) (htg : Keyed.target q n = some (.arr t xs))
    (po : List (String × Json)) (rest : Path) (hrest : rest ≠ [])
    (hwf : wfList xs = true) (hpo : keysSorted po = true) (hF : Keyed.KeyedFaithful po xs = true)
    (huniq : (xs.filter (keyedMembers xs po)).length ≤ 1)
    {m : Json} (hmem : m ∈ xs) (hkm : keyedMembers xs po m = true)
    (hfail : patchNode true false m rest h.before h.remove h.add h.after = .err) :
    patchNode true false n (q ++ .setKeys po :: rest) h.before h.remove h.add h.after
      = .ok (Keyed.plug .list .set q n (.arr .set xs)) :=
  Keyed.keyed_failure_is_swallowed_nested h q n hq hok ht htg po rest hrest hwf hpo hF huniq hmem
    hkm hfail

/-- **whole-document form**: under `Keyed.stepsOK q n` (objects on the way have sorted keys, the member
    entered is not void) the code as it is answers `.ok r` with `r` the INPUT DOCUMENT up to array
    tags — a hunk whose nested change fails is silently not applied -/
theorem keyed_nested_failure_returns_document (h : Hunk) (q : Path) (n : Json)
    (hq : Keyed.navElems q = true) (hok : Keyed.okNav q n = true) (hst : Keyed.stepsOK q n = true)
    {t : Tag} {xs : List Json}
    (ht : t = .raw ∨ t = .set) (htg : Keyed.target q n = some (.arr t xs))
    (po : List (String × Json)) (rest : Path) (hrest : rest ≠ [])
    (hwf : wfList xs = true) (hpo : keysSorted po = true) (hF : Keyed.KeyedFaithful po xs = true)
    (huniq : (xs.filter (keyedMembers xs po)).length ≤ 1)
    {m : Json} (hmem : m ∈ xs) (hkm : keyedMembers xs po m = true)
    (hfail : patchNode true false m rest h.before h.remove h.add h.after = .err) :
    ∃ r, patchNode true false n (q ++ .setKeys po :: rest) h.before h.remove h.add h.after = .ok r ∧
      untag r = untag n :=
  Keyed.keyed_failure_returns_document h q n hq hok hst ht htg po rest hrest hwf hpo hF huniq hmem
    hkm hfail

/-- **the code as it is against the reference** (rest of the path: keys and indices). (a) where the
    reference applies the hunk, so does the code, with the same result up to tags; (b) no member
    matches: error; (c) a member matches but the reference rejects the nested change: the code
    answers `.ok` with the array unchanged, where the error-propagating variant and the reference
    reject -/
theorem keyed_member_code_vs_reference (t : Tag) (ht : t = .raw ∨ t = .set) (xs : List Json)
    (po : List (String × Json)) (rest : Path) (hrest : rest ≠ []) (hp : strictPath rest = true)
    (h : Hunk) (hh : hunkListDoc h = true) (hl : listDocList xs = true)
    (hwf : wfList xs = true) (hpo : keysSorted po = true) (hF : Keyed.KeyedFaithful po xs = true)
    (huniq : (xs.filter (keyedMembers xs po)).length ≤ 1) :
    (∀ r, applyHunkRef (.arr t xs) (.setKeys po :: rest) h = some r →
      Outcome.mapO untag
        (patchNode true false (.arr t xs) (.setKeys po :: rest) h.before h.remove h.add h.after)
        = .ok (untag r)) ∧
    ((∀ x ∈ xs, keyedMembers xs po x = false) →
      patchNode true false (.arr t xs) (.setKeys po :: rest) h.before h.remove h.add h.after = .err) ∧
    (∀ m ∈ xs, keyedMembers xs po m = true → applyHunkRef m rest h = none →
      patchNode true false (.arr t xs) (.setKeys po :: rest) h.before h.remove h.add h.after
        = .ok (.arr .set xs) ∧
      patchNode false false (.arr t xs) (.setKeys po :: rest) h.before h.remove h.add h.after = .err ∧
      applyHunkRef (.arr t xs) (.setKeys po :: rest) h = none) :=
  Keyed.keyed_strict_swallow t ht xs po rest hrest hp h hh hl hwf hpo hF huniq

/-- the error-propagating variant (`sw = false`): when the nested patch of the matching member fails,
    the hunk fails — the property's clause holds for it, for any rest of the path -/
theorem keyed_nested_failure_propagated (t : Tag) (ht : t = .raw ∨ t = .set) (xs : List Json)
    (po : List (String × Json)) (rest : Path) (hrest : rest ≠ []) (h : Hunk)
    (hwf : wfList xs = true) (hpo : keysSorted po = true) (hF : Keyed.KeyedFaithful po xs = true)
    (huniq : (xs.filter (keyedMembers xs po)).length ≤ 1)
    {m : Json} (hmem : m ∈ xs) (hkm : keyedMembers xs po m = true)
    (hfail : patchNode false false m rest h.before h.remove h.add h.after = .err) :
    patchNode false false (.arr t xs) (.setKeys po :: rest) h.before h.remove h.add h.after = .err :=
  Keyed.keyed_failure_propagated t ht xs po rest hrest h hwf hpo hF huniq hmem hkm hfail

/-- … also below any navigation prefix -/
theorem keyed_nested_failure_propagated_below_prefix (h : Hunk) (q : Path) (n : Json)
    (hq : Keyed.navElems q = true) (hok : Keyed.okNav q n = true) {t : Tag} {xs : List Json}
    (ht : t = .raw ∨ t = .set) (htg : Keyed.target q n = some (.arr t xs))
    (po : List (String × Json)) (rest : Path) (hrest : rest ≠ [])
    (hwf : wfList xs = true) (hpo : keysSorted po = true) (hF : Keyed.KeyedFaithful po xs = true)
    (huniq : (xs.filter (keyedMembers xs po)).length ≤ 1)
    {m : Json} (hmem : m ∈ xs) (hkm : keyedMembers xs po m = true)
    (hfail : patchNode false false m rest h.before h.remove h.add h.after = .err) :
    patchNode false false n (q ++ .setKeys po :: rest) h.before h.remove h.add h.after = .err :=
  Keyed.keyed_failure_propagated_nested h q n hq hok ht htg po rest hrest hwf hpo hF huniq hmem hkm
    hfail

/-- a nested patch that succeeds is put in place of the matching member, all other members
    untouched (both variants) -/
theorem keyed_nested_success (sw : Bool) (t : Tag) (ht : t = .raw ∨ t = .set) (xs : List Json)
    (po : List (String × Json)) (rest : Path) (hrest : rest ≠ []) (h : Hunk)
    (hwf : wfList xs = true) (hpo : keysSorted po = true) (hF : Keyed.KeyedFaithful po xs = true)
    (huniq : (xs.filter (keyedMembers xs po)).length ≤ 1)
    {m v : Json} (hmem : m ∈ xs) (hkm : keyedMembers xs po m = true)
    (hok : patchNode sw false m rest h.before h.remove h.add h.after = .ok v) :
    patchNode sw false (.arr t xs) (.setKeys po :: rest) h.before h.remove h.add h.after
      = .ok (.arr .set (xs.map (fun x => if keyedMembers xs po x then v else x))) :=
  Keyed.keyed_success sw t ht xs po rest hrest h hwf hpo hF huniq hmem hkm hok

/-- no member matches the keys: error (both variants) -/
theorem keyed_no_matching_member_fails (sw : Bool) (t : Tag) (ht : t = .raw ∨ t = .set)
    (xs : List Json) (po : List (String × Json)) (rest : Path) (hrest : rest ≠ []) (h : Hunk)
    (hwf : wfList xs = true) (hpo : keysSorted po = true) (hF : Keyed.KeyedFaithful po xs = true)
    (hno : ∀ x ∈ xs, keyedMembers xs po x = false) :
    patchNode sw false (.arr t xs) (.setKeys po :: rest) h.before h.remove h.add h.after = .err :=
  Keyed.keyed_no_member sw t ht xs po rest hrest h hwf hpo hF hno

/-! ### regardless of the order of the members in the target -/

/-- **permutation invariance** (both variants, any rest of the path): for a permutation `xs'` of the
    target `xs` the hunk is rejected in both cases, or applies in both with results `xs.map f` and
    `xs'.map f` for one and the same member-wise `f` -/
theorem keyed_member_order_independent (sw : Bool) (t : Tag) (ht : t = .raw ∨ t = .set)
    {xs xs' : List Json} (hperm : xs'.Perm xs) (po : List (String × Json)) (rest : Path)
    (hrest : rest ≠ []) (h : Hunk)
    (hwf : wfList xs = true) (hpo : keysSorted po = true) (hF : Keyed.KeyedFaithful po xs = true)
    (huniq : (xs.filter (keyedMembers xs po)).length ≤ 1) :
    (patchNode sw false (.arr t xs) (.setKeys po :: rest) h.before h.remove h.add h.after = .err ∧
      patchNode sw false (.arr t xs') (.setKeys po :: rest) h.before h.remove h.add h.after = .err) ∨
    ∃ f : Json → Json,
      patchNode sw false (.arr t xs) (.setKeys po :: rest) h.before h.remove h.add h.after
        = .ok (.arr .set (xs.map f)) ∧
      patchNode sw false (.arr t xs') (.setKeys po :: rest) h.before h.remove h.add h.after
        = .ok (.arr .set (xs'.map f)) :=
  Keyed.keyed_perm sw t ht hperm po rest hrest h hwf hpo hF huniq

/-- the reference is order-independent in the same sense (no hypothesis) -/
theorem keyed_reference_order_independent (t : Tag) {xs xs' : List Json} (hperm : xs'.Perm xs)
    (po : List (String × Json)) (rest : Path) (hrest : rest ≠ []) (h : Hunk) :
    (applyHunkRef (.arr t xs) (.setKeys po :: rest) h = none ∧
      applyHunkRef (.arr t xs') (.setKeys po :: rest) h = none) ∨
    ∃ f : Json → Json,
      applyHunkRef (.arr t xs) (.setKeys po :: rest) h = some (.arr .raw (xs.map f)) ∧
      applyHunkRef (.arr t xs') (.setKeys po :: rest) h = some (.arr .raw (xs'.map f)) :=
  Keyed.keyed_ref_perm t hperm po rest hrest h

/-! ### outside the preconditions: what the code does there -/

/-- AMBIGUITY, two or more matching members: the reference rejects the hunk, the code patches the
    FIRST matching member -/
theorem keyed_member_ambiguous (sw : Bool) (t : Tag) (ht : t = .raw ∨ t = .set) (xs : List Json)
    (po : List (String × Json)) (rest : Path) (hrest : rest ≠ []) (h : Hunk)
    (hwf : wfList xs = true) (hpo : keysSorted po = true) (hF : Keyed.KeyedFaithful po xs = true)
    (hmany : 2 ≤ (xs.filter (keyedMembers xs po)).length) :
    applyHunkRef (.arr t xs) (.setKeys po :: rest) h = none ∧
    ∃ l1 kvs l2, xs = l1 ++ .obj kvs :: l2 ∧ (∀ x ∈ l1, keyedMembers xs po x = false) ∧
      keyedMembers xs po (.obj kvs) = true ∧
      patchNode sw false (.arr t xs) (.setKeys po :: rest) h.before h.remove h.add h.after =
        Keyed.keyedOut sw l1 (.obj kvs) l2
          (patchNode sw false (.obj kvs) rest h.before h.remove h.add h.after) :=
  Keyed.keyed_ambiguous sw t ht xs po rest hrest h hwf hpo hF hmany

/-- a LIST-typed or MULTISET-typed array (it arises when an earlier hunk of the same diff has edited
    the array by index): the code rejects every keyed element, whatever the members -/
theorem keyed_member_on_list_typed_array (sw : Bool) (t : Tag) (ht : t = .list ∨ t = .mset)
    (xs : List Json) (po : List (String × Json)) (rest : Path)
    (before remove add after : List Json) :
    patchNode sw false (.arr t xs) (.setKeys po :: rest) before remove add after = .err :=
  Keyed.keyed_on_list_typed sw t ht xs po rest before remove add after

/-! ### Non-vacuity of the keyed-member theorems

  `Keyed.Example`: target `xs` = `[{"id":"x","v":"a"},{"id":"y","v":"c"}]`, path object `po` =
  `{"id":"x"}`, rest `"v"`; `bad` removes `"WRONG"`, `good` removes `"a"`. Every hypothesis is proved
  there (`hwf`, `hpo`, `hF` — the hash comparisons decided in the kernel —, `hl`, `huniq`). The file
  also has an instance of the tolerant pass (`xsN`, `poN`), of a keyed element below a key and another
  keyed element (`deep`), and of a set leaf below a keyed element (`setHunk`). -/

example : wfList Keyed.Example.xs = true ∧ keysSorted Keyed.Example.po = true ∧
    Keyed.KeyedFaithful Keyed.Example.po Keyed.Example.xs = true ∧
    listDocList Keyed.Example.xs = true ∧
    (Keyed.Example.xs.filter (keyedMembers Keyed.Example.xs Keyed.Example.po)).length ≤ 1 :=
  ⟨Keyed.Example.hwf, Keyed.Example.hpo, Keyed.Example.hF, Keyed.Example.hl, Keyed.Example.huniq⟩

/-- the general swallow theorem on the example: the nested change of `bad` fails inside the matching
    member (`bad_nested_err`), the code as it is answers `.ok` with the array unchanged, the
    error-propagating variant fails -/
example :
    patchNode true false (.arr .raw Keyed.Example.xs) [.setKeys Keyed.Example.po, .key "v"]
      Keyed.Example.bad.before Keyed.Example.bad.remove Keyed.Example.bad.add Keyed.Example.bad.after
      = .ok (.arr .set Keyed.Example.xs) ∧
    patchNode false false (.arr .raw Keyed.Example.xs) [.setKeys Keyed.Example.po, .key "v"]
      Keyed.Example.bad.before Keyed.Example.bad.remove Keyed.Example.bad.add Keyed.Example.bad.after
      = .err := by
  have hmem : Keyed.Example.m1 ∈ Keyed.Example.xs := by simp [Keyed.Example.xs]
  have hkm : keyedMembers Keyed.Example.xs Keyed.Example.po Keyed.Example.m1 = true := by
    have := Keyed.Example.hfilter
    have h1 : Keyed.Example.m1 ∈ Keyed.Example.xs.filter
        (keyedMembers Keyed.Example.xs Keyed.Example.po) := by rw [this]; simp
    exact (List.mem_filter.1 h1).2
  exact ⟨keyed_nested_failure_is_swallowed .raw (.inl rfl) _ _ [.key "v"] (by simp)
      Keyed.Example.bad Keyed.Example.hwf Keyed.Example.hpo Keyed.Example.hF Keyed.Example.huniq hmem
      hkm (Keyed.Example.bad_nested_err true),
    keyed_nested_failure_propagated .raw (.inl rfl) _ _ [.key "v"] (by simp)
      Keyed.Example.bad Keyed.Example.hwf Keyed.Example.hpo Keyed.Example.hF Keyed.Example.huniq hmem
      hkm (Keyed.Example.bad_nested_err false)⟩

/-! ## Keyed members: known finding KF-C08-swallow (counter-witness by evaluation)

  Target `[{"id":"x","v":"a"}]`; hunk `@ [{"id":"x"},"v"]`. -/

/-- `[{"id":"x","v":"a"}]` -/
def kfDoc : Json := .arr .raw [.obj [("id", .str "x"), ("v", .str "a")]]
/-- `@ [{"id":"x"},"v"]  - "WRONG"  + "b"`: the member is found, the nested strict change does not
    match (`v` is `"a"`, not `"WRONG"`) -/
def kfBadHunk : Hunk :=
  { path := [.setKeys [("id", .str "x")], .key "v"], remove := [.str "WRONG"], add := [.str "b"] }
/-- `@ [{"id":"x"},"v"]  - "a"  + "b"`: the nested change matches -/
def kfGoodHunk : Hunk :=
  { path := [.setKeys [("id", .str "x")], .key "v"], remove := [.str "a"], add := [.str "b"] }

theorem kf_ident :
    (pathIdent [.set] [("id", .str "x"), ("v", .str "a")] [("id", .str "x")]
      == identObj [.set] [("id", .str "x")]) = true := by decide +kernel

/-- the member is found in the first pass (exact key values), so the tolerant second pass is not used -/
theorem kf_tol :
    keyedTol [("id", .str "x")] [.obj [("id", .str "x"), ("v", .str "a")]] = false := by
  simp [keyedTol, kf_ident]

/-- **KF-C08-swallow.** The code as it is (`sw = true`): the nested patch FAILS, yet `Patch` reports
    success and returns the document unchanged (as a set-typed array) — "a failure there fails the
    whole patch" does not hold -/
theorem keyed_member_failure_swallowed :
    patchAll true kfDoc [kfBadHunk] = .ok (.arr .set [.obj [("id", .str "x"), ("v", .str "a")]]) ∧
    patchM kfDoc [kfBadHunk] = .ok (.arr .set [.obj [("id", .str "x"), ("v", .str "a")]]) := by
  have h : patchAll true kfDoc [kfBadHunk]
      = .ok (.arr .set [.obj [("id", .str "x"), ("v", .str "a")]]) := by
    simp [kfDoc, kfBadHunk, patchAll, patchNode.eq_def, patchKeyed.eq_def, patchObjChild.eq_def,
      effTag, pathMeta, dispatchTag, kf_ident, kf_tol, alookup, patchFresh, Path.isLeaf, equals,
      Json.singleValue]
  exact ⟨h, h⟩

/-- with the error propagated (`sw = false`, the repair that TestIssue25 forbids) the same hunk is
    rejected, as the property demands -/
theorem keyed_member_failure_propagated_when_fixed :
    patchAll false kfDoc [kfBadHunk] = .err := by
  simp [kfDoc, kfBadHunk, patchAll, patchNode.eq_def, patchKeyed.eq_def, patchObjChild.eq_def,
    effTag, pathMeta, dispatchTag, kf_ident, kf_tol, alookup, patchFresh, Path.isLeaf, equals,
    Json.singleValue]

/-- a nested change that matches is applied strictly inside the object matching the keys, in both
    variants -/
theorem keyed_member_applies (sw : Bool) :
    patchAll sw kfDoc [kfGoodHunk] = .ok (.arr .set [.obj [("id", .str "x"), ("v", .str "b")]]) := by
  simp [kfDoc, kfGoodHunk, patchAll, patchNode.eq_def, patchKeyed.eq_def, patchObjChild.eq_def,
    effTag, pathMeta, dispatchTag, kf_ident, kf_tol, alookup, patchFresh, Path.isLeaf, equals,
    Json.singleValue, Json.isVoid, ainsert, Pure.pure]

end Jd.Props.C08
