/-
  Property C08 — set and multiset hunks have set / bag semantics.
  Statement file (proofs in JdProofs/SetPatch.lean; the keyed-member witnesses are evaluated here).

  Model side: `patchNode sw false n p …` / `patchAll sw n d` (JdModel/Patch.lean) is the library's
  `Patch`; `patchSetLeaf [.set] s remove add` and `patchMsetLeaf [.mset] a remove add` are the leaf
  cases of `jsonSet.patch` / `jsonMultiset.patch` (hash maps keyed by 64-bit identities), which is
  what `patchNode` runs for a path whose next element is `{}` / `[]` (`patchNode_set_leaf`,
  `patchNode_mset_leaf`, used inside the `_at_array` theorems).
  Spec side (JdSpec/HunkSem.lean), written with the advertised equivalence `equivB`, no hashes:
  `memEq m x l` (x is equivalent to a member of l), `applySetLeaf`, `bagRemove` / `applyBagLeaf`,
  `applyHunkRef` (the reference interpreter for any path); `cntEq m z l` counts the members of `l`
  equivalent to `z`; `setEqB` is equality as sets up to equivalence.

  The ONE hypothesis: `Faithful m E` on the finitely many elements at hand (`E` = members of the
  target ++ removed ++ added): identities (FNV-1a values) coincide exactly for equivalent elements
  and `equals` agrees with `equivB` on them. It excludes hash collisions and the aliases of
  KF-C04-alias; without it set hunks act on hash codes, not on values. It is satisfiable
  (`faithful_scalars`, evaluated in the kernel).

  WHAT IS STATED
  * SET hunk (`{}`): fails iff some removed element is absent — or listed twice (see FINDING);
    otherwise the members of the result are exactly (target minus removed) plus added, every member
    comes from the target or the added values (untouched), and the result order is a function of
    the member set only (strictly sorted identities) — hence independent of the order of the target
    (`set_hunk_order_independent`).
  * MULTISET hunk (`[]`): fails iff some removed element is not present often enough; otherwise
    the multiplicities are target − removed + added; independent of the order of the target.
  * Both against the reference interpreter at the addressed array (`*_hunk_at_array`).
  * FINDING of the proof (`set_hunk_duplicate_removal`): a set hunk listing two equivalent removed
    elements is rejected by the code where the first version of the reference accepted it. Within
    the property as worded ("failing if an element is absent"): the code is stricter.
  * KEYED MEMBER (`{"k":v}`), last sentence of the property — "a failure there fails the whole
    patch" — is FALSE on the code as it is: known finding KF-C08-swallow (set.go discards the result
    of the nested patch; TestIssue25 pins the behaviour). Counter-witness proved by evaluation:
    `keyed_member_failure_swallowed`. The model carries the switch `sw`: `patchAll true` is the
    code as it is, `patchAll false` propagates the error (`keyed_member_failure_propagated_when_fixed`),
    and a nested change that does apply is applied inside the matching object (`keyed_member_applies`).
    No general theorem is stated for keyed members (oracle + correspondence only).
-/
import JdProofs.SetPatch

namespace Jd.Props.C08
open Jd Jd.Spec

/-! ## Set hunks -/

/-- the set leaf: error iff a removed element is absent (clause 1) or two removed elements are
    equivalent (clause 2); otherwise (clause 3) a set-typed array whose members are old or added
    members, strictly sorted by identity, containing exactly (target \ removed) ∪ added -/
theorem set_hunk_semantics (s remove add : List Json)
    (hF : Faithful [.set] (s ++ remove ++ add)) :
    (remove.all (fun r => memEq [.set] r s) = false → patchSetLeaf [.set] s remove add = .err) ∧
    (distinctEq [.set] remove = false → patchSetLeaf [.set] s remove add = .err) ∧
    (remove.all (fun r => memEq [.set] r s) = true → distinctEq [.set] remove = true →
      ∃ ys, patchSetLeaf [.set] s remove add = .ok (.arr .set ys) ∧
        (∀ y ∈ ys, y ∈ s ∨ y ∈ add) ∧
        HSorted (ys.map (identOf [.set])) ∧
        ∀ z ∈ s ++ remove ++ add,
          memEq [.set] z ys =
            ((memEq [.set] z s && !(memEq [.set] z remove)) || memEq [.set] z add)) :=
  patchSetLeaf_spec s remove add hF

/-- regardless of the order of the members in the target: for a permutation of the target the
    hunk is rejected in both cases, or applies in both and the results carry the same identities in
    the same order (equal as sets) -/
theorem set_hunk_order_independent (m : Opts) {s s' : List Json} (hp : s'.Perm s)
    (remove add : List Json) (hF : Faithful m (s ++ remove ++ add)) :
    (patchSetLeaf m s remove add = .err ∧ patchSetLeaf m s' remove add = .err) ∨
    ∃ ys ys', patchSetLeaf m s remove add = .ok (.arr .set ys) ∧
      patchSetLeaf m s' remove add = .ok (.arr .set ys') ∧
      ys.map (identOf m) = ys'.map (identOf m) ∧ setEqB m ys ys' = true :=
  patchSetLeaf_perm m hp remove add hF

/-- against the reference `applySetLeaf`: rejected iff the reference rejects, otherwise equal as
    sets (for removed lists without equivalent duplicates) -/
theorem set_hunk_eq_reference (s : List Json) (h : Hunk)
    (hF : Faithful [.set] (s ++ h.remove ++ h.add)) (hd : distinctEq [.set] h.remove = true) :
    (applySetLeaf s h = none ∧ patchSetLeaf [.set] s h.remove h.add = .err) ∨
    ∃ zs ys, applySetLeaf s h = some zs ∧
      patchSetLeaf [.set] s h.remove h.add = .ok (.arr .set ys) ∧ setEqB [.set] ys zs = true :=
  patchSetLeaf_ref s h hF hd

/-- the library's `Patch` on a hunk addressed `{}` to an array (plain or set-typed), against the
    reference interpreter of hunks -/
theorem set_hunk_at_array (sw : Bool) (t : Tag) (ht : t = .raw ∨ t = .set) (xs : List Json)
    (rest : Path) (h : Hunk)
    (hF : Faithful [.set] (xs ++ h.remove ++ h.add)) (hd : distinctEq [.set] h.remove = true) :
    (applyHunkRef (.arr t xs) (.set :: rest) h = none ∧
      patchNode sw false (.arr t xs) (.set :: rest) h.before h.remove h.add h.after = .err) ∨
    ∃ zs ys, applyHunkRef (.arr t xs) (.set :: rest) h = some (.arr .raw zs) ∧
      patchNode sw false (.arr t xs) (.set :: rest) h.before h.remove h.add h.after =
        .ok (.arr .set ys) ∧ setEqB [.set] ys zs = true :=
  patchNode_set_ref sw t ht xs rest h hF hd

/-- FINDING: `- null - null` on `[null]` — the reference accepts (every removed element is a
    member), the code reports an error (the second removal no longer finds the entry in its map) -/
theorem set_hunk_duplicate_removal :
    applySetLeaf [.null] { path := [.set], remove := [.null, .null] } = some [] ∧
    patchSetLeaf [.set] [.null] [.null, .null] [] = .err :=
  setHunk_duplicate_removal

/-! ## Multiset hunks -/

/-- the multiset leaf: error iff the bag difference fails (an element is not present often
    enough); otherwise a multiset-typed array of old / removed-equivalent / added members, weakly
    sorted by hash, with multiplicities target − removed + added -/
theorem multiset_hunk_semantics (a remove add : List Json)
    (hF : Faithful [.mset] (a ++ remove ++ add)) :
    (bagRemove [.mset] a remove = none → patchMsetLeaf [.mset] a remove add = .err) ∧
    (∀ l', bagRemove [.mset] a remove = some l' →
      ∃ ys, patchMsetLeaf [.mset] a remove add = .ok (.arr .mset ys) ∧
        (∀ y ∈ ys, y ∈ a ++ remove ++ add) ∧
        HSortedLe (ys.map (hashCode [.mset])) ∧
        (∀ z ∈ a ++ remove ++ add,
          cntEq [.mset] z ys =
            cntEq [.mset] z a - cntEq [.mset] z remove + cntEq [.mset] z add) ∧
        (∀ z ∈ a ++ remove ++ add, cntEq [.mset] z ys = cntEq [.mset] z (l' ++ add))) :=
  patchMsetLeaf_spec a remove add hF

/-- regardless of the order of the target — no hypothesis on hashes at all -/
theorem multiset_hunk_order_independent (m : Opts) {a a' : List Json} (hp : a'.Perm a)
    (remove add : List Json) :
    (patchMsetLeaf m a remove add = .err ∧ patchMsetLeaf m a' remove add = .err) ∨
    ∃ ys ys', patchMsetLeaf m a remove add = .ok (.arr .mset ys) ∧
      patchMsetLeaf m a' remove add = .ok (.arr .mset ys') ∧
      ys.map (hashCode m) = ys'.map (hashCode m) :=
  patchMsetLeaf_perm m hp remove add

/-- against the reference `applyBagLeaf`: rejected iff the reference rejects, otherwise equal as
    bags on the elements at hand -/
theorem multiset_hunk_eq_reference (a : List Json) (h : Hunk)
    (hF : Faithful [.mset] (a ++ h.remove ++ h.add)) :
    (applyBagLeaf a h = none ∧ patchMsetLeaf [.mset] a h.remove h.add = .err) ∨
    ∃ zs ys, applyBagLeaf a h = some zs ∧
      patchMsetLeaf [.mset] a h.remove h.add = .ok (.arr .mset ys) ∧
      ∀ z ∈ a ++ h.remove ++ h.add, cntEq [.mset] z ys = cntEq [.mset] z zs :=
  patchMsetLeaf_ref a h hF

/-- the library's `Patch` on a hunk addressed `[]` to an array (plain or multiset-typed) -/
theorem multiset_hunk_at_array (sw : Bool) (t : Tag) (ht : t = .raw ∨ t = .mset) (xs : List Json)
    (rest : Path) (h : Hunk) (hF : Faithful [.mset] (xs ++ h.remove ++ h.add)) :
    (applyHunkRef (.arr t xs) (.mset :: rest) h = none ∧
      patchNode sw false (.arr t xs) (.mset :: rest) h.before h.remove h.add h.after = .err) ∨
    ∃ zs ys, applyHunkRef (.arr t xs) (.mset :: rest) h = some (.arr .raw zs) ∧
      patchNode sw false (.arr t xs) (.mset :: rest) h.before h.remove h.add h.after =
        .ok (.arr .mset ys) ∧
      ∀ z ∈ xs ++ h.remove ++ h.add, cntEq [.mset] z ys = cntEq [.mset] z zs :=
  patchNode_mset_ref sw t ht xs rest h hF

/-! ## Non-vacuity -/

/-- `Faithful` holds for `[true, null]`, removed `[null]`, added `[false]` -/
theorem faithful_is_satisfiable :
    Faithful [.set] ([.bool true, .null] ++ [.null] ++ [.bool false]) :=
  faithful_scalars

/-- … and the theorem then describes an actual run: `null` goes, `false` comes, `true` stays -/
example : ∃ ys, patchSetLeaf [.set] [.bool true, .null] [.null] [.bool false] = .ok (.arr .set ys) ∧
    memEq [.set] (.bool true) ys = true ∧ memEq [.set] .null ys = false ∧
    memEq [.set] (.bool false) ys = true := by
  obtain ⟨ys, e, _, _, hm⟩ := (set_hunk_semantics _ _ _ faithful_scalars).2.2
    (by simp [memEq, equivB]) (by simp [distinctEq, memEq])
  refine ⟨ys, e, ?_, ?_, ?_⟩
  · rw [hm _ (by simp)]; simp [memEq, equivB]
  · rw [hm _ (by simp)]; simp [memEq, equivB]
  · rw [hm _ (by simp)]; simp [memEq, equivB]

/-! ## Keyed members: known finding KF-C08-swallow (counter-witness by evaluation)

  Target `[{"id":"x","v":"a"}]`; hunk `@ [{"id":"x"},"v"]`. -/

/-- `[{"id":"x","v":"a"}]` -/
def kfDoc : Json := .arr .raw [.obj [("id", .str "x"), ("v", .str "a")]]
/-- `@ [{"id":"x"},"v"]  - "WRONG"  + "b"`: the member is found, the nested strict change does not
    match (`v` is `"a"`, not `"WRONG"`) -/
def kfBadHunk : Hunk :=
  { path := [.setKeys [("id", .str "x")], .key "v"], remove := [.str "WRONG"], add := [.str "b"] }
/-- `@ [{"id":"x"},"v"]  - "a"  + "b"`: the nested change matches -/
def kfGoodHunk : Hunk :=
  { path := [.setKeys [("id", .str "x")], .key "v"], remove := [.str "a"], add := [.str "b"] }

theorem kf_ident :
    (pathIdent [.set] [("id", .str "x"), ("v", .str "a")] [("id", .str "x")]
      == identObj [.set] [("id", .str "x")]) = true := by decide +kernel

/-- the member is found in the first pass (exact key values), so the tolerant second pass is not used -/
theorem kf_tol :
    keyedTol [("id", .str "x")] [.obj [("id", .str "x"), ("v", .str "a")]] = false := by
  simp [keyedTol, kf_ident]

/-- **KF-C08-swallow.** The code as it is (`sw = true`): the nested patch FAILS, yet `Patch` reports
    success and returns the document unchanged (as a set-typed array) — "a failure there fails the
    whole patch" does not hold -/
theorem keyed_member_failure_swallowed :
    patchAll true kfDoc [kfBadHunk] = .ok (.arr .set [.obj [("id", .str "x"), ("v", .str "a")]]) ∧
    patchM kfDoc [kfBadHunk] = .ok (.arr .set [.obj [("id", .str "x"), ("v", .str "a")]]) := by
  have h : patchAll true kfDoc [kfBadHunk]
      = .ok (.arr .set [.obj [("id", .str "x"), ("v", .str "a")]]) := by
    simp [kfDoc, kfBadHunk, patchAll, patchNode.eq_def, patchKeyed.eq_def, patchObjChild.eq_def,
      effTag, pathMeta, dispatchTag, kf_ident, kf_tol, alookup, patchFresh, Path.isLeaf, equals,
      Json.singleValue]
  exact ⟨h, h⟩

/-- with the error propagated (`sw = false`, the repair that TestIssue25 forbids) the same hunk is
    rejected, as the property demands -/
theorem keyed_member_failure_propagated_when_fixed :
    patchAll false kfDoc [kfBadHunk] = .err := by
  simp [kfDoc, kfBadHunk, patchAll, patchNode.eq_def, patchKeyed.eq_def, patchObjChild.eq_def,
    effTag, pathMeta, dispatchTag, kf_ident, kf_tol, alookup, patchFresh, Path.isLeaf, equals,
    Json.singleValue]

/-- a nested change that matches is applied strictly inside the object matching the keys, in both
    variants -/
theorem keyed_member_applies (sw : Bool) :
    patchAll sw kfDoc [kfGoodHunk] = .ok (.arr .set [.obj [("id", .str "x"), ("v", .str "b")]]) := by
  simp [kfDoc, kfGoodHunk, patchAll, patchNode.eq_def, patchKeyed.eq_def, patchObjChild.eq_def,
    effTag, pathMeta, dispatchTag, kf_ident, kf_tol, alookup, patchFresh, Path.isLeaf, equals,
    Json.singleValue, Json.isVoid, ainsert, Pure.pure]

end Jd.Props.C08
