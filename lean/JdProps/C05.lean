/-
  Property C05 — a diff is empty exactly when the documents are equal.
  Statement file (proofs: list reading in JdProofs/DiffEmpty.lean; SET / MULTISET readings and
  SetKeys in JdProofs/DiffEmptySet.lean, namespace `Jd.DES`).

  Model side: `diffM o a b` is `a.Diff(b, options...)` (JdModel/Diff.lean), `equals o a b` is
  `a.Equals(b, options...)` (JdModel/Equals.lean). There is no separate spec: the property relates
  two library functions (what `Equals` itself means is property C04).

  WHAT IS STATED
  * LIST reading of arrays (`dispatchTag o = .list`), STRICT or MERGE strategy, NO Precision
    (`precOf o = 0`): `diff_empty_iff_equals`, an iff; for MERGE no hash hypothesis is needed
    (`diff_empty_iff_equals_merge`). The two directions are also stated separately because their
    hypotheses differ.
  * SET and MULTISET readings (`DES.SetReading o`: `dispatchTag o = .set` with no SetKeys, or
    `dispatchTag o = .mset`), STRICT or MERGE strategy (so SET, MULTISET, SET+MERGE, MULTISET+MERGE),
    no Precision, arrays nested anywhere:
      (⇒) `diff_empty_implies_equal_setmodes`: an empty diff means `Equals`, with NO hash hypothesis
          and no float hypothesis (the diff compares member hash codes, `Equals` compares the hash
          code of the sorted member hash codes: what the diff cannot see, `Equals` cannot see).
      (⇐) `equal_implies_diff_empty_setmodes`: `Equals` means an empty diff UNDER `DES.DiffFaithful`
          (decidable; see HYPOTHESES). WITHOUT it (⇐) IS FALSE ON THE CODE AS IT IS — two witnesses,
          both confirmed on the Go code:
            `alias_breaks_converse`: `[{"a":""}]` against `[{"a":[]}]` under SET and SET+MERGE —
              Equal, diff not empty. By pre-image ALIASING (`""` and `[]` have the same hash code):
              a consequence of the known finding KF-C04-alias.
            `fnv_collision_breaks_converse`: `["aedb68afb","b7cdeb749"]` against
              `["a568b3ad2","b76a57d20"]` under SET, MULTISET, SET+MERGE, MULTISET+MERGE — Equal, diff
              not empty. A GENUINE FNV-1a 64 COLLISION of two 16-byte pre-images (the four members
              have four different hash codes: `fnv_collision_members_distinct`); no alias involved.
      `diff_empty_iff_equals_setmodes` (the iff under `DiffFaithful`), `diff_empty_iff_equals_four_option_lists`
      (the four literal option lists), `diff_empty_iff_equals_setmodes_hashFaithful` (the iff under the
      hypothesis family of C01 / C04: `HashFaithful`, `setDoc`, `FloatEq0`).
  * SetKeys (`dispatchTag o = .set`, `keysOf o` arbitrary, either strategy, no Precision):
    `diff_empty_iff_equals_setkeys` and the two directions, under `DES.IdentInj` (the keys identify the
    members of every set), `DES.KindSepI` / `DES.KindSepH` and `DES.DiffFaithful`. When two members of
    one set share an identity BOTH DIRECTIONS ARE FALSE on the code as it is, no collision involved
    (`setkeys_forward_fails`: empty diff, not Equal; `setkeys_converse_fails`: Equal, non-empty diff;
    the class of the known finding KF-C01-identperm).
  * Precision: the property is FALSE on the code as it is (`precision_counterwitness`, known finding
    KF-C05-precision: `diff_common.go` calls `Equals` without the options). This is why every theorem
    of this file has `precOf o = 0`, in the set modes as well.
  * The CLI half (exit status 0 / 1) is in JdProps/C14.lean.
  NOT PROVED: SET / MULTISET / SetKeys together with a Precision option (false already for scalars);
  necessity of `KindSepI` / `KindSepH` (no witness known: it would take a genuine collision between
  an object identity and a string hash code).

  HYPOTHESES of the LIST theorems, and why
    `Dom x` = `listDoc` ∧ `wf` (unique sorted keys) ∧ `finiteNums` ∧ `noNegZero` (kept from before the
       repair of D5b; `FloatEq0` says nothing about the bit pattern of `-0`);
    `a.rawDoc` for (⇐): the left document is as read from JSON / YAML (every array a plain
       `jsonArray`); with a `jsonList`-typed left document the direction is false in the model
       (`typed_list_left_is_excluded`; not reachable through the public Go API);
    `FloatEq0` for (⇐): the one IEEE-754 law used (`Float` is opaque to the kernel);
    `DE.HashOK o a b` for (⇒), strict strategy only: nodes of `a` and of `b` with the same FNV-1a
       hash code are Equal (list elements are matched by hash code; with a collision an empty diff
       would not mean equality).

  HYPOTHESES of the SET / MULTISET / SetKeys theorems, and why
    `a.rawDoc`: the left document as read from text; a `jsonSet`-typed left node is Equal to a plain
       array but is replaced wholesale by the diff (`typed_set_left_is_excluded`; model only);
    `a.wf`, `b.wf`: unique sorted keys, the model's invariant standing for Go maps
       (`dup_keys_excluded`; model only). `b` may carry any array tags. No float hypothesis;
    `DES.DiffFaithful o (subterms a) (subterms b)` for (⇐): for a node `x` of `a` and a node `y` of `b`
       with the same hash code, (i) two arrays were hashed from the same list of member hash codes (no
       FNV collision between array nodes), (ii) SET reading only: two objects are Equal (no collision
       and no alias between object members of sets: the set diff matches members by hash code and
       then diffs two matched objects member by member). Pairs of other kinds are unconstrained: the
       scalar / array aliases of KF-C04-alias are harmless here, and in the MULTISET reading clause (ii)
       is not required (`alias_harmless_for_multiset`). Implied by `HashFaithful` on `setDoc` documents;
    SetKeys: `a.setDoc`, `b.setDoc` (rawDoc, wf, finiteNums, noNegZero), `FloatEq0` (Equal objects
       have equal hash codes); `DES.IdentInj o S`: in every array node among `S` two members with the
       same identity (hash codes of the values under the keys) have the same hash code;
       `DES.KindSepI` / `DES.KindSepH`: no object has the identity / hash code of a non-object.
       (⇒) uses `IdentInj` on both sides and `KindSepI`; (⇐) uses `DiffFaithful`, `KindSepH` and
       `IdentInj` on `b`. All are decidable (`DES.diffFaithful_of_check`, `DES.Example.identInj_of_check`, …).
-/
import JdProofs.DiffEmpty
import JdProofs.DiffEmptySet
import JdProofs.MergePrecision
import JdProofs.CliExitCodes
import JdProps.C01Precision
import JdProps.C01Void
import JdProps.C05V1

namespace Jd.Props.C05
open Jd Jd.Spec

/-- **C05, list mode, strict or MERGE strategy, no Precision:** `a.Diff(b)` is empty if and only if
    `a.Equals(b)` under the same options -/
theorem diff_empty_iff_equals (F : FloatEq0) (o : Opts) (ho : dispatchTag o = .list)
    (hp : precOf o = 0) (a b : Json) (hr : a.rawDoc = true) (ha : Dom a) (hb : Dom b)
    (H : DE.HashOK o a b) : diffM o a b = [] ↔ equals o a b = true :=
  diffM_nil_iff_equals F o ho hp a b hr ha hb H

/-- MERGE strategy: the equivalence needs no hash hypothesis (merge diffs compare lists with
    `Equals`, not by hash code) -/
theorem diff_empty_iff_equals_merge (F : FloatEq0) (o : Opts) (ho : dispatchTag o = .list)
    (hp : precOf o = 0) (hm : isMerge o = true) (a b : Json) (hr : a.rawDoc = true) (ha : Dom a)
    (hb : Dom b) : diffM o a b = [] ↔ equals o a b = true :=
  diffM_nil_iff_equals_merge F o ho hp hm a b hr ha hb

/-- (⇐) equal documents have an empty diff (no hash hypothesis) -/
theorem equal_implies_diff_empty (F : FloatEq0) (o : Opts) (ho : dispatchTag o = .list)
    (hp : precOf o = 0) (a b : Json) (hr : a.rawDoc = true) (ha : Dom a) (hb : Dom b)
    (h : equals o a b = true) : diffM o a b = [] :=
  diffM_nil_of_equals F o ho hp a b hr ha hb h

/-- (⇒) an empty diff means equal documents (no float hypothesis; list documents with unique keys) -/
theorem diff_empty_implies_equal (o : Opts) (ho : dispatchTag o = .list) (hp : precOf o = 0)
    (a b : Json) (hl : a.listDoc = true) (hl' : b.listDoc = true)
    (hw : a.wf = true) (hw' : b.wf = true) (H : DE.HashOK o a b) (hd : diffM o a b = []) :
    equals o a b = true :=
  equals_of_diffM_nil o ho hp a b hl hl' hw hw' H hd

/-! ## SET and MULTISET readings of arrays, strict or MERGE strategy, no Precision -/

/-- **C05 (⇒), SET / MULTISET / SET+MERGE / MULTISET+MERGE:** an empty diff means `Equals` — NO hash
    hypothesis, no float hypothesis; `b` may carry any array tags -/
theorem diff_empty_implies_equal_setmodes (o : Opts) (hm : DES.SetReading o) (hp : precOf o = 0)
    (a b : Json) (hr : a.rawDoc = true) (hw : a.wf = true) (hw' : b.wf = true)
    (h : diffM o a b = []) : equals o a b = true :=
  DES.equals_of_diffM_nil o hm hp a b hr hw hw' h

/-- **C05 (⇐), the same readings:** `Equals` means an empty diff, when no two nodes of the two
    documents collide harmfully (`DES.DiffFaithful`; false without it: `alias_breaks_converse`,
    `fnv_collision_breaks_converse`) -/
theorem equal_implies_diff_empty_setmodes (o : Opts) (hm : DES.SetReading o) (hp : precOf o = 0)
    (a b : Json) (hr : a.rawDoc = true) (hw : a.wf = true) (hw' : b.wf = true)
    (FH : DES.DiffFaithful o (subterms a) (subterms b)) (h : equals o a b = true) :
    diffM o a b = [] :=
  DES.diffM_nil_of_equals o hm hp a b hr hw hw' FH h

/-- **C05, SET / MULTISET readings, strict or MERGE strategy, no Precision:** `a.Diff(b)` is empty if
    and only if `a.Equals(b)` under the same options -/
theorem diff_empty_iff_equals_setmodes (o : Opts) (hm : DES.SetReading o) (hp : precOf o = 0)
    (a b : Json) (hr : a.rawDoc = true) (hw : a.wf = true) (hw' : b.wf = true)
    (FH : DES.DiffFaithful o (subterms a) (subterms b)) :
    diffM o a b = [] ↔ equals o a b = true :=
  DES.diffM_nil_iff_equals o hm hp a b hr hw hw' FH

/-- the four option lists of the property themselves, the two directions with their own hypotheses -/
theorem diff_empty_iff_equals_four_option_lists {o : Opts}
    (ho : o ∈ [[Opt.set], [.mset], [.set, .merge], [.mset, .merge]]) (a b : Json)
    (hr : a.rawDoc = true) (hw : a.wf = true) (hw' : b.wf = true) :
    (diffM o a b = [] → equals o a b = true) ∧
    (DES.DiffFaithful o (subterms a) (subterms b) → equals o a b = true → diffM o a b = []) :=
  DES.c05_setmodes ho a b hr hw hw'

/-- the iff under the hypothesis family of C01 / C04 in the set modes (`setDoc` documents,
    `HashFaithful` on all sub-terms, `FloatEq0`): these imply `DiffFaithful` -/
theorem diff_empty_iff_equals_setmodes_hashFaithful (F : FloatEq0) (o : Opts)
    (hm : DES.SetReading o) (hp : precOf o = 0) (a b : Json) (ha : a.setDoc = true)
    (hb : b.setDoc = true) (HF : HashFaithful o (subterms a ++ subterms b)) :
    diffM o a b = [] ↔ equals o a b = true :=
  DES.diffM_nil_iff_equals_hashFaithful F o hm hp a b ha hb HF

/-! ## SetKeys (sets of objects identified by keys), strict or MERGE strategy, no Precision -/

/-- **C05 with SetKeys** (options reading arrays as sets; `keysOf o` arbitrary): the iff, when the
    keys identify the members of every set (`IdentInj`) and there is no harmful collision -/
theorem diff_empty_iff_equals_setkeys (F : FloatEq0) (o : Opts) (hd : dispatchTag o = .set)
    (hp : precOf o = 0) (a b : Json) (ha : a.setDoc = true) (hb : b.setDoc = true)
    (IA : DES.IdentInj o (subterms a)) (IB : DES.IdentInj o (subterms b))
    (KI : DES.KindSepI o (subterms a) (subterms b)) (KH : DES.KindSepH o (subterms a) (subterms b))
    (FH : DES.DiffFaithful o (subterms a) (subterms b)) :
    diffM o a b = [] ↔ equals o a b = true :=
  DES.diffM_nil_iff_equals_keys F o hd hp a b ha hb IA IB KI KH FH

/-- (⇒) with SetKeys: needs `IdentInj` on both sides and `KindSepI`, no `DiffFaithful` -/
theorem diff_empty_implies_equal_setkeys (F : FloatEq0) (o : Opts) (hd : dispatchTag o = .set)
    (hp : precOf o = 0) (a b : Json) (ha : a.setDoc = true) (hb : b.setDoc = true)
    (IA : DES.IdentInj o (subterms a)) (IB : DES.IdentInj o (subterms b))
    (KI : DES.KindSepI o (subterms a) (subterms b)) (h : diffM o a b = []) :
    equals o a b = true :=
  DES.equals_of_diffNode_nil_keys F hd hp (isMerge o) IA IB KI a (docOk_of_setDoc ha)
    (DES.within_subterms a) b (docOk_of_setDoc hb) (DES.within_subterms b) [] h

/-- (⇐) with SetKeys: needs `DiffFaithful`, `KindSepH` and `IdentInj` on `b` only -/
theorem equal_implies_diff_empty_setkeys (F : FloatEq0) (o : Opts) (hd : dispatchTag o = .set)
    (hp : precOf o = 0) (a b : Json) (ha : a.setDoc = true) (hb : b.setDoc = true)
    (IB : DES.IdentInj o (subterms b)) (KH : DES.KindSepH o (subterms a) (subterms b))
    (FH : DES.DiffFaithful o (subterms a) (subterms b)) (h : equals o a b = true) :
    diffM o a b = [] :=
  DES.diffNode_nil_of_equals_keys F hd hp (isMerge o) FH KH IB a (docOk_of_setDoc ha)
    (DES.within_subterms a) b (docOk_of_setDoc hb) (DES.within_subterms b) h []

/-! ### Where the property is false, and why the hypotheses are there -/

/-- KF-C05-precision: two numbers within `eps` but not identical are Equal under `Precision(eps)`
    and their diff is NOT empty. (The two premises are IEEE-754 facts about concrete numbers, e.g.
    `eps = 0.5`, `x = 1`, `y = 1 + 2⁻⁵²`, which the kernel cannot evaluate because `Float` is opaque;
    the runtime evaluates them: see the `#eval` in JdProofs/DiffEmpty.lean.) -/
theorem precision_counterwitness (eps x y : UInt64) (h1 : numWithin eps x y = true)
    (h0 : numWithin 0 x y = false) :
    equals [.prec eps] (.num x) (.num y) = true ∧ diffM [.prec eps] (.num x) (.num y) ≠ [] :=
  Jd.precision_counterwitness eps x y h1 h0

/-- why `rawDoc` on the left: a `jsonList`-typed node against a plain array is Equal but the diff
    replaces it wholesale (model only: a `jsonList` exists in Go only as the result of `dispatch`) -/
theorem typed_list_left_is_excluded (m : Bool) :
    equals [] (.arr .list []) (.arr .raw []) = true ∧
      diffNode [] m (.arr .list []) (.arr .raw []) [] ≠ [] :=
  diff_list_vs_array_nonempty m

/-- after the repair of D5b: `[0]` and `[-0]` are Equal, hash alike, and their diff is empty (so
    `noNegZero` is stronger than necessary). Relative to the IEEE fact `|0 - (-0)| ≤ +0`. -/
theorem negzero_pair_after_fix (hz : numWithin 0 0 negZeroBits = true) :
    equals [] (.arr .raw [.num 0]) (.arr .raw [.num negZeroBits]) = true ∧
      hashCode [] (.num 0) = hashCode [] (.num negZeroBits) ∧
      diffM [] (.arr .raw [.num 0]) (.arr .raw [.num negZeroBits]) = [] :=
  negZero_after_fix hz

/-! ### SET / MULTISET readings: (⇐) is false on the code as it is without `DiffFaithful` -/

/-- **(⇐) FALSE by pre-image aliasing (consequence of KF-C04-alias), SET and SET+MERGE.**
    `a = [{"a":""}]`, `b = [{"a":[]}]`: documents as read from text; the empty string and the empty
    array have the same hash code, hence so have the two members; `a.Equals(b)` holds and `a.Diff(b)`
    is NOT empty (the members are matched by hash code and then compared member by member).
    Confirmed on the Go code. -/
theorem alias_breaks_converse (a b : Json) (ha : a = .arr .raw [.obj [("a", .str "")]])
    (hb : b = .arr .raw [.obj [("a", .arr .raw [])]]) :
    a.rawDoc = true ∧ a.wf = true ∧ b.rawDoc = true ∧ b.wf = true ∧
    equals [.set] a b = true ∧ diffM [.set] a b ≠ [] ∧
    equals [.set, .merge] a b = true ∧ diffM [.set, .merge] a b ≠ [] := by
  subst ha hb; exact DES.Witness.alias_breaks_converse

/-- the alias pair is outside `DiffFaithful` (as it must be) -/
theorem alias_pair_not_diffFaithful :
    ¬ DES.DiffFaithful [.set] (subterms (.arr .raw [.obj [("a", .str "")]]))
        (subterms (.arr .raw [.obj [("a", .arr .raw [])]])) :=
  DES.Witness.alias_not_faithful

/-- in the MULTISET reading the same pair is harmless (the multiset diff never looks inside a member):
    `DiffFaithful` holds, the documents are Equal and the diff is empty -/
theorem alias_harmless_for_multiset (a b : Json) (ha : a = .arr .raw [.obj [("a", .str "")]])
    (hb : b = .arr .raw [.obj [("a", .arr .raw [])]]) :
    DES.DiffFaithful [.mset] (subterms a) (subterms b) ∧ equals [.mset] a b = true ∧
      diffM [.mset] a b = [] := by
  subst ha hb; exact DES.Witness.alias_mset_consistent

/-- **(⇐) FALSE outright by a genuine FNV-1a 64 collision — no alias involved — under SET, MULTISET,
    SET+MERGE and MULTISET+MERGE.** `a = ["aedb68afb","b7cdeb749"]`, `b = ["a568b3ad2","b76a57d20"]`
    (arrays of strings, no member in common): the two 16-byte strings "sorted hash codes of the
    members" have the same FNV-1a hash code, so `a.Equals(b)` holds, while `a.Diff(b)` removes two
    members and adds two. Confirmed on the Go code. -/
theorem fnv_collision_breaks_converse (a b : Json)
    (ha : a = .arr .raw [.str "aedb68afb", .str "b7cdeb749"])
    (hb : b = .arr .raw [.str "a568b3ad2", .str "b76a57d20"]) :
    a.rawDoc = true ∧ a.wf = true ∧ b.rawDoc = true ∧ b.wf = true ∧
    (∀ o ∈ [[Opt.set], [.mset], [.set, .merge], [.mset, .merge]],
      equals o a b = true ∧ diffM o a b ≠ []) := by
  subst ha hb; exact DES.Witness.fnv_collision_breaks_converse

/-- … and it is a collision of the ARRAY nodes only: the four members have four different hash codes -/
theorem fnv_collision_members_distinct :
    (hashList [.set]
      [.str "aedb68afb", .str "b7cdeb749", .str "a568b3ad2", .str "b76a57d20"]).Nodup :=
  DES.Witness.fnv_collision_members_distinct

/-- why `rawDoc` on the left in the set modes: a `jsonSet`-typed node against a plain array is Equal
    but the diff replaces it wholesale (model only: a `jsonSet` exists in Go only as the result of
    `dispatch`) -/
theorem typed_set_left_is_excluded (m : Bool) :
    equals [.set] (.arr .set []) (.arr .raw []) = true ∧
      diffNode [.set] m (.arr .set []) (.arr .raw []) [] ≠ [] :=
  DES.Witness.typed_set_left_is_excluded m

/-- why `wf`: with a duplicated object key the model's `Equals` compares the numbers of bindings, the
    diff does not (model only: a Go map has no duplicated key) -/
theorem dup_keys_excluded :
    equals [.set] (.obj [("a", .str "x"), ("a", .str "x")]) (.obj [("a", .str "x")]) = false ∧
      diffM [.set] (.obj [("a", .str "x"), ("a", .str "x")]) (.obj [("a", .str "x")]) = [] :=
  DES.Witness.dup_keys_excluded

/-! ### SetKeys: both directions are false on the code as it is when two members of one set share an
    identity (class of KF-C01-identperm; no hash collision involved; confirmed on the Go code) -/

/-- **(⇒) FALSE under SetKeys(id).** `a = [{"id":"k","v":"x"},{"id":"k","v":"y"}]`,
    `b = [{"id":"k","v":"y"}]`: only the last bearer of the identity is compared; the diff is EMPTY
    although the documents are NOT Equal -/
theorem setkeys_forward_fails (a b : Json)
    (ha : a = .arr .raw [.obj [("id", .str "k"), ("v", .str "x")],
                         .obj [("id", .str "k"), ("v", .str "y")]])
    (hb : b = .arr .raw [.obj [("id", .str "k"), ("v", .str "y")]]) :
    a.setDoc = true ∧ b.setDoc = true ∧
    equals [.setKeys ["id"]] a b = false ∧ diffM [.setKeys ["id"]] a b = [] := by
  subst ha hb; exact DES.Witness.setkeys_forward_fails

/-- **(⇐) FALSE under SetKeys(id).** The same `a` against its members in the other order: the
    documents are Equal, but the diff compares the LAST member of each side bearing the shared
    identity and is NOT empty -/
theorem setkeys_converse_fails (a c : Json)
    (ha : a = .arr .raw [.obj [("id", .str "k"), ("v", .str "x")],
                         .obj [("id", .str "k"), ("v", .str "y")]])
    (hc : c = .arr .raw [.obj [("id", .str "k"), ("v", .str "y")],
                         .obj [("id", .str "k"), ("v", .str "x")]]) :
    a.setDoc = true ∧ c.setDoc = true ∧
    equals [.setKeys ["id"]] a c = true ∧ diffM [.setKeys ["id"]] a c ≠ [] := by
  subst ha hc; exact DES.Witness.setkeys_converse_fails

/-- the two SetKeys witnesses are outside the domain of the SetKeys theorems: identities do not tell
    the members of `a` apart -/
theorem setkeys_witness_not_identInj :
    ¬ DES.IdentInj [.setKeys ["id"]]
        (subterms (.arr .raw [.obj [("id", .str "k"), ("v", .str "x")],
                              .obj [("id", .str "k"), ("v", .str "y")]])) :=
  DES.Witness.ka_not_identInj

/-! Non-vacuity: `{"a":[null,"x"]}` against `{"a":[null,"y"]}` satisfies every hypothesis of the iff
    (the hash hypothesis is checked on all pairs of sub-terms in the kernel); both sides are false. -/

private def exA : Json := .obj [("a", .arr .raw [.null, .str "x"])]
private def exB : Json := .obj [("a", .arr .raw [.null, .str "y"])]

example : dispatchTag [] = .list ∧ precOf [] = 0 ∧ exA.rawDoc = true ∧ Dom exA ∧ Dom exB ∧
    DE.HashOK [] exA exB := by
  refine ⟨rfl, rfl, by decide, ⟨by decide, by decide, by decide, by decide⟩,
    ⟨by decide, by decide, by decide, by decide⟩, ?_⟩
  intro x hx y hy
  simp only [exA, exB, DE.subterms, DE.subtermsList, DE.subtermsKvs, List.cons_append,
    List.nil_append, List.append_nil, List.mem_cons, List.not_mem_nil, or_false] at hx hy
  rcases hx with rfl | rfl | rfl | rfl <;> rcases hy with rfl | rfl | rfl | rfl <;>
    first
    | (intro _; decide +kernel)
    | (intro e; exact absurd e (by decide +kernel))

/-! Non-vacuity, set modes (documents of JdProofs/DiffEmptySet.lean, `DES.Example`):
    `exA = {"s":[true,null,{"k":["x","y"]}],"t":"u"}`,
    `exB = {"s":[{"k":["y","x","y"]},null,true,null],"t":"u"}` (equal to `exA` as sets),
    `exC = {"s":[{"k":["y","x"]},null,true],"t":"u"}` (equal to `exA` as multisets),
    `exD = {"s":[{"k":["y","z"]},null,true],"t":"u"}` (different in either reading).
    `DiffFaithful` is checked on all pairs of sub-terms in the kernel. -/

example : DES.Example.exA.rawDoc = true ∧ DES.Example.exA.wf = true ∧ DES.Example.exB.wf = true ∧
    DES.Example.exC.wf = true ∧ DES.Example.exD.wf = true := DES.Example.ex_docs

example : DES.DiffFaithful [.set] (subterms DES.Example.exA) (subterms DES.Example.exB) ∧
    DES.DiffFaithful [.set, .merge] (subterms DES.Example.exA) (subterms DES.Example.exB) ∧
    DES.DiffFaithful [.mset] (subterms DES.Example.exA) (subterms DES.Example.exC) ∧
    DES.DiffFaithful [.mset, .merge] (subterms DES.Example.exA) (subterms DES.Example.exC) :=
  ⟨DES.Example.ex_faithful_set, DES.Example.ex_faithful_set_merge, DES.Example.ex_faithful_mset,
    DES.Example.ex_faithful_mset_merge⟩

/-- both sides of the iff true (SET, SET+MERGE; MULTISET, MULTISET+MERGE) -/
example : equals [.set] DES.Example.exA DES.Example.exB = true ∧
    diffM [.set] DES.Example.exA DES.Example.exB = [] ∧
    diffM [.set, .merge] DES.Example.exA DES.Example.exB = [] := DES.Example.ex_set

example : equals [.mset] DES.Example.exA DES.Example.exC = true ∧
    diffM [.mset] DES.Example.exA DES.Example.exC = [] ∧
    diffM [.mset, .merge] DES.Example.exA DES.Example.exC = [] := DES.Example.ex_mset

/-- both sides false ((⇒) used contrapositively) -/
example : diffM [.mset] DES.Example.exA DES.Example.exB ≠ [] ∧
    diffM [.set] DES.Example.exA DES.Example.exD ≠ [] ∧
    diffM [.set, .merge] DES.Example.exA DES.Example.exD ≠ [] := DES.Example.ex_ne

example : diffM [.set] DES.Example.exA DES.Example.exD = [] ↔
    equals [.set] DES.Example.exA DES.Example.exD = true :=
  diff_empty_iff_equals_setmodes _ (.inl ⟨rfl, rfl⟩) rfl _ _ DES.Example.ex_docs.1
    DES.Example.ex_docs.2.1 DES.Example.ex_docs.2.2.2.2 DES.Example.ex_faithful_set_D

/-- the `HashFaithful` form on the example documents of C01 (JdProofs/SetDiffPatch.lean) -/
example (F : FloatEq0) :
    diffM [.set] SetDP.Example.exA SetDP.Example.exB = [] ↔
      equals [.set] SetDP.Example.exA SetDP.Example.exB = true :=
  diff_empty_iff_equals_setmodes_hashFaithful F _ (.inl ⟨rfl, rfl⟩) rfl _ _
    SetDP.Example.ex_docs.1 SetDP.Example.ex_docs.2.1 SetDP.Example.ex_hashFaithful_set

/-- SetKeys(id): `kA = [{"id":"k","v":["p","q"]},{"id":"l","v":"y"}]` against
    `kB = [{"id":"l","v":"y"},{"id":"k","v":["q","p","p"]}]` (the same set: both sides true) and
    against `kD = [{"id":"l","v":"y"},{"id":"k","v":["q","r"]}]` (both sides false) satisfy every
    hypothesis of `diff_empty_iff_equals_setkeys` -/
example (F : FloatEq0) :
    (equals [.setKeys ["id"]] DES.Example.kA DES.Example.kB = true ∧
      diffM [.setKeys ["id"]] DES.Example.kA DES.Example.kB = []) ∧
    (equals [.setKeys ["id"]] DES.Example.kA DES.Example.kD = false ∧
      diffM [.setKeys ["id"]] DES.Example.kA DES.Example.kD ≠ []) := DES.Example.ex_keys F

/-! ## MERGE strategy with a Precision option: the two implications that survive (KF-C05-precision) -/

/-- empty merge diff ⇒ Equals under the options, for ANY precision bit pattern -/
theorem equals_of_diffM_nil_merge_precision (o : Opts) (ho : dispatchTag o = .list)
    (hm : isMerge o = true) (M : Jd.DPL.PrecMono o) (a b : Json)
    (hl : a.listDoc = true) (hl' : b.listDoc = true) (hw : a.wf = true) (hw' : b.wf = true)
    (hd : diffM o a b = []) : equals o a b = true ∧ equivB o a b = true :=
  Jd.MP.equals_of_diffM_nil_merge_precision o ho hm M a b hl hl' hw hw' hd

/-- Equals WITHOUT options ⇒ empty merge diff under the options. Neither arrow reverses
    (`MP.Witness.converse_fails_scalar`, `MP.Witness.specEq_fails_array`). -/
theorem diffM_nil_of_equals_nil_merge_precision (o : Opts) (ho : dispatchTag o = .list)
    (hm : isMerge o = true) (M : Jd.DPL.PrecMono o) (a b : Json)
    (hr : a.rawDoc = true) (hw : a.wf = true) (hl' : b.listDoc = true) (hw' : b.wf = true)
    (h : equals [] a b = true) : diffM o a b = [] :=
  Jd.MP.diffM_nil_of_equals_nil_merge_precision o ho hm M a b hr hw hl' hw' h

/-! ## The CLI half: exit status 0 / 1 — proofs in JdProofs/CliExitCodes.lean (ns `Jd.CliExit`)
   `DiffRun nc Y Ls b fl e a b'`: diff mode on the v2 library of the model, both inputs read and parse to `a`, `b'`,
   writing `-o` succeeds. `hren` ("Render does not panic") is a hypothesis because the process model maps a render
   panic to the empty text (`Witness.render_panic_artifact`: a totalisation artifact of the MODEL, not Go behaviour). -/

section
open Jd Jd.Cli Jd.CliRT Jd.CliExit

/-- **C05, second sentence, on the process model** (`CliRT.proc` with the v2 library of the model; list reading, native format, no `-precision`): exit 0 iff the inputs are Equal, exit 1 iff they differ, never 2 -/
theorem cli_exit_zero_iff_equal_list (F : FloatEq0) (R : DiffRun nc Y Ls b fl e a b')
    (P : PlainFlags fl) (hfmt : formatOf fl.f = some .jd)
    (hraw : a.rawDoc = true) (ha : Dom a) (hb : Dom b') (H : DE.HashOK [Opt.prec 0] a b')
    (hren : (renderM nc (colorOpts fl) (diffM [Opt.prec 0] a b')).isSome = true) :
    ((proc Ls b fl e).exit = 0 ↔ equals [Opt.prec 0] a b' = true) ∧
    ((proc Ls b fl e).exit = 1 ↔ equals [Opt.prec 0] a b' = false) ∧
    (proc Ls b fl e).exit ≠ 2 :=
  Jd.CliExit.cli_exit_zero_iff_equal_list (F := F) (R := R) (P := P) (hfmt := hfmt) (hraw := hraw) (ha := ha) (hb := hb) (H := H) (hren := hren)

/-- `-f merge` (exit status from the diff, fix D5d): exit 0 iff Equal; 1 iff different and RenderMerge succeeds; 2 iff different and RenderMerge fails -/
theorem cli_exit_zero_iff_equal_list_merge (F : FloatEq0) (R : DiffRun nc Y Ls b fl e a b')
    (P : PlainFlags fl) (hfmt : formatOf fl.f = some .merge)
    (hraw : a.rawDoc = true) (ha : Dom a) (hb : Dom b') :
    ((proc Ls b fl e).exit = 0 ↔ equals [Opt.merge, Opt.prec 0] a b' = true) ∧
    ((proc Ls b fl e).exit = 1 ↔ equals [Opt.merge, Opt.prec 0] a b' = false ∧
      ∃ T, (nativeLib nc Y).renderMerge (diffM [Opt.merge, Opt.prec 0] a b') = .ok T) ∧
    ((proc Ls b fl e).exit = 2 ↔ equals [Opt.merge, Opt.prec 0] a b' = false ∧
      ∃ m, (nativeLib nc Y).renderMerge (diffM [Opt.merge, Opt.prec 0] a b') = .error m) :=
  Jd.CliExit.cli_exit_zero_iff_equal_list_merge (F := F) (R := R) (P := P) (hfmt := hfmt) (hraw := hraw) (ha := ha) (hb := hb)

/-- `-f patch` (exit status from the text `[]`): for diffs produced by `Diff` the text is `[]` exactly when the diff is empty (`diffM_nil_of_no_ops`); exit 2 exactly when RenderPatch refuses (a changed location below a number-like or `-` key) -/
theorem cli_exit_zero_iff_equal_list_patch (F : FloatEq0) (R : DiffRun nc Y Ls b fl e a b')
    (P : PlainFlags fl) (hfmt : formatOf fl.f = some .patch)
    (hraw : a.rawDoc = true) (ha : Dom a) (hb : Dom b') (H : DE.HashOK [Opt.prec 0] a b')
    (hva : PRC.vfree a = true) (hvb : PRC.vfree b' = true) :
    ((proc Ls b fl e).exit = 0 ↔ equals [Opt.prec 0] a b' = true) ∧
    ((proc Ls b fl e).exit = 1 ↔ equals [Opt.prec 0] a b' = false ∧
      ∃ T, (nativeLib nc Y).renderPatch (diffM [Opt.prec 0] a b') = .ok T) ∧
    ((proc Ls b fl e).exit = 2 ↔ equals [Opt.prec 0] a b' = false ∧
      ∃ m, (nativeLib nc Y).renderPatch (diffM [Opt.prec 0] a b') = .error m) :=
  Jd.CliExit.cli_exit_zero_iff_equal_list_patch (F := F) (R := R) (P := P) (hfmt := hfmt) (hraw := hraw) (ha := ha) (hb := hb) (H := H) (hva := hva) (hvb := hvb)

/-- `-set` / `-mset`: exit 0 ⇒ Equal, with NO hash and no float hypothesis -/
theorem cli_exit_zero_implies_equal_set (R : DiffRun nc Y Ls b fl e a b') (S : SetFlags fl)
    (hfmt : formatOf fl.f = some .merge ∨ (formatOf fl.f = some .jd ∧
      (renderM nc (colorOpts fl) (diffM (setOpts fl) a b')).isSome = true))
    (hraw : a.rawDoc = true) (haw : a.wf = true) (hbw : b'.wf = true)
    (hx : (proc Ls b fl e).exit = 0) : equals (setOpts fl) a b' = true :=
  Jd.CliExit.cli_exit_zero_implies_equal_set (R := R) (S := S) (hfmt := hfmt) (hraw := hraw) (haw := haw) (hbw := hbw) (hx := hx)

/-- `-set` / `-mset`: Equal ⇒ exit 0 under `DES.DiffFaithful` (needed: `CliExit.Witness.set_collision_exit`, the FNV collision at the process level) -/
theorem cli_equal_implies_exit_zero_set (R : DiffRun nc Y Ls b fl e a b') (S : SetFlags fl)
    {fmt : Format} (hfmt : formatOf fl.f = some fmt)
    (hraw : a.rawDoc = true) (haw : a.wf = true) (hbw : b'.wf = true)
    (FH : DES.DiffFaithful (setOpts fl) (subterms a) (subterms b'))
    (heq : equals (setOpts fl) a b' = true) : (proc Ls b fl e).exit = 0 :=
  Jd.CliExit.cli_equal_implies_exit_zero_set (R := R) (S := S) (fmt := fmt) (hfmt := hfmt) (hraw := hraw) (haw := haw) (hbw := hbw) (FH := FH) (heq := heq)

/-- with `-precision eps ≠ 0` the sentence is FALSE (KF-C05-precision at the process level): Equal under the precision, exit 1 — relative to the two IEEE facts about the numbers -/
theorem precision_exit_one_though_equal {x y : UInt64}
    (R : DiffRun nc Y Ls b fl e (.num x) (.num y))
    (hset : fl.set = false) (hmset : fl.mset = false) (hkeys : fl.setkeys = "")
    (hfmt : formatOf fl.f = some .jd)
    (h1 : numWithin fl.precision x y = true) (h0 : numWithin 0 x y = false)
    (hren : (renderM nc (colorOpts fl)
      [{ path := [], remove := [.num x], add := [.num y] }]).isSome = true) :
    equals [Opt.prec fl.precision] (.num x) (.num y) = true ∧ (proc Ls b fl e).exit = 1 :=
  Jd.CliExit.precision_exit_one_though_equal (x := x) (y := y) (R := R) (hset := hset) (hmset := hmset) (hkeys := hkeys) (hfmt := hfmt) (h1 := h1) (h0 := h0) (hren := hren)

end

/-! ### Option plumbing: the regenerated table of the calls inside the functions behind this property is proved equal to the
    model's in JdProofs/CondSites/P_C05.lean (`option_plumbing_as_modelled_C05`), built and audited by this property's check. -/

end Jd.Props.C05
