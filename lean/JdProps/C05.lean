/-
  Property C05 — a diff is empty exactly when the documents are equal.
  Statement file (proofs in JdProofs/DiffEmpty.lean).

  Model side: `diffM o a b` is `a.Diff(b, options...)` (JdModel/Diff.lean), `equals o a b` is
  `a.Equals(b, options...)` (JdModel/Equals.lean). There is no separate spec: the property relates
  two library functions (what `Equals` itself means is property C04).

  WHAT IS STATED
  * LIST reading of arrays (`dispatchTag o = .list`), STRICT or MERGE strategy, NO Precision
    (`precOf o = 0`): `diff_empty_iff_equals`, an iff; for MERGE no hash hypothesis is needed
    (`diff_empty_iff_equals_merge`). The two directions are also stated separately because their
    hypotheses differ.
  * Precision: the property is FALSE on the code as it is (`precision_counterwitness`, known finding
    KF-C05-precision: `diff_common.go` calls `Equals` without the options).
  * SET / MULTISET / SetKeys: no theorem (correspondence and oracle only).
  * The CLI half (exit status 0 / 1) is in JdProps/C14.lean.

  HYPOTHESES and why
    `Dom x` = `listDoc` ∧ `wf` (unique sorted keys) ∧ `finiteNums` ∧ `noNegZero` (kept from before the
       repair of D5b; `FloatEq0` says nothing about the bit pattern of `-0`);
    `a.rawDoc` for (⇐): the left document is as read from JSON / YAML (every array a plain
       `jsonArray`); with a `jsonList`-typed left document the direction is false in the model
       (`typed_list_left_is_excluded`; not reachable through the public Go API);
    `FloatEq0` for (⇐): the one IEEE-754 law used (`Float` is opaque to the kernel);
    `DE.HashOK o a b` for (⇒), strict strategy only: nodes of `a` and of `b` with the same FNV-1a
       hash code are Equal (list elements are matched by hash code; with a collision an empty diff
       would not mean equality).
-/
import JdProofs.DiffEmpty

namespace Jd.Props.C05
open Jd Jd.Spec

/-- **C05, list mode, strict or MERGE strategy, no Precision:** `a.Diff(b)` is empty if and only if
    `a.Equals(b)` under the same options -/
theorem diff_empty_iff_equals (F : FloatEq0) (o : Opts) (ho : dispatchTag o = .list)
    (hp : precOf o = 0) (a b : Json) (hr : a.rawDoc = true) (ha : Dom a) (hb : Dom b)
    (H : DE.HashOK o a b) : diffM o a b = [] ↔ equals o a b = true :=
  diffM_nil_iff_equals F o ho hp a b hr ha hb H

/-- MERGE strategy: the equivalence needs no hash hypothesis (merge diffs compare lists with
    `Equals`, not by hash code) -/
theorem diff_empty_iff_equals_merge (F : FloatEq0) (o : Opts) (ho : dispatchTag o = .list)
    (hp : precOf o = 0) (hm : isMerge o = true) (a b : Json) (hr : a.rawDoc = true) (ha : Dom a)
    (hb : Dom b) : diffM o a b = [] ↔ equals o a b = true :=
  diffM_nil_iff_equals_merge F o ho hp hm a b hr ha hb

/-- (⇐) equal documents have an empty diff (no hash hypothesis) -/
theorem equal_implies_diff_empty (F : FloatEq0) (o : Opts) (ho : dispatchTag o = .list)
    (hp : precOf o = 0) (a b : Json) (hr : a.rawDoc = true) (ha : Dom a) (hb : Dom b)
    (h : equals o a b = true) : diffM o a b = [] :=
  diffM_nil_of_equals F o ho hp a b hr ha hb h

/-- (⇒) an empty diff means equal documents (no float hypothesis; list documents with unique keys) -/
theorem diff_empty_implies_equal (o : Opts) (ho : dispatchTag o = .list) (hp : precOf o = 0)
    (a b : Json) (hl : a.listDoc = true) (hl' : b.listDoc = true)
    (hw : a.wf = true) (hw' : b.wf = true) (H : DE.HashOK o a b) (hd : diffM o a b = []) :
    equals o a b = true :=
  equals_of_diffM_nil o ho hp a b hl hl' hw hw' H hd

/-! ### Where the property is false, and why the hypotheses are there -/

/-- KF-C05-precision: two numbers within `eps` but not identical are Equal under `Precision(eps)`
    and their diff is NOT empty. (The two premises are IEEE-754 facts about concrete numbers, e.g.
    `eps = 0.5`, `x = 1`, `y = 1 + 2⁻⁵²`, which the kernel cannot evaluate because `Float` is opaque;
    the runtime evaluates them: see the `#eval` in JdProofs/DiffEmpty.lean.) -/
theorem precision_counterwitness (eps x y : UInt64) (h1 : numWithin eps x y = true)
    (h0 : numWithin 0 x y = false) :
    equals [.prec eps] (.num x) (.num y) = true ∧ diffM [.prec eps] (.num x) (.num y) ≠ [] :=
  Jd.precision_counterwitness eps x y h1 h0

/-- why `rawDoc` on the left: a `jsonList`-typed node against a plain array is Equal but the diff
    replaces it wholesale (model only: a `jsonList` exists in Go only as the result of `dispatch`) -/
theorem typed_list_left_is_excluded (m : Bool) :
    equals [] (.arr .list []) (.arr .raw []) = true ∧
      diffNode [] m (.arr .list []) (.arr .raw []) [] ≠ [] :=
  diff_list_vs_array_nonempty m

/-- after the repair of D5b: `[0]` and `[-0]` are Equal, hash alike, and their diff is empty (so
    `noNegZero` is stronger than necessary). Relative to the IEEE fact `|0 - (-0)| ≤ +0`. -/
theorem negzero_pair_after_fix (hz : numWithin 0 0 negZeroBits = true) :
    equals [] (.arr .raw [.num 0]) (.arr .raw [.num negZeroBits]) = true ∧
      hashCode [] (.num 0) = hashCode [] (.num negZeroBits) ∧
      diffM [] (.arr .raw [.num 0]) (.arr .raw [.num negZeroBits]) = [] :=
  negZero_after_fix hz

/-! Non-vacuity: `{"a":[null,"x"]}` against `{"a":[null,"y"]}` satisfies every hypothesis of the iff
    (the hash hypothesis is checked on all pairs of sub-terms in the kernel); both sides are false. -/

private def exA : Json := .obj [("a", .arr .raw [.null, .str "x"])]
private def exB : Json := .obj [("a", .arr .raw [.null, .str "y"])]

example : dispatchTag [] = .list ∧ precOf [] = 0 ∧ exA.rawDoc = true ∧ Dom exA ∧ Dom exB ∧
    DE.HashOK [] exA exB := by
  refine ⟨rfl, rfl, by decide, ⟨by decide, by decide, by decide, by decide⟩,
    ⟨by decide, by decide, by decide, by decide⟩, ?_⟩
  intro x hx y hy
  simp only [exA, exB, DE.subterms, DE.subtermsList, DE.subtermsKvs, List.cons_append,
    List.nil_append, List.append_nil, List.mem_cons, List.not_mem_nil, or_false] at hx hy
  rcases hx with rfl | rfl | rfl | rfl <;> rcases hy with rfl | rfl | rfl | rfl <;>
    first
    | (intro _; decide +kernel)
    | (intro e; exact absurd e (by decide +kernel))

end Jd.Props.C05
