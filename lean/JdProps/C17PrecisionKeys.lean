/-
  Property C17 — v1 library, `SetPrecision(eps)` (eps ≠ 0 allowed) COMBINED with the readings that
  had no theorem with a precision: list reading + Setkeys, SET + Setkeys (FALSE: witness), SET + MERGE
  and MULTISET + MERGE. Statement file. Proofs: JdProofs/V1PrecisionKeys.lean (namespace `Jd.V1PK`).
  JdProps/C17Precision.lean has the precision with SET, MULTISET, MERGE (list reading) alone;
  JdProps/C17.lean the same readings at precision 0.

  Model: `Jd.V1` (JdModel/V1/*). `V1.diffM m a b` is `a.Diff(b, m...)`, `V1.patchM a d` is
  `a.Patch(d)`, `V1.equals m` is `Equals` with the metadata `m`, `V1.renderM nc false (liftDiff d)` is
  `d.Render()`, `V1.readDiffM nc` is `ReadDiffString`.

  WHAT IS CLAIMED. As in C17Precision: with a precision the patched document is not `b` itself, it
  `Equals` `b` under the same metadata.
    * list reading + Setkeys + precision: HOLDS (both clauses, in memory and through the text); the
      set keys are inert in the list reading.
    * SET + Setkeys + precision: FAILS (both clauses): `setkeys_precision_breaks`. `Diff` pairs
      members by the hash of their KEY VALUES and sub-diffs a pair with `jsonObject.diff`, which
      honours the precision; `Equals` compares full hash codes, which ignore it. HOLDS (both
      clauses, in memory) under the decidable hypothesis `V1PK.arrSep eps a b` that excludes the
      witness: inside arrays no two numbers are within eps unless within 0.
    * SET + MERGE + precision, MULTISET + MERGE + precision: HOLD (both clauses, in memory and
      through the text).
    * MULTISET + Setkeys + precision: HOLDS (both clauses, in memory).

  HYPOTHESES, common
    `FloatLaws`, `FloatEq0`: the IEEE-754 facts (`|x - x| ≤ eps` for finite x and eps ≥ +0; symmetry;
      `|x - y| ≤ +0` only for equal bits away from -0) — `numWithin` is opaque to the kernel.
    precision: `nonnegBits eps` (finite float64 ≥ +0) for diff-then-patch. NEEDED:
      `precNN_needed_merge_setmodes`, `C17Precision.precNN_needed_setmodes`.
    list reading: as `V1Pr.v1_diff_patch_list_precision` (`listDoc`, `wf`, `finiteNums`, `vfree`,
      `lenLe N a` with `IdxLaws N`).
    SET/MULTISET + MERGE: `a b : setDoc` (as read from JSON text: plain arrays, sorted unique keys,
      finite numbers, no -0), `DPL.memOK b` (no void object member in `b`; `b` MAY hold nulls),
      `V1S.HashFaithful m o (subterms a ++ subterms b)`: among the sub-terms of `a` and `b` equal v1
      hash codes only for nodes equivalent at precision 0 (KF-C04-alias is its negation).
    TEXT: in addition `V1S.CodecOK nc d` (contract about encoding/json on the paths and values of
      the diff) and render success.
-/
import JdProofs.V1PrecisionKeys

set_option autoImplicit false

namespace Jd.Props.C17PrecisionKeys
open Jd Jd.Spec

/-! ## list reading + Setkeys + precision -/

/-- **Setkeys + SetPrecision(eps), no SET / MULTISET / MERGE, in memory.** In v1 `Setkeys` alone leaves
    arrays lists. `he`: eps finite and ≥ +0 (needed: `C17Precision.precNN_needed_setmodes`). `I`,
    `ha5`: list indices up to the lengths in `a` are exact float64s. `ha1 … hb4`: documents as read
    from JSON text (plain or list-typed arrays, sorted unique keys, finite numbers, no void). Then
    `a.Patch(a.Diff(b, Setkeys(ks...), SetPrecision(eps)))` succeeds; the result `Equals` `b` under
    the metadata (read from either side) and is `equivB`-equivalent to `b` under `Precision(eps)`. -/
theorem v1_list_setkeys_precision_diff_then_patch (L : FloatLaws) {N : Nat} (I : V1P.IdxLaws N)
    (ks : List String) (eps : UInt64) (he : nonnegBits eps = true) (a b : Json)
    (ha1 : a.listDoc = true) (ha2 : a.wf = true) (ha3 : a.finiteNums = true)
    (ha4 : V1P.vfree a = true) (ha5 : V1P.lenLe N a = true)
    (hb1 : b.listDoc = true) (hb2 : b.wf = true) (hb3 : b.finiteNums = true)
    (hb4 : V1P.vfree b = true) :
    ∃ r, V1.patchM a (V1.diffM [.setkeys ks, .prec eps] a b) = .ok r ∧
      V1.equals [.setkeys ks, .prec eps] r b = true ∧
      V1.equals [.setkeys ks, .prec eps] b r = true ∧
      equivB [.prec eps] r b = true ∧ r.listDoc = true ∧ r.wf = true :=
  V1PK.list_setkeys_diff_patch L I ks eps he a b ha1 ha2 ha3 ha4 ha5 hb1 hb2 hb3 hb4

/-- Setkeys + precision, list reading: the diff is empty exactly when `Equals` (with the metadata)
    holds — for ANY precision bit pattern, no float law. `ha1`: `a` has plain arrays only (a typed
    `jsonList` receiver is not dispatched: `V1Pr.typed_result_diff_nonempty`). -/
theorem v1_list_setkeys_precision_diff_empty_iff_equal (ks : List String) (eps : UInt64)
    (a b : Json) (ha1 : a.rawDoc = true) (ha2 : a.wf = true) (hb1 : b.listDoc = true)
    (hb2 : b.wf = true) :
    V1.diffM [.setkeys ks, .prec eps] a b = [] ↔
      V1.equals [.setkeys ks, .prec eps] a b = true :=
  V1PK.list_setkeys_diff_empty_iff_equals ks eps a b ha1 ha2 hb1 hb2

/-- Setkeys + precision, list reading, through the text: the rendered diff is read back and patching
    `a` with the diff READ BACK yields a document that `Equals` `b` under the metadata. `hbv`: `b`
    is not void; `hc`: codec contract; `hr`: `Render` succeeded with `text`. -/
theorem v1_list_setkeys_precision_text_roundtrip (L : FloatLaws) {N : Nat} (I : V1P.IdxLaws N)
    (nc : NumCodec) (ks : List String) (eps : UInt64) (he : nonnegBits eps = true) (a b : Json)
    (ha1 : a.listDoc = true) (ha2 : a.wf = true) (ha3 : a.finiteNums = true)
    (ha4 : V1P.vfree a = true) (ha5 : V1P.lenLe N a = true)
    (hb1 : b.listDoc = true) (hb2 : b.wf = true) (hb3 : b.finiteNums = true)
    (hb4 : V1P.vfree b = true) (hbv : b.isVoid = false)
    (hc : V1S.CodecOK nc (V1.diffM [.setkeys ks, .prec eps] a b)) (text : String)
    (hr : V1.renderM nc false (V1.liftDiff (V1.diffM [.setkeys ks, .prec eps] a b))
      = .ok (some text)) :
    ∃ d' r, V1.readDiffM nc text = .ok d' ∧ V1.patchM a d' = .ok r ∧
      V1.equals [.setkeys ks, .prec eps] r b = true ∧ equivB [.prec eps] r b = true :=
  V1PK.list_setkeys_text_roundtrip L I nc ks eps he a b ha1 ha2 ha3 ha4 ha5 hb1 hb2 hb3 hb4 hbv hc
    text hr

/-- in the list reading (`hm`: no SET, no MULTISET, no MERGE) `Equals` sees nothing of the metadata
    but the precision: the set keys are inert, in any position of the metadata list -/
theorem v1_list_setkeys_inert_for_equals {m : V1.Metas} (hm : V1Pr.ListReading m) :
    V1.equals m = V1.equals [.prec (V1.precOf m)] :=
  V1PK.setkeys_inert_equals hm

/-- the list-reading theorems of V1Precision hold for ANY metadata in the list reading, wherever the
    setkeys and the precision stand; the document hypotheses of the first theorem hold on the pair
    `[1,2,{"a":[1,5]}]` → `[1.05,3,{"a":[0.95,5.01,7]}]` of V1Precision with eps = 0.1 -/
example : V1Pr.PrecMode [.prec V1Pr.Example.eps, .setkeys ["id", "k"]] ∧
    V1Pr.PrecMode [.setkeys ["id"], .prec V1Pr.Example.eps] ∧
    ¬ V1Pr.PrecMode [.setkeys ["id"], .prec V1Pr.Example.epsNeg] := by decide

example (L : FloatLaws) (I : V1P.IdxLaws 8) :
    ∃ r, V1.patchM V1Pr.Example.pA
        (V1.diffM [.setkeys ["a"], .prec V1Pr.Example.eps] V1Pr.Example.pA V1Pr.Example.pB) = .ok r ∧
      V1.equals [.setkeys ["a"], .prec V1Pr.Example.eps] r V1Pr.Example.pB = true := by
  obtain ⟨h1, h2, h3, h4, h5, h6, h7, h8, h9⟩ := V1Pr.Example.pHyps
  obtain ⟨r, q1, q2, _⟩ := v1_list_setkeys_precision_diff_then_patch L I ["a"] V1Pr.Example.eps
    (by decide) _ _ h1 h2 h3 h4 h5 h6 h7 h8 h9
  exact ⟨r, q1, q2⟩

/-! ## SET + Setkeys + precision: false -/

/-- **SET + Setkeys + SetPrecision: both clauses of C17 FAIL.** `h`: the float fact `|1 - 1.05| ≤ 0.1`
    (`numWithin` is opaque to the kernel; `#eval` gives true). For `a = [{"id":"1","v":1}]`,
    `b = [{"id":"1","v":1.05}]` (documents as read from text, no void member) under
    `SET, Setkeys("id"), SetPrecision(0.1)`: `a.Diff(b)` is EMPTY (the members have the same
    identity — the hash of the value of `id` — and their sub-diff compares `1` with `1.05` with the
    precision), `a.Equals(b)` is FALSE (full hash codes, which ignore the precision), `a.Patch` of the
    diff is `a`; so neither "diff empty ⇔ Equals" nor "the patched document Equals b" holds.
    Replayed on /repo/lib: `diff(len 0)=""`, `Equals(a,b,md)=false`, patched `[{"id":"1","v":1}]`,
    `Equals(r,b,md)=false`. -/
theorem setkeys_precision_breaks
    (h : numWithin V1PK.Witness.eps V1PK.Witness.one V1PK.Witness.x105 = true) :
    V1PK.Witness.wa.setDoc = true ∧ V1PK.Witness.wb.setDoc = true ∧
    DPL.memOK V1PK.Witness.wa = true ∧ DPL.memOK V1PK.Witness.wb = true ∧
    V1.diffM V1PK.Witness.mW V1PK.Witness.wa V1PK.Witness.wb = [] ∧
    V1.equals V1PK.Witness.mW V1PK.Witness.wa V1PK.Witness.wb = false ∧
    V1.patchM V1PK.Witness.wa (V1.diffM V1PK.Witness.mW V1PK.Witness.wa V1PK.Witness.wb)
      = .ok V1PK.Witness.wa ∧
    ¬ (V1.diffM V1PK.Witness.mW V1PK.Witness.wa V1PK.Witness.wb = [] ↔
        V1.equals V1PK.Witness.mW V1PK.Witness.wa V1PK.Witness.wb = true) ∧
    ¬ (∃ r, V1.patchM V1PK.Witness.wa
          (V1.diffM V1PK.Witness.mW V1PK.Witness.wa V1PK.Witness.wb) = .ok r ∧
        V1.equals V1PK.Witness.mW r V1PK.Witness.wb = true) :=
  V1PK.Witness.setkeys_precision_breaks h

/-- the witness is what it is said to be -/
example : V1PK.Witness.mW = [.set, .setkeys ["id"], .prec 0x3FB999999999999A] ∧
    V1PK.Witness.wa = .arr .raw [.obj [("id", .str "1"), ("v", .num 0x3FF0000000000000)]] ∧
    V1PK.Witness.wb = .arr .raw [.obj [("id", .str "1"), ("v", .num 0x3FF0CCCCCCCCCCCD)]] :=
  ⟨rfl, rfl, rfl⟩

/-! ## SET + Setkeys + precision, under the hypothesis that excludes the witness -/

/-- **SET + Setkeys + SetPrecision(eps), precision inert inside arrays, in memory.**
    `hm`: SET present, `keysOf m = some ks` with `ks ≠ []`, no MERGE, eps finite and ≥ +0.
    `ha hb ha' hb'`: documents as read from JSON text, no void member.
    `H`: the seven decidable hypotheses `V1K.KeysHyp` of the no-precision theorem
    (`C17.…`/`V1K.v1_diff_patch_setkeys`: hash-faithfulness, keyed members distinct, every member
    carries a key, …), read at the metadata WITHOUT the precision (hash codes and identities do not
    see it).
    `hsep`: `V1PK.arrSep eps a b` — for every array of `a` and every array of `b`, a number below the
    first is within eps of a number below the second only when it is within 0 of it. NEEDED:
    `setkeys_precision_breaks` (`[{"id":"1","v":1}]` vs `[{"id":"1","v":1.05}]`, eps 0.1) violates it
    and nothing else (`V1PK.ExampleK.witness_not_sep`). Numbers OUTSIDE arrays are not constrained:
    there `Diff` and `Equals` both honour the precision.
    Then `a.Patch(a.Diff(b, m...))` succeeds and the result `Equals` `b` under the same metadata. -/
theorem v1_set_setkeys_precision_diff_then_patch (F : FloatEq0) (L : FloatLaws) {m : V1.Metas}
    {ks : List String} (hm : V1PK.PKMode m ks) (a b : Json)
    (ha : a.setDoc = true) (hb : b.setDoc = true)
    (ha' : DPL.memOK a = true) (hb' : DPL.memOK b = true)
    (H : V1K.KeysHyp (V1PS.noPrec m) ks a b) (hsep : V1PK.arrSep (V1.precOf m) a b = true) :
    ∃ r, V1.patchM a (V1.diffM m a b) = .ok r ∧ V1.equals m r b = true :=
  V1PK.v1_diff_patch_setkeys_precision F L hm a b ha hb ha' hb' H hsep

/-- SET + Setkeys + precision inert inside arrays: the diff is empty exactly when `Equals` (with the
    metadata) holds — both directions; same hypotheses. -/
theorem v1_set_setkeys_precision_diff_empty_iff_equal (F : FloatEq0) (L : FloatLaws)
    {m : V1.Metas} {ks : List String} (hm : V1PK.PKMode m ks) (a b : Json)
    (ha : a.setDoc = true) (hb : b.setDoc = true)
    (ha' : DPL.memOK a = true) (hb' : DPL.memOK b = true)
    (H : V1K.KeysHyp (V1PS.noPrec m) ks a b) (hsep : V1PK.arrSep (V1.precOf m) a b = true) :
    V1.diffM m a b = [] ↔ V1.equals m a b = true :=
  V1PK.v1_diff_empty_iff_equals_setkeys_precision F L hm a b ha hb ha' hb' H hsep

/-- the restricted congruence behind the two theorems: under SET, on documents as read from text
    whose numbers are separated (`V1PK.SepN m a b`: "within eps" = "within 0" on the numbers of `a`
    against those of `b`), the strict `Diff` does not see the precision -/
theorem v1_set_diff_precision_inert {m : V1.Metas} (hd : V1.dispatchTag m = .set) (a b : Json)
    (ha : DocOk a) (hb : DocOk b) (hs : V1PK.SepN m a b) (p : List Json) :
    V1.diffNode m false a b p = V1.diffNode (V1PS.noPrec m) false a b p :=
  V1PK.diffNode_inert hd a b ha hb hs p

/-- every hypothesis holds on `{"k":1,"s":[{"id":"1","v":1},{"id":"2","v":3}]}` →
    `{"k":1.05,"s":[{"id":"1","v":3},{"id":"3","v":1}]}` under `SET, Setkeys("id"), SetPrecision(0.1)`
    (`k` moves within eps outside the array: no hunk; member 1 changed, 2 removed, 3 added), relative
    to the IEEE-754 laws and the float facts `|1 - 3| ≤ 0.1`, `|1 - 3| ≤ 0` both false (`numWithin` is
    opaque to the kernel; `#eval` confirms them). Go on this pair: the same two hunks, patched
    `{"k":1,"s":[{"id":"3","v":1},{"id":"1","v":3}]}` (a set: member order by hash), `Equals(r,b,md)=true`. -/
example (L : FloatLaws)
    (h1 : numWithin V1PK.ExampleK.eps V1PK.ExampleK.one V1PK.ExampleK.three = false)
    (h0 : numWithin 0 V1PK.ExampleK.one V1PK.ExampleK.three = false) :
    V1PK.PKMode V1PK.ExampleK.mK ["id"] ∧
    V1PK.ExampleK.kA.setDoc = true ∧ V1PK.ExampleK.kB.setDoc = true ∧
    DPL.memOK V1PK.ExampleK.kA = true ∧ DPL.memOK V1PK.ExampleK.kB = true ∧
    V1K.KeysHyp (V1PS.noPrec V1PK.ExampleK.mK) ["id"] V1PK.ExampleK.kA V1PK.ExampleK.kB ∧
    V1PK.arrSep (V1.precOf V1PK.ExampleK.mK) V1PK.ExampleK.kA V1PK.ExampleK.kB = true :=
  ⟨V1PK.ExampleK.k_mode, V1PK.ExampleK.k_docs.1, V1PK.ExampleK.k_docs.2.1,
    V1PK.ExampleK.k_docs.2.2.1, V1PK.ExampleK.k_docs.2.2.2, V1PK.ExampleK.k_keysHyp L,
    V1PK.ExampleK.k_sep L h1 h0⟩

example (F : FloatEq0) (L : FloatLaws)
    (h1 : numWithin V1PK.ExampleK.eps V1PK.ExampleK.one V1PK.ExampleK.three = false)
    (h0 : numWithin 0 V1PK.ExampleK.one V1PK.ExampleK.three = false) :
    ∃ r, V1.patchM V1PK.ExampleK.kA
        (V1.diffM V1PK.ExampleK.mK V1PK.ExampleK.kA V1PK.ExampleK.kB) = .ok r ∧
      V1.equals V1PK.ExampleK.mK r V1PK.ExampleK.kB = true :=
  V1PK.ExampleK.k_run F L h1 h0

/-- the predicate is decidable as the caller writes the metadata; MERGE, a negative precision and an
    empty key list are outside it -/
example : V1PK.PKMode [.prec V1PK.ExampleK.eps, .setkeys ["id"], .mset, .set] ["id"] ∧
    ¬ V1PK.PKMode [.set, .setkeys ["id"], .merge, .prec V1PK.ExampleK.eps] ["id"] ∧
    ¬ V1PK.PKMode [.set, .setkeys ["id"], .prec 0xBFF0000000000000] ["id"] ∧
    ¬ V1PK.PKMode [.set, .setkeys [], .prec V1PK.ExampleK.eps] [] := by decide

/-! ## SET + MERGE and MULTISET + MERGE with a precision -/

/-- **SET + MERGE + SetPrecision(eps), in memory.** `hm`: SET and MERGE present (SET wins over
    MULTISET), no setkeys, eps finite and ≥ +0. `ha hb`: documents as read from JSON text; `hb'`: no
    void member in `b` (`b` MAY hold nulls). `HF`: no hash alias / collision among the sub-terms
    (read at precision 0: the v1 hash of a number ignores the precision). Then
    `a.Patch(a.Diff(b, m...))` succeeds and the result `Equals` `b` under the same metadata. -/
theorem v1_set_merge_precision_diff_then_patch (F : FloatEq0) (L : FloatLaws) {m : V1.Metas}
    (hm : V1PK.PSetMergeMode m) (a b : Json) (ha : a.setDoc = true) (hb : b.setDoc = true)
    (hb' : DPL.memOK b = true) (HF : V1S.HashFaithful m [.set] (subterms a ++ subterms b)) :
    ∃ r, V1.patchM a (V1.diffM m a b) = .ok r ∧ V1.equals m r b = true :=
  V1PK.v1_merge_diff_patch_setmodes_precision F L hm.mode a b ha hb hb' HF

/-- **MULTISET + MERGE + SetPrecision(eps), in memory.** `hm`: MULTISET and MERGE present, SET absent,
    no setkeys, eps finite and ≥ +0; the other hypotheses as for SET. -/
theorem v1_mset_merge_precision_diff_then_patch (F : FloatEq0) (L : FloatLaws) {m : V1.Metas}
    (hm : V1PK.PMsetMergeMode m) (a b : Json) (ha : a.setDoc = true) (hb : b.setDoc = true)
    (hb' : DPL.memOK b = true) (HF : V1S.HashFaithful m [.mset] (subterms a ++ subterms b)) :
    ∃ r, V1.patchM a (V1.diffM m a b) = .ok r ∧ V1.equals m r b = true :=
  V1PK.v1_merge_diff_patch_setmodes_precision F L hm.mode a b ha hb hb' HF

/-- SET + MERGE + precision: the diff is empty exactly when `Equals` (with the metadata) holds —
    both directions; same hypotheses. -/
theorem v1_set_merge_precision_diff_empty_iff_equal (F : FloatEq0) (L : FloatLaws) {m : V1.Metas}
    (hm : V1PK.PSetMergeMode m) (a b : Json) (ha : a.setDoc = true) (hb : b.setDoc = true)
    (hb' : DPL.memOK b = true) (HF : V1S.HashFaithful m [.set] (subterms a ++ subterms b)) :
    V1.diffM m a b = [] ↔ V1.equals m a b = true :=
  V1PK.v1_merge_diff_empty_iff_equals_setmodes_precision F L hm.mode a b ha hb hb' HF

/-- MULTISET + MERGE + precision: the diff is empty exactly when `Equals` (with the metadata) holds. -/
theorem v1_mset_merge_precision_diff_empty_iff_equal (F : FloatEq0) (L : FloatLaws) {m : V1.Metas}
    (hm : V1PK.PMsetMergeMode m) (a b : Json) (ha : a.setDoc = true) (hb : b.setDoc = true)
    (hb' : DPL.memOK b = true) (HF : V1S.HashFaithful m [.mset] (subterms a ++ subterms b)) :
    V1.diffM m a b = [] ↔ V1.equals m a b = true :=
  V1PK.v1_merge_diff_empty_iff_equals_setmodes_precision F L hm.mode a b ha hb hb' HF

/-- **SET / MULTISET + MERGE + precision, through the text** (`M`: either reading, tied to the options
    `o` under which the hash hypothesis is read). In addition: `hc`: the codec contract on the
    paths / values of the diff, `hr`: `Render` succeeded with `text`. Then `ReadDiffString text`
    succeeds (it is the diff with the replaced arrays as plain arrays) and patching `a` with the
    diff READ BACK yields a document that `Equals` `b` under the metadata. -/
theorem v1_setmodes_merge_precision_text_roundtrip (F : FloatEq0) (L : FloatLaws) (nc : NumCodec)
    {m : V1.Metas} {o : Opts} (M : V1PK.PMMode m o) (a b : Json)
    (ha : a.setDoc = true) (hb : b.setDoc = true) (hb' : DPL.memOK b = true)
    (HF : V1S.HashFaithful m o (subterms a ++ subterms b))
    (hc : V1S.CodecOK nc (V1.diffM m a b)) (text : String)
    (hr : V1.renderM nc false (V1.liftDiff (V1.diffM m a b)) = .ok (some text)) :
    ∃ d' r, V1.readDiffM nc text = .ok d' ∧ V1.patchM a d' = .ok r ∧ V1.equals m r b = true :=
  V1PK.v1_text_roundtrip_merge_setmodes_precision F L nc M a b ha hb hb' HF hc text hr

/-- the metadata predicates are satisfiable as the caller writes them (any order; SET wins over
    MULTISET); a negative precision and setkeys are outside them -/
example : V1PK.PSetMergeMode [.prec V1PK.Example.eps, .mset, .merge, .set] ∧
    V1PK.PMsetMergeMode [.merge, .mset, .prec V1PK.Example.eps] ∧
    V1PK.PMMode [.set, .merge, .prec V1PK.Example.eps] [.set] ∧
    ¬ V1PK.PSetMergeMode [.set, .merge, .prec 0xBFF0000000000000] ∧
    ¬ V1PK.PSetMergeMode [.set, .merge, .setkeys ["id"], .prec V1PK.Example.eps] :=
  ⟨by decide, by decide, V1PK.Example.eps_set.mode, by decide, by decide⟩

/-- every hypothesis of the SET + MERGE theorem holds on `{"k":1,"s":[1,2,{"x":1}],"u":{"v":2}}` →
    `{"k":1.05,"s":[2,1.05,{"x":1.05}],"t":3,"u":{"v":2.05}}` with eps = 0.1 (numbers within eps at an
    object key and under a nested key: no hunk; inside a set: the array is replaced) -/
example (L : FloatLaws) : V1PS.Example.pA.setDoc = true ∧ V1PS.Example.pB.setDoc = true ∧
    DPL.memOK V1PS.Example.pB = true ∧
    V1S.HashFaithful [.set, .merge, .prec V1PK.Example.eps] [.set]
      (subterms V1PS.Example.pA ++ subterms V1PS.Example.pB) :=
  ⟨V1PS.Example.p_docs.1, V1PS.Example.p_docs.2.1, V1PS.Example.p_docs.2.2.2.1,
    V1PK.Example.hf_set L⟩

example (F : FloatEq0) (L : FloatLaws) :
    ∃ r, V1.patchM V1PS.Example.pA
        (V1.diffM [.mset, .merge, .prec V1PK.Example.eps] V1PS.Example.pA V1PS.Example.pB) = .ok r ∧
      V1.equals [.mset, .merge, .prec V1PK.Example.eps] r V1PS.Example.pB = true :=
  V1PK.Example.p_mset F L

/-- **`precNN` cannot be dropped under MERGE in the set readings** (any metadata holding MERGE):
    `hneg`: `|x - x| ≤ eps` is false (eps = -1). The merge diff of `x` and `x` is the hunk `+ x`, the
    patch returns `x`, not `Equals` to `x` under the metadata. Replayed on /repo/lib
    (`SET, MERGE, SetPrecision(-1)`: diff `@ [["MERGE"]]\n+ 1`, patched `1`, `Equals` false). -/
theorem precNN_needed_merge_setmodes (m : V1.Metas) (hm : V1.hasMerge m = true) (x : UInt64)
    (hneg : numWithin (V1.precOf m) x x = false) :
    V1.diffM m (.num x) (.num x) = [V1M.vh [] (.num x)] ∧
    V1.patchM (.num x) (V1.diffM m (.num x) (.num x)) = .ok (.num x) ∧
    V1.equals m (.num x) (.num x) = false :=
  V1PK.Witness.precNN_needed_merge_setmodes m hm x hneg

/-! ## MULTISET + Setkeys + precision -/

/-- **MULTISET + Setkeys + SetPrecision(eps), in memory.** `hm`: MULTISET present, SET absent, no
    MERGE, set keys allowed (with MULTISET they only add `"setkeys=…"` to the path metadata; members
    are compared by hash code, never by identity — so the witness `setkeys_precision_breaks` does
    not arise), eps finite and ≥ +0. `ha hb ha' hb'`: documents as read from JSON text, no void
    member. `HF`: no hash alias / collision among the sub-terms (at precision 0). Then
    `a.Patch(a.Diff(b, m...))` succeeds and the result `Equals` `b` under the same metadata. -/
theorem v1_mset_setkeys_precision_diff_then_patch (F : FloatEq0) (L : FloatLaws) {m : V1.Metas}
    (hm : V1PK.PXMsMode m) (a b : Json) (ha : a.setDoc = true) (hb : b.setDoc = true)
    (ha' : DPL.memOK a = true) (hb' : DPL.memOK b = true)
    (HF : V1S.HashFaithful m [.mset] (subterms a ++ subterms b)) :
    ∃ r, V1.patchM a (V1.diffM m a b) = .ok r ∧ V1.equals m r b = true :=
  V1PK.v1_diff_patch_mset_setkeys_precision F L hm a b ha hb ha' hb' HF

/-- MULTISET + Setkeys + precision: the diff is empty exactly when `Equals` (with the metadata)
    holds — both directions; same hypotheses. -/
theorem v1_mset_setkeys_precision_diff_empty_iff_equal (F : FloatEq0) (L : FloatLaws)
    {m : V1.Metas} (hm : V1PK.PXMsMode m) (a b : Json) (ha : a.setDoc = true)
    (hb : b.setDoc = true) (ha' : DPL.memOK a = true) (hb' : DPL.memOK b = true)
    (HF : V1S.HashFaithful m [.mset] (subterms a ++ subterms b)) :
    V1.diffM m a b = [] ↔ V1.equals m a b = true :=
  V1PK.v1_diff_empty_iff_equals_mset_setkeys_precision F L hm a b ha hb ha' hb' HF

/-- the predicate is satisfiable as the caller writes the metadata; SET is outside it; every
    hypothesis holds on the pair of V1PrecisionModes under `MULTISET, Setkeys("x"), SetPrecision(0.1)` -/
example : V1PK.PXMsMode [.prec V1PK.Example.eps, .setkeys ["x"], .mset] ∧
    ¬ V1PK.PXMsMode [.mset, .set, .setkeys ["x"], .prec V1PK.Example.eps] ∧
    ¬ V1PK.PXMsMode [.mset, .setkeys ["x"], .prec 0xBFF0000000000000] := by decide

example (F : FloatEq0) (L : FloatLaws) :
    ∃ r, V1.patchM V1PS.Example.pA
        (V1.diffM [.mset, .setkeys ["x"], .prec V1PK.Example.eps] V1PS.Example.pA V1PS.Example.pB)
          = .ok r ∧
      V1.equals [.mset, .setkeys ["x"], .prec V1PK.Example.eps] r V1PS.Example.pB = true :=
  V1PK.ExampleX.p_x F L


end Jd.Props.C17PrecisionKeys
