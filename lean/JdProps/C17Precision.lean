/-
  Property C17 — v1 library, `SetPrecision(eps)` (eps ≠ 0 allowed) COMBINED with the MERGE, SET and
  MULTISET readings. Statement file. Proofs: JdProofs/V1PrecisionModes.lean (namespace `Jd.V1PS`: SET,
  MULTISET) and JdProofs/V1PrecisionMerge.lean (namespace `Jd.V1PM`: MERGE, list reading of arrays).
  JdProps/C17.lean has the same readings at precision 0 and the precision with the plain list reading.

  Model: `Jd.V1` (JdModel/V1/*). `V1.diffM m a b` is `a.Diff(b, m...)`, `V1.patchM a d` is
  `a.Patch(d)`, `V1.equals m` is `Equals` with the metadata `m`, `V1.renderM nc false (liftDiff d)` is
  `d.Render()`, `V1.readDiffM nc` is `ReadDiffString`.

  WHAT IS CLAIMED. With a precision the patched document is NOT `b` itself: it keeps the numbers
  (under MERGE also the whole arrays) of `a` that `Diff` found within eps of their counterpart. So
  "equal to b" is `Equals(b, metadata...)`, the library's own `Equals` under the same metadata
  (`result_not_structural`, `merge_result_not_structural`). Inside an array read as a set / multiset
  the precision is ignored by `Equals` and by `Diff` alike (members are compared by hash code):
  `precision_ignored_inside_sets`; that is why the diff is still empty exactly when `Equals` holds.

  HYPOTHESES, common to the theorems below
    `FloatLaws`, `FloatEq0`: the IEEE-754 facts (`|x - x| ≤ eps` for finite x and eps ≥ +0; symmetry;
      `|x - y| ≤ +0` only for equal bits away from -0) — `numWithin` is evaluated by the runtime
      `Float`, opaque to the kernel.
    `PSetMode m` / `PMsetMode m` / `PMergeMode m`: decidable predicates on the metadata list as the
      caller writes it: which reading, no setkeys (set readings), and `nonnegBits (V1.precOf m)`: the
      precision is a finite float64 ≥ +0. NEEDED: `precNN_needed_*` (eps = -1 is accepted by
      `SetPrecision`; then no number `Equals` itself).
    SET / MULTISET: `a b : setDoc` (as read from JSON text: plain arrays, sorted unique keys, finite
      numbers, no -0), `DPL.memOK` (no void object member), `V1S.HashFaithful m o (subterms a ++
      subterms b)`: among the sub-terms of `a` and `b` equal v1 hash codes only for nodes equivalent
      at precision 0 (the hash codes do not depend on the precision; KF-C04-alias is its negation).
    MERGE: `a`: `wf`, `rawDoc`; `b`: `wf`, `rawDoc`, `objVoidFree`, `finiteNums` (b MAY hold nulls).
    TEXT: in addition `V1S.CodecOK nc d` (contract about encoding/json on the paths and values of
      the diff) and render success; set readings: `vfree a`, `vfree b`, `b` not void.
-/
import JdProofs.V1PrecisionModes
import JdProofs.V1PrecisionMerge

set_option autoImplicit false

namespace Jd.Props.C17Precision
open Jd Jd.Spec

/-! ## SET and MULTISET with a precision -/

/-- **SET + SetPrecision(eps), in memory.** `hm`: SET present (it wins over MULTISET), no setkeys, no
    MERGE, eps finite and ≥ +0. `ha hb ha' hb'`: documents as read from JSON text, no void member.
    `HF`: no hash alias / collision among the sub-terms (read at precision 0: the v1 hash of a
    number ignores the precision). Then `a.Patch(a.Diff(b, m...))` succeeds and the result `Equals`
    `b` under the same metadata. -/
theorem v1_set_precision_diff_then_patch (F : FloatEq0) (L : FloatLaws) {m : V1.Metas}
    (hm : V1PS.PSetMode m) (a b : Json) (ha : a.setDoc = true) (hb : b.setDoc = true)
    (ha' : DPL.memOK a = true) (hb' : DPL.memOK b = true)
    (HF : V1S.HashFaithful m [.set] (subterms a ++ subterms b)) :
    ∃ r, V1.patchM a (V1.diffM m a b) = .ok r ∧ V1.equals m r b = true :=
  V1PS.v1_diff_patch_set_precision F L hm a b ha hb ha' hb' HF

/-- **MULTISET + SetPrecision(eps), in memory.** `hm`: MULTISET present, SET absent, no setkeys, no
    MERGE, eps finite and ≥ +0; the other hypotheses as for SET. -/
theorem v1_mset_precision_diff_then_patch (F : FloatEq0) (L : FloatLaws) {m : V1.Metas}
    (hm : V1PS.PMsetMode m) (a b : Json) (ha : a.setDoc = true) (hb : b.setDoc = true)
    (ha' : DPL.memOK a = true) (hb' : DPL.memOK b = true)
    (HF : V1S.HashFaithful m [.mset] (subterms a ++ subterms b)) :
    ∃ r, V1.patchM a (V1.diffM m a b) = .ok r ∧ V1.equals m r b = true :=
  V1PS.v1_diff_patch_mset_precision F L hm a b ha hb ha' hb' HF

/-- SET + precision: the diff is empty exactly when `Equals` (with the metadata) holds — both
    directions; same hypotheses as `v1_set_precision_diff_then_patch`. -/
theorem v1_set_precision_diff_empty_iff_equal (F : FloatEq0) (L : FloatLaws) {m : V1.Metas}
    (hm : V1PS.PSetMode m) (a b : Json) (ha : a.setDoc = true) (hb : b.setDoc = true)
    (ha' : DPL.memOK a = true) (hb' : DPL.memOK b = true)
    (HF : V1S.HashFaithful m [.set] (subterms a ++ subterms b)) :
    V1.diffM m a b = [] ↔ V1.equals m a b = true :=
  V1PS.v1_diff_empty_iff_equals_set_precision F L hm a b ha hb ha' hb' HF

/-- MULTISET + precision: the diff is empty exactly when `Equals` (with the metadata) holds. -/
theorem v1_mset_precision_diff_empty_iff_equal (F : FloatEq0) (L : FloatLaws) {m : V1.Metas}
    (hm : V1PS.PMsetMode m) (a b : Json) (ha : a.setDoc = true) (hb : b.setDoc = true)
    (ha' : DPL.memOK a = true) (hb' : DPL.memOK b = true)
    (HF : V1S.HashFaithful m [.mset] (subterms a ++ subterms b)) :
    V1.diffM m a b = [] ↔ V1.equals m a b = true :=
  V1PS.v1_diff_empty_iff_equals_mset_precision F L hm a b ha hb ha' hb' HF

/-- **SET / MULTISET + precision, through the text** (`M`: either reading, tied to the options `o`
    under which the hash hypothesis is read). In addition to the in-memory hypotheses: `va vb`: no
    void anywhere, `hbv`: `b` is not void (a reader never produces void; void prints nothing),
    `hc`: the codec contract on the paths / values of the diff, `hr`: `Render` succeeded with
    `text`. Then `ReadDiffString text` IS the diff, and patching `a` with it yields a document that
    `Equals` `b` under the metadata. -/
theorem v1_setmodes_precision_text_roundtrip (F : FloatEq0) (L : FloatLaws) (nc : NumCodec)
    {m : V1.Metas} {o : Opts} (M : V1PS.PMode m o) (a b : Json)
    (ha : a.setDoc = true) (hb : b.setDoc = true)
    (ha' : DPL.memOK a = true) (hb' : DPL.memOK b = true)
    (va : V1P.vfree a = true) (vb : V1P.vfree b = true) (hbv : b.isVoid = false)
    (HF : V1S.HashFaithful m o (subterms a ++ subterms b))
    (hc : V1S.CodecOK nc (V1.diffM m a b)) (text : String)
    (hr : V1.renderM nc false (V1.liftDiff (V1.diffM m a b)) = .ok (some text)) :
    V1.readDiffM nc text = .ok (V1.diffM m a b) ∧
    ∃ r, V1.patchM a (V1.diffM m a b) = .ok r ∧ V1.equals m r b = true :=
  V1PS.v1_text_roundtrip_setmodes_precision F L nc M a b ha hb ha' hb' va vb hbv HF hc text hr

/-- the metadata predicates are satisfiable as the caller writes them (any order; SET wins over
    MULTISET), and a negative precision is outside them -/
example : V1PS.PSetMode [.prec V1PS.Example.eps, .mset, .set] ∧
    V1PS.PMsetMode [.mset, .prec V1PS.Example.eps] ∧
    V1PS.PMode [.set, .prec V1PS.Example.eps] [.set] ∧
    ¬ V1PS.PSetMode [.set, .prec 0xBFF0000000000000] :=
  ⟨by decide, by decide, (V1PS.Example.eps_set).mode, by decide⟩

/-- every hypothesis of the SET theorem holds on `{"k":1,"s":[1,2,{"x":1}],"u":{"v":2}}` →
    `{"k":1.05,"s":[2,1.05,{"x":1.05}],"t":3,"u":{"v":2.05}}` with eps = 0.1 (numbers within eps at an
    object key, under a nested key, inside a set, inside a member object of a set) -/
example (L : FloatLaws) : V1PS.Example.pA.setDoc = true ∧ V1PS.Example.pB.setDoc = true ∧
    DPL.memOK V1PS.Example.pA = true ∧ DPL.memOK V1PS.Example.pB = true ∧
    V1S.HashFaithful [.set, .prec V1PS.Example.eps] [.set]
      (subterms V1PS.Example.pA ++ subterms V1PS.Example.pB) :=
  ⟨V1PS.Example.p_docs.1, V1PS.Example.p_docs.2.1, V1PS.Example.p_docs.2.2.1,
    V1PS.Example.p_docs.2.2.2.1, V1PS.Example.p_hashFaithful_set L⟩

example (F : FloatEq0) (L : FloatLaws) :
    ∃ r, V1.patchM V1PS.Example.pA
        (V1.diffM [.mset, .prec V1PS.Example.eps] V1PS.Example.pA V1PS.Example.pB) = .ok r ∧
      V1.equals [.mset, .prec V1PS.Example.eps] r V1PS.Example.pB = true :=
  V1PS.Example.p_mset F L

/-- **`precNN` cannot be dropped** (SET, MULTISET, any metadata without MERGE): when `|x - x| ≤ eps`
    is false (eps negative or NaN; Go: `SetPrecision(-1)`), `x.Diff(x)` is `- x + x`, the patch
    applies and returns `x`, which does not `Equals` `x` under the metadata. `h0`: `|x - x| ≤ 0`
    (the exact old-value check of the patch). Replayed on /repo/lib. -/
theorem precNN_needed_setmodes (m : V1.Metas) (hm : V1.hasMerge m = false) (x : UInt64)
    (h0 : numWithin 0 x x = true) (hneg : numWithin (V1.precOf m) x x = false) :
    V1.diffM m (.num x) (.num x) = [{ path := [], old := [.num x], new := [.num x] }] ∧
    V1.patchM (.num x) (V1.diffM m (.num x) (.num x)) = .ok (.num x) ∧
    V1.equals m (.num x) (.num x) = false :=
  V1PS.Witness.precNN_needed m hm x h0 hneg

/-- **the patched document is not structurally `b`** (any metadata without MERGE): `{"k":x}` →
    `{"k":y}` with `|x - y| ≤ eps`, `x ≠ y`: empty diff, the result is `a`; it `Equals` `b` with the
    metadata, not without the precision, and is not `specEq` to it. Replayed on /repo/lib. -/
theorem result_not_structural (m : V1.Metas) (hm : V1.hasMerge m = false) (x y : UInt64)
    (h1 : numWithin (V1.precOf m) x y = true) (h0 : numWithin 0 x y = false) :
    V1.diffM m (.obj [("k", .num x)]) (.obj [("k", .num y)]) = [] ∧
    V1.patchM (.obj [("k", .num x)]) (V1.diffM m (.obj [("k", .num x)]) (.obj [("k", .num y)])) =
      .ok (.obj [("k", .num x)]) ∧
    V1.equals m (.obj [("k", .num x)]) (.obj [("k", .num y)]) = true ∧
    V1.equals (V1PS.noPrec m) (.obj [("k", .num x)]) (.obj [("k", .num y)]) = false ∧
    specEq (.obj [("k", .num x)]) (.obj [("k", .num y)]) = false :=
  V1PS.Witness.result_not_structural m hm x y h1 h0

/-- **inside a set / multiset the precision is ignored**: `[1]` and `[1.05]` are not `Equals` under
    `SET, SetPrecision(0.1)` nor under `MULTISET, SetPrecision(0.1)` (kernel computation), although —
    given the float fact `|1 - 1.05| ≤ 0.1` — they are `Equals` under `SetPrecision(0.1)` alone and
    equivalent for the advertised equivalence `equivB [SET, Precision 0.1]`. Go agrees (`Equals`
    false, diff `- 1 + 1.05`). So with a precision the v1 `Equals` does not decide the advertised
    set equivalence; C17 (which speaks of `Equals`) is not affected. -/
theorem precision_ignored_inside_sets :
    V1.equals [.set, .prec 0x3FB999999999999A] (.arr .raw [.num 0x3FF0000000000000])
      (.arr .raw [.num 0x3FF0CCCCCCCCCCCD]) = false ∧
    V1.equals [.mset, .prec 0x3FB999999999999A] (.arr .raw [.num 0x3FF0000000000000])
      (.arr .raw [.num 0x3FF0CCCCCCCCCCCD]) = false ∧
    (numWithin 0x3FB999999999999A 0x3FF0000000000000 0x3FF0CCCCCCCCCCCD = true →
      V1.equals [.prec 0x3FB999999999999A] (.arr .raw [.num 0x3FF0000000000000])
        (.arr .raw [.num 0x3FF0CCCCCCCCCCCD]) = true ∧
      equivB [.set, .prec 0x3FB999999999999A] (.arr .raw [.num 0x3FF0000000000000])
        (.arr .raw [.num 0x3FF0CCCCCCCCCCCD]) = true) :=
  V1PS.Witness.precision_ignored_inside_sets

/-! ## MERGE with a precision (list reading of arrays) -/

/-- **MERGE + SetPrecision(eps), in memory.** `hm`: MERGE present, no SET, no MULTISET (setkeys
    allowed: alone it leaves arrays lists in v1), eps finite and ≥ +0. `a`, `b` as read from JSON
    text (`wf`: sorted unique keys, `rawDoc`: plain arrays); `b` without void member and with finite
    numbers (a hunk value must `Equals` itself); `b` MAY hold nulls. Then `a.Patch(a.Diff(b, m...))`
    succeeds, the result `Equals` `b` under the metadata and is a list document. -/
theorem v1_merge_precision_diff_then_patch (L : FloatLaws) {m : V1.Metas} (hm : V1PM.PMergeMode m)
    (a b : Json) (haw : a.wf = true) (har : a.rawDoc = true)
    (hbw : b.wf = true) (hbr : b.rawDoc = true) (hbv : Merge.objVoidFree b = true)
    (hbf : b.finiteNums = true) :
    ∃ r, V1.patchM a (V1.diffM m a b) = .ok r ∧ V1.equals m r b = true ∧ r.listDoc = true :=
  V1PM.v1_merge_diff_patch_precision L hm a b haw har hbw hbr hbv hbf

/-- MERGE + precision: the diff is empty exactly when `Equals` (with the metadata) holds — for ANY
    precision bit pattern (negative, NaN, infinite included), no float law: `hmg`: MERGE present,
    `hm`: no SET, no MULTISET. -/
theorem v1_merge_precision_diff_empty_iff_equal {m : V1.Metas} (hmg : V1.hasMerge m = true)
    (hm : V1PM.LR m) (a b : Json) (haw : a.wf = true) (har : a.rawDoc = true)
    (hbw : b.wf = true) (hbr : b.rawDoc = true) (hbv : Merge.objVoidFree b = true) :
    V1.diffM m a b = [] ↔ V1.equals m a b = true :=
  V1PM.v1_merge_diff_empty_iff_equals_anyprec hmg hm a b haw har hbw hbr hbv

/-- **MERGE + precision, through the text**: the rendered merge diff is read back (as the diff with
    its values' Go array types forgotten), and patching `a` with the diff READ BACK yields a document
    that `Equals` `b` under the metadata. `hc`: codec contract; `hr`: render success. -/
theorem v1_merge_precision_text_roundtrip (L : FloatLaws) (nc : NumCodec) {m : V1.Metas}
    (hm : V1PM.PMergeMode m) (a b : Json) (haw : a.wf = true) (har : a.rawDoc = true)
    (hbw : b.wf = true) (hbr : b.rawDoc = true) (hbv : Merge.objVoidFree b = true)
    (hbf : b.finiteNums = true)
    (hc : V1S.CodecOK nc (V1.diffM m a b)) (text : String)
    (hr : V1.renderM nc false (V1.liftDiff (V1.diffM m a b)) = .ok (some text)) :
    ∃ d' r, V1.readDiffM nc text = .ok d' ∧ V1.patchM a d' = .ok r ∧ V1.equals m r b = true ∧
      r.listDoc = true :=
  V1PM.v1_text_roundtrip_merge_precision L nc hm a b haw har hbw hbr hbv hbf hc text hr

/-- the MERGE hypotheses hold on a concrete pair with eps = 0.1 (numbers within eps at a key, inside
    an array, under a nested key; nulls; additions and deletions), whatever the order of the metadata -/
example : V1PM.PMergeMode [.merge, .prec V1PM.Example.eps] ∧
    V1PM.PMergeMode [.prec V1PM.Example.eps, .setkeys ["id"], .merge] ∧
    ¬ V1PM.PMergeMode [.merge, .prec V1PM.Example.epsNeg] :=
  ⟨V1PM.Example.eps_ok, V1PM.Example.eps_ok', V1PM.Example.epsNeg_not_ok⟩

/-- **`precNN` cannot be dropped under MERGE**: `hneg`: `|x - x| ≤ eps` is false (eps = -1). The merge
    diff of `x` and `x` is the hunk `+ x`, the patch returns `x`, not `Equals` to `x` under the
    metadata. Replayed on /repo/lib. -/
theorem precNN_needed_merge (eps x : UInt64) (hneg : numWithin eps x x = false) :
    V1.diffM [.merge, .prec eps] (.num x) (.num x) = [V1M.vh [] (.num x)] ∧
    V1.patchM (.num x) (V1.diffM [.merge, .prec eps] (.num x) (.num x)) = .ok (.num x) ∧
    V1.equals [.merge, .prec eps] (.num x) (.num x) = false :=
  V1PM.Witness.precNN_needed_merge eps x hneg

/-- **under MERGE the patched document is not structurally `b`**: `{"k":x}` → `{"k":y}`, `|x - y| ≤
    eps`, `x ≠ y`: empty diff, result `a`, `Equals` under the metadata, not `specEq`. -/
theorem merge_result_not_structural (eps x y : UInt64) (h1 : numWithin eps x y = true)
    (h0 : numWithin 0 x y = false) :
    V1.diffM [.merge, .prec eps] (.obj [("k", .num x)]) (.obj [("k", .num y)]) = [] ∧
    V1.patchM (.obj [("k", .num x)])
      (V1.diffM [.merge, .prec eps] (.obj [("k", .num x)]) (.obj [("k", .num y)]))
        = .ok (.obj [("k", .num x)]) ∧
    V1.equals [.merge, .prec eps] (.obj [("k", .num x)]) (.obj [("k", .num y)]) = true ∧
    specEq (.obj [("k", .num x)]) (.obj [("k", .num y)]) = false :=
  V1PM.Witness.merge_result_not_structural eps x y h1 h0

end Jd.Props.C17Precision
