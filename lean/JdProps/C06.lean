/-
  Property C06 — list diffs are minimal (LCS) and carry adjacent context.
  Statement file (proofs in JdProofs/LcsProofs.lean; the context clause is a corollary of the C01
  list theorem of JdProofs/DiffPatchList.lean).

  PART 1 (LCS). The model of github.com/yudai/golcs (`lcsValues`: the dynamic-programming table and
  the back-tracking exactly as the library does them — compared with the real library on every run
  through the diffs it produces) returns a COMMON subsequence of MAXIMAL length. This is the
  contract on which minimality of the list diff rests. `diffM` in list mode calls `lcsValues` on the
  hash codes of the elements (`α = UInt64`).

  PART 2 (context clause, labelled as such below). For the documents of the C01 list theorem, the
  hunks of `a.Diff(b)` apply IN SEQUENCE to `a` under the reference semantics `applyStrictAll`
  (JdSpec/HunkSem.lean), which checks for each hunk that every before-context line equals the
  element preceding the edit position (or the array start for the `[` marker) and every
  after-context line the element following the removed ones (or the array end for `]`). So every
  context line a list diff carries IS the neighbouring element at the time the hunk applies.
  Hypotheses: those of `Jd.DPL.diffM_list_correct` (see JdProps/C01.lean).

  NOT CLAIMED HERE: the count "removed = |a| − LCS, added = |b| − LCS for arrays of scalars", and
  "exactly one line of before- and one of after-context per hunk" as a statement about the shape
  of the hunks. Both are checked by the oracle on the implementation (exhaustively on small scopes).
-/
import JdProofs.LcsProofs
import JdProofs.DiffMinimal
import JdProofs.DiffPatchList

namespace Jd.Props.C06
open Jd

variable {α : Type} [BEq α] [LawfulBEq α]

theorem lcs_is_common_subsequence (a b : List α) :
    (lcsValues a b).Sublist a ∧ (lcsValues a b).Sublist b :=
  ⟨lcsValues_sublist_left a b, lcsValues_sublist_right a b⟩

theorem lcs_is_longest (a b c : List α) (ha : c.Sublist a) (hb : c.Sublist b) :
    c.length ≤ (lcsValues a b).length :=
  lcs_optimal a b c ha hb

theorem lcs_length_is_table_corner (a b : List α) : (lcsValues a b).length = lcsLength a b :=
  lcsValues_length a b

theorem table_is_textbook_recurrence (a b : List α) : lcsLength a b = lcsLenSpec a b :=
  lcsLength_eq a b

/-- the statements are not vacuous: a concrete common subsequence is bounded by the model's LCS -/
example : ([1, 2, 3] : List Nat).length ≤ (lcsValues [1, 2, 2, 3] [1, 2, 2, 2, 3]).length :=
  lcs_optimal _ _ _ (by decide) (by decide)

/-! ## Part 2 — context clause (corollary of the C01 list theorem) -/

/-- every hunk of a list-mode diff applies to the document it was computed from (as left by the
    preceding hunks) with its removed values AND its before / after context lines checked against the
    actual neighbours: the reference interpreter, which rejects any mismatch, accepts the whole diff -/
theorem context_lines_match_neighbours (L : Jd.Spec.FloatLaws) (o : Opts) (ho : dispatchTag o = .list)
    (hm : isMerge o = false) (a b : Json)
    (ha1 : a.listDoc = true) (ha2 : a.wf = true) (ha3 : a.finiteNums = true)
    (ha4 : Jd.DPL.memOK a = true)
    (hb1 : b.listDoc = true) (hb2 : b.wf = true) (hb3 : b.finiteNums = true)
    (hb4 : Jd.DPL.memOK b = true)
    (H : Jd.DPL.HashOK o a b) (Z : Jd.DPL.ZeroOK a b) :
    (Jd.Spec.applyStrictAll a (diffM o a b)).isSome = true := by
  obtain ⟨r, h, _⟩ := Jd.DPL.diffM_list_correct L o ho hm a b ha1 ha2 ha3 ha4 hb1 hb2 hb3 hb4 H Z
  rw [h]; rfl

/-- not vacuous: the three-hunk example of C01 (one hunk inside a nested list) -/
example (L : Jd.Spec.FloatLaws) :
    (Jd.Spec.applyStrictAll Jd.DPL.Example.exA
      (diffM [] Jd.DPL.Example.exA Jd.DPL.Example.exB)).isSome = true := by
  obtain ⟨h1, h2, h3, h4, h5, h6, h7, h8, h9, h10⟩ := Jd.DPL.Example.hyps L
  exact context_lines_match_neighbours L [] rfl rfl _ _ h1 h2 h3 h4 h5 h6 h7 h8 h9 h10


/-! ### Minimality of the list diff itself (JdProofs/DiffMinimal.lean)

  For arrays of scalars the diff removes exactly `|a| − LCS` and adds exactly `|b| − LCS` elements,
  where LCS is the textbook longest-common-subsequence length of the two hash lists — no edit script
  that matches equal-hash elements can remove or add fewer; and every hunk carries exactly one line of
  before- and one of after-context, addresses a list index, is strict and non-empty. -/

open Jd.Min Jd.DPL in
theorem scalar_array_diff_counts {o : Opts} (ho : dispatchTag o = .list) (hm : isMerge o = false)
    {t t' : Tag} (xs ys : List Json)
    (ht : (t == .raw || t == .list) = true) (ht' : (t' == .raw || t' == .list) = true)
    (htt : t = .raw ∨ t' = .list) (scalars : ∀ x ∈ xs, isScalar x = true) :
    let d := diffM o (.arr t xs) (.arr t' ys)
    (d.map (·.remove.length)).sum = xs.length - lcsLenSpec (hashList o xs) (hashList o ys) ∧
    (d.map (·.add.length)).sum = ys.length - lcsLenSpec (hashList o xs) (hashList o ys) :=
  diffM_removes_adds_count_spec ho hm xs ys ht ht' htt scalars

open Jd.Min Jd.DPL in
theorem scalar_array_diff_is_minimal {o : Opts} (ho : dispatchTag o = .list) (hm : isMerge o = false)
    {t t' : Tag} (xs ys : List Json)
    (ht : (t == .raw || t == .list) = true) (ht' : (t' == .raw || t' == .list) = true)
    (htt : t = .raw ∨ t' = .list) (scalars : ∀ x ∈ xs, isScalar x = true)
    (c' : List UInt64) (h1 : c'.Sublist (hashList o xs)) (h2 : c'.Sublist (hashList o ys)) :
    let d := diffM o (.arr t xs) (.arr t' ys)
    (d.map (·.remove.length)).sum ≤ xs.length - c'.length ∧
    (d.map (·.add.length)).sum ≤ ys.length - c'.length :=
  diffM_removes_adds_minimal ho hm xs ys ht ht' htt scalars c' h1 h2

open Jd.Min Jd.DPL in
theorem scalar_array_hunks_carry_one_line_of_context {o : Opts} (ho : dispatchTag o = .list)
    (hm : isMerge o = false) {t t' : Tag} (xs ys : List Json)
    (ht : (t == .raw || t == .list) = true) (ht' : (t' == .raw || t' == .list) = true)
    (htt : t = .raw ∨ t' = .list) (scalars : ∀ x ∈ xs, isScalar x = true) :
    ∀ h ∈ diffM o (.arr t xs) (.arr t' ys),
      h.before.length = 1 ∧ h.after.length = 1 ∧ (∃ i : Nat, h.path = [.idx i]) ∧
        h.merge = false ∧ (h.remove ≠ [] ∨ h.add ≠ []) :=
  diffM_hunk_shape ho hm xs ys ht ht' htt scalars

end Jd.Props.C06
