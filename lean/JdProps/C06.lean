/-
  Property C06 — list diffs are minimal (LCS) and carry adjacent context.
  Statement file (proofs in JdProofs/LcsProofs.lean, JdProofs/DiffMinimal.lean and, for arrays that
  hold CONTAINERS, JdProofs/ListRecursion.lean, namespace `Jd.Rec`; the first context clause is a
  corollary of the C01 list theorem of JdProofs/DiffPatchList.lean).

  PART 1 (LCS). The model of github.com/yudai/golcs (`lcsValues`: the dynamic-programming table and
  the back-tracking exactly as the library does them — compared with the real library on every run
  through the diffs it produces) returns a COMMON subsequence of MAXIMAL length. This is the
  contract on which minimality of the list diff rests. `diffM` in list mode calls `lcsValues` on the
  hash codes of the elements (`α = UInt64`).

  PART 2 (context clause, labelled as such below). For the documents of the C01 list theorem, the
  hunks of `a.Diff(b)` apply IN SEQUENCE to `a` under the reference semantics `applyStrictAll`
  (JdSpec/HunkSem.lean), which checks for each hunk that every before-context line equals the
  element preceding the edit position (or the array start for the `[` marker) and every
  after-context line the element following the removed ones (or the array end for `]`). So every
  context line a list diff carries IS the neighbouring element at the time the hunk applies.
  Hypotheses: those of `Jd.DPL.diffM_list_correct` (see JdProps/C01.lean).
  Then, for ARRAYS OF SCALARS (JdProofs/DiffMinimal.lean): the counts "removed = |a| − LCS, added =
  |b| − LCS", minimality among all matchings of equal-hash elements, and the shape of the hunks.

  PART 3 (arrays whose elements may be CONTAINERS — objects, arrays, any nesting). Model function:
  `diffM o a b` = `a.Diff(b)` with `dispatchTag o = .list`, `isMerge o = false` (list reading, strict
  strategy); `diffNode o false x y p` is the recursive call on two nodes at path `p` (the SUB-DIFF).
  Reference semantics of hunks: `Spec.applyStrict` / `applyStrictAll` / `splice` (JdSpec/HunkSem.lean).
   3a RECURSION ("recurses into same-position containers of the same kind instead of replacing them")
      * `same_kind_containers_are_recursed_into` (+ `…_every_hunk_in_a_sub_diff`): two arrays of equal
        length, position by position containers of the same kind (`Rec.sameKinds`, decidable:
        `sameContainerType` pairwise — two objects, or two arrays read the same way), no element of
        the first with the hash code of an element of the second: `a.Diff(b)` IS the concatenation of
        the sub-diffs at `[.idx i]`. There is no array-level hunk. One more hypothesis: `noMixed xs ys`
        (no position holds a typed `jsonList` against a plain `jsonArray`; decidable, true of documents
        read from text) — for such a pair the one wholesale hunk receives an after-context from the
        end block of `diffRest` (`Jd.subAfter`) and the diff is not the bare concatenation
        (`Rec.Example.mixed_not_concatenation`).
      * `recursion_at_reached_position` (+ `array_level_hunks_spare_the_recursed_pair`): the general
        case, stated along `Rec.Reach`, the cursor walk of `jsonList.diffRest` (the decisions of the
        code without the hunks: both at the common sequence → step both; one of them → add / remove;
        neither → same kind: recurse, else replace). If the walk reaches a position whose cursor
        elements `x`, `y` are same-kind containers, not a typed list against a plain array
        (`mixedPair x y = false`; only `recursion_at_reached_position` needs it), and neither is the
        next element of the remaining common sequence (`DPL.atC … = false`), then `a.Diff(b) = D1 ++ (sub-diff of x, y at the index
        of y) ++ D2`, no hunk of the sub-diff is an array-level hunk (`Rec.isTop []`: path of length
        one, with context), and the array-level hunks of `D1` / `D2` only remove elements standing
        before / after `x` and only add elements standing before / after `y`
        (`Rec.removedTop`, `Rec.addedTop`: what the array-level hunks remove / add, in order):
        no array-level hunk removes `x` or adds `y`. Hypothesis: the elements are list documents
        (`listDocList`: no set / multiset typed node — what the readers produce in list mode).
      * `sub_diff_stays_strictly_inside`: for documents as read from text (`rawDoc`) every hunk of the
        sub-diff of two same-kind containers is addressed STRICTLY below the container: the
        container is never replaced as a whole.
   3b SHAPE ("every hunk that edits an array position carries exactly one line of before-context
      and one of after-context")
      * `array_hunks_are_array_level_or_in_a_sub_diff`: only hypothesis on the elements: no
        `mixedPair` between an element of `xs` and one of `ys`. Every hunk of
        the diff of two arrays is an array-level hunk (strict, path `[.idx i]`, one before- and one
        after-context line, not empty) or belongs to the sub-diff at `[.idx j]` of two same-kind
        containers `x ∈ xs`, `y = ys[j]`; `sub_diff_hunk_is_not_array_level`: on list documents the
        two alternatives exclude each other.
      * `hunk_shape_at_every_level`: `rawDoc` documents, every level of nesting: every hunk is strict;
        a hunk whose path ends with a list index `i` has `0 ≤ i`, exactly one before- and one
        after-context line and is not empty; every other hunk (root, object member) has no context.
   3c CONTEXT = NEIGHBOURS ("equal to the neighbouring elements or the array boundary")
      * operational, every level (`hunk_applies_where_it_is_addressed`,
        `context_lines_are_the_neighbours`, `context_lines_are_the_neighbours_at_every_level`): split
        `a.Diff(b) = D1 ++ h :: D2` anywhere with `h.path = q ++ [.idx i]`: `D1` applies to `a`, giving
        `m`; the node of `m` at `q` (`Real.getAt`) is a list `l`; `splice l i h` succeeds; and
        `Rec.CtxIsNeighbours l i h`: one context line on each side, the before-context `specEq` to
        `l[i-1]` (the void boundary marker iff `i = 0`), the removed values `specEq` to `l[i…]`, the
        after-context `specEq` to the element following them (the void marker at the end of `l`).
        Hypotheses: those of the C01 list theorem, from which these are derived (`listDoc` / `rawDoc`;
        `wf` sorted unique keys; finite numbers; `memOK` no void member; `HashOK` no FNV collision
        between a sub-term of `a` and one of `b` — elements are matched by hash code, a collision
        would make the before-context the colliding element of `b`; `ZeroOK` no `0` / `-0` pair;
        `FloatLaws` reflexivity / symmetry of the opaque float comparison).
      * static, top-level array (`context_lines_are_elements_of_the_arrays`): elements `DPL.GoodL`
        (list documents, `wf`, finite numbers, no void member) and `Rec.NumHashOK` (numbers equal as
        floats hash alike: true of all finite doubles; a hypothesis because `Float` is opaque to the
        kernel), and no `mixedPair` between an element of `xs` and one of `ys`. NO hash-collision
        hypothesis. Every hunk is `Real.Located [] xs ys`: `remove` a
        contiguous run of `xs`, `add` the contiguous run of `ys` at the addressed index, `before`
        LITERALLY the element of `ys` preceding it (void at the start), `after` LITERALLY the element
        of `xs` following the removed run (void at the end) — or belongs to a sub-diff.
      * WITNESS `context_is_not_the_neighbour_outside_wf`: OUTSIDE the domain (an object with a
        duplicate key, which a Go map cannot hold) two same-kind containers with different hash codes
        have an EMPTY sub-diff; the code then takes the after-context from the position after the
        container; it is not the neighbour and the reference interpreter rejects the diff. This is
        why `wf` is a hypothesis of 3c. No counterexample inside the domain.
   3d COUNT BOUND (`container_array_counts_bounded_by_lcs`, `container_array_diff_no_worse_than_any_matching`):
      the array-level hunks remove at most `|xs| − LCS` and add at most `|ys| − LCS` elements (LCS the
      textbook length for the two hash lists), hence no more than ANY edit script that keeps a
      common subsequence of equal-hash elements. For scalars Part 2 gives equality.

  NOT PROVED / LIMITS (Part 3)
    * 3a general is stated along `Reach` ("as the code decides it"); no static criterion on `xs`, `ys`
      for a position to be reached is given beyond the special case of `sameKinds` + disjoint hashes;
    * with containers the count is an upper bound (≤), not an equality: two same-kind containers with
      different hash codes are recursed into instead of being counted, and what the sub-diffs remove /
      add inside them is not counted against any optimum;
    * the static form of 3c is stated for one array level (the top-level array); it is not threaded
      through the nesting — the operational form is, but inherits `HashOK` and `ZeroOK`;
    * list documents holding a typed `jsonList` element against a plain `jsonArray` element: the
      sub-diff is a wholesale replacement (known, `Jd.diff_list_vs_array_nonempty`); it still is not
      an array-level hunk, but with nothing accumulated it receives an after-context (`Jd.subAfter`,
      the end block of Go's `diffRest`): the statements that speak of the sub-diff literally exclude
      such pairs (`noMixed` / `mixedPair`); documents read from text (`rawDoc`) never contain them;
    * set / multiset readings and the merge strategy: C06 is a list-mode property.
-/
import JdProofs.LcsProofs
import JdProofs.DiffMinimal
import JdProofs.DiffPatchList
import JdProofs.ListRecursion
import JdProps.C06Align

set_option autoImplicit false

namespace Jd.Props.C06
open Jd

variable {α : Type} [BEq α] [LawfulBEq α]

theorem lcs_is_common_subsequence (a b : List α) :
    (lcsValues a b).Sublist a ∧ (lcsValues a b).Sublist b :=
  ⟨lcsValues_sublist_left a b, lcsValues_sublist_right a b⟩

theorem lcs_is_longest (a b c : List α) (ha : c.Sublist a) (hb : c.Sublist b) :
    c.length ≤ (lcsValues a b).length :=
  lcs_optimal a b c ha hb

theorem lcs_length_is_table_corner (a b : List α) : (lcsValues a b).length = lcsLength a b :=
  lcsValues_length a b

theorem table_is_textbook_recurrence (a b : List α) : lcsLength a b = lcsLenSpec a b :=
  lcsLength_eq a b

/-- the statements are not vacuous: a concrete common subsequence is bounded by the model's LCS -/
example : ([1, 2, 3] : List Nat).length ≤ (lcsValues [1, 2, 2, 3] [1, 2, 2, 2, 3]).length :=
  lcs_optimal _ _ _ (by decide) (by decide)

/-! ## Part 2 — context clause (corollary of the C01 list theorem) -/

/-- every hunk of a list-mode diff applies to the document it was computed from (as left by the
    preceding hunks) with its removed values AND its before / after context lines checked against the
    actual neighbours: the reference interpreter, which rejects any mismatch, accepts the whole diff -/
theorem context_lines_match_neighbours (L : Jd.Spec.FloatLaws) (o : Opts) (ho : dispatchTag o = .list)
    (hm : isMerge o = false) (a b : Json)
    (ha1 : a.listDoc = true) (ha2 : a.wf = true) (ha3 : a.finiteNums = true)
    (ha4 : Jd.DPL.memOK a = true)
    (hb1 : b.listDoc = true) (hb2 : b.wf = true) (hb3 : b.finiteNums = true)
    (hb4 : Jd.DPL.memOK b = true)
    (H : Jd.DPL.HashOK o a b) (Z : Jd.DPL.ZeroOK a b) :
    (Jd.Spec.applyStrictAll a (diffM o a b)).isSome = true := by
  obtain ⟨r, h, _⟩ := Jd.DPL.diffM_list_correct L o ho hm a b ha1 ha2 ha3 ha4 hb1 hb2 hb3 hb4 H Z
  rw [h]; rfl

/-- not vacuous: the three-hunk example of C01 (one hunk inside a nested list) -/
example (L : Jd.Spec.FloatLaws) :
    (Jd.Spec.applyStrictAll Jd.DPL.Example.exA
      (diffM [] Jd.DPL.Example.exA Jd.DPL.Example.exB)).isSome = true := by
  obtain ⟨h1, h2, h3, h4, h5, h6, h7, h8, h9, h10⟩ := Jd.DPL.Example.hyps L
  exact context_lines_match_neighbours L [] rfl rfl _ _ h1 h2 h3 h4 h5 h6 h7 h8 h9 h10


/-! ### Minimality of the list diff itself (JdProofs/DiffMinimal.lean)

  For arrays of scalars the diff removes exactly `|a| − LCS` and adds exactly `|b| − LCS` elements,
  where LCS is the textbook longest-common-subsequence length of the two hash lists — no edit script
  that matches equal-hash elements can remove or add fewer; and every hunk carries exactly one line of
  before- and one of after-context, addresses a list index, is strict and non-empty. -/

open Jd.Min Jd.DPL in
theorem scalar_array_diff_counts {o : Opts} (ho : dispatchTag o = .list) (hm : isMerge o = false)
    {t t' : Tag} (xs ys : List Json)
    (ht : (t == .raw || t == .list) = true) (ht' : (t' == .raw || t' == .list) = true)
    (htt : t = .raw ∨ t' = .list) (scalars : ∀ x ∈ xs, isScalar x = true) :
    let d := diffM o (.arr t xs) (.arr t' ys)
    (d.map (·.remove.length)).sum = xs.length - lcsLenSpec (hashList o xs) (hashList o ys) ∧
    (d.map (·.add.length)).sum = ys.length - lcsLenSpec (hashList o xs) (hashList o ys) :=
  diffM_removes_adds_count_spec ho hm xs ys ht ht' htt scalars

open Jd.Min Jd.DPL in
theorem scalar_array_diff_is_minimal {o : Opts} (ho : dispatchTag o = .list) (hm : isMerge o = false)
    {t t' : Tag} (xs ys : List Json)
    (ht : (t == .raw || t == .list) = true) (ht' : (t' == .raw || t' == .list) = true)
    (htt : t = .raw ∨ t' = .list) (scalars : ∀ x ∈ xs, isScalar x = true)
    (c' : List UInt64) (h1 : c'.Sublist (hashList o xs)) (h2 : c'.Sublist (hashList o ys)) :
    let d := diffM o (.arr t xs) (.arr t' ys)
    (d.map (·.remove.length)).sum ≤ xs.length - c'.length ∧
    (d.map (·.add.length)).sum ≤ ys.length - c'.length :=
  diffM_removes_adds_minimal ho hm xs ys ht ht' htt scalars c' h1 h2

open Jd.Min Jd.DPL in
theorem scalar_array_hunks_carry_one_line_of_context {o : Opts} (ho : dispatchTag o = .list)
    (hm : isMerge o = false) {t t' : Tag} (xs ys : List Json)
    (ht : (t == .raw || t == .list) = true) (ht' : (t' == .raw || t' == .list) = true)
    (htt : t = .raw ∨ t' = .list) (scalars : ∀ x ∈ xs, isScalar x = true) :
    ∀ h ∈ diffM o (.arr t xs) (.arr t' ys),
      h.before.length = 1 ∧ h.after.length = 1 ∧ (∃ i : Nat, h.path = [.idx i]) ∧
        h.merge = false ∧ (h.remove ≠ [] ∨ h.add ≠ []) :=
  diffM_hunk_shape ho hm xs ys ht ht' htt scalars

/-! ## Part 3 — arrays whose elements may be containers (JdProofs/ListRecursion.lean)

  Throughout: `o` with `dispatchTag o = .list` and `isMerge o = false` (list reading, strict
  strategy); the hypotheses on the tags `t`, `t'` say that both arrays are plain `jsonArray`s or
  `jsonList`s in a combination the dispatcher sends to the list diff. -/

/-! ### 3a. recursion instead of replacement -/

/-- **special case**: two arrays of equal length whose elements are, position by position,
    containers of the same kind, no element of the first having the hash code of an element of the
    second, and no position holding a typed `jsonList` against a plain `jsonArray` (`noMixed`,
    decidable, JdProofs/SubAfter.lean; true of documents read from text: `noMixed_of_rawDocList`;
    such a pair is replaced wholesale and the end block of `diffRest` gives that hunk an
    after-context, so the diff is NOT the bare concatenation — `Rec.Example.mixed_not_concatenation`):
    `a.Diff(b)` is EXACTLY the concatenation of the sub-diffs of the pairs at `[.idx i]`; there is no
    array-level hunk (nothing is replaced) -/
theorem same_kind_containers_are_recursed_into {o : Opts} (ho : dispatchTag o = .list)
    (hm : isMerge o = false) {t t' : Tag} (xs ys : List Json)
    (ht : (t == .raw || t == .list) = true) (ht' : (t' == .raw || t' == .list) = true)
    (htt : t = .raw ∨ t' = .list)
    (same : Rec.sameKinds o xs ys = true) (nomix : noMixed xs ys = true)
    (apart : ∀ x ∈ xs, ∀ y ∈ ys, hashCode o x ≠ hashCode o y) :
    diffM o (.arr t xs) (.arr t' ys) =
      ((xs.zip ys).zipIdx).flatMap
        (fun q => diffNode o false q.1.1 q.1.2 [.idx (q.2 : Int)]) :=
  Rec.diffM_same_kind_containers ho hm xs ys ht ht' htt same nomix apart

/-- in particular every hunk belongs to the sub-diff of the two elements at some position `i` and
    its path starts with that index -/
theorem same_kind_containers_every_hunk_in_a_sub_diff {o : Opts} (ho : dispatchTag o = .list)
    (hm : isMerge o = false) {t t' : Tag} (xs ys : List Json)
    (ht : (t == .raw || t == .list) = true) (ht' : (t' == .raw || t' == .list) = true)
    (htt : t = .raw ∨ t' = .list)
    (same : Rec.sameKinds o xs ys = true) (nomix : noMixed xs ys = true)
    (apart : ∀ x ∈ xs, ∀ y ∈ ys, hashCode o x ≠ hashCode o y) :
    ∀ h ∈ diffM o (.arr t xs) (.arr t' ys), ∃ (i : Nat) (x y : Json),
      xs[i]? = some x ∧ ys[i]? = some y ∧ h ∈ diffNode o false x y [.idx (i : Int)] ∧
        [PathElem.idx (i : Int)] <+: h.path :=
  Rec.diffM_same_kind_containers_mem ho hm xs ys ht ht' htt same nomix apart

/-- **general case, along the cursor walk of the code** (`Rec.Reach`): wherever the walk meets two
    same-kind containers `x`, `y`, neither of them the next element of the remaining common sequence,
    the diff is `D1 ++ (sub-diff of x and y at the index of y) ++ D2`; no hunk of the sub-diff is an
    array-level hunk; the array-level hunks of `D1` only remove elements standing before `x` and add
    elements standing before `y`, those of `D2` only elements standing after them. So `x` is not
    removed and `y` is not added: the pair is recursed into, not replaced. -/
theorem recursion_at_reached_position {o : Opts} (ho : dispatchTag o = .list)
    (hm : isMerge o = false) {t t' : Tag} (xs ys : List Json)
    (ht : (t == .raw || t == .list) = true) (ht' : (t' == .raw || t' == .list) = true)
    (htt : t = .raw ∨ t' = .list)
    (hla : listDocList xs = true) (hlb : listDocList ys = true)
    {x y : Json} {a' b' : List Json} {c : List UInt64}
    (hr : Rec.Reach o xs ys (lcsValues (hashList o xs) (hashList o ys)) (x :: a') (y :: b') c)
    (hA : DPL.atC o x c = false) (hB : DPL.atC o y c = false)
    (hs : sameContainerType o x y = true) (hnm : mixedPair x y = false) :
    ∃ (D1 D2 : Diff) (preA preB : List Json),
      xs = preA ++ x :: a' ∧ ys = preB ++ y :: b' ∧
      diffM o (.arr t xs) (.arr t' ys) =
        D1 ++ diffNode o false x y [.idx (preB.length : Int)] ++ D2 ∧
      (∀ h ∈ diffNode o false x y [.idx (preB.length : Int)], Rec.isTop [] h = false) ∧
      (Rec.removedTop [] D1).Sublist preA ∧ (Rec.addedTop [] D1).Sublist preB ∧
      (Rec.removedTop [] D2).Sublist a' ∧ (Rec.addedTop [] D2).Sublist b' :=
  Rec.diffM_recurses_at ho hm xs ys ht ht' htt hla hlb hr hA hB hs hnm

/-- the same about the whole diff: all array-level hunks together remove a sublist of `xs` with the
    position of `x` taken out, and add a sublist of `ys` with the position of `y` taken out -/
theorem array_level_hunks_spare_the_recursed_pair {o : Opts} (ho : dispatchTag o = .list)
    (hm : isMerge o = false) {t t' : Tag} (xs ys : List Json)
    (ht : (t == .raw || t == .list) = true) (ht' : (t' == .raw || t' == .list) = true)
    (htt : t = .raw ∨ t' = .list)
    (hla : listDocList xs = true) (hlb : listDocList ys = true)
    {x y : Json} {a' b' : List Json} {c : List UInt64}
    (hr : Rec.Reach o xs ys (lcsValues (hashList o xs) (hashList o ys)) (x :: a') (y :: b') c)
    (hA : DPL.atC o x c = false) (hB : DPL.atC o y c = false)
    (hs : sameContainerType o x y = true) :
    ∃ (preA preB : List Json), xs = preA ++ x :: a' ∧ ys = preB ++ y :: b' ∧
      (Rec.removedTop [] (diffM o (.arr t xs) (.arr t' ys))).Sublist (preA ++ a') ∧
      (Rec.addedTop [] (diffM o (.arr t xs) (.arr t' ys))).Sublist (preB ++ b') :=
  Rec.diffM_recurses_at_whole ho hm xs ys ht ht' htt hla hlb hr hA hB hs

/-- documents as read from text: the sub-diff of two same-kind containers computed at `q` only has
    strict hunks addressed STRICTLY inside the container (`q ++ r ++ [e]`): the container is never
    replaced as a whole -/
theorem sub_diff_stays_strictly_inside {o : Opts} (ho : dispatchTag o = .list) {x y : Json}
    (hx : x.rawDoc = true) (hy : y.rawDoc = true) (hs : sameContainerType o x y = true)
    (q : Path) : ∀ h ∈ diffNode o false x y q, h.merge = false ∧
      ∃ (r : Path) (e : PathElem), h.path = q ++ r ++ [e] :=
  Rec.sub_diff_strictly_inside ho hx hy hs q

/-! ### 3b. shape of the hunks -/

/-- two arrays with arbitrary elements, except that no element of the first is a typed array node
    standing against a plain `jsonArray` of the second (`mixedPair`; true of documents read from text):
    every hunk of `a.Diff(b)` is an array-level hunk — strict,
    addressed to an index of the array, exactly one line of before- and one of after-context, removing
    or adding at least one element — or belongs to the sub-diff, at `[.idx j]`, of two containers of
    the same kind `x ∈ xs` and `y = ys[j]` -/
theorem array_hunks_are_array_level_or_in_a_sub_diff {o : Opts} (ho : dispatchTag o = .list)
    (hm : isMerge o = false) {t t' : Tag} (xs ys : List Json)
    (ht : (t == .raw || t == .list) = true) (ht' : (t' == .raw || t' == .list) = true)
    (htt : t = .raw ∨ t' = .list)
    (nomix : ∀ x ∈ xs, ∀ y ∈ ys, mixedPair x y = false) :
    ∀ h ∈ diffM o (.arr t xs) (.arr t' ys),
      (h.before.length = 1 ∧ h.after.length = 1 ∧ (∃ i : Nat, h.path = [.idx i]) ∧
        h.merge = false ∧ (h.remove ≠ [] ∨ h.add ≠ [])) ∨
      (∃ (preA : List Json) (x : Json) (postA preB : List Json) (y : Json) (postB : List Json),
        xs = preA ++ x :: postA ∧ ys = preB ++ y :: postB ∧ sameContainerType o x y = true ∧
          h ∈ diffNode o false x y [.idx (preB.length : Int)]) :=
  Rec.diffM_array_hunks ho hm xs ys ht ht' htt nomix

/-- on list documents the two alternatives exclude each other: a hunk of the sub-diff computed at
    `p ++ [.idx j]` has a longer path, or carries no context at all (the wholesale replacement of a
    typed `jsonList` by a plain `jsonArray`, which documents read from text never contain) -/
theorem sub_diff_hunk_is_not_array_level {o : Opts} (ho : dispatchTag o = .list) {x y : Json}
    (hx : x.listDoc = true) (hy : y.listDoc = true) (hs : sameContainerType o x y = true)
    (p : Path) (j : Int) {h : Hunk} (hm : h ∈ diffNode o false x y (p ++ [.idx j])) :
    (p ++ [PathElem.idx j]).length < h.path.length ∨ (h.before = [] ∧ h.after = []) :=
  Rec.sub_hunk_not_array_level ho hx hy hs p j hm

/-- **shape, every level**, documents as read from text (any nesting of objects and arrays): every
    hunk is strict; a hunk whose path ends with a list index carries a non-negative index, exactly
    one line of before-context and one of after-context and removes or adds at least one element;
    every other hunk (root, object member) carries no context -/
theorem hunk_shape_at_every_level {o : Opts} (ho : dispatchTag o = .list) (hm : isMerge o = false)
    (a b : Json) (ha : a.rawDoc = true) (hb : b.rawDoc = true) :
    ∀ h ∈ diffM o a b, h.merge = false ∧
      (match h.path.getLast? with
       | some (.idx i) =>
         0 ≤ i ∧ h.before.length = 1 ∧ h.after.length = 1 ∧ (h.remove ≠ [] ∨ h.add ≠ [])
       | _ => h.before = [] ∧ h.after = []) :=
  Rec.diffM_hunk_shape_all_levels ho hm a b ha hb

/-! ### 3c. the context lines are the neighbouring elements -/

/-- **operational form, every level**: documents of the C01 list theorem, any nesting. Split
    `a.Diff(b) = D1 ++ h :: D2` anywhere: the hunks before `h` apply to `a` and give `m`; the reference
    interpreter accepts `h` on `m`; and when `h` is addressed to a list index (`q ++ [.idx i]`) the
    node of `m` at `q` is a list into which `h` is spliced at `i`, with its removed values and its
    context lines checked against the elements around the position (`splice` rejects any mismatch) -/
theorem hunk_applies_where_it_is_addressed (L : Spec.FloatLaws) (o : Opts)
    (ho : dispatchTag o = .list) (hm : isMerge o = false) (a b : Json)
    (ha1 : a.listDoc = true) (ha2 : a.wf = true) (ha3 : a.finiteNums = true)
    (ha4 : DPL.memOK a = true)
    (hb1 : b.listDoc = true) (hb2 : b.wf = true) (hb3 : b.finiteNums = true)
    (hb4 : DPL.memOK b = true)
    (H : DPL.HashOK o a b) (Z : DPL.ZeroOK a b) (D1 : Diff) (h : Hunk) (D2 : Diff)
    (hd : diffM o a b = D1 ++ h :: D2) :
    ∃ m m', Spec.applyStrictAll a D1 = some m ∧ Spec.applyStrict m h.path h = some m' ∧
      ∀ (q : Path) (i : Nat), h.path = q ++ [.idx (i : Int)] →
        ∃ (t : Tag) (l l' : List Json), Real.getAt m q = some (.arr t l) ∧
          Spec.splice l (i : Int) h = some l' :=
  Rec.diffM_hunk_applies L o ho hm a b ha1 ha2 ha3 ha4 hb1 hb2 hb3 hb4 H Z D1 h D2 hd

/-- **the context lines ARE the neighbours** (`Rec.CtxIsNeighbours`, spelled out in
    `ctx_is_neighbours_unfolded`): for a hunk addressed to a list index with one context line on
    each side (every array-level hunk has that shape, 3b), after the preceding hunks have been
    applied the node at `q` is a list `l` in which the before-context equals `l[i-1]` (the boundary
    marker when `i = 0`), the removed values equal `l[i], l[i+1], …`, and the after-context equals the
    element following them (the boundary marker at the end of `l`) -/
theorem context_lines_are_the_neighbours (L : Spec.FloatLaws) (o : Opts)
    (ho : dispatchTag o = .list) (hm : isMerge o = false) (a b : Json)
    (ha1 : a.listDoc = true) (ha2 : a.wf = true) (ha3 : a.finiteNums = true)
    (ha4 : DPL.memOK a = true)
    (hb1 : b.listDoc = true) (hb2 : b.wf = true) (hb3 : b.finiteNums = true)
    (hb4 : DPL.memOK b = true)
    (H : DPL.HashOK o a b) (Z : DPL.ZeroOK a b) (D1 : Diff) (h : Hunk) (D2 : Diff)
    (hd : diffM o a b = D1 ++ h :: D2) (q : Path) (i : Nat) (hp : h.path = q ++ [.idx (i : Int)])
    (hbl : h.before.length = 1) (hal : h.after.length = 1) :
    ∃ (m : Json) (t : Tag) (l : List Json), Spec.applyStrictAll a D1 = some m ∧
      Real.getAt m q = some (.arr t l) ∧ Rec.CtxIsNeighbours l i h :=
  Rec.diffM_context_is_neighbours L o ho hm a b ha1 ha2 ha3 ha4 hb1 hb2 hb3 hb4 H Z D1 h D2 hd q i
    hp hbl hal

/-- **3b and 3c together, every level, documents as read from text**: if the path of a hunk `h` of
    `a.Diff(b)` ends with a list index `i` — the hunk edits an array position — then, after the hunks
    before it have been applied to `a`, the node at the path of `h` without its last element is a
    list `l`, `0 ≤ i`, and `h` carries exactly one before- and one after-context line, equal to the
    neighbours of the edited run in `l` or to the boundary marker -/
theorem context_lines_are_the_neighbours_at_every_level (L : Spec.FloatLaws) (o : Opts)
    (ho : dispatchTag o = .list) (hm : isMerge o = false) (a b : Json)
    (ha1 : a.rawDoc = true) (ha2 : a.wf = true) (ha3 : a.finiteNums = true)
    (ha4 : DPL.memOK a = true)
    (hb1 : b.rawDoc = true) (hb2 : b.wf = true) (hb3 : b.finiteNums = true)
    (hb4 : DPL.memOK b = true)
    (H : DPL.HashOK o a b) (Z : DPL.ZeroOK a b) (D1 : Diff) (h : Hunk) (D2 : Diff)
    (hd : diffM o a b = D1 ++ h :: D2) (i : Int) (hlast : h.path.getLast? = some (.idx i)) :
    ∃ (m : Json) (t : Tag) (l : List Json), Spec.applyStrictAll a D1 = some m ∧
      Real.getAt m h.path.dropLast = some (.arr t l) ∧ 0 ≤ i ∧ Rec.CtxIsNeighbours l i.toNat h :=
  Rec.diffM_context_all_levels L o ho hm a b ha1 ha2 ha3 ha4 hb1 hb2 hb3 hb4 H Z D1 h D2 hd i hlast

/-- what `Rec.CtxIsNeighbours l i h` says, field by field (so that the two theorems above can be read
    without JdProofs/ListRecursion.lean): the removed run fits in `l` at `i` and equals the elements
    there; there is exactly one before-context line `prev` and one after-context line `next`; `prev`
    is the boundary marker when `i = 0` and otherwise equals `l[i-1]`; `next` equals the element
    following the removed run, or is the boundary marker when the run ends the list -/
theorem ctx_is_neighbours_unfolded {l : List Json} {i : Nat} {h : Hunk}
    (c : Rec.CtxIsNeighbours l i h) :
    i + h.remove.length ≤ l.length ∧
    Spec.prefixEq h.remove (l.drop i) = true ∧
    ∃ prev next, h.before = [prev] ∧ h.after = [next] ∧
      (i = 0 → prev.isVoid = true) ∧
      (∀ j, i = j + 1 → ∃ z, l[j]? = some z ∧ Spec.specEq prev z = true) ∧
      (match l[i + h.remove.length]? with
       | some z => Spec.specEq next z = true
       | none => next.isVoid = true) := by
  obtain ⟨h1, h2, prev, next, hb, ha, h3, h4⟩ := c
  refine ⟨h1, h2, prev, next, hb, ha, ?_, ?_, h4⟩
  · intro h0; subst h0; exact h3
  · intro j hj; subst hj; exact h3

/-- **static form, top-level array, NO hash-collision hypothesis**: every hunk of the diff of two
    arrays of good elements is `Real.Located [] xs ys` — addressed to `[.idx i]`, `remove` a contiguous
    run of `xs`, `add` the contiguous run of `ys` standing at index `i`, `before` LITERALLY the element
    of `ys` just before that run (void at the start), `after` LITERALLY the element of `xs` following
    the removed run (void at the end) — or belongs to the sub-diff of two same-kind containers -/
theorem context_lines_are_elements_of_the_arrays {o : Opts} (ho : dispatchTag o = .list)
    (hm : isMerge o = false) {t t' : Tag} (xs ys : List Json)
    (ht : (t == .raw || t == .list) = true) (ht' : (t' == .raw || t' == .list) = true)
    (htt : t = .raw ∨ t' = .list) (gx : DPL.GoodL xs) (gy : DPL.GoodL ys)
    (Z : Rec.NumHashOK o (DPL.subtermsList xs) (DPL.subtermsList ys))
    (nomix : ∀ x ∈ xs, ∀ y ∈ ys, mixedPair x y = false) :
    ∀ h ∈ diffM o (.arr t xs) (.arr t' ys),
      Real.Located [] xs ys h ∨
      (∃ (preA : List Json) (x : Json) (postA preB : List Json) (y : Json) (postB : List Json),
        xs = preA ++ x :: postA ∧ ys = preB ++ y :: postB ∧ sameContainerType o x y = true ∧
          h ∈ diffNode o false x y [.idx (preB.length : Int)]) :=
  Rec.diffM_located_containers ho hm xs ys ht ht' htt gx gy Z nomix

/-- `Rec.NumHashOK` follows from the `0` / `-0` exclusion of the C01 domain -/
theorem numHashOK_of_no_zero_pair {o : Opts} {S T : List Json}
    (Z : ∀ u v, Json.num u ∈ S → Json.num v ∈ T → numWithin 0 u v = true → u = v) :
    Rec.NumHashOK o S T :=
  Rec.numHashOK_of_zero Z

/-- **WITNESS, outside the domain** (why `wf` is a hypothesis of 3c): `["p", {"a":"u"}]` against
    `["q", {"a":"u","a":"v"}]` — the second object has a duplicate key, which no Go map holds. The two
    objects have different hash codes and an EMPTY sub-diff; the single hunk `@ [0] [ - "p" + "q" ]`
    takes its after-context from the position after the object (the array end) instead of the
    neighbour `{"a":"u"}`, and the reference interpreter rejects the diff. -/
theorem context_is_not_the_neighbour_outside_wf :
    (Json.arr .raw Rec.Example.yw).wf = false ∧
    diffM [] (.arr .raw Rec.Example.xw) (.arr .raw Rec.Example.yw) =
      [{ path := [.idx 0], before := [.void], remove := [.str "p"], add := [.str "q"],
         after := [.void] }] ∧
    Spec.applyStrictAll (.arr .raw Rec.Example.xw)
      (diffM [] (.arr .raw Rec.Example.xw) (.arr .raw Rec.Example.yw)) = none :=
  ⟨Rec.Example.nonwf_context_not_neighbour.1, Rec.Example.nonwf_diff,
    Rec.Example.nonwf_context_not_neighbour.2⟩

/-! ### 3d. the count bound with containers -/

/-- the array-level hunks of `a.Diff(b)` remove at most `|xs| − LCS` and add at most `|ys| − LCS`
    elements, LCS the textbook longest-common-subsequence length of the two hash lists (for arrays of
    scalars `scalar_array_diff_counts` gives equality, and every hunk is array-level) -/
theorem container_array_counts_bounded_by_lcs {o : Opts} (ho : dispatchTag o = .list)
    (hm : isMerge o = false) {t t' : Tag} (xs ys : List Json)
    (ht : (t == .raw || t == .list) = true) (ht' : (t' == .raw || t' == .list) = true)
    (htt : t = .raw ∨ t' = .list)
    (hla : listDocList xs = true) (hlb : listDocList ys = true) :
    (Rec.removedTop [] (diffM o (.arr t xs) (.arr t' ys))).length ≤
        xs.length - lcsLenSpec (hashList o xs) (hashList o ys) ∧
    (Rec.addedTop [] (diffM o (.arr t xs) (.arr t' ys))).length ≤
        ys.length - lcsLenSpec (hashList o xs) (hashList o ys) :=
  Rec.diffM_top_removes_adds_le ho hm xs ys ht ht' htt hla hlb

/-- hence no more than ANY edit script that keeps a common subsequence `c'` of equal-hash elements -/
theorem container_array_diff_no_worse_than_any_matching {o : Opts} (ho : dispatchTag o = .list)
    (hm : isMerge o = false) {t t' : Tag} (xs ys : List Json)
    (ht : (t == .raw || t == .list) = true) (ht' : (t' == .raw || t' == .list) = true)
    (htt : t = .raw ∨ t' = .list)
    (hla : listDocList xs = true) (hlb : listDocList ys = true)
    (c' : List UInt64) (h1 : c'.Sublist (hashList o xs)) (h2 : c'.Sublist (hashList o ys)) :
    (Rec.removedTop [] (diffM o (.arr t xs) (.arr t' ys))).length ≤ xs.length - c'.length ∧
    (Rec.addedTop [] (diffM o (.arr t xs) (.arr t' ys))).length ≤ ys.length - c'.length := by
  have hc := lcsLenSpec_upper (hashList o xs) (hashList o ys) c' h1 h2
  have hb := Rec.diffM_top_removes_adds_le ho hm xs ys ht ht' htt hla hlb
  omega

/-! ### Non-vacuity of Part 3 (documents of `Rec.Example`)

  `xsE = [{"a":"u"}, ["p"]]`, `ysE = [{"a":"v"}, ["p","q"]]`: same kinds position by position, no hash
  code in common, raw list documents, good elements, no number at all. The diff has two hunks, both
  inside the elements: `@ [0,"a"] - "u" + "v"` and `@ [1,1] "p" + "q" ]`. -/

example : Rec.sameKinds [] Rec.Example.xsE Rec.Example.ysE = true ∧
    (∀ x ∈ Rec.Example.xsE, ∀ y ∈ Rec.Example.ysE, hashCode [] x ≠ hashCode [] y) :=
  ⟨Rec.Example.same, Rec.Example.apart⟩

example : diffM [] (.arr .raw Rec.Example.xsE) (.arr .raw Rec.Example.ysE) =
    ((Rec.Example.xsE.zip Rec.Example.ysE).zipIdx).flatMap
      (fun q => diffNode [] false q.1.1 q.1.2 [.idx (q.2 : Int)]) :=
  same_kind_containers_are_recursed_into rfl rfl _ _ rfl rfl (.inl rfl) Rec.Example.same
    Rec.Example.nomixE Rec.Example.apart

/-- the hypotheses of `recursion_at_reached_position` with a NON-empty common sequence:
    `["k", {"a":"u"}, ["p"]]` against `["k", {"a":"v"}, ["p","q"]]`, the walk after the common `"k"` -/
example : Rec.Reach [] (.str "k" :: Rec.Example.xsE) (.str "k" :: Rec.Example.ysE)
    [hashCode [] (.str "k")] Rec.Example.xsE Rec.Example.ysE [] :=
  Rec.Example.reachK

/-- the hypotheses of the static context theorem -/
example : DPL.GoodL Rec.Example.xsE ∧ DPL.GoodL Rec.Example.ysE :=
  ⟨Rec.Example.goodX, Rec.Example.goodY⟩

/-- the hypotheses of the operational context theorems: the three-hunk example of C01 (one hunk
    inside a nested list) -/
example (L : Spec.FloatLaws) (D1 : Diff) (h : Hunk) (D2 : Diff)
    (hd : diffM [] DPL.Example.exA DPL.Example.exB = D1 ++ h :: D2) :
    ∃ m m', Spec.applyStrictAll DPL.Example.exA D1 = some m ∧
      Spec.applyStrict m h.path h = some m' := by
  obtain ⟨h1, h2, h3, h4, h5, h6, h7, h8, h9, h10⟩ := DPL.Example.hyps L
  obtain ⟨m, m', g1, g2, _⟩ :=
    hunk_applies_where_it_is_addressed L [] rfl rfl _ _ h1 h2 h3 h4 h5 h6 h7 h8 h9 h10 D1 h D2 hd
  exact ⟨m, m', g1, g2⟩

end Jd.Props.C06
