/-
  Property C06 — list diffs are minimal (LCS) and carry adjacent context.
  Statement file (proofs in JdProofs/LcsProofs.lean; the diffRest part is in JdProofs/DiffPatchList.lean
  when available).

  Proved here: the model of github.com/yudai/golcs (`lcsValues`, the dynamic-programming table and
  the back-tracking exactly as the library does them — compared with the real library on every run
  through the diffs it produces) returns a COMMON subsequence of MAXIMAL length. This is the
  contract on which minimality of the list diff rests.
-/
import JdProofs.LcsProofs

namespace Jd.Props.C06
open Jd

variable {α : Type} [BEq α] [LawfulBEq α]

theorem lcs_is_common_subsequence (a b : List α) :
    (lcsValues a b).Sublist a ∧ (lcsValues a b).Sublist b :=
  ⟨lcsValues_sublist_left a b, lcsValues_sublist_right a b⟩

theorem lcs_is_longest (a b c : List α) (ha : c.Sublist a) (hb : c.Sublist b) :
    c.length ≤ (lcsValues a b).length :=
  lcs_optimal a b c ha hb

theorem lcs_length_is_table_corner (a b : List α) : (lcsValues a b).length = lcsLength a b :=
  lcsValues_length a b

theorem table_is_textbook_recurrence (a b : List α) : lcsLength a b = lcsLenSpec a b :=
  lcsLength_eq a b

/-- the statements are not vacuous: a concrete common subsequence is bounded by the model's LCS -/
example : ([1, 2, 3] : List Nat).length ≤ (lcsValues [1, 2, 2, 3] [1, 2, 2, 2, 3]).length :=
  lcs_optimal _ _ _ (by decide) (by decide)

end Jd.Props.C06
