/-
  Property C09 — the RFC 6902 output means the same as the native diff.
  Statement file (proofs in JdProofs/PatchRender.lean and, for the statements about the hunks that
  `Diff` itself generates — sections 6 and 7 below —, JdProofs/PatchRenderClosed.lean, namespace
  `Jd.PRC`; two compositions with JdProofs/StrictPatch.lean and JdProofs/DiffPatchList.lean are made
  here).

  Model side: `renderPatchOps d` / `renderPatchHunk h` (JdModel/PatchFmt.lean) is
  `Diff.RenderPatch()` before JSON encoding: a list of operations `{op, path, value}`;
  `writePointerPath p` is the JSON Pointer jd writes for a path (JdModel/Pointer.lean).
  Spec side: `eval c ops` (JdSpec/Rfc6902.lean), an evaluator of RFC 6902 written from the RFC
  (`parsePointer`, `decodeToken`, `arrayIndex?` from RFC 6901), independent of jd;
  `applyStrict` / `applyStrictAll` (JdSpec/HunkSem.lean), the documented meaning of native hunks,
  which IS the library's `Patch` on strict hunks (C03). Results are compared up to the Go dynamic
  type of array nodes (`untag`).

  DIRECTION: wherever the native diff applies, the JSON Patch applies too, with the same result.
  The converse (jd's JSON Patch never applies where the native diff is rejected) is not claimed.

  WHAT IS STATED
   1. pointers: escape / decode round trip; `writePointerPath` accepts exactly key / index paths whose
      keys are not number-like and not "-", writes `/esc(t₁)/esc(t₂)…`, and the text parses back
      (RFC 6901) to the tokens of the path; every other path is REFUSED with an error (refusal clause
      of the property); the decimal text of an index is an RFC 6901 array index.
   2. one hunk, and a whole diff, on ANY target `c` where the native hunks apply
      (`rendered_hunk_simulates_native`, `rendered_patch_simulates_native`), and the same phrased with
      the library's `Patch` (`library_patch_applies_implies_rfc6902_applies`, composed here with C03).
   3. on the source itself (composed here with the C01 list theorem):
      `rendered_patch_of_diff_yields_target` — `eval a (RenderPatch(a.Diff(b)))` is `b`, with the side
      conditions on the generated hunks as a hypothesis; section 6 discharges it.
   4. well-formedness: every operation is a `test`, `remove` or `add` with a parsing pointer.
   5. OBSERVATIONS (proved counter-examples for HAND-WRITTEN hunks at index −1, which `Diff` never
      produces): two values appended by one hunk come out reversed; a context line on an append hunk
      renders to a `test` at the pointer slash-minus-two that no RFC 6902 evaluator can resolve. They are why `HunkOK`
      restricts append hunks.
   6. CLOSED FORM (the hunks of `a.Diff(b)`, list reading, strict strategy, full nesting):
      `generated_hunks_satisfy_side_conditions`: every hunk of `a.Diff(b)` is `HunkOK ∧ HunkRange` — a
      THEOREM about `Diff`, no longer a hypothesis; `generated_paths_expressible`: if every object key
      of `a` and of `b` is expressible (`PRC.keysExpressible`, decidable; `key_ok_iff_expressible`), so
      is every path element of every hunk; `render_of_diff_succeeds_iff_paths_expressible` /
      `render_of_diff_is_error_iff_some_path_inexpressible`: on the domain `RenderPatch(a.Diff(b))`
      succeeds EXACTLY when every path element of every hunk is expressible and is an ERROR exactly
      otherwise; it never panics (`render_never_panics`, any diff) and ANY diff with an inexpressible
      path element in some hunk is refused (`render_refuses_inexpressible_path`);
      `rendered_patch_of_diff_yields_target_closed` — statement 3 with NO hypothesis on hunks:
      `RenderPatch(a.Diff(b))` succeeds, consists of `test` / `remove` / `add`, and the RFC 6902
      evaluator turns `a` into `b` (`specEq` both ways); `…_of_paths`: the same under the sharp
      condition (expressible PATHS of the diff; keys inside removed / added values are unrestricted).
   7. REFUSAL FROM THE INPUTS (`q` a path of object keys, `Real.getAt` navigation by keys):
      `refuses_changed_location_at_bad_path`: `a` and `b` hold `u`, `u'` at `q`, `q` contains a key
      that is number-like or "-", `u.Diff(u')` is not empty ⇒ `RenderPatch(a.Diff(b))` is an error;
      `refuses_changed_value_at_bad_path`: the same with "`u`, `u'` structurally different" on the C01
      domain; `refuses_removed_member_at_bad_path`, `refuses_added_member_at_bad_path`: a member
      present on one side only whose key, or a key above it, is number-like or "-" (these two in
      every array reading). So a changed location at or below such a key is always refused with an
      error, never mistranslated. (A changed location below such a key but reached through a LIST
      index in between is covered by 6, not by the input-level statements.)
   8. BOUNDARY WITNESSES: `void_array_element_is_outside_the_domain` — `[void]` against `[null]`
      satisfies every hypothesis of the C01 list theorem, the native diff applies, but `RenderPatch`
      silently drops a removal whose first value is the void marker and the evaluated patch is
      `[null, void]`: why `vfree` is asked. `object_against_void_is_not_hunkOK` — the one generated
      hunk that is not `HunkOK` (`{…}.Diff(void)` ADDS the void marker); it is excluded from
      `generated_hunks_satisfy_side_conditions` and NOT from the closed theorem, which treats it
      separately. Both concern jd's in-memory "no value", which no reader produces inside a
      document: boundaries of the model's domain, not defects of the Go code.

  HYPOTHESES and why
    `FloatLaws`: a context `test` compares document value with hunk value in the other order than the
       native patch does (symmetry of `|x − y| ≤ eps`);
    `c.wf`: unique sorted keys (Go map); `remove k; add k` on an unsorted association list would move
       the member;
    `HunkOK h`: removed / added values are not the void marker, contexts and added values are
       well-formed, and an append hunk (index −1) adds at most one value and has no real context;
    `HunkRange h`: every index written is below 2^53 in magnitude (it travels through a float64).
    In statement 3 `HunkOK ∧ HunkRange` for the hunks of the generated diff is a hypothesis. It is
    PROVED in section 6 (`generated_hunks_satisfy_side_conditions`) under:
    `a.listDoc`, `b.listDoc`, `dispatchTag o = .list`, `isMerge o = false`: list reading, strict
       strategy (the domain of C09 / C01);
    `a.wf`, `b.wf`: context lines and added values are sub-documents of `a` and `b`, `HunkOK` asks
       them well-formed;
    `PRC.vfree a`, `PRC.vfree b` (decidable): no void marker strictly inside the document, neither as
       an object member (`DPL.memOK`, already in the C01 domain) nor as an ARRAY ELEMENT (new, and
       necessary: witness 8); the root may be void;
    `PRC.lenLe Na a`, `PRC.lenLe Nb b` (every array of `a` / `b` has at most `Na` / `Nb` elements) with
       `Na + Nb < 2^53`: list indices travel through a float64. The SUM is needed, not each bound
       alone: the index written for the after-context test is `start + |remove|`, where `start`
       counts elements of the partially patched array (up to `|ys|`) and `remove` holds elements of
       `xs`. Every document has such a bound (`every_document_has_a_length_bound`); the
       success / refusal equivalences of 6 need none;
    `(a.isObj && b.isVoid) = false` in `generated_hunks_satisfy_side_conditions` only (witness 8).
    The closed theorem additionally takes the hypotheses of the C01 list theorem (`finiteNums`,
    `HashOK`, `ZeroOK`, `FloatLaws`; `memOK` follows from `vfree`) and EITHER
    `PRC.keysExpressible a`, `PRC.keysExpressible b` (sufficient, decidable on the inputs) OR the sharp
    condition "every path element of every hunk of `a.Diff(b)` is expressible", which by 6 is
    exactly the condition under which `RenderPatch` succeeds.
    REFUSAL is stated for any diff (1, 6), for generated diffs as an equivalence (6), and from the
    inputs (7); 7 is about key-only navigation; its first theorem needs `listDoc` and the list reading,
    `refuses_changed_value_at_bad_path` also the C01 domain (`DPL.Good`, `HashOK`, `ZeroOK`,
    `FloatLaws`).

  NOT PROVED / OUTSIDE
    the converse direction of 2 (see DIRECTION); set / multiset readings and the merge strategy (C09
    is a list-mode property); the text layer around the operations (`renderPatchM`: JSON marshalling
    of the patch document); `HashOK` / `ZeroOK` are inherited from the C01 list theorem.
-/
import JdProofs.PatchRender
import JdProofs.PatchRenderClosed
import JdProps.C09Text
import JdProps.C01Void

set_option autoImplicit false

namespace Jd.Props.C09
open Jd Jd.Spec

/-! ## 1. JSON Pointers (RFC 6901) -/

/-- escaping a key (`~` → `~0`, `/` → `~1`) then decoding it by RFC 6901 gives the key back -/
theorem pointer_escape_round_trip (k : String) :
    decodeToken (ptrEscape k).toList = some k.toList :=
  decodeToken_ptrEscape k

/-- what `writePointerPath` accepts, and the text it writes -/
theorem pointer_accepted_paths {p : Path} {s : String} (h : writePointerPath p = .ok s)
    (hr : idxRange p) :
    (∀ e ∈ p, expressible e) ∧
    s.toList = (ptoks p).flatMap (fun t => '/' :: escChars t.toList) :=
  writePointerPath_ok h hr

/-- REFUSAL: a path with a set / multiset / keyed element, a number-like key or the key "-" is
    refused with an error rather than mistranslated -/
theorem pointer_refuses_inexpressible {p : Path} (h : ∃ e ∈ p, ¬ expressible e) :
    writePointerPath p = .err :=
  writePointerPath_refuses h

/-- the pointer jd writes for an expressible path parses (RFC 6901) to the path's tokens -/
theorem pointer_parses_back {p : Path} (hr : idxRange p) {s : String}
    (hs : writePointerPath p = .ok s) : parsePointer s = some (ptoks p) :=
  ptrOK_of_range hr s hs

/-- the decimal text of a non-negative index is an RFC 6901 array index denoting it -/
theorem index_text_is_array_index {i : Int} (h : 0 ≤ i) : arrayIndex? (toString i) = some i.toNat :=
  arrayIndex_toString h

/-! ## 2. the rendered patch simulates the native hunks, on every target -/

/-- one hunk: the native hunk applies to `c` ⇒ its rendered JSON Patch applies to `c` (independent
    RFC 6902 evaluator) with the same result up to array tags -/
theorem rendered_hunk_simulates_native (L : FloatLaws) {c r : Json} {h : Hunk} {ops : List PatchOp}
    (hw : c.wf = true) (hok : HunkOK h) (hr : HunkRange h)
    (e : applyStrict c h.path h = some r) (er : renderPatchHunk h = .ok ops) :
    ∃ r', eval c (ops.map PatchOp.toSpec) = some r' ∧ untag r' = untag r :=
  renderPatchHunk_correct L hw hok hr e er

/-- a whole diff -/
theorem rendered_patch_simulates_native (L : FloatLaws) {d : Diff} {c r : Json} {ops : List PatchOp}
    (hw : c.wf = true) (hd : ∀ h ∈ d, HunkOK h ∧ HunkRange h)
    (e : applyStrictAll c d = some r) (er : renderPatchOps d = .ok ops) :
    ∃ r', eval c (ops.map PatchOp.toSpec) = some r' ∧ untag r' = untag r :=
  renderPatchOps_correct L hw hd e er

/-- the same with the LIBRARY's `Patch` as the native side (composition with C03): on any list
    document where the library applies the strict diff `d`, the rendered JSON Patch applies too, with
    the same result up to array tags -/
theorem library_patch_applies_implies_rfc6902_applies (L : FloatLaws) (sw : Bool) {d : Diff}
    {c r : Json} {ops : List PatchOp} (hw : c.wf = true) (hl : c.listDoc = true)
    (hs : d.all (fun h => !h.merge && strictPath h.path && hunkListDoc h) = true)
    (hd : ∀ h ∈ d, HunkOK h ∧ HunkRange h)
    (e : patchAll sw c d = .ok r) (er : renderPatchOps d = .ok ops) :
    ∃ r', eval c (ops.map PatchOp.toSpec) = some r' ∧ untag r' = untag r := by
  obtain ⟨m, hm, hu⟩ := strictAll_result sw c d hs hl r e
  obtain ⟨r', h1, h2⟩ := renderPatchOps_correct L hw hd hm er
  exact ⟨r', h1, by rw [h2, hu]⟩

/-! ## 3. on the source: the rendered patch of `a.Diff(b)` turns `a` into `b` -/

/-- composition with the C01 list theorem (hypotheses of `Jd.DPL.diffM_list_correct`, see
    JdProps/C01.lean): the JSON Patch rendered from `a.Diff(b)`, evaluated by RFC 6902 on `a`, yields
    a document structurally equal to `b` -/
theorem rendered_patch_of_diff_yields_target (L : FloatLaws) (o : Opts)
    (ho : dispatchTag o = .list) (hm : isMerge o = false) (a b : Json)
    (ha1 : a.listDoc = true) (ha2 : a.wf = true) (ha3 : a.finiteNums = true)
    (ha4 : DPL.memOK a = true)
    (hb1 : b.listDoc = true) (hb2 : b.wf = true) (hb3 : b.finiteNums = true)
    (hb4 : DPL.memOK b = true)
    (H : DPL.HashOK o a b) (Z : DPL.ZeroOK a b)
    (hd : ∀ h ∈ diffM o a b, HunkOK h ∧ HunkRange h)
    {ops : List PatchOp} (er : renderPatchOps (diffM o a b) = .ok ops) :
    ∃ r', eval a (ops.map PatchOp.toSpec) = some r' ∧ specEq r' b = true := by
  obtain ⟨r, hr, hs, _⟩ :=
    DPL.diffM_list_correct L o ho hm a b ha1 ha2 ha3 ha4 hb1 hb2 hb3 hb4 H Z
  obtain ⟨r', h1, h2⟩ := renderPatchOps_correct L ha2 hd hr er
  exact ⟨r', h1, by rw [← specEq_untag_left, h2, specEq_untag_left]; exact hs⟩

/-! ## 4. well-formedness of the rendered document -/

/-- every operation of a rendered diff is a `test`, a `remove` or an `add` -/
theorem rendered_ops_are_test_remove_add {d : Diff} {ops : List PatchOp}
    (e : renderPatchOps d = .ok ops) : ∀ o ∈ ops, o.wfOp :=
  renderPatchOps_wfOps e

/-- every operation of a rendered hunk carries a well-formed JSON Pointer -/
theorem rendered_ops_pointers_parse {h : Hunk} {ops : List PatchOp} (hr : HunkRange h)
    (er : renderPatchHunk h = .ok ops) : ∀ o ∈ ops, (parsePointer o.path).isSome = true :=
  renderPatchHunk_paths_parse hr er

/-! ## 5. observations: hand-written hunks at index −1 (never produced by `Diff`) -/

/-- `@ [-1]  + "a"  + "b"` on `[null]`: natively `[null,"a","b"]`; rendered as two `add` at the pointer slash-dash, last
    value first, which RFC 6902 evaluates to `[null,"b","a"]` -/
theorem append_two_values_reversed :
    applyStrict cexDoc cexAppend2.path cexAppend2 = some (Json.arr .raw [.null, .str "a", .str "b"]) ∧
    renderPatchHunk cexAppend2 = .ok cexOps ∧
    eval cexDoc (cexOps.map PatchOp.toSpec) = some (Json.arr .raw [.null, .str "b", .str "a"]) :=
  cex_append_reversed

/-- an append hunk carrying a before-context line applies natively (the context is not looked at)
    but renders to a `test` at the pointer slash-minus-two, which RFC 6902 rejects -/
theorem append_with_context_rejected :
    applyStrict cexDoc cexAppendCtx.path cexAppendCtx = some (Json.arr .raw [.null, .str "a"]) ∧
    renderPatchHunk cexAppendCtx = .ok cexOps2 ∧
    eval cexDoc (cexOps2.map PatchOp.toSpec) = none :=
  cex_append_context

/-! ## Non-vacuity of 2

  `{"a~/b": null}` with the hunk `@ ["a~/b"]  - null  + "x"` (a key that needs both escapes): the
  hypotheses hold and the native hunk applies. -/

private def exDoc : Json := .obj [("a~/b", .null)]
private def exHunk : Hunk := { path := [.key "a~/b"], remove := [.null], add := [.str "x"] }

example : exDoc.wf = true ∧ HunkOK exHunk ∧ HunkRange exHunk ∧
    applyStrict exDoc exHunk.path exHunk = some (.obj [("a~/b", .str "x")]) := by
  refine ⟨by decide, ⟨?_, ?_, by decide, by decide, by decide, ?_⟩, ⟨?_, ?_⟩, ?_⟩
  · intro x hx; simp [exHunk] at hx; subst hx; rfl
  · intro x hx; simp [exHunk] at hx; subst hx; rfl
  · intro h; simp [exHunk, lastIdx?] at h
  · intro i hi; simp [exHunk] at hi
  · intro i hi; simp [exHunk, lastIdx?] at hi
  · simp [exDoc, exHunk, applyStrict, alookup, single, Json.singleValue, specEq, equivB, Json.isVoid,
      ainsert]

/-! ## 6. closed form: the hunks `Diff` generates (JdProofs/PatchRenderClosed.lean)

  `PRC.vfree`, `PRC.lenLe N`, `PRC.keysExpressible` are decidable predicates on documents (no void
  marker strictly inside; every array has at most `N` elements; every object key is expressible). -/

/-- a key is accepted by `PRC.keysExpressible` exactly when it is `expressible` as a path element:
    not number-like for `strconv.Atoi`, not "-" -/
theorem key_ok_iff_expressible (k : String) : PRC.keyOK k = true ↔ expressible (.key k) :=
  PRC.keyOK_iff k

/-- **`HunkOK` and `HunkRange` are theorems about `Diff`** (list reading, full nesting): every hunk
    of `a.Diff(b)` satisfies the side conditions of the rendering theorems of section 2 — except
    for an object against "no document" (`object_against_void_is_not_hunkOK`) -/
theorem generated_hunks_satisfy_side_conditions (o : Opts) (ho : dispatchTag o = .list)
    (hm : isMerge o = false) (a b : Json)
    (ha1 : a.listDoc = true) (ha2 : a.wf = true) (ha4 : PRC.vfree a = true)
    (hb1 : b.listDoc = true) (hb2 : b.wf = true) (hb4 : PRC.vfree b = true)
    {Na Nb : Nat} (la : PRC.lenLe Na a = true) (lb : PRC.lenLe Nb b = true)
    (hN : Na + Nb < 2 ^ 53) (hv : (a.isObj && b.isVoid) = false) :
    ∀ h ∈ diffM o a b, HunkOK h ∧ HunkRange h :=
  PRC.diffM_hunks_ok o ho hm a b ha1 ha2 ha4 hb1 hb2 hb4 la lb hN hv

/-- the same with a single bound `N` on the array lengths of both documents -/
theorem generated_hunks_satisfy_side_conditions_one_bound (o : Opts) (ho : dispatchTag o = .list)
    (hm : isMerge o = false) (a b : Json)
    (ha1 : a.listDoc = true) (ha2 : a.wf = true) (ha4 : PRC.vfree a = true)
    (hb1 : b.listDoc = true) (hb2 : b.wf = true) (hb4 : PRC.vfree b = true)
    {N : Nat} (la : PRC.lenLe N a = true) (lb : PRC.lenLe N b = true) (hN : 2 * N < 2 ^ 53)
    (hv : (a.isObj && b.isVoid) = false) : ∀ h ∈ diffM o a b, HunkOK h ∧ HunkRange h :=
  PRC.diffM_hunks_ok_N o ho hm a b ha1 ha2 ha4 hb1 hb2 hb4 la lb hN hv

/-- every document has a length bound (the hypothesis `PRC.lenLe` is never the obstacle; only
    `Na + Nb < 2^53` restricts) -/
theorem every_document_has_a_length_bound (a : Json) : PRC.lenLe (PRC.maxLen a) a = true :=
  PRC.lenLe_maxLen a

/-- if every object key of `a` and of `b` is expressible, every path element of every hunk of
    `a.Diff(b)` is (a key of that kind, or a list index) -/
theorem generated_paths_expressible (o : Opts) (ho : dispatchTag o = .list) (hm : isMerge o = false)
    (a b : Json) (ha1 : a.listDoc = true) (hb1 : b.listDoc = true)
    (ka : PRC.keysExpressible a = true) (kb : PRC.keysExpressible b = true) :
    ∀ h ∈ diffM o a b, ∀ e ∈ h.path, expressible e :=
  PRC.diffM_paths_expressible o ho hm a b ha1 hb1 ka kb

/-- **when `RenderPatch` succeeds on `a.Diff(b)`**: exactly when every path element of every hunk is
    expressible (no bound on lengths needed) -/
theorem render_of_diff_succeeds_iff_paths_expressible (o : Opts) (ho : dispatchTag o = .list)
    (hm : isMerge o = false) (a b : Json)
    (ha1 : a.listDoc = true) (ha2 : a.wf = true) (ha4 : PRC.vfree a = true)
    (hb1 : b.listDoc = true) (hb2 : b.wf = true) (hb4 : PRC.vfree b = true) :
    (∃ ops, renderPatchOps (diffM o a b) = .ok ops) ↔
      ∀ h ∈ diffM o a b, ∀ e ∈ h.path, expressible e :=
  PRC.render_diffM_ok_iff o ho hm a b ha1 ha2 ha4 hb1 hb2 hb4

/-- **REFUSAL on generated diffs**: otherwise `RenderPatch` returns an ERROR — not a panic, not a
    mistranslated patch -/
theorem render_of_diff_is_error_iff_some_path_inexpressible (o : Opts) (ho : dispatchTag o = .list)
    (hm : isMerge o = false) (a b : Json)
    (ha1 : a.listDoc = true) (ha2 : a.wf = true) (ha4 : PRC.vfree a = true)
    (hb1 : b.listDoc = true) (hb2 : b.wf = true) (hb4 : PRC.vfree b = true) :
    renderPatchOps (diffM o a b) = .err ↔ ∃ h ∈ diffM o a b, ∃ e ∈ h.path, ¬ expressible e :=
  PRC.render_diffM_err_iff o ho hm a b ha1 ha2 ha4 hb1 hb2 hb4

/-- `RenderPatch` never panics, on any diff -/
theorem render_never_panics (d : Diff) : renderPatchOps d ≠ .panic :=
  PRC.renderPatchOps_ne_panic d

/-- REFUSAL, any diff (hand-written ones included): one hunk with a set / multiset / keyed path
    element, a number-like key or the key "-" makes `RenderPatch` fail with an error -/
theorem render_refuses_inexpressible_path {d : Diff} {h : Hunk} (hm : h ∈ d)
    (hb : ∃ e ∈ h.path, ¬ expressible e) : renderPatchOps d = .err :=
  PRC.renderPatchOps_refuses hm hb

/-- **C09 on the source, closed**: for `a`, `b` in the C01 list domain (list documents, sorted unique
    keys, finite numbers, no void marker inside, no hash collision, no `0` / `-0` pair), array lengths
    bounded by `Na`, `Nb` with `Na + Nb < 2^53`, all object keys expressible as JSON Pointer tokens:
    `RenderPatch(a.Diff(b))` SUCCEEDS, is a list of `test` / `remove` / `add` operations, and the
    independent RFC 6902 evaluator turns `a` into a document structurally equal to `b`.
    No hypothesis on the hunks. -/
theorem rendered_patch_of_diff_yields_target_closed (L : FloatLaws) (o : Opts)
    (ho : dispatchTag o = .list) (hm : isMerge o = false) (a b : Json)
    (ha1 : a.listDoc = true) (ha2 : a.wf = true) (ha3 : a.finiteNums = true)
    (ha4 : PRC.vfree a = true)
    (hb1 : b.listDoc = true) (hb2 : b.wf = true) (hb3 : b.finiteNums = true)
    (hb4 : PRC.vfree b = true)
    {Na Nb : Nat} (la : PRC.lenLe Na a = true) (lb : PRC.lenLe Nb b = true) (hN : Na + Nb < 2 ^ 53)
    (H : DPL.HashOK o a b) (Z : DPL.ZeroOK a b)
    (ka : PRC.keysExpressible a = true) (kb : PRC.keysExpressible b = true) :
    ∃ ops r, renderPatchOps (diffM o a b) = .ok ops ∧ (∀ op ∈ ops, op.wfOp) ∧
      eval a (ops.map PatchOp.toSpec) = some r ∧ specEq r b = true ∧ specEq b r = true :=
  PRC.rendered_patch_of_diff_yields_target_closed L o ho hm a b ha1 ha2 ha3 ha4 hb1 hb2 hb3 hb4 la lb
    hN H Z ka kb

/-- **sharp form**: the same under "the PATHS of the diff are expressible" — by
    `render_of_diff_succeeds_iff_paths_expressible` exactly the condition under which `RenderPatch`
    succeeds; keys inside removed / added values are unrestricted -/
theorem rendered_patch_of_diff_yields_target_of_paths (L : FloatLaws) (o : Opts)
    (ho : dispatchTag o = .list) (hm : isMerge o = false) (a b : Json)
    (ha1 : a.listDoc = true) (ha2 : a.wf = true) (ha3 : a.finiteNums = true)
    (ha4 : PRC.vfree a = true)
    (hb1 : b.listDoc = true) (hb2 : b.wf = true) (hb3 : b.finiteNums = true)
    (hb4 : PRC.vfree b = true)
    {Na Nb : Nat} (la : PRC.lenLe Na a = true) (lb : PRC.lenLe Nb b = true) (hN : Na + Nb < 2 ^ 53)
    (H : DPL.HashOK o a b) (Z : DPL.ZeroOK a b)
    (hp : ∀ h ∈ diffM o a b, ∀ e ∈ h.path, expressible e) :
    ∃ ops r, renderPatchOps (diffM o a b) = .ok ops ∧ (∀ op ∈ ops, op.wfOp) ∧
      eval a (ops.map PatchOp.toSpec) = some r ∧ specEq r b = true ∧ specEq b r = true :=
  PRC.rendered_patch_of_diff_yields_target_of_paths L o ho hm a b ha1 ha2 ha3 ha4 hb1 hb2 hb3 hb4 la lb
    hN H Z hp

/-! ## 7. refusal in terms of the INPUTS

  `q` is a path of object keys (`Real.keysOnly q`), `Real.getAt a q` the sub-document `a` holds
  there; "bad" = `q` contains an element that is not expressible, i.e. a key that is number-like or
  "-" (`key_ok_iff_expressible`). -/

/-- (i) `a` and `b` hold `u` and `u'` at a bad key path and `u.Diff(u')` is not empty:
    `RenderPatch(a.Diff(b))` is an error -/
theorem refuses_changed_location_at_bad_path {o : Opts} (ho : dispatchTag o = .list)
    (hm : isMerge o = false) {a b : Json} (ha : a.listDoc = true) (hb : b.listDoc = true)
    {q : Path} (hq : Real.keysOnly q = true) (hbad : ∃ e ∈ q, ¬ expressible e) {u u' : Json}
    (hu : Real.getAt a q = some u) (hu' : Real.getAt b q = some u')
    (hne : diffM o u u' ≠ []) : renderPatchOps (diffM o a b) = .err :=
  PRC.refuses_changed_at_bad_path ho hm ha hb hq hbad hu hu' hne

/-- (i) on the C01 domain: the values held at a bad key path differ structurally -/
theorem refuses_changed_value_at_bad_path (L : FloatLaws) {o : Opts} (ho : dispatchTag o = .list)
    (hm : isMerge o = false) {a b : Json} (ga : DPL.Good a) (gb : DPL.Good b)
    (H : DPL.HashOK o a b) (Z : DPL.ZeroOK a b) {q : Path} (hq : Real.keysOnly q = true)
    (hbad : ∃ e ∈ q, ¬ expressible e) {u u' : Json}
    (hu : Real.getAt a q = some u) (hu' : Real.getAt b q = some u') (hne : specEq u u' = false) :
    renderPatchOps (diffM o a b) = .err :=
  PRC.refuses_value_changed_at_bad_path L ho hm ga gb H Z hq hbad hu hu' hne

/-- (ii) a member removed at or below a key that is number-like or "-" (any array reading) -/
theorem refuses_removed_member_at_bad_path {o : Opts} (hm : isMerge o = false)
    {a b : Json} {q : Path} (hq : Real.keysOnly q = true)
    {kvs kvs' : List (String × Json)} (hu : Real.getAt a q = some (.obj kvs))
    (hu' : Real.getAt b q = some (.obj kvs')) {k : String} {w : Json} (hw : alookup k kvs = some w)
    (hw' : alookup k kvs' = none) (hbad : ∃ e ∈ q ++ [.key k], ¬ expressible e) :
    renderPatchOps (diffM o a b) = .err :=
  PRC.refuses_member_removed hm hq hu hu' hw hw' hbad

/-- (iii) a member added at or below a key that is number-like or "-" (any array reading) -/
theorem refuses_added_member_at_bad_path {o : Opts} (hm : isMerge o = false)
    {a b : Json} {q : Path} (hq : Real.keysOnly q = true)
    {kvs kvs' : List (String × Json)} (hu : Real.getAt a q = some (.obj kvs))
    (hu' : Real.getAt b q = some (.obj kvs')) {k : String} {w' : Json} (hw : alookup k kvs = none)
    (hw' : (k, w') ∈ kvs') (hbad : ∃ e ∈ q ++ [.key k], ¬ expressible e) :
    renderPatchOps (diffM o a b) = .err :=
  PRC.refuses_member_added hm hq hu hu' hw hw' hbad

/-- concrete: `{"1": null, "x": null}` against `{"1": true, "x": null}` is refused -/
theorem numberlike_key_is_refused :
    renderPatchOps (diffM [] PRC.Example.nA PRC.Example.nB) = .err :=
  PRC.Example.numberlike_key_refused

/-! ## 8. boundary witnesses (the void marker, jd's in-memory "no value") -/

/-- **why `vfree`**: `[void]` against `[null]` satisfies every hypothesis of the C01 list theorem
    (`DPL.Good`) but has a void ARRAY ELEMENT; the native diff applies and gives `[null]`; `RenderPatch`
    succeeds with the single operation `add /0 null` (the removal of a void value is dropped), and
    RFC 6902 gives `[null, void]`, which is not the target -/
theorem void_array_element_is_outside_the_domain :
    DPL.Good PRC.Example.vA ∧ DPL.Good PRC.Example.vB ∧ PRC.vfree PRC.Example.vA = false ∧
    (∃ r, applyStrictAll PRC.Example.vA (diffM [] PRC.Example.vA PRC.Example.vB) = some r ∧
      specEq r PRC.Example.vB = true) ∧
    renderPatchOps (diffM [] PRC.Example.vA PRC.Example.vB) =
      .ok [{ op := "add", path := "/0", value := .null }] ∧
    eval PRC.Example.vA
        (([{ op := "add", path := "/0", value := .null }] : List PatchOp).map PatchOp.toSpec) =
      some (.arr .raw [.null, .void]) ∧
    specEq (.arr .raw [.null, .void]) PRC.Example.vB = false :=
  PRC.Example.void_element_witness

/-- **the one generated hunk that is not `HunkOK`**: `{…}.Diff(void)` is the single hunk
    `PRC.objVoidHunk kvs` = remove the object, ADD THE VOID MARKER; it renders to `test ""`,
    `remove ""` (an addition whose first value is void is skipped). The closed theorem covers this
    pair all the same (the evaluator yields void). -/
theorem object_against_void_is_not_hunkOK (o : Opts) (hm : isMerge o = false)
    (kvs : List (String × Json)) :
    diffM o (.obj kvs) .void = [PRC.objVoidHunk kvs] ∧
    ¬ HunkOK (PRC.objVoidHunk kvs) ∧
    renderPatchOps [PRC.objVoidHunk kvs] =
      .ok [{ op := "test", path := "", value := .obj kvs },
           { op := "remove", path := "", value := .obj kvs }] :=
  ⟨PRC.diffM_obj_void o hm kvs, PRC.objVoidHunk_not_hunkOK kvs, PRC.render_objVoidHunk kvs⟩

/-! ### Non-vacuity of 6 (documents of `PRC.Example`)

  `exA = {"a~/b": [true, 1, [1], null], "k": null}`, `exB = {"a~/b": [false, 1, [1, 1], null, null],
  "m": 1}`: a key needing both escapes, three list hunks below it (one in the nested list), a member
  removed, a member added; every hypothesis of the closed theorem holds with `Na = 4`, `Nb = 5`. -/

example (L : FloatLaws) :
    PRC.Example.exA.listDoc = true ∧ PRC.Example.exA.wf = true ∧
    PRC.Example.exA.finiteNums = true ∧ PRC.vfree PRC.Example.exA = true ∧
    PRC.Example.exB.listDoc = true ∧ PRC.Example.exB.wf = true ∧
    PRC.Example.exB.finiteNums = true ∧ PRC.vfree PRC.Example.exB = true ∧
    PRC.lenLe 4 PRC.Example.exA = true ∧ PRC.lenLe 5 PRC.Example.exB = true ∧ 4 + 5 < 2 ^ 53 ∧
    DPL.HashOK [] PRC.Example.exA PRC.Example.exB ∧ DPL.ZeroOK PRC.Example.exA PRC.Example.exB ∧
    PRC.keysExpressible PRC.Example.exA = true ∧ PRC.keysExpressible PRC.Example.exB = true ∧
    (PRC.Example.exA.isObj && PRC.Example.exB.isVoid) = false :=
  PRC.Example.hyps L

example (L : FloatLaws) :
    ∃ ops r, renderPatchOps (diffM [] PRC.Example.exA PRC.Example.exB) = .ok ops ∧
      (∀ op ∈ ops, op.wfOp) ∧ eval PRC.Example.exA (ops.map PatchOp.toSpec) = some r ∧
      specEq r PRC.Example.exB = true ∧ specEq PRC.Example.exB r = true := by
  obtain ⟨h1, h2, h3, h4, h5, h6, h7, h8, h9, h10, h11, h12, h13, h14, h15, _⟩ :=
    PRC.Example.hyps L
  exact rendered_patch_of_diff_yields_target_closed L [] rfl rfl _ _ h1 h2 h3 h4 h5 h6 h7 h8 h9 h10
    h11 h12 h13 h14 h15

example (L : FloatLaws) :
    ∀ h ∈ diffM [] PRC.Example.exA PRC.Example.exB, HunkOK h ∧ HunkRange h := by
  obtain ⟨h1, h2, _, h4, h5, h6, _, h8, h9, h10, h11, _, _, _, _, h16⟩ := PRC.Example.hyps L
  exact generated_hunks_satisfy_side_conditions [] rfl rfl _ _ h1 h2 h4 h5 h6 h8 h9 h10 h11 h16

end Jd.Props.C09
