/-
  Property C09 — the RFC 6902 output means the same as the native diff.
  Statement file (proofs in JdProofs/PatchRender.lean; two compositions with JdProofs/StrictPatch.lean
  and JdProofs/DiffPatchList.lean are made here).

  Model side: `renderPatchOps d` / `renderPatchHunk h` (JdModel/PatchFmt.lean) is
  `Diff.RenderPatch()` before JSON encoding: a list of operations `{op, path, value}`;
  `writePointerPath p` is the JSON Pointer jd writes for a path (JdModel/Pointer.lean).
  Spec side: `eval c ops` (JdSpec/Rfc6902.lean), an evaluator of RFC 6902 written from the RFC
  (`parsePointer`, `decodeToken`, `arrayIndex?` from RFC 6901), independent of jd;
  `applyStrict` / `applyStrictAll` (JdSpec/HunkSem.lean), the documented meaning of native hunks,
  which IS the library's `Patch` on strict hunks (C03). Results are compared up to the Go dynamic
  type of array nodes (`untag`).

  DIRECTION: wherever the native diff applies, the JSON Patch applies too, with the same result.
  The converse (jd's JSON Patch never applies where the native diff is rejected) is not claimed.

  WHAT IS STATED
   1. pointers: escape / decode round trip; `writePointerPath` accepts exactly key / index paths whose
      keys are not number-like and not "-", writes `/esc(t₁)/esc(t₂)…`, and the text parses back
      (RFC 6901) to the tokens of the path; every other path is REFUSED with an error (refusal clause
      of the property); the decimal text of an index is an RFC 6901 array index.
   2. one hunk, and a whole diff, on ANY target `c` where the native hunks apply
      (`rendered_hunk_simulates_native`, `rendered_patch_simulates_native`), and the same phrased with
      the library's `Patch` (`library_patch_applies_implies_rfc6902_applies`, composed here with C03).
   3. on the source itself (composed here with the C01 list theorem):
      `rendered_patch_of_diff_yields_target` — `eval a (RenderPatch(a.Diff(b)))` is `b`.
   4. well-formedness: every operation is a `test`, `remove` or `add` with a parsing pointer.
   5. OBSERVATIONS (proved counter-examples for HAND-WRITTEN hunks at index −1, which `Diff` never
      produces): two values appended by one hunk come out reversed; a context line on an append hunk
      renders to a `test` at the pointer slash-minus-two that no RFC 6902 evaluator can resolve. They are why `HunkOK`
      restricts append hunks.

  HYPOTHESES and why
    `FloatLaws`: a context `test` compares document value with hunk value in the other order than the
       native patch does (symmetry of `|x − y| ≤ eps`);
    `c.wf`: unique sorted keys (Go map); `remove k; add k` on an unsorted association list would move
       the member;
    `HunkOK h`: removed / added values are not the void marker, contexts and added values are
       well-formed, and an append hunk (index −1) adds at most one value and has no real context;
    `HunkRange h`: every index written is below 2^53 in magnitude (it travels through a float64).
    In statement 3 `HunkOK ∧ HunkRange` for the hunks of the generated diff is a HYPOTHESIS: that
    `Diff` only produces such hunks is not proved (it is checked by the oracle).
-/
import JdProofs.PatchRender

namespace Jd.Props.C09
open Jd Jd.Spec

/-! ## 1. JSON Pointers (RFC 6901) -/

/-- escaping a key (`~` → `~0`, `/` → `~1`) then decoding it by RFC 6901 gives the key back -/
theorem pointer_escape_round_trip (k : String) :
    decodeToken (ptrEscape k).toList = some k.toList :=
  decodeToken_ptrEscape k

/-- what `writePointerPath` accepts, and the text it writes -/
theorem pointer_accepted_paths {p : Path} {s : String} (h : writePointerPath p = .ok s)
    (hr : idxRange p) :
    (∀ e ∈ p, expressible e) ∧
    s.toList = (ptoks p).flatMap (fun t => '/' :: escChars t.toList) :=
  writePointerPath_ok h hr

/-- REFUSAL: a path with a set / multiset / keyed element, a number-like key or the key "-" is
    refused with an error rather than mistranslated -/
theorem pointer_refuses_inexpressible {p : Path} (h : ∃ e ∈ p, ¬ expressible e) :
    writePointerPath p = .err :=
  writePointerPath_refuses h

/-- the pointer jd writes for an expressible path parses (RFC 6901) to the path's tokens -/
theorem pointer_parses_back {p : Path} (hr : idxRange p) {s : String}
    (hs : writePointerPath p = .ok s) : parsePointer s = some (ptoks p) :=
  ptrOK_of_range hr s hs

/-- the decimal text of a non-negative index is an RFC 6901 array index denoting it -/
theorem index_text_is_array_index {i : Int} (h : 0 ≤ i) : arrayIndex? (toString i) = some i.toNat :=
  arrayIndex_toString h

/-! ## 2. the rendered patch simulates the native hunks, on every target -/

/-- one hunk: the native hunk applies to `c` ⇒ its rendered JSON Patch applies to `c` (independent
    RFC 6902 evaluator) with the same result up to array tags -/
theorem rendered_hunk_simulates_native (L : FloatLaws) {c r : Json} {h : Hunk} {ops : List PatchOp}
    (hw : c.wf = true) (hok : HunkOK h) (hr : HunkRange h)
    (e : applyStrict c h.path h = some r) (er : renderPatchHunk h = .ok ops) :
    ∃ r', eval c (ops.map PatchOp.toSpec) = some r' ∧ untag r' = untag r :=
  renderPatchHunk_correct L hw hok hr e er

/-- a whole diff -/
theorem rendered_patch_simulates_native (L : FloatLaws) {d : Diff} {c r : Json} {ops : List PatchOp}
    (hw : c.wf = true) (hd : ∀ h ∈ d, HunkOK h ∧ HunkRange h)
    (e : applyStrictAll c d = some r) (er : renderPatchOps d = .ok ops) :
    ∃ r', eval c (ops.map PatchOp.toSpec) = some r' ∧ untag r' = untag r :=
  renderPatchOps_correct L hw hd e er

/-- the same with the LIBRARY's `Patch` as the native side (composition with C03): on any list
    document where the library applies the strict diff `d`, the rendered JSON Patch applies too, with
    the same result up to array tags -/
theorem library_patch_applies_implies_rfc6902_applies (L : FloatLaws) (sw : Bool) {d : Diff}
    {c r : Json} {ops : List PatchOp} (hw : c.wf = true) (hl : c.listDoc = true)
    (hs : d.all (fun h => !h.merge && strictPath h.path && hunkListDoc h) = true)
    (hd : ∀ h ∈ d, HunkOK h ∧ HunkRange h)
    (e : patchAll sw c d = .ok r) (er : renderPatchOps d = .ok ops) :
    ∃ r', eval c (ops.map PatchOp.toSpec) = some r' ∧ untag r' = untag r := by
  obtain ⟨m, hm, hu⟩ := strictAll_result sw c d hs hl r e
  obtain ⟨r', h1, h2⟩ := renderPatchOps_correct L hw hd hm er
  exact ⟨r', h1, by rw [h2, hu]⟩

/-! ## 3. on the source: the rendered patch of `a.Diff(b)` turns `a` into `b` -/

/-- composition with the C01 list theorem (hypotheses of `Jd.DPL.diffM_list_correct`, see
    JdProps/C01.lean): the JSON Patch rendered from `a.Diff(b)`, evaluated by RFC 6902 on `a`, yields
    a document structurally equal to `b` -/
theorem rendered_patch_of_diff_yields_target (L : FloatLaws) (o : Opts)
    (ho : dispatchTag o = .list) (hm : isMerge o = false) (a b : Json)
    (ha1 : a.listDoc = true) (ha2 : a.wf = true) (ha3 : a.finiteNums = true)
    (ha4 : DPL.memOK a = true)
    (hb1 : b.listDoc = true) (hb2 : b.wf = true) (hb3 : b.finiteNums = true)
    (hb4 : DPL.memOK b = true)
    (H : DPL.HashOK o a b) (Z : DPL.ZeroOK a b)
    (hd : ∀ h ∈ diffM o a b, HunkOK h ∧ HunkRange h)
    {ops : List PatchOp} (er : renderPatchOps (diffM o a b) = .ok ops) :
    ∃ r', eval a (ops.map PatchOp.toSpec) = some r' ∧ specEq r' b = true := by
  obtain ⟨r, hr, hs, _⟩ :=
    DPL.diffM_list_correct L o ho hm a b ha1 ha2 ha3 ha4 hb1 hb2 hb3 hb4 H Z
  obtain ⟨r', h1, h2⟩ := renderPatchOps_correct L ha2 hd hr er
  exact ⟨r', h1, by rw [← specEq_untag_left, h2, specEq_untag_left]; exact hs⟩

/-! ## 4. well-formedness of the rendered document -/

/-- every operation of a rendered diff is a `test`, a `remove` or an `add` -/
theorem rendered_ops_are_test_remove_add {d : Diff} {ops : List PatchOp}
    (e : renderPatchOps d = .ok ops) : ∀ o ∈ ops, o.wfOp :=
  renderPatchOps_wfOps e

/-- every operation of a rendered hunk carries a well-formed JSON Pointer -/
theorem rendered_ops_pointers_parse {h : Hunk} {ops : List PatchOp} (hr : HunkRange h)
    (er : renderPatchHunk h = .ok ops) : ∀ o ∈ ops, (parsePointer o.path).isSome = true :=
  renderPatchHunk_paths_parse hr er

/-! ## 5. observations: hand-written hunks at index −1 (never produced by `Diff`) -/

/-- `@ [-1]  + "a"  + "b"` on `[null]`: natively `[null,"a","b"]`; rendered as two `add` at the pointer slash-dash, last
    value first, which RFC 6902 evaluates to `[null,"b","a"]` -/
theorem append_two_values_reversed :
    applyStrict cexDoc cexAppend2.path cexAppend2 = some (Json.arr .raw [.null, .str "a", .str "b"]) ∧
    renderPatchHunk cexAppend2 = .ok cexOps ∧
    eval cexDoc (cexOps.map PatchOp.toSpec) = some (Json.arr .raw [.null, .str "b", .str "a"]) :=
  cex_append_reversed

/-- an append hunk carrying a before-context line applies natively (the context is not looked at)
    but renders to a `test` at the pointer slash-minus-two, which RFC 6902 rejects -/
theorem append_with_context_rejected :
    applyStrict cexDoc cexAppendCtx.path cexAppendCtx = some (Json.arr .raw [.null, .str "a"]) ∧
    renderPatchHunk cexAppendCtx = .ok cexOps2 ∧
    eval cexDoc (cexOps2.map PatchOp.toSpec) = none :=
  cex_append_context

/-! ## Non-vacuity

  `{"a~/b": null}` with the hunk `@ ["a~/b"]  - null  + "x"` (a key that needs both escapes): the
  hypotheses hold and the native hunk applies. -/

private def exDoc : Json := .obj [("a~/b", .null)]
private def exHunk : Hunk := { path := [.key "a~/b"], remove := [.null], add := [.str "x"] }

example : exDoc.wf = true ∧ HunkOK exHunk ∧ HunkRange exHunk ∧
    applyStrict exDoc exHunk.path exHunk = some (.obj [("a~/b", .str "x")]) := by
  refine ⟨by decide, ⟨?_, ?_, by decide, by decide, by decide, ?_⟩, ⟨?_, ?_⟩, ?_⟩
  · intro x hx; simp [exHunk] at hx; subst hx; rfl
  · intro x hx; simp [exHunk] at hx; subst hx; rfl
  · intro h; simp [exHunk, lastIdx?] at h
  · intro i hi; simp [exHunk] at hi
  · intro i hi; simp [exHunk, lastIdx?] at hi
  · simp [exDoc, exHunk, applyStrict, alookup, single, Json.singleValue, specEq, equivB, Json.isVoid,
      ainsert]

end Jd.Props.C09
