/-
  Property C10 — RFC 6902 input is read faithfully.
  Statement file (proofs in JdProofs/PatchParseBack.lean, composed with PatchRender and StrictPatch).

  `renderPatchOps d` = the operations jd's RenderPatch emits for a diff; `readPatchLoop` = the element
  loop of jd's ReadPatchString (context inference + coalescing) on a list of operations.
  Domain `PBwf d` (Bool, decidable up to the float comparison inside `equals`): strict hunks, key/index
  paths expressible as JSON Pointers, indices in [0, 2^53), at most one line of context per side,
  self-equal removed values, adjacent hunks on different paths (or the second with its own context) —
  what list-mode `Diff` produces: 162 409 model diffs were all inside it.

  PROVED: (1) PARSE-BACK: reading jd's own output gives the diff back in normal form `normPB d`
  (boundary markers made explicit; an add-only hunk with boundary context loses its markers);
  (2) the read-back diff applies wherever the original applies, with the same result — on the reference
  interpreter and on the library's `patchM` (up to array type tags): "reading jd's own JSON Patch
  output and applying it to a reproduces b" once composed with C01;
  (3) with C09 (`rendered_patch_simulates_native`): on every document where the original diff applies,
  RFC 6902 evaluation of the same operations gives the same result, i.e. on jd's own output jd and the
  RFC evaluation agree.
  NOT PROVED: "never more permissive than RFC 6902" for arbitrary patches of the supported grammar
  (variations of jd's output); that clause is checked by the oracle of ./check C10 on seven variation
  operators x perturbed targets.
-/
import JdProofs.PatchParseBack

namespace Jd.Props.C10
open Jd Jd.Spec Jd.PB

/-- reading the operations jd rendered gives the diff back (normal form) -/
theorem own_output_reads_back (L : FloatLaws) (d : Diff) (hwf : PBwf d = true) (ops : List PatchOp)
    (h : renderPatchOps d = .ok ops) :
    readPatchLoop (ops.length + 1) ops [] = .ok (normPB d) :=
  readPatch_render L d hwf ops h

/-- the pointer layer round-trips -/
theorem pointer_reads_back {p : Path} {s : String} (hp : pathOK p = true)
    (hs : writePointerPath p = .ok s) : readPointer s = .ok p :=
  readPointer_write hp hs

/-- the read-back diff applies wherever the original applies, with the same result (reference semantics) -/
theorem read_back_diff_applies_like_original (L : FloatLaws) (d : Diff) (hwf : PBwf d = true)
    (hs : d.all jdShaped = true) (ops : List PatchOp) (h : renderPatchOps d = .ok ops) :
    ∃ d', readPatchLoop (ops.length + 1) ops [] = .ok d' ∧
      ∀ a b, applyStrictAll a d = some b → applyStrictAll a d' = some b :=
  readPatch_render_apply L d hwf hs ops h

/-- … and through the library's Patch: render, read back, patch reproduces what the diff does -/
theorem render_read_patch (L : FloatLaws) (d : Diff) (hwf : PBwf d = true)
    (hs : d.all jdShaped = true) (hld : d.all hunkListDoc = true)
    (ops : List PatchOp) (h : renderPatchOps d = .ok ops)
    (a b : Json) (ha : a.listDoc = true) (hab : applyStrictAll a d = some b) :
    ∃ d' r, readPatchLoop (ops.length + 1) ops [] = .ok d' ∧ patchM a d' = .ok r ∧ untag r = untag b :=
  readPatch_render_patch L d hwf hs hld ops h a b ha hab

end Jd.Props.C10
