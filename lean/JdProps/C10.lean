/-
  Property C10 — RFC 6902 input is read faithfully (never more permissive than the RFC).
  Statement file (proofs in JdProofs/PatchNeverMorePermissive.lean, namespace `Jd.NMP`: the main claim
  and parse-back with the full reader; JdProofs/PatchParseBack.lean, namespace `Jd.PB`: parse-back for
  the element loop, composed there with PatchRender and StrictPatch; JdProofs/PatchOwnOutput.lean,
  namespace `Jd.Own`: the LAST SENTENCE of the property as a closed theorem about `Diff`, section 2b).

  Model side (JdModel/PatchFmt.lean, JdModel/Pointer.lean):
    `readPatchOps ops`   `ReadPatchString` on the list of operations `{op, path, value}`: the element
                         loop `readPatchLoop` (context inference from up to three consecutive
                         operations, coalescing of same-path elements), THEN `checkPatchContext` on
                         every element with the operations it consumed as context (`ctxOf`) — the
                         repair of D28, below;
    `readPatchDoc doc`   the same from the parsed JSON document of the patch text (`patchOpsOfJson`);
    `readPointer s`      jd's JSON Pointer reader after the repair D30 (a token is an index only if it
                         is `0` or digits without a leading zero; `-` = append; every other token a
                         member name; a `~` not followed by `0`/`1` is an error);
    `writePointerPath`, `renderPatchOps d`   what `Diff.RenderPatch` writes; `patchM t d` = `t.Patch(d)`.
  Spec side: `eval t (ops.map PatchOp.toSpec)` (JdSpec/Rfc6902.lean), an evaluator of RFC 6902 written
  from the RFC, independent of jd; `parsePointer` (RFC 6901). Results are compared up to the Go dynamic
  type of array nodes (`untag`).

  THE MAIN STATEMENT (section 1): `never_more_permissive` — for EVERY list of operations `ops` that
  `ReadPatchString` accepts, on every document `t`: if `t.Patch` of what was read succeeds with `r`,
  the RFC 6902 evaluation of THE SAME operations on `t` succeeds with the same result. jd may be
  stricter, never more permissive or different. It is not restricted to jd's own output or to a
  grammar of variations: the quantifier is over all accepted operation lists.
    `never_more_permissive_all_pointers`    THE STRONGEST FORM (after the repair of D30): no hypothesis
                                            on the spelling of the pointer texts; only `NMP.idxTokensOK`
                                            (index tokens below 2^53). Variants `_min`,
                                            `_from_entry_point`, `checked_patch_…_all_pointers`;
                                            `repaired_reader_is_injective` is why it holds. The
                                            statements below with `canonPtr` are corollaries kept
                                            under their former names;
    `never_more_permissive_rfc6901`         the pointer hypothesis stated with the independent RFC 6901
                                            parser, the range hypothesis in minimal form;
    `never_more_permissive_from_entry_point` from the parsed patch document (`readPatchDoc`);
    `checked_patch_never_more_permissive`    every hypothesis as ONE executable predicate
                                            `NMP.checkedPatch ops : Bool`; `grammar_is_checked`: jd's own
                                            layout (grammar `NMP.Gwf`) satisfies it;
    `accepted_patch_is_faithful`            WHY it holds: what the reader accepts is a fixed point of
                                            read-then-write (`NMP.Faithful d ops`: re-rendering the diff
                                            read gives the operations back, up to the value member of
                                            `remove`, which RFC 6902 ignores);
    `reader_element_shapes`                 the nine ways the reader forms one element: which
                                            operations are consumed as context, which as edits.

  THE DEFECT THIS PROOF FOUND, AND ITS REPAIR (D28; /repo commit dca0b4d "check that JSON Patch
  context tests are adjacent to the edit"). The first proof of the theorem needed the HYPOTHESIS
  `Faithful d ops`; it was not an artefact: the element loop took `test` operations in front of an
  edit for context lines looking only at the LAST index of their pointers, and jd applied patches
  that RFC 6902 rejects (or applied them differently). Witnesses were proved on the model and
  replayed on the Go code; the reader now runs `checkPatchContext`, the hypothesis is a THEOREM
  (`accepted_patch_is_faithful`), and the witnesses are kept as REGRESSIONS (section 3): the reader
  rejects each of them.
    `fixed_context_of_another_array`             `test /a/0 "x"; add /b/1 "y"` (a test of ANOTHER array);
    `fixed_non_test_taken_as_context`            `test /1 "b"; remove /3; add /2 "x"` (not a `test`);
    `fixed_context_indices_unchecked`            `test /0 "a"; test /5 "b"; add /3 "x"` (unrelated indices);
    `fixed_after_context_vs_coalesced_removals`  after-context test vs removals coalesced later;
    `fixed_unrestricted_goal_witness`            the witness that refuted the unrestricted goal is no
                                                 longer read at all.
  (What the element loop ALONE does with these witnesses is kept in the proof file: `NMP.loop_alone_…`.)

  A SECOND DEFECT, AND ITS REPAIR (D30; section 4): RFC 6901 TOKEN SYNTAX. `readPointer` parsed index
  tokens with `strconv.Atoi` and unescaped with the jsonpointer library, both more lenient than RFC
  6901: the pointers `/01` (leading zero), slash-minus-one (a sign; read as "append") and `/~2` (an escape
  the RFC does not allow) were accepted and applied by jd and rejected by the RFC — jd MORE PERMISSIVE.
  Formerly kept as observations outside the hypothesis `canonPtr`; now repaired in v2/pointer.go
  (index only if `strconv.Itoa(number) == t`; `checkPointerEscapes`), the witnesses are regressions
  (`fixed_noncanonical_index_tokens`, `fixed_index_token_reading`, `fixed_invalid_escape_rejected`,
  `before_repair_readings_applied`, `fixed_pointers_not_canonical`, `fixed_canonical_pointers_witness`),
  and the hypothesis on the pointer TEXTS is gone from the main statement:
    `NMP.idxTokensOK s`       Bool: every reference token of `s` that is an RFC 6901 array index is below
                              2^53 (the model's `int → float64` conversion is exact there; the same
                              kind of hypothesis as `HunkRange`) — the ONLY pointer hypothesis left;
    `NMP.ptrOKr s`            Bool: if `readPointer s = .ok p` then `p` consists of member names and
                              indices in [−1, 2^53) and `NMP.wpL p` (the path token by token, number-like
                              member names NOT refused) is `s`; follows from `idxTokensOK`
                              (`repaired_reader_is_injective`) and from `canonPtr`;
    `NMP.canonPtr s`          Bool, the FORMER hypothesis: `readPointer s = .ok p`, `p` consists of keys
                              `writePointer` accepts and indices in [−1, 2^53), and `writePointerPath p`
                              writes `s` back (the text is what jd itself writes);
    `NMP.canonicalPointer s`  Bool, in RFC 6901 terms only: `parsePointer` accepts `s` and every token
                              that `strconv.Atoi` accepts is the decimal text of an index in [0, 2^53);
                              it implies `canonPtr` (`canonical_pointer_rfc6901`).

  PARSE-BACK, "reading jd's own JSON Patch output and applying it to a reproduces b" (section 2), with
  the reader AFTER the repair: `own_layout_passes_context_check` (every diff of the grammar `NMP.Gwf`:
  jd's layout per hunk, any values, any indices in [0, 2^53), appends at `-`),
  `own_output_reads_back_full_reader`, `render_read_patch_full_reader` (domain `PBwf` of list-mode
  diffs, through the library's `Patch`), `grammar_accepted_and_never_more_permissive`. Section 5 keeps
  the earlier statements about the element loop alone (`readPatchLoop`), which are still true and are
  what the full-reader statements are proved from.

  THE LAST SENTENCE, CLOSED (section 2b). The statements of section 2 take "`d` lies in the grammar
  `PBwf`", `jdShaped`, `hunkListDoc` and "`d` turns `a` into `b`" as HYPOTHESES about the diff. For
  `d = a.Diff(b)` (list reading, strict strategy) they are now THEOREMS about `Diff`, and the sentence
  is stated about the library functions only — `diffM`, `renderPatchOps` (`RenderPatch`), `readPatchOps`
  (`ReadPatchString`: element loop AND context check), `patchM` (`Patch`) — with NO hypothesis about hunks:
    `produced_diff_hunk_shapes`    every hunk of `a.Diff(b)` is `Own.OwnH` (strict; a plain replacement
                                   without context at a path that does not end in an index, or a list
                                   hunk with one context line on each side whose before-context is a
                                   real value only at an index ≥ 1) and the paths of the hunks are
                                   PAIRWISE DIFFERENT (the inter-hunk condition of the grammar);
    `produced_diff_in_grammar`, `…_of_paths`   `PBwf (a.Diff(b))`, every hunk `jdShaped`, `hunkListDoc`;
    `own_patch_output_reproduces_target` (all object keys expressible as JSON Pointer tokens),
    `…_of_paths` (sharp: the paths of the diff are expressible, which is exactly when `RenderPatch`
    succeeds), `…_noPrecision`, `…_rawDoc` (documents as read from text):
        `RenderPatch(a.Diff(b))` succeeds with operations `ops`; `ReadPatchString` reads `ops` to a diff
        `d'` (the normal form `normPB (a.Diff(b))`); `a.Patch(d')` succeeds with a list document `r` that
        is structurally equal to `b` (both ways) and `Equals` `b` under the options of the diff.
    `object_against_void_not_in_grammar`: the ONE diff of the domain outside the grammar, `{…}.Diff(void)`
        (`- {…}` / `+ void` at the root: it adds the void marker). `RenderPatch` skips an addition whose
        first value is void, the operations are those of the hunk `- {…}` alone, which is in the
        grammar; the closed theorems INCLUDE this pair (only `d' = normPB …` is stated outside it).
  Hypotheses of section 2b and why: `dispatchTag o = .list`, `isMerge o = false` (C10 is a list-mode
    property); `a.listDoc`, `a.wf`, `a.finiteNums`, the same of `b`, `DPL.HashOK o a b`, `DPL.ZeroOK a b`,
    `FloatLaws`: the C01 list theorem (the native diff applies); `PRC.vfree a`, `PRC.vfree b` (no void
    marker inside), `PRC.lenLe Na a`, `PRC.lenLe Nb b`, `Na + Nb < 2^53` (indices written travel through a
    float64): the domain of JdProofs/PatchRenderClosed.lean; `PRC.keysExpressible` (decidable: a key is
    not number-like and not "-") or `PRC.PE h.path` for the hunks; `FloatEq0` (different paths are not
    coalesced by the reader); `DPL.PrecMono o` for `Equals` under a Precision option; and
    `Own.elemsRaw a` (Bool): no array node that is an ELEMENT of an array of `a` is a typed `jsonList`
    (root and object members may be typed; nothing is asked of `b`). It follows from `a.rawDoc`
    (`raw_documents_have_no_typed_list_element`), i.e. it holds of every document a reader produces.
    It CANNOT be dropped — `typed_list_element_witness` (genuine; replayed on the Go code):
    `[null, [true]]` whose inner array is a typed `jsonList`, against `[null, [false]]` as read from
    text. Every other hypothesis holds (`typed_list_element_witness_hypotheses`), the native diff applies,
    `RenderPatch` succeeds (`test /1 [true]; remove /1 [true]; add /1 [false]`), `ReadPatchString` ACCEPTS
    these operations — and `Patch` of what was read FAILS: `jsonList.diff` type-asserts the other side
    without dispatching it and replaces the element wholesale, a hunk at an array index WITHOUT
    context lines; the reader turns "no context test" into the boundary marker on both sides, and a
    void before-context matches at index 0 only. NO READER PRODUCES SUCH A NODE: documents read from
    JSON / YAML text carry plain `jsonArray` nodes only; the state arises only when `Patch` stores a
    patched child into the receiver's backing array. A boundary of the domain, kept as a witness.

  HYPOTHESES and why
    `FloatLaws` (symmetry / reflexivity of IEEE `|x − y| ≤ eps`, opaque to the kernel): a context `test`
       compares document and patch value in the other order than jd's patch does;
    `FloatEq0` (`|x − y| ≤ +0` only for `x = y`): the reader coalesces two elements, and
       `checkPatchContext` compares the parents of context pointers, by `Equals` on paths whose index
       elements are float64; without the law nothing excludes that `/1` and `/2` are coalesced;
    `t.wf`, `t.listDoc`: unique sorted keys (Go map), no set / multiset typed node: the domain of C03
       (the library's `Patch` = documented meaning of strict hunks) and of the RFC simulation;
    `NMP.valueOK o.value` (Bool): not the void marker, well-formed, list-mode — what `json.Unmarshal`
       produces (derived from the parsed document in `never_more_permissive_from_entry_point`);
    `NMP.idxTokensOK o.path`: see D30 above (the only pointer hypothesis of the `_all_pointers`
       statements); `NMP.canonPtr o.path` / `NMP.canonicalPointer o.path`: the former, stronger
       hypothesis of the corollaries under the former names; holds of jd's own output;
    `HunkRange h` for the elements read (indices written below 2^53: they travel through a float64);
       for accepted canonical patches it reduces to `i + |Remove| < 2^53`
       (`never_more_permissive_rfc6901`);
    `PBwf d`, `NMP.Gwf d` (Bool): the domain of parse-back — strict hunks, key / index paths
       expressible as JSON Pointers, at most one line of context per side, adjacent hunks told apart
       (sections 2 and 5; for `d = a.Diff(b)` a theorem: section 2b).
    An element at the append index (`-`) that removes, or an `add` at `-` after context tests, is
    NOT excluded by a hypothesis: where the reader accepts them jd's `Patch` never applies them, so
    the main statement holds for them too.

  NOT PROVED / OUTSIDE: the text layer around the operations (JSON decoding of the patch document is
  `json.Unmarshal`, external; `never_more_permissive_from_entry_point` starts from the parsed
  document); operations other than `test` / `remove` / `add` (the reader rejects them); pointer texts
  with an array index token of 2^53 or more (outside the range of the model's index conversion); set / multiset readings and the merge strategy (C10
  is a list-mode property); the last sentence for a first document with a typed `jsonList` ELEMENT
  (false there: `typed_list_element_witness`; no reader produces such a node). The converse (jd accepts
  whatever the RFC accepts) is not claimed: jd may be stricter.
-/
import JdProofs.PatchParseBack
import JdProofs.PatchNeverMorePermissive
import JdProofs.PatchOwnOutput
import JdProps.C09Text

set_option autoImplicit false

namespace Jd.Props.C10
open Jd Jd.Spec Jd.PB

/-! ## 1. Never more permissive than RFC 6902: every operation list the reader accepts

  Names of `Jd.NMP` are written qualified. -/

/-- **C10, the main statement in its former form** (hypothesis `canonPtr`; now a corollary of
    `never_more_permissive_all_pointers` below, kept under its name). For EVERY list of operations `ops` (real values, pointer texts in the
    spelling jd writes) that `ReadPatchString` accepts, reading the diff `d`: on every document `t`, if
    `t.Patch(d)` succeeds with `r`, then the independent RFC 6902 evaluation of the same operations on
    `t` succeeds with the same result (up to the Go type of array nodes) -/
theorem never_more_permissive (L : FloatLaws) (F : FloatEq0) {ops : List PatchOp}
    {d : Diff} {t r : Json} (hw : t.wf = true) (hl : t.listDoc = true)
    (hv : ∀ o ∈ ops, NMP.valueOK o.value = true) (hc : ∀ o ∈ ops, NMP.canonPtr o.path = true)
    (hread : readPatchOps ops = .ok d) (hrange : ∀ h ∈ d, HunkRange h)
    (hp : patchM t d = .ok r) :
    ∃ r', eval t (ops.map PatchOp.toSpec) = some r' ∧ untag r' = untag r :=
  NMP.readPatchOps_never_more_permissive L F hw hl hv hc hread hrange hp

/-- **C10, the main statement WITHOUT a hypothesis on the spelling of the pointer texts** (after the
    repair of D30). For EVERY list of operations `ops` that `ReadPatchString` accepts, on every
    document `t`: if `t.Patch(d)` succeeds with `r`, the RFC 6902 evaluation of the same operations
    succeeds with the same result. `NMP.canonPtr` is gone; what remains is `NMP.idxTokensOK o.path`
    (Bool): every reference token that IS an RFC 6901 array index (`0`, or digits without a leading
    zero) is below 2^53 — the range in which the model's `int → float64` conversion of an index is
    exact, the same kind of hypothesis as `HunkRange`. Tokens such as `01`, `+1`, `-1`, `-0`, `007`,
    the empty token and escaped names need no hypothesis: they are member names for jd and for
    RFC 6902 alike; a text with an invalid `~` escape is never accepted -/
theorem never_more_permissive_all_pointers (L : FloatLaws) (F : FloatEq0) {ops : List PatchOp}
    {d : Diff} {t r : Json} (hw : t.wf = true) (hl : t.listDoc = true)
    (hv : ∀ o ∈ ops, NMP.valueOK o.value = true)
    (hidx : ∀ o ∈ ops, NMP.idxTokensOK o.path = true)
    (hread : readPatchOps ops = .ok d) (hrange : ∀ h ∈ d, HunkRange h)
    (hp : patchM t d = .ok r) :
    ∃ r', eval t (ops.map PatchOp.toSpec) = some r' ∧ untag r' = untag r :=
  NMP.readPatchOps_never_more_permissive_all_pointers L F hw hl hv hidx hread hrange hp

/-- … with the range hypothesis on the elements read in minimal form (`i + |Remove| < 2^53`) -/
theorem never_more_permissive_all_pointers_min (L : FloatLaws) (F : FloatEq0)
    {ops : List PatchOp} {d : Diff} {t r : Json} (hw : t.wf = true) (hl : t.listDoc = true)
    (hv : ∀ o ∈ ops, NMP.valueOK o.value = true)
    (hidx : ∀ o ∈ ops, NMP.idxTokensOK o.path = true)
    (hread : readPatchOps ops = .ok d)
    (hafter : ∀ h ∈ d, ∀ i, lastIdx? h.path = some i → i + (h.remove.length : Int) < 2 ^ 53)
    (hp : patchM t d = .ok r) :
    ∃ r', eval t (ops.map PatchOp.toSpec) = some r' ∧ untag r' = untag r :=
  NMP.readPatchOps_never_more_permissive_all_pointers_min L F hw hl hv hidx hread hafter hp

/-- … from the entry point (the parsed JSON document of the patch) -/
theorem never_more_permissive_all_pointers_from_entry_point (L : FloatLaws) (F : FloatEq0)
    {doc : Json} {ops : List PatchOp} {d : Diff} {t r : Json} (hw : t.wf = true)
    (hl : t.listDoc = true) (hdw : doc.wf = true) (hdl : doc.listDoc = true)
    (hdv : Yaml.voidFree doc = true) (hdoc : patchOpsOfJson doc = .ok ops)
    (hidx : ∀ o ∈ ops, NMP.idxTokensOK o.path = true)
    (hread : readPatchDoc doc = .ok d) (hrange : ∀ h ∈ d, HunkRange h)
    (hp : patchM t d = .ok r) :
    ∃ r', eval t (ops.map PatchOp.toSpec) = some r' ∧ untag r' = untag r :=
  NMP.readPatchDoc_never_more_permissive_all_pointers L F hw hl hdw hdl hdv hdoc hidx hread hrange hp

/-- … with every hypothesis as ONE executable predicate (`NMP.checkedPatchAll`: real values, index
    tokens below 2^53, accepted by `ReadPatchString`, indices written below 2^53) -/
theorem checked_patch_never_more_permissive_all_pointers (L : FloatLaws) (F : FloatEq0)
    {ops : List PatchOp} {t : Json} (hf : NMP.checkedPatchAll ops = true) (hw : t.wf = true)
    (hl : t.listDoc = true) :
    ∃ d, readPatchOps ops = .ok d ∧
      ∀ r, patchM t d = .ok r →
        ∃ r', eval t (ops.map PatchOp.toSpec) = some r' ∧ untag r' = untag r :=
  NMP.checkedPatchAll_never_more_permissive L F hf hw hl

/-- **why `canonPtr` could be dropped: the repaired reader is injective.** `NMP.ptrOKr s` (Bool): IF
    `readPointer` accepts `s`, the path read consists of member names and indices in [−1, 2^53) and
    writing it token by token (`NMP.wpL`: escaped member names — number-like ones included —,
    decimal indices, `-`) gives `s` back. It holds of every text whose index tokens are below
    2^53: a valid escape is re-escaped to itself, an index token is the canonical decimal text
    of its index, every other token is a member name. (Before the repair `/01` and `/1` were read
    to the same path.) -/
theorem repaired_reader_is_injective {s : String} (h : NMP.idxTokensOK s = true) :
    NMP.ptrOKr s = true :=
  NMP.ptrOKr_of_idxTokens h

/-- the former hypothesis implies the new one -/
theorem canonical_pointer_is_reader_canonical {s : String} (h : NMP.canonPtr s = true) :
    NMP.ptrOKr s = true :=
  NMP.ptrOKr_of_canonPtr h

/-- the fixed-point statement without `canonPtr`: re-rendering (jd's layout, pointers written by
    `NMP.wpL`) the diff read gives the operations back -/
theorem accepted_patch_is_faithful_all_pointers (F : FloatEq0) {ops : List PatchOp} {d : Diff}
    (hv : ∀ o ∈ ops, o.value.isVoid = false) (hidx : ∀ o ∈ ops, NMP.idxTokensOK o.path = true)
    (hread : readPatchOps ops = .ok d)
    (happ : ∀ h ∈ d, lastIdx? h.path = some (-1) → h.remove = []) : NMP.Faithful d ops :=
  NMP.readPatchOps_faithful_all_pointers F hv hidx hread happ

/-- non-vacuity: the pointer slash-zero-one (outside `canonPtr`) satisfies `idxTokensOK`, and the
    theorem speaks about an actual run: on `{}` jd's `Patch` of what was read from `add /01 "x"`
    succeeds, and RFC 6902 evaluation agrees -/
example (L : FloatLaws) (F : FloatEq0) :
    NMP.idxTokensOK "/01" = true ∧ NMP.canonPtr "/01" = false ∧
    ∃ r r', patchM (.obj []) NMP.w4Diff = .ok r ∧
      eval (.obj []) (NMP.w4Ops.map PatchOp.toSpec) = some r' ∧ untag r' = untag r :=
  ⟨NMP.idxTokensOK_01, NMP.fixed_pointers_not_canonical.1, NMP.ex_all_pointers L F⟩

/-- the same (the former main statement) with the hypothesis on the pointers in RFC 6901 terms only (`NMP.canonicalPointer`: the
    independent parser accepts the text, and a token `strconv.Atoi` accepts is the decimal text of an
    index in [0, 2^53)) and the range hypothesis in minimal form: `i + |Remove|`, the index of the
    after-context line, is below 2^53 for every element read -/
theorem never_more_permissive_rfc6901 (L : FloatLaws) (F : FloatEq0)
    {ops : List PatchOp} {d : Diff} {t r : Json} (hw : t.wf = true) (hl : t.listDoc = true)
    (hv : ∀ o ∈ ops, NMP.valueOK o.value = true)
    (hc : ∀ o ∈ ops, NMP.canonicalPointer o.path = true)
    (hread : readPatchOps ops = .ok d)
    (hafter : ∀ h ∈ d, ∀ i, lastIdx? h.path = some i → i + (h.remove.length : Int) < 2 ^ 53)
    (hp : patchM t d = .ok r) :
    ∃ r', eval t (ops.map PatchOp.toSpec) = some r' ∧ untag r' = untag r :=
  NMP.readPatchOps_never_more_permissive_rfc6901 L F hw hl hv hc hread hafter hp

/-- the RFC 6901 form of the pointer hypothesis implies the round-trip form (`readPointer` accepts
    the text and `writePointerPath` writes it back) -/
theorem canonical_pointer_rfc6901 {s : String} (h : NMP.canonicalPointer s = true) :
    NMP.canonPtr s = true :=
  NMP.canonPtr_of_canonicalPointer h

/-- from the entry point: the hypotheses on the parsed JSON document of the patch are what
    `json.Unmarshal` gives (unique keys, plain arrays, no void marker) -/
theorem never_more_permissive_from_entry_point (L : FloatLaws) (F : FloatEq0) {doc : Json}
    {ops : List PatchOp} {d : Diff} {t r : Json} (hw : t.wf = true) (hl : t.listDoc = true)
    (hdw : doc.wf = true) (hdl : doc.listDoc = true) (hdv : Yaml.voidFree doc = true)
    (hdoc : patchOpsOfJson doc = .ok ops) (hc : ∀ o ∈ ops, NMP.canonPtr o.path = true)
    (hread : readPatchDoc doc = .ok d) (hrange : ∀ h ∈ d, HunkRange h)
    (hp : patchM t d = .ok r) :
    ∃ r', eval t (ops.map PatchOp.toSpec) = some r' ∧ untag r' = untag r :=
  NMP.readPatchDoc_never_more_permissive L F hw hl hdw hdl hdv hdoc hc hread hrange hp

/-- every hypothesis as ONE executable predicate on the operations (`NMP.checkedPatch`: real values,
    canonical pointers, accepted by `ReadPatchString`, indices written below 2^53): the patch is read,
    and wherever jd applies what was read, RFC 6902 agrees -/
theorem checked_patch_never_more_permissive (L : FloatLaws) (F : FloatEq0) {ops : List PatchOp}
    {t : Json} (hf : NMP.checkedPatch ops = true) (hw : t.wf = true) (hl : t.listDoc = true) :
    ∃ d, readPatchOps ops = .ok d ∧
      ∀ r, patchM t d = .ok r →
        ∃ r', eval t (ops.map PatchOp.toSpec) = some r' ∧ untag r' = untag r :=
  NMP.checkedPatch_never_more_permissive L F hf hw hl

/-- the predicate is not empty: jd's own layout for every diff of the grammar `NMP.Gwf` (with real
    values) satisfies it -/
theorem grammar_is_checked (L : FloatLaws) (F : FloatEq0) {d0 : Diff} {ops : List PatchOp}
    (hG : NMP.Gwf d0 = true) (hr : NMP.rerender d0 = .ok ops)
    (hv : ∀ o ∈ ops, NMP.valueOK o.value = true) : NMP.checkedPatch ops = true :=
  NMP.grammar_checkedPatch L F hG hr hv

/-- **why the main statement holds — the former hypothesis, now a theorem about the reader.** What
    `ReadPatchString` accepts is a fixed point of read-then-write: re-rendering the diff read gives
    the operations back (`NMP.Faithful d ops` = `∃ ops', NMP.rerender d = .ok ops' ∧ Forall₂ NMP.OpSim
    ops' ops`; `OpSim`: same `op`, same `path`, same `value` unless the op is `remove`). In particular
    every `test` consumed as a context line is the test jd writes for that line. (`happ`: an element
    at the append index does not remove; such an element never applies.) -/
theorem accepted_patch_is_faithful (F : FloatEq0) {ops : List PatchOp} {d : Diff}
    (hv : ∀ o ∈ ops, o.value.isVoid = false) (hc : ∀ o ∈ ops, NMP.canonPtr o.path = true)
    (hread : readPatchOps ops = .ok d)
    (happ : ∀ h ∈ d, lastIdx? h.path = some (-1) → h.remove = []) : NMP.Faithful d ops :=
  NMP.readPatchOps_faithful F hv hc hread happ

/-- **what the reader consumes, and as what**: whenever `readPatchDiffElement` (`readPatchHunk`)
    succeeds, the operations it consumed (`g`), the element it built and the operations it
    remembers as context (`ctxOf`) are in one of the nine shapes of `NMP.Shape`: `add`; `test`+`remove`
    at a key / at an index; one context `test` + `add` (after / before); two context operations +
    `add` / + `test`+`remove`; one context `test` + `test`+`remove` (after / before) -/
theorem reader_element_shapes {patch : List PatchOp} {e : Hunk} {rest : List PatchOp}
    (h : readPatchHunk patch = .ok (e, rest)) (hnv : ∀ o ∈ patch, o.value.isVoid = false) :
    ∃ g, patch = g ++ rest ∧ NMP.Shape g e (ctxOf patch) :=
  NMP.readPatchHunk_shape h hnv

/-! ## 2. Parse-back of jd's own output with the reader after the repair -/

/-- jd's own layout passes the new context check: for every diff `d0` of the grammar `NMP.Gwf`,
    `ReadPatchString` reads the operations jd writes for `d0` (`NMP.rerender`: `renderPatchHunk`, an
    append hunk listing its values in application order) to the normal form of `d0` -/
theorem own_layout_passes_context_check (L : FloatLaws) (F : FloatEq0) (d0 : Diff)
    (hG : NMP.Gwf d0 = true) (ops : List PatchOp) (h : NMP.rerender d0 = .ok ops) :
    readPatchOps ops = .ok (d0.map NMP.normG) :=
  NMP.readPatchOps_rerender L F d0 hG ops h

/-- `ReadPatchString` reads what `Diff.RenderPatch` writes for a diff of the domain `PBwf` back to the
    diff in normal form (`own_output_reads_back` of section 5, for the full reader) -/
theorem own_output_reads_back_full_reader (L : FloatLaws) (F : FloatEq0) (d : Diff)
    (hwf : PBwf d = true) (ops : List PatchOp) (h : renderPatchOps d = .ok ops) :
    readPatchOps ops = .ok (normPB d) :=
  NMP.readPatchOps_render L F d hwf ops h

/-- **"reading jd's own JSON Patch output and applying it to a reproduces b"**: if the diff turns `a`
    into `b` (documented meaning of hunks; for `d = a.Diff(b)` this is C01), then what
    `ReadPatchString` reads from `RenderPatch(d)`, applied to `a` by the library's `Patch`, gives `b`
    (up to the Go type of array nodes) -/
theorem render_read_patch_full_reader (L : FloatLaws) (F : FloatEq0) (d : Diff)
    (hwf : PBwf d = true) (hs : d.all jdShaped = true) (hld : d.all hunkListDoc = true)
    (ops : List PatchOp) (h : renderPatchOps d = .ok ops)
    (a b : Json) (ha : a.listDoc = true) (hab : applyStrictAll a d = some b) :
    ∃ d' r, readPatchOps ops = .ok d' ∧ patchM a d' = .ok r ∧ untag r = untag b :=
  NMP.readPatchOps_render_patch L F d hwf hs hld ops h a b ha hab

/-- on the grammar the two halves together: `ReadPatchString` ACCEPTS jd's own layout, and wherever
    jd's `Patch` applies what was read, RFC 6902 evaluation of the operations agrees -/
theorem grammar_accepted_and_never_more_permissive (L : FloatLaws) (F : FloatEq0) {d0 : Diff}
    {ops : List PatchOp} {t : Json}
    (hG : NMP.Gwf d0 = true) (hr : NMP.rerender d0 = .ok ops)
    (hv : ∀ o ∈ ops, NMP.valueOK o.value = true) (hw : t.wf = true) (hl : t.listDoc = true) :
    readPatchOps ops = .ok (d0.map NMP.normG) ∧
    ∀ r, patchM t (d0.map NMP.normG) = .ok r →
      ∃ r', eval t (ops.map PatchOp.toSpec) = some r' ∧ untag r' = untag r :=
  NMP.grammar_never_more_permissive L F hG hr hv hw hl

/-! ## 2b. The last sentence of the property, closed: "reading jd's own JSON Patch output and
    applying it to a reproduces b"

  Names of `Jd.Own`, `Jd.PRC` and `Jd.DPL` are written qualified. `PRC.vfree x`: no void marker inside `x`;
  `PRC.lenLe N x`: every array of `x` has at most `N` elements; `PRC.keysExpressible x`: every object key
  of `x` can be written as a JSON Pointer token that reads back as that key (not number-like, not
  "-"); `PRC.PE p`: the path `p` is expressible; `Own.elemsRaw x`: no array node that is an ELEMENT of
  an array of `x` is a typed `jsonList`; `DPL.HashOK o a b`, `DPL.ZeroOK a b`: no hash collision / no `0`,
  `-0` pair between sub-terms of `a` and of `b` (C01). -/

/-- what a reader produces satisfies the extra hypothesis: a document whose array nodes are all
    plain `jsonArray` nodes has no typed `jsonList` element -/
theorem raw_documents_have_no_typed_list_element {a : Json} (h : a.rawDoc = true) :
    Own.elemsRaw a = true :=
  Own.elemsRaw_of_rawDoc h

/-- **the shape of the hunks of `a.Diff(b)`** (list reading, strict strategy): every hunk is `Own.OwnH`
    — strict; removed values are list documents, well-formed, finite; all payloads list documents;
    a plain replacement (no context, at most one value on each side) at a path that does NOT end
    in a list index, or a list hunk `pp ++ [idx s]` with one before- and one after-context line whose
    before-context is a real value only if `s ≥ 1` — and the paths of the hunks are PAIRWISE
    DIFFERENT (so the reader never coalesces two of them) -/
theorem produced_diff_hunk_shapes (o : Opts) (ho : dispatchTag o = .list) (hm : isMerge o = false)
    (a b : Json) (ha1 : a.listDoc = true) (ha2 : a.wf = true) (ha3 : a.finiteNums = true)
    (ha4 : PRC.vfree a = true) (ha5 : Own.elemsRaw a = true)
    (hb1 : b.listDoc = true) (hb2 : b.wf = true) :
    (∀ h ∈ diffM o a b, Own.OwnH h) ∧
    (diffM o a b).Pairwise (fun h1 h2 => h1.path ≠ h2.path) :=
  Own.diffM_own o ho hm a b ha1 ha2 ha3 ha4 ha5 hb1 hb2

/-- **`a.Diff(b)` lies in the parse-back grammar** (sharp form: the paths of the diff are
    expressible, which is exactly when `RenderPatch` succeeds). `(a.isObj && b.isVoid) = false`
    excludes the one diff outside the grammar (`object_against_void_not_in_grammar`) -/
theorem produced_diff_in_grammar_of_paths (F : FloatEq0) (o : Opts) (ho : dispatchTag o = .list)
    (hm : isMerge o = false) (a b : Json)
    (ha1 : a.listDoc = true) (ha2 : a.wf = true) (ha3 : a.finiteNums = true)
    (ha4 : PRC.vfree a = true) (ha5 : Own.elemsRaw a = true)
    (hb1 : b.listDoc = true) (hb2 : b.wf = true) (hb4 : PRC.vfree b = true)
    {Na Nb : Nat} (la : PRC.lenLe Na a = true) (lb : PRC.lenLe Nb b = true) (hN : Na + Nb < 2 ^ 53)
    (hv : (a.isObj && b.isVoid) = false) (hp : ∀ h ∈ diffM o a b, PRC.PE h.path) :
    PBwf (diffM o a b) = true ∧ (diffM o a b).all jdShaped = true ∧
      (diffM o a b).all hunkListDoc = true :=
  Own.diffM_in_grammar_of_paths o ho hm a b ha1 ha2 ha3 ha4 ha5 hb1 hb2 hb4 F la lb hN hv hp

/-- … when the object keys of `a` and `b` are expressible as JSON Pointer tokens -/
theorem produced_diff_in_grammar (F : FloatEq0) (o : Opts) (ho : dispatchTag o = .list)
    (hm : isMerge o = false) (a b : Json)
    (ha1 : a.listDoc = true) (ha2 : a.wf = true) (ha3 : a.finiteNums = true)
    (ha4 : PRC.vfree a = true) (ha5 : Own.elemsRaw a = true)
    (hb1 : b.listDoc = true) (hb2 : b.wf = true) (hb4 : PRC.vfree b = true)
    {Na Nb : Nat} (la : PRC.lenLe Na a = true) (lb : PRC.lenLe Nb b = true) (hN : Na + Nb < 2 ^ 53)
    (hv : (a.isObj && b.isVoid) = false)
    (ka : PRC.keysExpressible a = true) (kb : PRC.keysExpressible b = true) :
    PBwf (diffM o a b) = true ∧ (diffM o a b).all jdShaped = true ∧
      (diffM o a b).all hunkListDoc = true :=
  Own.diffM_in_grammar o ho hm a b ha1 ha2 ha3 ha4 ha5 hb1 hb2 hb4 F la lb hN hv ka kb

/-- the one diff of the domain that is NOT in the grammar: an object against "no document" is the
    single hunk `- {…}` / `+ void` at the root (`PRC.objVoidHunk`); it adds the void marker -/
theorem object_against_void_not_in_grammar (kvs : List (String × Json)) :
    PBwf [PRC.objVoidHunk kvs] = false :=
  Own.objVoidHunk_not_in_grammar kvs

/-- **C10, last sentence, closed (sharp form).** For `a`, `b` in the C01 list domain, array lengths
    bounded with `Na + Nb < 2^53`, no typed `jsonList` node among the array elements of `a`, and the
    paths of `a.Diff(b)` expressible as JSON Pointers: `RenderPatch(a.Diff(b))` succeeds with operations
    `ops`; `ReadPatchString` (element loop AND context check) reads `ops` to a diff `d'` — the normal
    form `normPB (a.Diff(b))`, except for an object against void —; the library's `a.Patch(d')` succeeds
    with a list document `r` that is structurally equal to `b` (both ways) and `Equals` `b` under the
    options of the diff (`DPL.PrecMono o`: when there is a Precision option). There is no hypothesis
    about the hunks -/
theorem own_patch_output_reproduces_target_of_paths (L : FloatLaws) (F : FloatEq0) (o : Opts)
    (ho : dispatchTag o = .list) (hm : isMerge o = false) (a b : Json)
    (ha1 : a.listDoc = true) (ha2 : a.wf = true) (ha3 : a.finiteNums = true)
    (ha4 : PRC.vfree a = true) (ha5 : Own.elemsRaw a = true)
    (hb1 : b.listDoc = true) (hb2 : b.wf = true) (hb3 : b.finiteNums = true)
    (hb4 : PRC.vfree b = true)
    {Na Nb : Nat} (la : PRC.lenLe Na a = true) (lb : PRC.lenLe Nb b = true) (hN : Na + Nb < 2 ^ 53)
    (H : DPL.HashOK o a b) (Z : DPL.ZeroOK a b)
    (hp : ∀ h ∈ diffM o a b, PRC.PE h.path) :
    ∃ ops d' r, renderPatchOps (diffM o a b) = .ok ops ∧ readPatchOps ops = .ok d' ∧
      ((a.isObj && b.isVoid) = false → d' = normPB (diffM o a b)) ∧
      patchM a d' = .ok r ∧ specEq r b = true ∧ specEq b r = true ∧ r.listDoc = true ∧
      (DPL.PrecMono o → equivB o r b = true ∧ equals o r b = true) :=
  Own.own_patch_output_reproduces_target_of_paths L F o ho hm a b ha1 ha2 ha3 ha4 ha5 hb1 hb2 hb3 hb4
    la lb hN H Z hp

/-- **C10, last sentence, closed**: the same for documents all of whose object keys are expressible
    as JSON Pointer tokens (`PRC.keysExpressible`, decidable) -/
theorem own_patch_output_reproduces_target (L : FloatLaws) (F : FloatEq0) (o : Opts)
    (ho : dispatchTag o = .list) (hm : isMerge o = false) (a b : Json)
    (ha1 : a.listDoc = true) (ha2 : a.wf = true) (ha3 : a.finiteNums = true)
    (ha4 : PRC.vfree a = true) (ha5 : Own.elemsRaw a = true)
    (hb1 : b.listDoc = true) (hb2 : b.wf = true) (hb3 : b.finiteNums = true)
    (hb4 : PRC.vfree b = true)
    {Na Nb : Nat} (la : PRC.lenLe Na a = true) (lb : PRC.lenLe Nb b = true) (hN : Na + Nb < 2 ^ 53)
    (H : DPL.HashOK o a b) (Z : DPL.ZeroOK a b)
    (ka : PRC.keysExpressible a = true) (kb : PRC.keysExpressible b = true) :
    ∃ ops d' r, renderPatchOps (diffM o a b) = .ok ops ∧ readPatchOps ops = .ok d' ∧
      ((a.isObj && b.isVoid) = false → d' = normPB (diffM o a b)) ∧
      patchM a d' = .ok r ∧ specEq r b = true ∧ specEq b r = true ∧ r.listDoc = true ∧
      (DPL.PrecMono o → equivB o r b = true ∧ equals o r b = true) :=
  Own.own_patch_output_reproduces_target L F o ho hm a b ha1 ha2 ha3 ha4 ha5 hb1 hb2 hb3 hb4 la lb hN
    H Z ka kb

/-- the headline without a Precision option: what `ReadPatchString` reads from jd's own JSON Patch
    output, applied to `a`, gives a document that is structurally equal to `b` and `Equals` `b` -/
theorem own_patch_output_reproduces_target_noPrecision (L : FloatLaws) (F : FloatEq0) (o : Opts)
    (ho : dispatchTag o = .list) (hm : isMerge o = false) (hprec : precOf o = 0) (a b : Json)
    (ha1 : a.listDoc = true) (ha2 : a.wf = true) (ha3 : a.finiteNums = true)
    (ha4 : PRC.vfree a = true) (ha5 : Own.elemsRaw a = true)
    (hb1 : b.listDoc = true) (hb2 : b.wf = true) (hb3 : b.finiteNums = true)
    (hb4 : PRC.vfree b = true)
    {Na Nb : Nat} (la : PRC.lenLe Na a = true) (lb : PRC.lenLe Nb b = true) (hN : Na + Nb < 2 ^ 53)
    (H : DPL.HashOK o a b) (Z : DPL.ZeroOK a b)
    (ka : PRC.keysExpressible a = true) (kb : PRC.keysExpressible b = true) :
    ∃ ops d' r, renderPatchOps (diffM o a b) = .ok ops ∧ readPatchOps ops = .ok d' ∧
      patchM a d' = .ok r ∧ specEq r b = true ∧ equals o r b = true :=
  Own.own_patch_output_reproduces_target_noPrecision L F o ho hm hprec a b ha1 ha2 ha3 ha4 ha5 hb1 hb2
    hb3 hb4 la lb hN H Z ka kb

/-- **for documents as read from text** (`rawDoc`: every array node a plain `jsonArray`, what
    `ReadJsonString` / `ReadYamlString` produce): `elemsRaw` and `listDoc` follow, no hypothesis beyond
    the domain of C01 and of `RenderPatch` remains -/
theorem own_patch_output_reproduces_target_rawDoc (L : FloatLaws) (F : FloatEq0) (o : Opts)
    (ho : dispatchTag o = .list) (hm : isMerge o = false) (a b : Json)
    (ha1 : a.rawDoc = true) (ha2 : a.wf = true) (ha3 : a.finiteNums = true)
    (ha4 : PRC.vfree a = true)
    (hb1 : b.rawDoc = true) (hb2 : b.wf = true) (hb3 : b.finiteNums = true)
    (hb4 : PRC.vfree b = true)
    {Na Nb : Nat} (la : PRC.lenLe Na a = true) (lb : PRC.lenLe Nb b = true) (hN : Na + Nb < 2 ^ 53)
    (H : DPL.HashOK o a b) (Z : DPL.ZeroOK a b)
    (ka : PRC.keysExpressible a = true) (kb : PRC.keysExpressible b = true) :
    ∃ ops d' r, renderPatchOps (diffM o a b) = .ok ops ∧ readPatchOps ops = .ok d' ∧
      ((a.isObj && b.isVoid) = false → d' = normPB (diffM o a b)) ∧
      patchM a d' = .ok r ∧ specEq r b = true ∧ specEq b r = true ∧ r.listDoc = true ∧
      (DPL.PrecMono o → equivB o r b = true ∧ equals o r b = true) :=
  Own.own_patch_output_reproduces_target_rawDoc L F o ho hm a b ha1 ha2 ha3 ha4 hb1 hb2 hb3 hb4 la lb
    hN H Z ka kb

/-! ### `elemsRaw a` cannot be dropped (no reader produces such a node)

  `Own.Witness.wA` = `[null, [true]]` whose INNER array is a typed `jsonList` node, `Own.Witness.wB` =
  `[null, [false]]` as read from text; `Own.Witness.wOps` = `test /1 [true]; remove /1 [true]; add /1 [false]`;
  `Own.Witness.wRead` = the hunk `@ [1]` / `[` / `- [true]` / `+ [false]` / `]` (both context lines the array
  boundary marker). Documents read from JSON / YAML text never contain a typed `jsonList` element
  (`raw_documents_have_no_typed_list_element`); in Go the state arises only when `Patch` stores a
  patched child into the receiver's backing array. Replayed on the Go code. -/

/-- every hypothesis of `own_patch_output_reproduces_target` EXCEPT `elemsRaw` holds for the pair -/
theorem typed_list_element_witness_hypotheses :
    Own.Witness.wA.listDoc = true ∧ Own.Witness.wA.wf = true ∧ Own.Witness.wA.finiteNums = true ∧
    PRC.vfree Own.Witness.wA = true ∧
    Own.Witness.wB.listDoc = true ∧ Own.Witness.wB.wf = true ∧ Own.Witness.wB.finiteNums = true ∧
    PRC.vfree Own.Witness.wB = true ∧
    PRC.lenLe 2 Own.Witness.wA = true ∧ PRC.lenLe 2 Own.Witness.wB = true ∧ 2 + 2 < 2 ^ 53 ∧
    DPL.HashOK [] Own.Witness.wA Own.Witness.wB ∧ DPL.ZeroOK Own.Witness.wA Own.Witness.wB ∧
    PRC.keysExpressible Own.Witness.wA = true ∧ PRC.keysExpressible Own.Witness.wB = true ∧
    Own.elemsRaw Own.Witness.wA = false :=
  Own.Witness.hyps

/-- **the witness**: the native diff applies to `wA` and gives `wB` (C01); `RenderPatch` succeeds;
    `ReadPatchString` ACCEPTS the operations; but `Patch` of the diff read back returns an ERROR. The
    diff is in the grammar `PBwf` hunk-wise but its hunk is not `jdShaped`: a wholesale replacement
    at an ARRAY INDEX without context lines, which the reader reads as "both neighbours are the
    array boundary" -/
theorem typed_list_element_witness (L : FloatLaws) (F : FloatEq0) :
    (∃ r, applyStrictAll Own.Witness.wA (diffM [] Own.Witness.wA Own.Witness.wB) = some r ∧
      specEq r Own.Witness.wB = true) ∧
    renderPatchOps (diffM [] Own.Witness.wA Own.Witness.wB) = .ok Own.Witness.wOps ∧
    readPatchOps Own.Witness.wOps = .ok [Own.Witness.wRead] ∧
    patchM Own.Witness.wA [Own.Witness.wRead] = .err ∧
    PBwf (diffM [] Own.Witness.wA Own.Witness.wB) = true ∧
    (diffM [] Own.Witness.wA Own.Witness.wB).all jdShaped = false :=
  Own.Witness.typed_list_element_witness L F

/-! Non-vacuity of section 2b: `PRC.Example.exA` = `{"a~/b": [true, 1, [1], null], "k": null}`,
    `PRC.Example.exB` = `{"a~/b": [false, 1, [1, 1], null, null], "m": 1}` (five hunks, three of them list
    hunks, one in a nested list; eleven operations; a key that needs escaping): every hypothesis of
    the closed theorem holds (`PRC.Example.hyps`, `Own.Example.exA_elemsRaw`, `exA_rawDoc`); only the IEEE
    laws remain. An object against "no document" goes through the closed theorem as well. -/

example (L : FloatLaws) (F : FloatEq0) :
    ∃ ops d' r, renderPatchOps (diffM [] PRC.Example.exA PRC.Example.exB) = .ok ops ∧
      readPatchOps ops = .ok d' ∧ patchM PRC.Example.exA d' = .ok r ∧
      specEq r PRC.Example.exB = true ∧ equals [] r PRC.Example.exB = true := by
  obtain ⟨h1, h2, h3, h4, h5, h6, h7, h8, h9, h10, h11, h12, h13, h14, h15, _⟩ := PRC.Example.hyps L
  exact own_patch_output_reproduces_target_noPrecision L F [] rfl rfl rfl _ _ h1 h2 h3 h4
    Own.Example.exA_elemsRaw h5 h6 h7 h8 h9 h10 h11 h12 h13 h14 h15

example (L : FloatLaws) (F : FloatEq0) : PBwf (diffM [] PRC.Example.exA PRC.Example.exB) = true ∧
    (diffM [] PRC.Example.exA PRC.Example.exB).all jdShaped = true ∧
    (diffM [] PRC.Example.exA PRC.Example.exB).all hunkListDoc = true := by
  obtain ⟨h1, h2, h3, h4, h5, h6, _, h8, h9, h10, h11, _, _, h14, h15, h16⟩ := PRC.Example.hyps L
  exact produced_diff_in_grammar F [] rfl rfl _ _ h1 h2 h3 h4 Own.Example.exA_elemsRaw h5 h6 h8 h9
    h10 h11 h16 h14 h15

/-! ## 3. Regressions of the repaired defect D28 (the reader now REJECTS every former witness)

  `tst s v`, `rmv s v`, `adp s v` are the operations `test` / `remove` / `add` at the pointer `s` with
  value `v` (`Jd.PB`). What the element loop alone made of each witness, what jd's `Patch` then did
  and what RFC 6902 gives is proved in JdProofs/PatchNeverMorePermissive.lean (`NMP.loop_alone_…`). -/

/-- F1, `NMP.w1Ops` = `test /a/0 "x"; add /b/1 "y"`: the test of `a[0]` was taken as the before-context
    of the edit of `b` (jd checked `b[0]` and applied; RFC 6902 tests `a[0]` and rejects on
    `{"a":["z"],"b":["x"]}`). Now: rejected, the parent of the context test is not the parent of the
    edit -/
theorem fixed_context_of_another_array :
    NMP.w1Ops = [tst "/a/0" (.str "x"), adp "/b/1" (.str "y")] ∧ readPatchOps NMP.w1Ops = .err :=
  ⟨rfl, NMP.fixed_context_of_another_array⟩

/-- F2, `NMP.w2Ops` = `test /1 "b"; remove /3; add /2 "x"`: the `remove` was taken as the after-context
    line of the `add` and NOT executed. Now: rejected, the operation taken as after-context is not
    a `test` -/
theorem fixed_non_test_taken_as_context :
    NMP.w2Ops = [tst "/1" (.str "b"), rmv "/3" (.str "c"), adp "/2" (.str "x")] ∧
    readPatchOps NMP.w2Ops = .err :=
  ⟨rfl, NMP.fixed_non_test_taken_as_context⟩

/-- F3, `NMP.w3Ops` = `test /0 "a"; test /5 "b"; add /3 "x"`: only `3 ≤ 5` was checked; jd compared
    the context lines with the elements at 2 and 3, RFC 6902 tests the elements at 0 and 5. Now:
    rejected, the before test is at 0, not at 3 − 1 -/
theorem fixed_context_indices_unchecked :
    NMP.w3Ops = [tst "/0" (.str "a"), tst "/5" (.str "b"), adp "/3" (.str "x")] ∧
    readPatchOps NMP.w3Ops = .err :=
  ⟨rfl, NMP.fixed_context_indices_unchecked⟩

/-- F3b, `NMP.w7Ops` = `test /0 "b"; test /2 "a"; test /1 "r1"; remove /1; test /1 "r2"; remove /1`:
    jd checked the after-context AFTER both (coalesced) removals, RFC 6902 before them. Now:
    rejected — the check runs once the elements are complete, with the removals coalesced into
    the element (`1 + 2 = 3 ≠ 2`). (`FloatLaws`: reading this patch coalesces two elements, which
    compares their paths with the opaque float `Equals`.) -/
theorem fixed_after_context_vs_coalesced_removals (L : FloatLaws) :
    NMP.w7Ops = [tst "/0" (.str "b"), tst "/2" (.str "a"), tst "/1" (.str "r1"),
      rmv "/1" (.str "r1"), tst "/1" (.str "r2"), rmv "/1" (.str "r2")] ∧
    readPatchOps NMP.w7Ops = .err :=
  ⟨rfl, NMP.fixed_after_context_vs_coalesced_removals L⟩

/-- the witness that refuted the main statement for the element loop alone
    (`NMP.loop_alone_unrestricted_goal_is_false`) no longer reaches `Patch`: nothing is read from it -/
theorem fixed_unrestricted_goal_witness : ¬ ∃ d, readPatchOps NMP.w1Ops = .ok d :=
  NMP.fixed_unrestricted_goal_witness

/-! ## 4. Regressions of the repaired defect D30: RFC 6901 token syntax

  `NMP.w4Ops` = `add` at the pointer slash-zero-one, `NMP.w5Ops` = `add` at the pointer slash-minus-one,
  `NMP.w6Ops` = `add` at the pointer slash-tilde-two, each with the value `"x"`; `NMP.w4Doc` = `["a","b"]`.
  `NMP.w4Diff`, `NMP.w5Diff`: what the REPAIRED reader builds (one hunk at the member name `01` / `-1`);
  `NMP.w4DiffOld`, `NMP.w5DiffOld`, `NMP.w6DiffOld`: what the reader built BEFORE the repair (index 1, the
  append index, the member tilde-two). -/

/-- **D30, index tokens** (`strconv.Atoi` accepts a leading zero and a sign; RFC 6901 section 4 does
    not). Before: jd read slash-zero-one as index 1 and slash-minus-one as "append" and applied both to
    `["a","b"]`; RFC 6902 rejects both. Now: the tokens are MEMBER NAMES; the patches are read, jd's
    `Patch` FAILS on the array as RFC 6902 does, and on the object `{}` jd and RFC 6902 both add the
    member `01` / `-1` -/
theorem fixed_noncanonical_index_tokens :
    (readPatchOps NMP.w4Ops = .ok NMP.w4Diff ∧ patchM NMP.w4Doc NMP.w4Diff = .err ∧
     eval NMP.w4Doc (NMP.w4Ops.map PatchOp.toSpec) = none ∧
     (∃ r, patchM (.obj []) NMP.w4Diff = .ok r ∧ untag r = .obj [("01", .str "x")]) ∧
     eval (.obj []) (NMP.w4Ops.map PatchOp.toSpec) = some (.obj [("01", .str "x")])) ∧
    (readPatchOps NMP.w5Ops = .ok NMP.w5Diff ∧ patchM NMP.w4Doc NMP.w5Diff = .err ∧
     eval NMP.w4Doc (NMP.w5Ops.map PatchOp.toSpec) = none ∧
     (∃ r, patchM (.obj []) NMP.w5Diff = .ok r ∧ untag r = .obj [("-1", .str "x")]) ∧
     eval (.obj []) (NMP.w5Ops.map PatchOp.toSpec) = some (.obj [("-1", .str "x")])) :=
  NMP.fixed_noncanonical_index_tokens

/-- what the repaired pointer reader makes of the tokens: `01`, `-1`, `+1`, `-0` are member names, `-`
    alone is still the append index, `0` and `1` are indices -/
theorem fixed_index_token_reading :
    readPointer "/01" = .ok [.key "01"] ∧ readPointer "/-1" = .ok [.key "-1"] ∧
    readPointer "/+1" = .ok [.key "+1"] ∧ readPointer "/-0" = .ok [.key "-0"] ∧
    readPointer "/-" = .ok [.idx (-1)] ∧ readPointer "/0" = .ok [.idx 0] ∧
    readPointer "/1" = .ok [.idx 1] :=
  NMP.fixed_index_token_reading

/-- **D30, escapes** (a `~` not followed by 0 or 1 was kept as text; RFC 6901 section 3 makes it an
    error). Now: `readPointer` rejects slash-tilde-two and slash-a-tilde (`checkPointerEscapes`), the
    patch `add` at slash-tilde-two is not read; RFC 6902 evaluation rejects it too -/
theorem fixed_invalid_escape_rejected :
    readPointer "/~2" = .err ∧ readPointer "/a~" = .err ∧ readPatchOps NMP.w6Ops = .err ∧
    eval (.obj []) (NMP.w6Ops.map PatchOp.toSpec) = none :=
  NMP.fixed_invalid_escape_rejected

/-- what made D30 a defect (documentation of the behaviour before the repair): the diffs the
    reader used to build from the three witnesses APPLY under jd's `Patch` where RFC 6902
    evaluation of the operations fails -/
theorem before_repair_readings_applied :
    ((∃ r, patchM NMP.w4Doc NMP.w4DiffOld = .ok r ∧
        untag r = .arr .raw [.str "a", .str "x", .str "b"]) ∧
     eval NMP.w4Doc (NMP.w4Ops.map PatchOp.toSpec) = none) ∧
    ((∃ r, patchM NMP.w4Doc NMP.w5DiffOld = .ok r ∧
        untag r = .arr .raw [.str "a", .str "b", .str "x"]) ∧
     eval NMP.w4Doc (NMP.w5Ops.map PatchOp.toSpec) = none) ∧
    ((∃ r, patchM (.obj []) NMP.w6DiffOld = .ok r ∧ untag r = .obj [("~2", .str "x")]) ∧
     eval (.obj []) (NMP.w6Ops.map PatchOp.toSpec) = none) :=
  NMP.before_repair_readings_applied

/-- none of the three pointer texts is canonical in the sense of `canonPtr` (the text jd itself
    writes): `01` and `-1` are now member names that `writePointer` refuses, slash-tilde-two is not
    read -/
theorem fixed_pointers_not_canonical :
    NMP.canonPtr "/01" = false ∧ NMP.canonPtr "/-1" = false ∧ NMP.canonPtr "/~2" = false :=
  NMP.fixed_pointers_not_canonical

/-- the witness that showed `canonPtr` could not be dropped from the main statement (the pointer
    slash-zero-one on `["a","b"]`) is no longer one: the patch is read, every other hypothesis
    holds, and jd's `Patch` of what was read FAILS -/
theorem fixed_canonical_pointers_witness :
    readPatchOps NMP.w4Ops = .ok NMP.w4Diff ∧ (∀ h ∈ NMP.w4Diff, HunkRange h) ∧
    ¬ ∃ r, patchM NMP.w4Doc NMP.w4Diff = .ok r :=
  NMP.fixed_canonical_pointers_witness

/-! ## Non-vacuity of sections 1 and 2

  `NMP.exOps` = `test /0 "a"; test /2 "c"; test /1 "b"; remove /1; add /1 "x"` (a replacement with both
  context lines, what `RenderPatch` writes for `NMP.exDiff`), `NMP.exDoc` = `["a","b","c"]`: every
  hypothesis of the main statement holds (`ex_values`, `ex_canon`, `ex_readOps`, `ex_range`), jd's
  `Patch` applies (`ex_patch`), so the theorem speaks about an actual run. -/

example (L : FloatLaws) (F : FloatEq0) :
    (∀ o ∈ NMP.exOps, NMP.valueOK o.value = true) ∧ (∀ o ∈ NMP.exOps, NMP.canonPtr o.path = true) ∧
    readPatchOps NMP.exOps = .ok NMP.exDiff ∧ (∀ h ∈ NMP.exDiff, HunkRange h) ∧
    NMP.Gwf NMP.exDiff = true ∧ PBwf NMP.exDiff = true ∧
    renderPatchOps NMP.exDiff = .ok NMP.exOps :=
  ⟨NMP.ex_values, NMP.ex_canon, NMP.ex_readOps L F, NMP.ex_range, NMP.ex_gwf, NMP.ex_pbwf,
    NMP.ex_render⟩

example (L : FloatLaws) (F : FloatEq0) : ∃ r r', patchM NMP.exDoc NMP.exDiff = .ok r ∧
    eval NMP.exDoc (NMP.exOps.map PatchOp.toSpec) = some r' ∧ untag r' = untag r := by
  obtain ⟨r, hr, _⟩ := NMP.ex_patch
  obtain ⟨r', h1, h2⟩ := never_more_permissive L F (t := NMP.exDoc) (by decide) (by decide)
    NMP.ex_values NMP.ex_canon (NMP.ex_readOps L F) NMP.ex_range hr
  exact ⟨r, r', hr, h1, h2⟩

/-! ## 5. Parse-back, the element loop alone (JdProofs/PatchParseBack.lean)

  `readPatchLoop (ops.length + 1) ops []` is the element loop of `ReadPatchString` without the context
  check; `readPatchOps ops = .ok d` implies `readPatchLoop … = .ok d`. Domain `PBwf d` (Bool): strict
  hunks, key / index paths expressible as JSON Pointers, indices in [0, 2^53), at most one line of
  context per side, self-equal removed values, adjacent hunks on different paths (or the second
  with its own context) — what list-mode `Diff` produces: 162 409 model diffs were all inside it. -/

/-- the full reader only ever returns what the element loop read (the context check filters) -/
theorem full_reader_returns_what_the_loop_read {ops : List PatchOp} {d : Diff}
    (h : readPatchOps ops = .ok d) : readPatchLoop (ops.length + 1) ops [] = .ok d :=
  NMP.readPatchOps_loop h

/-- reading the operations jd rendered gives the diff back (normal form) -/
theorem own_output_reads_back (L : FloatLaws) (d : Diff) (hwf : PBwf d = true) (ops : List PatchOp)
    (h : renderPatchOps d = .ok ops) :
    readPatchLoop (ops.length + 1) ops [] = .ok (normPB d) :=
  readPatch_render L d hwf ops h

/-- the pointer layer round-trips -/
theorem pointer_reads_back {p : Path} {s : String} (hp : pathOK p = true)
    (hs : writePointerPath p = .ok s) : readPointer s = .ok p :=
  readPointer_write hp hs

/-- the read-back diff applies wherever the original applies, with the same result (reference semantics) -/
theorem read_back_diff_applies_like_original (L : FloatLaws) (d : Diff) (hwf : PBwf d = true)
    (hs : d.all jdShaped = true) (ops : List PatchOp) (h : renderPatchOps d = .ok ops) :
    ∃ d', readPatchLoop (ops.length + 1) ops [] = .ok d' ∧
      ∀ a b, applyStrictAll a d = some b → applyStrictAll a d' = some b :=
  readPatch_render_apply L d hwf hs ops h

/-- … and through the library's Patch: render, read back, patch reproduces what the diff does -/
theorem render_read_patch (L : FloatLaws) (d : Diff) (hwf : PBwf d = true)
    (hs : d.all jdShaped = true) (hld : d.all hunkListDoc = true)
    (ops : List PatchOp) (h : renderPatchOps d = .ok ops)
    (a b : Json) (ha : a.listDoc = true) (hab : applyStrictAll a d = some b) :
    ∃ d' r, readPatchLoop (ops.length + 1) ops [] = .ok d' ∧ patchM a d' = .ok r ∧ untag r = untag b :=
  readPatch_render_patch L d hwf hs hld ops h a b ha hab

end Jd.Props.C10
