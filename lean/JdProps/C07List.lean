/-
  Property C07 — "every hunk describes a real difference … equal sub-documents are never mentioned",
  LIST reading of arrays (`dispatchTag o = .list`), STRICT strategy (`isMerge o = false`), no
  Precision: clauses 1–3 for ARRAYS WHOSE ELEMENTS MAY BE CONTAINERS (objects, arrays), at FULL
  nesting depth. Statement file; proofs in JdProofs/RealDiffList.lean (namespace `Jd.RealL`).
  This closes the item "LIST reading, clauses 2 and 3 for list hunks whose elements are containers:
  not proved" of JdProps/C07.lean (whose sections 2a, 3, 5 ask `scalars`). The clause "no hunk is
  redundant" is already general (`Jd.Props.C07.no_redundant_hunk_list`).

  WHICH FORM IS PROVED: the STATIC one (sections 1–5; against the two documents themselves, no
  interpreter, NO hash-collision hypothesis), and the OPERATIONAL one for the removed values
  (section 6; against the reference interpreter `applyStrict`, a restatement of
  `Rec.diffM_hunk_applies`, which needs `HashOK`).

  VOCABULARY (definitions of `Jd.RealL`)
    `Script`, `Step`   an ALIGNMENT of two arrays `xs`, `ys`: a list of steps
                         `keep x y`   `x` of `xs` is kept and stands for `y` of `ys`,
                         `sub x y`    `x`, `y` are recursed into,
                         `edit R A`   the run `R` of `xs` is replaced by the run `A` of `ys`;
                       `src S` = `xs` (what the steps consume), `tgt S` = `ys` (what they produce).
    `Step.ok o`        what the diff guarantees about a step: `keep`: ONE hash code (list elements are
                       matched by their 64-bit hash code); `sub`: two containers of the same kind
                       (`sameContainerType`) with DIFFERENT hash codes; `edit`: `R ≠ [] ∨ A ≠ []` and
                       the j-th element of `R` and the j-th of `A` have different hash codes
                       (`Real.HashApart`).
    `hunks o p k prev S`  the hunks an alignment stands for below the path `p`: an `edit R A` step
                       standing at index `k` of the SECOND array is the hunk `@ p ++ [k]`, before-context
                       the preceding element of `ys` (void at the start), `- R`, `+ A`, after-context
                       the next element of `xs` (void at the end); a `sub x y` step at index `k` is
                       the sub-diff `diffNode o false x y (p ++ [k])`; `keep` is nothing.
    `Aligned o t xs t' ys S`  `S` consumes `xs`, produces `ys`, every step is `ok`, and for EVERY path
                       `p` the diff of the two arrays below `p` IS `hunks o p 0 void S`.
    `Nav o a b qa q u w`  joint navigation: following `q`, `b` leads to `w`; following `qa`, `a` leads to
                       `u`. Keys: the same key on both sides. A list index `j` of `q` enters `ys[j]`;
                       `qa` carries the index of the element of `xs` that the alignment pairs with
                       `ys[j]` by a `sub` step — `j` shifted by the preceding edits (`index_shift`).
                       `q` is what the hunks carry: hunk paths are paths of `b`.
    `Leaf`, `HunkReal o a b p h`  `h` is a hunk at a joint location `q` of `a`, `b` (path `p ++ q …`) and
                       is there: a value replacement (`Real.RealOpt`, the seven clauses of
                       `C07.keyed_hunk_real`), a member removed / added, or an `edit` step of the
                       alignment of the two arrays standing there.
    `Real.Located q xs ys h`  `h.path = q ++ [i]`, `xs = preA ++ h.remove ++ postA`,
                       `ys = preB ++ h.add ++ postB`, `|preB| = i`, `h.before` = [last of `preB` or void],
                       `h.after` = [head of `postA` or void]   (JdProofs/RealDiff.lean).
    `Real.getAt n q`   what `n` holds at the key / index path `q`.

  WHAT "REMOVED DIFFERS FROM ADDED" MEANS FOR RUNS (tested by `#eval` on all pairs of arrays up to
    length 3 over 8 elements incl. objects and arrays, 342 225 pairs, no counterexample; then
    proved): POSITION BY POSITION — the j-th removed value is not `Equals` to the j-th added value
    whenever both exist, also when containers of different kinds are replaced. (Not "no removed
    value equals any added value": `[1,2] → [2,1]` may remove 1 … and add … 1.)

  HYPOTHESES and why
    `dispatchTag o = .list`, `isMerge o = false`, `precOf o = 0`   the reading proved.
    `a.rawDoc`     `a` as read from JSON / YAML (every array a plain `jsonArray`): a typed `jsonList`
                   element against a plain array is replaced wholesale with a context line
                   (`Rec.Example.mixed_not_concatenation`); no reader produces such a node.
    `Good x`       `listDoc` ∧ `wf` (sorted unique keys) ∧ `finiteNums` ∧ `memOK` (no void member): the
                   domain of C01. `wf` is needed: `Rec.Example.nonwf_diff`.
    `NumHashOK o (subterms a) (subterms b)`   numbers of `a` and `b` that are equal as floats have the
                   same hash code. True of all finite doubles (`0` and `-0` hash alike); a hypothesis
                   because the kernel cannot evaluate `Float`. Implied by `DPL.ZeroOK`.
    `Dom x`, `FloatEq0`   (only the `Equals` forms) `listDoc` ∧ `wf` ∧ `finiteNums` ∧ `noNegZero`, and
                   `|x − y| ≤ +0` only for `x = y`: under these `Equals` implies equal hash codes.
    NO hash-collision hypothesis in sections 1–5: the diff compares hash codes, and the
    statements are about hash codes (`keep`: equal, `sub` / `edit`: different) or follow from
    "different hash codes ⇒ not `Equals`". With `DPL.HashOK` a kept pair is moreover structurally equal.
-/
import JdProofs.RealDiffList

set_option autoImplicit false

namespace Jd.Props.C07List
open Jd Jd.Spec Jd.DPL Jd.Rec Jd.RealL

/-! ## 1. the diff of two arrays is the rendering of an alignment -/

/-- for two arrays (elements arbitrary: scalars, objects, arrays) there is an alignment `S` of `xs`
    and `ys` — kept pairs with one hash code, recursed pairs same-kind containers with different
    hash codes, edits non-empty and position-wise hash-apart — of which the diff is the rendering,
    below every path `p`. `ht`, `ht'`, `htt`: both arrays are read as lists and the pair is not "typed
    list against plain array" (`t = t' = .raw` for documents read from text); `nomix`: the same
    for the elements -/
theorem array_diff_is_alignment {o : Opts} (ho : dispatchTag o = .list) {t t' : Tag}
    (xs ys : List Json) (ht : (t == .raw || t == .list) = true)
    (ht' : (t' == .raw || t' == .list) = true) (htt : t = .raw ∨ t' = .list)
    (gx : GoodL xs) (gy : GoodL ys) (Z : NumHashOK o (subtermsList xs) (subtermsList ys))
    (nomix : ∀ x ∈ xs, ∀ y ∈ ys, mixedPair x y = false) :
    ∃ S : Script, src S = xs ∧ tgt S = ys ∧ (∀ st ∈ S, st.ok o) ∧
      ∀ p, diffNode o false (.arr t xs) (.arr t' ys) p = hunks o p 0 .void S := by
  obtain ⟨S, al⟩ := diffNode_aligned ho xs ys ht ht' htt gx gy Z nomix
  exact ⟨S, al.src_eq, al.tgt_eq, al.ok, al.diff_eq⟩

/-- clauses 2 and 3 at one array level (any path prefix `p`): every hunk is an array-level hunk —
    `remove` a contiguous run of `xs`, `add` the contiguous run of `ys` standing at the addressed
    index, context lines literally the neighbours, not empty, j-th removed and j-th added value
    with different hash codes — or belongs to the sub-diff of a `sub x y` step of the alignment,
    addressed to the index of `y` in `ys` -/
theorem array_hunk_located {o : Opts} {t t' : Tag} {xs ys : List Json} {S : Script}
    (al : Aligned o t xs t' ys S) (p : Path) :
    ∀ h ∈ diffNode o false (.arr t xs) (.arr t' ys) p,
      (Real.Located p xs ys h ∧
        (∀ (j : Nat) (r w : Json), h.remove[j]? = some r → h.add[j]? = some w →
          hashCode o r ≠ hashCode o w) ∧
        (h.remove ≠ [] ∨ h.add ≠ []) ∧ h.merge = false) ∨
      (∃ S1 x y S2, S = S1 ++ .sub x y :: S2 ∧ sameContainerType o x y = true ∧
        hashCode o x ≠ hashCode o y ∧
        h ∈ diffNode o false x y (p ++ [.idx ((tgt S1).length : Int)])) :=
  aligned_hunk al p

/-- clause 1 at one array level: an element `y` that the alignment KEEPS (index `j = |tgt S1|` of
    `ys`; it stands for `x`, index `|src S1|` of `xs`, same hash code) is not mentioned: no hunk has a
    path below `p ++ [j]`, and a hunk addressed to `p ++ [j]` itself adds nothing — it is an
    `edit R []` step removing elements that stand just before `x` -/
theorem kept_element_not_mentioned {o : Opts} {t t' : Tag} {xs ys : List Json} {S1 S2 : Script}
    {x y : Json} (al : Aligned o t xs t' ys (S1 ++ .keep x y :: S2)) (p : Path) :
    hashCode o x = hashCode o y ∧
    ∀ h ∈ diffNode o false (.arr t xs) (.arr t' ys) p,
      (∀ e, ¬ (p ++ [PathElem.idx ((tgt S1).length : Int), e]) <+: h.path) ∧
      (h.path = p ++ [PathElem.idx ((tgt S1).length : Int)] →
        h.add = [] ∧ ∃ S0 R S0', S1 = S0 ++ .edit R [] :: S0' ∧ tgt S0' = [] ∧ h.remove = R) :=
  ⟨al.ok (.keep x y) (by simp), kept_not_mentioned al p⟩

/-- a hunk that goes strictly below the index `j` belongs to the sub-diff of the `sub` step whose
    second element stands at `j` -/
theorem hunk_below_index_is_sub_diff {o : Opts} {t t' : Tag} {xs ys : List Json} {S : Script}
    (al : Aligned o t xs t' ys S) (p : Path) {h : Hunk}
    (hm : h ∈ diffNode o false (.arr t xs) (.arr t' ys) p) {j : Nat} {e : PathElem}
    (hpre : (p ++ [PathElem.idx (j : Int), e]) <+: h.path) :
    ∃ S1 x y S2, S = S1 ++ .sub x y :: S2 ∧ (tgt S1).length = j ∧
      h ∈ diffNode o false x y (p ++ [.idx (j : Int)]) := by
  rw [al.diff_eq p] at hm
  exact hunk_below_index hm hpre

/-! ## 2. every hunk of `a.Diff(b)` is real, at any depth -/

/-- EVERY hunk of `a.Diff(b)` is `HunkReal`: it sits at a joint location of `a` and `b` reached
    through object keys and list elements, and is there a value replacement, a member removed or
    added, or an `edit` step of the alignment of the two arrays standing there -/
theorem every_hunk_real {o : Opts} (ho : dispatchTag o = .list) (hp : precOf o = 0)
    (hm : isMerge o = false) {a b : Json} (hr : a.rawDoc = true) (ha : Good a) (hb : Good b)
    (N : NumHashOK o (subterms a) (subterms b)) :
    ∀ h ∈ diffM o a b, HunkReal o a b [] h :=
  diffM_hunk_real ho hp hm hr ha hb N

/-- **clauses 2 and 3 for every hunk addressed to a list index, at any depth** (`h.path = q ++ [i]`):
    `b` holds an array `ys` at `q` — the path read literally —, `a` holds an array `xs` at a path `qa` of
    the same shape (same keys, list indices at the same places); `h.remove` is a contiguous run of
    `xs`; `h.add` is the contiguous run of `ys` standing at index `i`; the context lines are literally
    the neighbouring elements (of `ys` before, of `xs` after; void at the array boundary); the hunk
    is not empty; the j-th removed and the j-th added value have different hash codes -/
theorem list_hunk_located {o : Opts} (ho : dispatchTag o = .list) (hp : precOf o = 0)
    (hm : isMerge o = false) {a b : Json} (hr : a.rawDoc = true) (ha : Good a) (hb : Good b)
    (N : NumHashOK o (subterms a) (subterms b)) :
    ∀ h ∈ diffM o a b, ∀ (q : Path) (i : Int), h.path = q ++ [.idx i] →
      ∃ (qa : Path) (t : Tag) (xs : List Json) (t' : Tag) (ys : List Json),
        Real.getAt a qa = some (.arr t xs) ∧ Real.getAt b q = some (.arr t' ys) ∧ sameShape qa q ∧
        (∃ (i' : Nat) (preA postA preB postB : List Json),
          h.path = q ++ [PathElem.idx i'] ∧ xs = preA ++ h.remove ++ postA ∧
          ys = preB ++ h.add ++ postB ∧ preB.length = i' ∧
          h.before = [preB.getLast?.getD .void] ∧ h.after = [postA.headD .void]) ∧
        (∀ (j : Nat) (r w : Json), h.remove[j]? = some r → h.add[j]? = some w →
          hashCode o r ≠ hashCode o w) ∧
        (h.remove ≠ [] ∨ h.add ≠ []) ∧ h.merge = false := by
  intro h hmem q i hpath
  obtain ⟨qa, t, xs, t', ys, _, g1, g2, g3, g4, g5, g6, g7⟩ :=
    hunkReal_list (diffM_hunk_real ho hp hm hr ha hb N h hmem) hpath
  exact ⟨qa, t, xs, t', ys, g1, g2, g3, g4, g5, g6, g7⟩

/-- every OTHER hunk (path not ending with a list index: the root, or below an object key — also
    INSIDE list elements) carries no context and replaces one value: what `a` holds at `qa` (same
    shape as the hunk's path) by what `b` holds at the hunk's path, literally; these are not
    `Equals`; one side may hold nothing (member removed / added): `Real.RealOpt` -/
theorem value_hunk_real {o : Opts} (ho : dispatchTag o = .list) (hp : precOf o = 0)
    (hm : isMerge o = false) {a b : Json} (hr : a.rawDoc = true) (ha : Good a) (hb : Good b)
    (N : NumHashOK o (subterms a) (subterms b)) :
    ∀ h ∈ diffM o a b, (∀ q i, h.path ≠ q ++ [PathElem.idx i]) →
      h.before = [] ∧ h.after = [] ∧ h.merge = false ∧
      ∃ qa, sameShape qa h.path ∧
        h.remove.length ≤ 1 ∧ h.add.length ≤ 1 ∧
        (∀ v, h.remove = [v] → ∃ u, Real.getAt a qa = some u ∧ Real.asList v = Real.asList u) ∧
        (∀ w, h.add = [w] → Real.getAt b h.path = some w) ∧
        (h.remove = [] → ∀ u, Real.getAt a qa = some u → u = .void) ∧
        (h.add = [] → ∀ u, Real.getAt b h.path = some u → u = .void) ∧
        (∀ v w, h.remove = [v] → h.add = [w] → equals o v w = false) :=
  fun h hmem hpath => hunkReal_value (diffM_hunk_real ho hp hm hr ha hb N h hmem) hpath

/-- **clause 3, `Equals` form, any depth**: in a hunk addressed to a list index the j-th removed
    value is not `Equals` to the j-th added value (scalars or containers of any kinds), and the
    hunk does not remove exactly what it adds -/
theorem list_hunk_removed_not_equals_added (F : FloatEq0) {o : Opts} (ho : dispatchTag o = .list)
    (hp : precOf o = 0) (hm : isMerge o = false) {a b : Json} (hr : a.rawDoc = true)
    (ha : Good a) (hb : Good b) (da : Dom a) (db : Dom b)
    (N : NumHashOK o (subterms a) (subterms b)) :
    ∀ h ∈ diffM o a b, ∀ (q : Path) (i : Int), h.path = q ++ [.idx i] →
      (∀ (j : Nat) (r w : Json), h.remove[j]? = some r → h.add[j]? = some w →
        equals o r w = false) ∧ h.remove ≠ h.add :=
  fun h hmem _ _ hpath =>
    hunkReal_list_not_equals F ho hp da db (diffM_hunk_real ho hp hm hr ha hb N h hmem) hpath

/-! ## 3. what the joint navigation means -/

/-- the path of the navigation — the path the hunks carry — read literally, is a path of `b`; `qa` is
    a path of `a`; the two have the same shape -/
theorem nav_reads_both {o : Opts} {a b : Json} {qa q : Path} {u w : Json}
    (nav : Nav o a b qa q u w) :
    Real.getAt a qa = some u ∧ Real.getAt b q = some w ∧ sameShape qa q :=
  ⟨nav.getAt_a, nav.getAt_b, nav.sameShape⟩

/-- the index shift at one list level: for a step standing after `S1`, its position in the first
    array plus what the edits of `S1` add equals its position in the second array (the index in the
    path) plus what they remove -/
theorem index_shift (S1 : Script) :
    (src S1).length + addedLen S1 = (tgt S1).length + removedLen S1 :=
  RealL.index_shift S1

/-- a navigation step through a list index only ever enters a pair of same-kind containers with
    different hash codes; on the domain they are not `Equals`: no hunk below a list index speaks
    about an `Equals` pair of list elements -/
theorem recursed_pair_not_equals (F : FloatEq0) {o : Opts} (ho : dispatchTag o = .list)
    (hp : precOf o = 0) {a b : Json} (da : Dom a) (db : Dom b) {qa q q' : Path} {i : Int}
    {u w : Json} (nav : Nav o a b qa q u w) (e : q = q' ++ [.idx i]) :
    sameContainerType o u w = true ∧ hashCode o u ≠ hashCode o w ∧ equals o u w = false :=
  ⟨(nav.ends_idx q' i e).1, (nav.ends_idx q' i e).2, nav.not_equals F ho hp da db e⟩

/-! ## 4. clause 1 at full depth -/

/-- **`Equals` sub-documents are never mentioned** — through object keys AND list elements: if the
    joint navigation `q` leads to `Equals` values, no hunk of `a.Diff(b)` has a path at or below `q` -/
theorem equal_subdocument_not_mentioned_deep (F : FloatEq0) {o : Opts}
    (ho : dispatchTag o = .list) (hp : precOf o = 0) (hm : isMerge o = false) {a b : Json}
    (hr : a.rawDoc = true) (da : Dom a) (db : Dom b) {qa q : Path} {u w : Json}
    (nav : Nav o a b qa q u w) (he : equals o u w = true) :
    ∀ h ∈ diffM o a b, ¬ q <+: h.path := by
  rw [diffM, hm]
  simpa using equal_not_mentioned F ho hp hr da db nav he []

/-- **a kept list element is not mentioned, at any depth**: `a`, `b` hold the arrays `xs`, `ys` at the
    joint location `q`, and their alignment keeps `x` for `y = ys[j]`: no hunk of `a.Diff(b)` goes below
    `q ++ [j]`, and a hunk addressed to `q ++ [j]` adds nothing -/
theorem kept_element_not_mentioned_deep {o : Opts} (ho : dispatchTag o = .list)
    (hm : isMerge o = false) {a b : Json} (hla : a.listDoc = true) (hwa : a.wf = true)
    (hlb : b.listDoc = true) (hwb : b.wf = true) {qa q : Path} {t t' : Tag} {xs ys : List Json}
    (nav : Nav o a b qa q (.arr t xs) (.arr t' ys)) {S1 S2 : Script} {x y : Json}
    (al : Aligned o t xs t' ys (S1 ++ .keep x y :: S2)) :
    ∀ h ∈ diffM o a b,
      (∀ e, ¬ (q ++ [PathElem.idx ((tgt S1).length : Int), e]) <+: h.path) ∧
      (h.path = q ++ [PathElem.idx ((tgt S1).length : Int)] → h.add = []) := by
  rw [diffM, hm]
  simpa using kept_not_mentioned_deep ho nav al hla hwa hlb hwb []

/-- localisation: the hunks of `a.Diff(b)` strictly below a joint location `q` are hunks of the
    sub-diff of the two values standing there -/
theorem hunks_below_location {o : Opts} (ho : dispatchTag o = .list) (hm : isMerge o = false)
    {a b : Json} (hla : a.listDoc = true) (hwa : a.wf = true) (hlb : b.listDoc = true)
    (hwb : b.wf = true) {qa q : Path} {u w : Json} (nav : Nav o a b qa q u w) :
    ∀ h ∈ diffM o a b, ∀ r, r ≠ [] → (q ++ r) <+: h.path → h ∈ diffNode o false u w q := by
  intro h hmem r hr hpre
  rw [diffM, hm] at hmem
  simpa using hunk_below_nav ho nav hla hwa hlb hwb [] h hmem r (by simpa using hpre) (.inl hr)

/-! ## 5. operational form: the removed values are what the reference interpreter finds -/

/-- split `a.Diff(b) = D1 ++ h :: D2` anywhere; `h` addressed to a list index, `h.path = q ++ [i]`.
    The hunks before `h` apply to `a` (reference interpreter) and give `m`; at `q` — the hunk's own
    path, read literally in `m` — `m` holds a list `l`, and the values `h` removes are, one by one,
    structurally equal to `l[i], l[i+1], …`: each removed value is what the interpreter finds at that
    position at that moment (context lines: `Rec.diffM_context_is_neighbours`).
    Hypotheses of C01 in list mode: `HashOK` (no FNV collision between a sub-term of `a` and one of
    `b`), `ZeroOK` (no `0` / `-0` pair), `FloatLaws` -/
theorem removed_values_operational (L : FloatLaws) {o : Opts} (ho : dispatchTag o = .list)
    (hm : isMerge o = false) {a b : Json} (ha : Good a) (hb : Good b)
    (H : HashOK o a b) (Z : ZeroOK a b) (D1 : Diff) (h : Hunk) (D2 : Diff)
    (hd : diffM o a b = D1 ++ h :: D2) (q : Path) (i : Nat) (hpath : h.path = q ++ [.idx (i : Int)]) :
    ∃ (m : Json) (t : Tag) (l : List Json), applyStrictAll a D1 = some m ∧
      Real.getAt m q = some (.arr t l) ∧ i + h.remove.length ≤ l.length ∧
      prefixEq h.remove (l.drop i) = true := by
  obtain ⟨m, m', g1, _, g3⟩ := diffM_hunk_applies L o ho hm a b ha.listDoc ha.wf ha.fin ha.mem
    hb.listDoc hb.wf hb.fin hb.mem H Z D1 h D2 hd
  obtain ⟨t, l, l', g4, g5⟩ := g3 q i hpath
  obtain ⟨_, hpre, _⟩ := Real.splice_nat g5
  have hlen := Real.prefixEq_length _ _ hpre
  simp only [List.length_drop] at hlen
  have hi := (Real.splice_nat g5).1
  exact ⟨m, t, l, g1, g4, by omega, hpre⟩

/-! ## 6. non-vacuity

  `exA = ["x", {"a":"u","k":["p"]}, ["p"], "z", "w"]`, `exB = ["y", {"a":"v","k":["p"]}, ["p","q"], "z"]`
  (no options). `#eval diffM [] exA exB` gives four hunks: `@ [0] - "x" + "y"` (an `edit` step),
  `@ [1,"a"] - "u" + "v"` (a value hunk inside a list element), `@ [2,1] + "q"` (a list hunk at depth
  two), `@ [4] - "w"` (a pure removal after the kept `"z"`). All hypotheses of sections 1–4 hold for
  this pair (there is no number at all, so `NumHashOK` is trivially true), and the diff is not
  empty. -/

/-- `["x", {"a":"u","k":["p"]}, ["p"], "z", "w"]` -/
def exA : Json := .arr .raw [.str "x", .obj [("a", .str "u"), ("k", .arr .raw [.str "p"])],
  .arr .raw [.str "p"], .str "z", .str "w"]
/-- `["y", {"a":"v","k":["p"]}, ["p","q"], "z"]` -/
def exB : Json := .arr .raw [.str "y", .obj [("a", .str "v"), ("k", .arr .raw [.str "p"])],
  .arr .raw [.str "p", .str "q"], .str "z"]

theorem ex_raw : exA.rawDoc = true ∧ exB.rawDoc = true := by decide +kernel
theorem ex_goodA : Good exA := ⟨by decide +kernel, by decide +kernel, by decide +kernel, by decide +kernel⟩
theorem ex_goodB : Good exB := ⟨by decide +kernel, by decide +kernel, by decide +kernel, by decide +kernel⟩
theorem ex_domA : Dom exA := ⟨by decide +kernel, by decide +kernel, by decide +kernel, by decide +kernel⟩
theorem ex_domB : Dom exB := ⟨by decide +kernel, by decide +kernel, by decide +kernel, by decide +kernel⟩
theorem ex_num : NumHashOK [] (subterms exA) (subterms exB) := by
  intro u v hu
  simp [exA, subterms, subtermsList, subtermsKvs] at hu

/-- the diff of the example is not empty (an empty diff means equal hash codes) -/
theorem ex_nonempty : diffM [] exA exB ≠ [] := by
  intro e
  have := (diff_empty_hash' [] rfl ex_num).1 exA exB ex_goodA.listDoc ex_goodB.listDoc
    (fun _ h => h) (fun _ h => h) ex_goodA ex_goodB [] e
  revert this
  decide +kernel

example : ∀ h ∈ diffM [] exA exB, HunkReal [] exA exB [] h :=
  every_hunk_real rfl rfl rfl ex_raw.1 ex_goodA ex_goodB ex_num

example (F : FloatEq0) : ∀ h ∈ diffM [] exA exB, ∀ (q : Path) (i : Int), h.path = q ++ [.idx i] →
    (∀ (j : Nat) (r w : Json), h.remove[j]? = some r → h.add[j]? = some w →
      equals [] r w = false) ∧ h.remove ≠ h.add :=
  list_hunk_removed_not_equals_added F rfl rfl rfl ex_raw.1 ex_goodA ex_goodB ex_domA ex_domB ex_num

/-- an alignment of the two top-level arrays exists -/
example : ∃ S, Aligned [] .raw
    [.str "x", .obj [("a", .str "u"), ("k", .arr .raw [.str "p"])], .arr .raw [.str "p"], .str "z",
      .str "w"] .raw
    [.str "y", .obj [("a", .str "v"), ("k", .arr .raw [.str "p"])], .arr .raw [.str "p", .str "q"],
      .str "z"] S :=
  diffNode_aligned rfl _ _ rfl rfl (.inl rfl) (good_arr.1 ex_goodA).2 (good_arr.1 ex_goodB).2
    (fun u v hu _ => by simp [subterms, subtermsList, subtermsKvs] at hu)
    (fun x hx y _ => mixedPair_of_rawDoc_left y (by
      simp only [List.mem_cons, List.not_mem_nil, or_false] at hx
      rcases hx with rfl | rfl | rfl | rfl | rfl <;> decide +kernel))

/-- a joint navigation with `Equals` ends: the members `"k"` of the two objects standing at index 1
    are `Equals` (`["p"]` on both sides); the hypotheses of `equal_subdocument_not_mentioned_deep` other
    than the navigation hold -/
example : equals [] (.arr .raw [.str "p"]) (.arr .raw [.str "p"]) = true := by decide +kernel

end Jd.Props.C07List
