/-
  Properties C01 / C05 / C02 / C09 / C11 — the EMPTY document (`Json.void`) at the root.
  Statement file; proofs in JdProofs/VoidRoot.lean (namespace `Jd.VoidRoot`).

  The properties quantify over "any two documents a and b (JSON or YAML, including the empty
  document)".  In the model the empty document is `Json.void` (`ReadJsonString("")`).

  AUDIT of the existing statement files (which hypotheses allow `a = void` / `b = void` AT THE ROOT):
    * ALLOW void at the root (section "audit" below, all by evaluation): `listDoc`, `rawDoc`, `wf`,
      `finiteNums`, `noNegZero`, `setDoc`, `nullFree`, `DPL.memOK`, `E2E.voidFree`,
      `E2E.shortArrays`, `PRC.vfree`, `Dom`.  These predicates speak about array ELEMENTS and object
      MEMBERS only.  Hence: C01 list / SET / MULTISET / SetKeys theorems, all C05 theorems, the C02
      end-to-end theorems (E4) (E5) and the SetKeys one already cover root-void inputs on both
      sides (`HashOK`, `ZeroOK`, `HashFaithful`, `KeysHyp` are conditions on sub-terms that void
      satisfies trivially against any document without a void inside).
    * EXCLUDE void at the root: `Merge.objVoidFree b` (every MERGE theorem of C01, C02 (E6) (E7),
      C11: `b = void` is outside; `a = void` is inside), `Yaml.voidFree b` (C14 `-f merge`,
      `-f patch` round trips), and in C09 the pair (object, void) (`(a.isObj && b.isVoid) = false`).
  The theorems below close these gaps for ALL option lists at once (list, SET, MULTISET, SetKeys,
  Precision; strict or MERGE): with one side void the diff is a single whole-document hunk.

  FINDINGS (both replayed on the Go library, /tmp/pf/pq/gocheck):
    F1  C11 is FALSE for `b` = the empty document: `a.Diff(void, MERGE).RenderMerge()` is the text
        `null`; RFC 7386 gives `null`, not the empty document (`merge_patch_of_deletion_is_null`).
        jd's own reader maps `null` back to "delete the document" (KF-C12-rootnull), so the CLI
        round trip `jd -f merge a b | jd -p -f merge` still works.
    F2  `a.Diff(void, MERGE).RenderPatch()` is the no-op `[]` although the diff deletes the
        document (`json_patch_of_merge_deletion_is_noop`).  Library level only.
-/
import JdProofs.VoidRoot
import JdProofs.EqualsSet
import JdProofs.NativeEndToEnd
import JdProofs.PatchRenderClosed
import JdProofs.DiffEmpty
import JdProofs.MergeProofs
import JdProofs.DiffPatchList
import JdProofs.RealDiffList

set_option autoImplicit false

namespace Jd.Props.C01Void
open Jd Jd.Spec Jd.VoidRoot

/-! ## audit: which hypotheses of the existing theorems hold of the empty document at the root -/

/-- allowed at the root by every "document as read" predicate of C01 / C02 / C05 / C09 -/
example : Json.void.listDoc = true ∧ Json.void.rawDoc = true ∧ Json.void.wf = true ∧
    Json.void.finiteNums = true ∧ Json.void.noNegZero = true ∧ Json.void.setDoc = true ∧
    Json.void.nullFree = true ∧ DPL.memOK .void = true ∧ E2E.voidFree .void = true ∧
    E2E.shortArrays .void = true ∧ PRC.vfree .void = true := by
  decide

example : Dom .void := ⟨rfl, rfl, rfl, rfl⟩

/-- excluded at the root: the MERGE theorems (hypothesis on `b`) and the JSON-text theorems -/
example : Merge.objVoidFree .void = false ∧ Yaml.voidFree .void = false := by decide

/-! ## the diff -/

/-- `void.Diff(b, o…)` for every option list: empty when `b` is void, otherwise one root hunk adding
    `b` (carrying the Merge flag under MERGE) -/
theorem diff_of_empty_document (o : Opts) (b : Json) :
    diffM o .void b = if b.isVoid then [] else [{ merge := isMerge o, path := [], add := [b] }] :=
  diffM_void_left o b

/-- `a.Diff(void, o…)` for a document `a` (`a.isVoid = false`: `a` is a document) and every option
    list: under MERGE the merge hunk "write void at the root", otherwise the strict hunk removing
    `a` (`removedRoot o a` is `a`, an array root under the Go type its diff method ran on;
    `addRoot a` is `[void]` for an object and `[]` otherwise — `jsonObject.diff` does not go through
    `nodeList`) -/
theorem diff_against_empty_document (o : Opts) (a : Json) (ha : a.isVoid = false) :
    diffM o a .void =
      if isMerge o then [{ merge := true, path := [], add := [.void] }]
      else [{ path := [], remove := [removedRoot o a], add := addRoot a }] :=
  diffM_void_right o a ha

/-! ## C05 at the root (no hypothesis at all) -/

/-- **C05, `a` empty**: for every `b` and every option list, `void.Diff(b)` is empty iff
    `void.Equals(b)` -/
theorem diff_empty_iff_equals_left (o : Opts) (b : Json) :
    diffM o .void b = [] ↔ equals o .void b = true :=
  diff_empty_iff_equals_void_left o b

/-- **C05, `b` empty**: for every `a` (any shape, any array tags) and every option list -/
theorem diff_empty_iff_equals_right (o : Opts) (a : Json) :
    diffM o a .void = [] ↔ equals o a .void = true :=
  diff_empty_iff_equals_void_right o a

/-! ## C01 at the root -/

/-- **C01, `a` empty**: `void.Patch(void.Diff(b, o…))` succeeds and returns `b` itself — every `b`
    (any shape; void included), every option list (list / SET / MULTISET / SetKeys / Precision,
    strict or MERGE), either variant `sw` of the patch code.  No hypothesis: no hash, no float law. -/
theorem patch_of_diff_from_empty (sw : Bool) (o : Opts) (b : Json) :
    patchAll sw .void (diffM o .void b) = .ok b :=
  patch_void_left sw o b

/-- **C01, `b` empty, MERGE** (alone or with SET / MULTISET / SetKeys): the result is the empty
    document.  No hypothesis on `a`.  (The MERGE theorems of JdProps/C01.lean exclude this `b` by
    `objVoidFree b`.) -/
theorem patch_of_merge_diff_to_empty (sw : Bool) (o : Opts) (hm : isMerge o = true) (a : Json) :
    patchAll sw a (diffM o a .void) = .ok .void :=
  patch_void_right_merge sw o hm a

/-- **C01, `b` empty, strict strategy** (every option list without MERGE).  Hypotheses:
    `plainRoot a`: the root is not a `jsonSet` / `jsonMultiset` typed node (true of every document a
    reader returns; needed in the model: `typed_set_root_is_excluded`);
    `equals [] a a = true`: `a.Equals(a)` — the patch compares the removed value with the
    document; it fails only for a NaN inside `a` (follows from `finiteNums`, `equals_refl_list`). -/
theorem patch_of_strict_diff_to_empty (sw : Bool) (o : Opts) (hm : isMerge o = false) (a : Json)
    (hp : plainRoot a = true) (hr : equals [] a a = true) :
    patchAll sw a (diffM o a .void) = .ok .void :=
  patch_void_right_strict sw o hm a hp hr

/-- model-only boundary of `plainRoot` -/
theorem typed_set_root_is_excluded :
    plainRoot (.arr .set []) = false ∧ equals [] (.arr .set []) (.arr .set []) = true ∧
    diffM [] (.arr .set []) .void = [{ path := [], remove := [.arr .raw []], add := [] }] ∧
    patchM (.arr .set []) (diffM [] (.arr .set []) .void) = .err :=
  typed_set_root_witness

/-- non-vacuity: `{"k":[null]}` against the empty document, strict, under SET -/
example : patchAll true (.obj [("k", .arr .raw [.null])])
    (diffM [.set] (.obj [("k", .arr .raw [.null])]) .void) = .ok .void :=
  patch_of_strict_diff_to_empty true [.set] rfl _ rfl
    (by simp [equals, equalsKvs, alookup, effTag, dispatchTag, Json.dispatch, equalsList, Json.isNull])

/-! ## C02 at the root: the native text -/

/-- **`jd void b | jd -p void`** (every option list): if the diff renders to `text`, then
    `ReadDiffString(text)` is one root hunk adding `b` (up to the Go type of array nodes), and it
    patches the empty document to `b`.  `hP`, `hV`: the codec contract (`NativeRT.PathOK`, `ValOK`)
    for the path `[]` and the value `b`, as in every C02 theorem. -/
theorem native_text_from_empty (nc : NumCodec) (o : Opts) (b : Json) (hb : b.isVoid = false)
    (hP : NativeRT.PathOK nc []) (hV : NativeRT.ValOK nc b) (text : String)
    (hr : renderM nc [] (diffM o .void b) = some text) :
    readDiffM nc text = .ok [{ merge := isMerge o, path := [], add := [untag b] }] ∧
    ∀ sw, patchAll sw .void [{ merge := isMerge o, path := [], add := [untag b] }] = .ok (untag b) :=
  native_void_left nc o b hb hP hV text hr

/-- **`jd a void | jd -p a`**, strict strategy, `a` as read from text and `a.Equals(a)`: the text is
    read back as "remove `a` at the root" and patches `a` to the empty document -/
theorem native_text_to_empty (nc : NumCodec) (o : Opts) (hm : isMerge o = false) (a : Json)
    (ha : a.isVoid = false) (har : a.rawDoc = true) (hrefl : equals [] a a = true)
    (hP : NativeRT.PathOK nc []) (hV : NativeRT.ValOK nc (removedRoot o a)) (text : String)
    (hr : renderM nc [] (diffM o a .void) = some text) :
    readDiffM nc text = .ok [{ path := [], remove := [a] }] ∧
    ∀ sw, patchAll sw a [{ path := [], remove := [a] }] = .ok .void :=
  native_void_right nc o hm a ha har hrefl hP hV text hr

/-! ## C09 at the root: RFC 6902 -/

/-- `void.Diff(b).RenderPatch()` is `[{"op":"add","path":"","value":b}]`, which RFC 6902 evaluates
    on "no document" to `b` -/
theorem json_patch_from_empty (o : Opts) (b : Json) (hb : b.isVoid = false) :
    renderPatchOps (diffM o .void b) = .ok [{ op := "add", path := "", value := b }] ∧
    Spec.eval .void [{ op := "add", path := "", value := b }] = some b :=
  renderPatch_void_left o b hb

/-- `a.Diff(void).RenderPatch()` (strict) is `test` + `remove` at the root pointer; RFC 6902 yields
    "no document" exactly when the tested value is structurally `a` (always, for `a` as read without
    NaN).  Includes the pair (object, void) that `generated_hunks_satisfy_side_conditions` of
    JdProps/C09.lean excludes. -/
theorem json_patch_to_empty (o : Opts) (hm : isMerge o = false) (a : Json) (ha : a.isVoid = false) :
    renderPatchOps (diffM o a .void) =
      .ok [{ op := "test", path := "", value := removedRoot o a },
           { op := "remove", path := "", value := removedRoot o a }] ∧
    Spec.eval a [{ op := "test", path := "", value := removedRoot o a },
                 { op := "remove", path := "", value := removedRoot o a }]
      = if equivB [] a (removedRoot o a) then some .void else none :=
  renderPatch_void_right_strict o hm a ha

/-- **F2.** `a.Diff(void, MERGE…).RenderPatch()` is the no-op `[]` while the diff is not empty and
    deletes the document -/
theorem json_patch_of_merge_deletion_is_noop (nc : NumCodec) (o : Opts) (hm : isMerge o = true)
    (a : Json) (ha : a.isVoid = false) :
    diffM o a .void ≠ [] ∧ renderPatchOps (diffM o a .void) = .ok [] ∧
    renderPatchM nc (diffM o a .void) = .ok (some "[]") ∧
    Spec.eval a [] = some a ∧ equals o a .void = false ∧
    patchAll true a (diffM o a .void) = .ok .void :=
  renderPatch_void_right_merge_noop nc o hm a ha

/-! ## C11 at the root: RFC 7386 -/

/-- `void.Diff(b, MERGE…).RenderMerge()` is the document `b` -/
theorem merge_patch_from_empty (o : Opts) (hm : isMerge o = true) (b : Json) (hb : b.isVoid = false) :
    renderMergeDoc (diffM o .void b) = .ok b :=
  renderMerge_void_left o hm b hb

/-- **F1: C11 is false for `b` = the empty document.** For EVERY document `a` and every option list
    with MERGE: the rendered merge patch is `null`; RFC 7386 `MergePatch(a, null)` is `null`, which
    neither `Equals` nor is equivalent to the empty document; jd reads `null` back as the very diff
    it rendered, whose application gives the empty document. -/
theorem merge_patch_of_deletion_is_null (o : Opts) (hm : isMerge o = true) (a : Json)
    (ha : a.isVoid = false) :
    renderMergeDoc (diffM o a .void) = .ok .null ∧
    mergePatch a .null = .null ∧
    equals o (mergePatch a .null) .void = false ∧ equivB o (mergePatch a .null) .void = false ∧
    readMergeDoc .null = diffM o a .void ∧
    patchAll true a (readMergeDoc .null) = .ok .void :=
  renderMerge_void_right o hm a ha

/-- both empty: `{}`; RFC 7386 turns "no document" into `{}` (C11 asks for documents that differ) -/
theorem merge_patch_empty_empty (o : Opts) :
    renderMergeDoc (diffM o .void .void) = .ok (.obj []) ∧ mergePatch .void (.obj []) = .obj [] ∧
    readMergeDoc (.obj []) = [] :=
  renderMerge_void_void o

/-- a strict root-void diff is refused by `RenderMerge` (as every strict hunk is) -/
theorem merge_render_refuses_strict (o : Opts) (hm : isMerge o = false) (a b : Json)
    (hv : a.isVoid = true ∨ b.isVoid = true) (hne : a.isVoid = false ∨ b.isVoid = false) :
    renderMergeDoc (diffM o a b) = .err :=
  renderMerge_strict_err o hm a b hv hne

end Jd.Props.C01Void
