/-
  Property C14 (CLI contract), last sentence — "feeding the output of `jd [flags] a b` to
  `jd -p [flags]` on a reproduces b, in jd, patch and merge formats" — for the V1 LIBRARY:
  /repo/main.go (binary B) started with `-v2=false` calls package `lib` (model: `JdModel/V1/*`).
  Statement file. Proofs: JdProofs/CliRoundTripV1.lean (namespace `Jd.CliV1`).

  VOCABULARY (JdProofs/CliRoundTrip.lean, CliRoundTripModes.lean)
    `Cli.cliM b fl r`      the decision logic of `main` given what the library returned;
    `CliRT.Lib N D`        the library calls `main` makes, as functions;  `CliRT.proc Ls b fl e` THE
                           PROCESS: `cliM` run on what the library `Ls plan.v1` returns for the calls of
                           the plan; `Ls true` is the v1 library, `Ls false` the v2 library;
    `CliRT.Env`            what the OS returns (bytes of the two inputs, result of writing `-o`);
    `CliRT.PatchTwin fl fl2`  `fl2` is `jd -p [the same flags]` (any `-o`, one or two arguments);
    `CliRTM.TwoRuns P1 P2 fl fl2 T code out`  `P1` emits `T` (stdout, or the `-o` file and nothing on
                           stdout) with exit status `code`, nothing on stderr; `P2` exits 0, nothing
                           on stderr, and emits exactly `out`;
    `CliV1.v1Lib nc Y`     THE v1 LIBRARY OF THE MODEL as a `Lib Json V1.PDiff` (see its docstring);
    `CliV1.metasOf opts`   the `[]jd.Metadata` `parseMetadata` built, as `V1.Metas`.

  COMMON HYPOTHESES of the end-to-end theorems: `Ls true = ⟨Json, V1.PDiff, v1Lib nc Y⟩`;
  `isDiffMode fl`; `PatchTwin fl fl2`; `libIsV1 b fl = true` (binary B with `-v2=false`);
  `parsedOptions b fl = ok opts` (`main` accepted the flags: a well-formed `-setkeys`, no `-precision`
  together with `-set`/`-mset`); one or two arguments; both inputs read (`e1.in1`, `e1.in2`) and
  parsed by the v1 reader for `-yaml` to `a`, `b'`; writing `-o` succeeds where asked for; the first
  input of the second run holds the bytes the first run emitted, its second input the bytes of the
  first input of the first run.  All of them are about the command line and the OS, not the library.

  The Driver (`lean/Driver/OpsCli.lean`) does NOT run a library model inside the CLI model: `cli`
  takes `LibResults` from the harness, which obtains them by calling the REAL Go library named by
  `cliplan` (`lib=v1` for `-v2=false`: harness/props_cli.go `cliLibV1`).  So the correspondence
  checks `cliM` against the real process for the v1 library too, and the v1 library model against
  the v1 Go library separately (C17 / C18); `v1Lib` below is what joins the two in the proofs.
-/
import JdProofs.CliRoundTripV1

set_option autoImplicit false

namespace Jd.Props.C14V1
open Jd Jd.Spec Jd.Cli Jd.CliRT Jd.CliRTM Jd.CliV1

/-- **the metadata are those of `parseMetadata`.** When the command line selects the v1 library
    (`libIsV1 b fl`) and `main` accepted the flags (`ho`), the option list of the plan is the image,
    constructor by constructor, of the `[]jd.Metadata` that `parseMetadata` of /repo/main.go built
    (SET for `-set`, MULTISET for `-mset`, `Setkeys(trimmed keys…)` for `-setkeys`, MERGE for
    `-f merge`, `SetPrecision(*precision)` always last), and `metasOf` hands exactly that list to
    the v1 library model. -/
theorem v1_metadata_are_parseMetadata {b : Binary} {fl : Flags} {opts : List Opt}
    (hv1 : libIsV1 b fl = true) (ho : parsedOptions b fl = .ok opts) :
    ∃ ms, metadataOfTopV1 fl = .ok ms ∧ opts = ms.map ofV1 ∧
      metasOf opts = ms.filterMap v1MetaOf :=
  metasOf_parsedOptions hv1 ho

/-- what the v1 library reads off that list (`checkMetadata`, `getPrecision`): SET iff `-set`,
    MULTISET iff `-mset`, MERGE iff `-f merge`, the precision of `-precision`. `ho`: `main` accepted
    the flags. -/
theorem v1_metadata_facts {b : Binary} {fl : Flags} {opts : List Opt}
    (ho : parsedOptions b fl = .ok opts) :
    V1.hasSet (metasOf opts) = fl.set ∧ V1.hasMset (metasOf opts) = fl.mset ∧
    V1.hasMerge (metasOf opts) = (fl.f == "merge") ∧ V1.precOf (metasOf opts) = fl.precision :=
  metas_facts ho

/-- **the CLI step for the v1 library, any format.** Beyond the common hypotheses: `hfmt` the format
    of `-f`; `hren` the diff of the two parsed documents under the metadata renders to `T` in that
    format (with COLOR when `-color`); `hrd` the reader of that format reads `T` back as `d'`; `hpa`
    `a.Patch(d')` gives `r`.  Then the first process does not fail, emits `T` and exits with the
    `haveDiff` status of `main` (`firstExit`); the second exits 0 and emits `Json(metadata…)` /
    `Yaml(metadata…)` of `r`.  The CLI adds nothing to and loses nothing from the three library calls. -/
theorem v1_two_process_step (nc : NumCodec) (Y : YamlCarrier)
    (Ls : Bool → LibPack) (hL : Ls true = ⟨Json, V1.PDiff, v1Lib nc Y⟩)
    (b : Binary) {fl fl2 : Flags} {e1 e2 : Env} {opts : List Opt} {fmt : Format}
    (hm : isDiffMode fl) (h : PatchTwin fl fl2) (hv1 : libIsV1 b fl = true)
    (ho : parsedOptions b fl = .ok opts) (hn : fl.nargs = 1 ∨ fl.nargs = 2)
    (hfmt : formatOf fl.f = some fmt)
    {ta tb : String} {a b' : Json}
    (hi1 : e1.in1 = .ok ta) (hi2 : e1.in2 = .ok tb) (hw1 : fl.o = "" ∨ e1.write = .ok ())
    (hra : (v1Lib nc Y).readDoc fl.yaml ta = .ok a)
    (hrb : (v1Lib nc Y).readDoc fl.yaml tb = .ok b')
    {T : String} {d' : V1.PDiff} {r : Json}
    (hren : renderAs (v1Lib nc Y) fmt fl.color (V1.liftDiff (V1.diffM (metasOf opts) a b')) = .ok T)
    (hrd : (v1Lib nc Y).readDiff fmt T = .ok d') (hpa : V1.patchP a d' = .ok r)
    (hT : e2.in1 = .ok (emitted (proc Ls b fl e1)))
    (ha : e2.in2 = e1.in1) (hw : fl2.o = "" ∨ e2.write = .ok ()) :
    TwoRuns (proc Ls b fl e1) (proc Ls b fl2 e2) fl fl2 T
      (firstExit (v1Lib nc Y) fmt (V1.liftDiff (V1.diffM (metasOf opts) a b')) T)
      ((v1Lib nc Y).renderDoc fl.yaml opts r) :=
  v1_total_cli_round_trip nc Y Ls hL b hm h hv1 ho hn hfmt hi1 hi2 hw1 hra hrb hren hrd hpa hT ha hw

/-- **v1 library, native format, list reading, LIBRARY LEVEL, hypotheses on the two documents only.**
    `ListMode m`: no SET / MULTISET / MERGE, precision 0 (`Setkeys` allowed).  Documents as a reader
    produces them: `listDoc` (plain arrays), `wf` (sorted unique keys), `finiteNums`, `Yaml.voidFree`
    (no void node; void is not a JSON value), `JText.NumOK nc` (every number of the document is
    printed by the codec `nc` to one JSON number token that reads back to the same bits: `strconv`
    is a parameter of the model), `lenLe N a` (arrays of `a` no longer than `N`).
    `FloatLaws`: a removed value equals itself.  `IdxLaws N` / `IdxNumOK nc N`: v1 list indices
    travel as float64 — exact conversion and printing below `N` and for -1 (`Float` is opaque).
    Then `Render` succeeds, `ReadDiffString` accepts the text, `Patch` applies the diff read, and the
    result `Equals` `b` and is structurally equal to it. -/
theorem v1_list_library_round_trip (L : FloatLaws) {N : Nat} (I : V1P.IdxLaws N) (nc : NumCodec)
    (J : IdxNumOK nc N) (m : V1.Metas) (hm : V1P.ListMode m) (a b : Json)
    (ha1 : a.listDoc = true) (ha2 : a.wf = true) (ha3 : a.finiteNums = true)
    (ha4 : Yaml.voidFree a = true) (ha5 : V1P.lenLe N a = true) (ha6 : JText.NumOK nc a = true)
    (hb1 : b.listDoc = true) (hb2 : b.wf = true) (hb3 : b.finiteNums = true)
    (hb4 : Yaml.voidFree b = true) (hb6 : JText.NumOK nc b = true) :
    ∃ text d' r, V1.renderM nc false (V1.liftDiff (V1.diffM m a b)) = .ok (some text) ∧
      V1.readDiffM nc text = .ok d' ∧ V1.patchM a d' = .ok r ∧ V1.equals m r b = true ∧
      specEq r b = true :=
  v1_list_lib_round_trip L I nc J m hm a b ha1 ha2 ha3 ha4 ha5 ha6 hb1 hb2 hb3 hb4 hb6

/-- **C14 round trip, v1 library, native format, list reading, END TO END.**
    `jd -v2=false [-setkeys ks] [-yaml] [-o F] a b`, then `jd -v2=false -p [same flags] [-o G] T a`.
    Flags: `-set`, `-mset` absent; `-precision` 0 or absent; native format; no `-color` (needed: the
    coloured text is rejected by `ReadDiffString`, on the model and on the real binary); ANY
    `-setkeys` (`Setkeys` alone leaves arrays lists in v1).  Documents: as in
    `v1_list_library_round_trip`, on what the reader returned (so also for YAML input).
    Conclusion: the first process prints the text `T` of `a.Diff(b, metadata...)` and exits 0 iff `T`
    is empty, else 1; `ReadDiffString T = d'`, `a.Patch(d') = r`, `r.Equals(b, metadata...)`, `r`
    structurally equal to `b`; the second process exits 0 and emits `r.Json(metadata...)` resp.
    `Yaml`. -/
theorem v1_native_cli_round_trip (FL : FloatLaws) {N : Nat} (I : V1P.IdxLaws N) (nc : NumCodec)
    (J : IdxNumOK nc N) (Y : YamlCarrier)
    (Ls : Bool → LibPack) (hL : Ls true = ⟨Json, V1.PDiff, v1Lib nc Y⟩)
    (b : Binary) {fl fl2 : Flags} {e1 e2 : Env} {opts : List Opt}
    (hm : isDiffMode fl) (h : PatchTwin fl fl2) (hv1 : libIsV1 b fl = true)
    (ho : parsedOptions b fl = .ok opts)
    (hset : fl.set = false) (hmset : fl.mset = false) (hprec : fl.precision = 0)
    (hfmt : formatOf fl.f = some .jd) (hcolor : fl.color = false)
    (hn : fl.nargs = 1 ∨ fl.nargs = 2)
    {ta tb : String} {a b' : Json}
    (hi1 : e1.in1 = .ok ta) (hi2 : e1.in2 = .ok tb) (hw1 : fl.o = "" ∨ e1.write = .ok ())
    (hra : (v1Lib nc Y).readDoc fl.yaml ta = .ok a)
    (hrb : (v1Lib nc Y).readDoc fl.yaml tb = .ok b')
    (ha1 : a.listDoc = true) (ha2 : a.wf = true) (ha3 : a.finiteNums = true)
    (ha4 : Yaml.voidFree a = true) (ha5 : V1P.lenLe N a = true) (ha6 : JText.NumOK nc a = true)
    (hb1 : b'.listDoc = true) (hb2 : b'.wf = true) (hb3 : b'.finiteNums = true)
    (hb4 : Yaml.voidFree b' = true) (hb6 : JText.NumOK nc b' = true)
    (hT : e2.in1 = .ok (emitted (proc Ls b fl e1)))
    (ha : e2.in2 = e1.in1) (hw : fl2.o = "" ∨ e2.write = .ok ()) :
    ∃ T d' r,
      V1.renderM nc false (V1.liftDiff (V1.diffM (metasOf opts) a b')) = .ok (some T) ∧
      V1.readDiffM nc T = .ok d' ∧ V1.patchM a d' = .ok r ∧
      V1.equals (metasOf opts) r b' = true ∧ specEq r b' = true ∧
      TwoRuns (proc Ls b fl e1) (proc Ls b fl2 e2) fl fl2 T (if T = "" then 0 else 1)
        ((v1Lib nc Y).renderDoc fl.yaml opts r) :=
  CliV1.v1_native_cli_round_trip FL I nc J Y Ls hL b hm h hv1 ho hset hmset hprec hfmt hcolor hn
    hi1 hi2 hw1 hra hrb ha1 ha2 ha3 ha4 ha5 ha6 hb1 hb2 hb3 hb4 hb6 hT ha hw

/-- without `-setkeys` the metadata list of the theorem above is `[SetPrecision(*precision)]` -/
theorem v1_list_metadata (b : Binary) {fl : Flags} (hset : fl.set = false) (hmset : fl.mset = false)
    (hkeys : fl.setkeys = "") (hfmt : formatOf fl.f = some .jd) :
    parsedOptions b fl = .ok [Opt.prec fl.precision] ∧
    metasOf [Opt.prec fl.precision] = [V1.Meta.prec fl.precision] :=
  metasOf_list b hset hmset hkeys hfmt

/-- **C14 round trip, v1 library, `-f merge` (RFC 7386), END TO END.**  Flags: `-f merge`, no `-set`
    / `-mset`, `-precision` 0 or absent, any `-color` (not used by `RenderMerge`), any `-setkeys`.
    Documents: `a`: `wf`, `rawDoc` (as read; nulls allowed); `b`: `wf`, `rawDoc`, `nullFree` (a null in
    a merge patch means "delete": the domain of RFC 7386), `finiteNums`, `Yaml.voidFree`,
    `JText.NumOK nc` (text layer); `mergeRTDom a b` = `a` is an object or `b ≠ {}` (needed: known
    finding KF-C12-emptyobj, `CliRTM.merge_emptyobj_no_libRoundTrip`).  Equal documents are covered
    (the text `{}`).  Exit status of the first run: `len(diff) > 0`. -/
theorem v1_merge_cli_round_trip (L : FloatLaws) (nc : NumCodec)
    (Y : YamlCarrier) (Ls : Bool → LibPack) (hL : Ls true = ⟨Json, V1.PDiff, v1Lib nc Y⟩)
    (b : Binary) {fl fl2 : Flags} {e1 e2 : Env} {opts : List Opt}
    (hm : isDiffMode fl) (h : PatchTwin fl fl2) (hv1 : libIsV1 b fl = true)
    (ho : parsedOptions b fl = .ok opts)
    (hf : fl.f = "merge") (hset : fl.set = false) (hmset : fl.mset = false)
    (hprec : fl.precision = 0) (hn : fl.nargs = 1 ∨ fl.nargs = 2)
    {ta tb : String} {a b' : Json}
    (hi1 : e1.in1 = .ok ta) (hi2 : e1.in2 = .ok tb) (hw1 : fl.o = "" ∨ e1.write = .ok ())
    (hra : (v1Lib nc Y).readDoc fl.yaml ta = .ok a)
    (hrb : (v1Lib nc Y).readDoc fl.yaml tb = .ok b')
    (haw : a.wf = true) (har : a.rawDoc = true)
    (hbw : b'.wf = true) (hbr : b'.rawDoc = true) (hbn : b'.nullFree = true)
    (hbf : b'.finiteNums = true) (hbv : Yaml.voidFree b' = true) (hbN : JText.NumOK nc b' = true)
    (hab : mergeRTDom a b' = true)
    (hT : e2.in1 = .ok (emitted (proc Ls b fl e1)))
    (ha2 : e2.in2 = e1.in1) (hw : fl2.o = "" ∨ e2.write = .ok ()) :
    ∃ T d' r,
      V1.renderMergeM nc (V1.liftDiff (V1.diffM (metasOf opts) a b')) = .ok (some T) ∧
      V1.readMergeM nc T = .ok d' ∧ V1.patchM a d' = .ok r ∧
      V1.equals (metasOf opts) r b' = true ∧ specEq r b' = true ∧ r.listDoc = true ∧
      TwoRuns (proc Ls b fl e1) (proc Ls b fl2 e2) fl fl2 T
        (if (V1.diffM (metasOf opts) a b').length > 0 then 1 else 0)
        ((v1Lib nc Y).renderDoc fl.yaml opts r) :=
  CliV1.v1_merge_cli_round_trip L nc Y Ls hL b hm h hv1 ho hf hset hmset hprec hn hi1 hi2 hw1 hra hrb
    haw har hbw hbr hbn hbf hbv hbN hab hT ha2 hw

/-- **C14 round trip, v1 library, `-f patch` (RFC 6902), END TO END.**  Flags: `-f patch`, no `-set` /
    `-mset`, `-precision` 0 or absent, any `-color`, any `-setkeys`.  Documents as in the native list
    theorem, plus `V1R.noDash` (no object key `-`: `RenderPatch` of v1 refuses it) and `N ≤ 2^63`
    (`strconv.Atoi` of the index tokens).  The diff read back holds `jsonStringOrInteger` tokens;
    `Patch` (`V1.patchP`) reads them as keys or indices.  Exit status of the first run: `T ≠ "[]"`. -/
theorem v1_patch_cli_round_trip (L : FloatLaws) {N : Nat} (I : V1P.IdxLaws N) (hN : N ≤ 2 ^ 63)
    (nc : NumCodec)
    (Y : YamlCarrier) (Ls : Bool → LibPack) (hL : Ls true = ⟨Json, V1.PDiff, v1Lib nc Y⟩)
    (b : Binary) {fl fl2 : Flags} {e1 e2 : Env} {opts : List Opt}
    (hm : isDiffMode fl) (h : PatchTwin fl fl2) (hv1 : libIsV1 b fl = true)
    (ho : parsedOptions b fl = .ok opts)
    (hfmt : formatOf fl.f = some .patch) (hset : fl.set = false) (hmset : fl.mset = false)
    (hprec : fl.precision = 0) (hn : fl.nargs = 1 ∨ fl.nargs = 2)
    {ta tb : String} {a b' : Json}
    (hi1 : e1.in1 = .ok ta) (hi2 : e1.in2 = .ok tb) (hw1 : fl.o = "" ∨ e1.write = .ok ())
    (hra : (v1Lib nc Y).readDoc fl.yaml ta = .ok a)
    (hrb : (v1Lib nc Y).readDoc fl.yaml tb = .ok b')
    (ha1 : a.listDoc = true) (ha2 : a.wf = true) (ha3 : a.finiteNums = true)
    (ha4 : Yaml.voidFree a = true) (ha5 : V1P.lenLe N a = true) (ha6 : JText.NumOK nc a = true)
    (hb1 : b'.listDoc = true) (hb2 : b'.wf = true) (hb3 : b'.finiteNums = true)
    (hb4 : Yaml.voidFree b' = true) (hb6 : JText.NumOK nc b' = true)
    (hda : V1R.noDash a = true) (hdb : V1R.noDash b' = true)
    (hT : e2.in1 = .ok (emitted (proc Ls b fl e1)))
    (ha : e2.in2 = e1.in1) (hw : fl2.o = "" ∨ e2.write = .ok ()) :
    ∃ T d' r,
      V1.renderPatchM nc (V1.liftDiff (V1.diffM (metasOf opts) a b')) = .ok (some T) ∧
      V1.readPatchM nc T = .ok d' ∧ V1.patchP a d' = .ok r ∧
      V1.equals (metasOf opts) r b' = true ∧ specEq r b' = true ∧ specEq b' r = true ∧
      TwoRuns (proc Ls b fl e1) (proc Ls b fl2 e2) fl fl2 T (if T = "[]" then 0 else 1)
        ((v1Lib nc Y).renderDoc fl.yaml opts r) :=
  CliV1.v1_patch_cli_round_trip L I hN nc Y Ls hL b hm h hv1 ho hfmt hset hmset hprec hn hi1 hi2 hw1
    hra hrb ha1 ha2 ha3 ha4 ha5 ha6 hb1 hb2 hb3 hb4 hb6 hda hdb hT ha hw

/-- **C14 round trip, v1 library, native format with `-set` / `-mset`, END TO END** (relative to the
    codec contract on the diff).  Flags: `-set` or `-mset` (both: SET wins in v1, `setReading`), no
    `-setkeys`, `-precision` 0 or absent, native format, no `-color`.  Documents: `setDoc` (plain
    arrays, sorted unique keys, finite numbers, no -0), `Yaml.voidFree`; `V1S.HashFaithful`: among
    the sub-terms of `a` and `b` equal V1 hash codes only for equivalent nodes (needed: KF-C04-alias,
    v1 hashes have no kind prefix).  `hp` / `hv`: every path / value of THE DIFF AT HAND is printed by
    the codec, without newline, and reads back (`V1S.PathOK`, `V1S.ValOK`) — hypotheses about the
    run, as `hp` of `CliRT.native_cli_round_trip`; not derived from the documents here.
    Conclusion: the text is read back as the diff ITSELF; the result `Equals` `b` and is equivalent
    to it as sets / bags. -/
theorem v1_setmodes_cli_round_trip (F : FloatEq0) (FL : FloatLaws) (nc : NumCodec)
    (Y : YamlCarrier) (Ls : Bool → LibPack) (hL : Ls true = ⟨Json, V1.PDiff, v1Lib nc Y⟩)
    (b : Binary) {fl fl2 : Flags} {e1 e2 : Env}
    (hm : isDiffMode fl) (h : PatchTwin fl fl2) (hv1 : libIsV1 b fl = true)
    (hsm : fl.set = true ∨ fl.mset = true) (hkeys : fl.setkeys = "") (hprec : fl.precision = 0)
    (hfmt : formatOf fl.f = some .jd) (hcolor : fl.color = false)
    (hn : fl.nargs = 1 ∨ fl.nargs = 2)
    {ta tb : String} {a b' : Json}
    (hi1 : e1.in1 = .ok ta) (hi2 : e1.in2 = .ok tb) (hw1 : fl.o = "" ∨ e1.write = .ok ())
    (hra : (v1Lib nc Y).readDoc fl.yaml ta = .ok a)
    (hrb : (v1Lib nc Y).readDoc fl.yaml tb = .ok b')
    (ha : a.setDoc = true) (hb : b'.setDoc = true)
    (hva : Yaml.voidFree a = true) (hvb : Yaml.voidFree b' = true)
    (HF : V1S.HashFaithful (metasOf (modeOpts fl)) (setReading fl) (subterms a ++ subterms b'))
    (hp : ∀ h ∈ V1.diffM (metasOf (modeOpts fl)) a b',
      (jsonText nc (.arr .raw (V1.rawNormList h.path))).isSome = true ∧ V1S.PathOK nc h.path)
    (hv : ∀ h ∈ V1.diffM (metasOf (modeOpts fl)) a b', ∀ v ∈ h.old ++ h.new,
      (V1.marshalNode nc v).isSome = true ∧ V1S.ValOK nc v)
    (hT : e2.in1 = .ok (emitted (proc Ls b fl e1)))
    (ha2 : e2.in2 = e1.in1) (hw : fl2.o = "" ∨ e2.write = .ok ()) :
    ∃ T r,
      parsedOptions b fl = .ok (modeOpts fl) ∧
      V1.renderM nc false (V1.liftDiff (V1.diffM (metasOf (modeOpts fl)) a b')) = .ok (some T) ∧
      V1.readDiffM nc T = .ok (V1.diffM (metasOf (modeOpts fl)) a b') ∧
      V1.patchM a (V1.diffM (metasOf (modeOpts fl)) a b') = .ok r ∧
      V1.equals (metasOf (modeOpts fl)) r b' = true ∧ equivB (setReading fl) r b' = true ∧
      TwoRuns (proc Ls b fl e1) (proc Ls b fl2 e2) fl fl2 T (if T = "" then 0 else 1)
        ((v1Lib nc Y).renderDoc fl.yaml (modeOpts fl) r) :=
  CliV1.v1_setmodes_cli_round_trip F FL nc Y Ls hL b hm h hv1 hsm hkeys hprec hfmt hcolor hn hi1 hi2
    hw1 hra hrb ha hb hva hvb HF hp hv hT ha2 hw

/-- **C14 round trip, v1 library, native format, list reading with `-precision eps`** (`eps` finite
    and non-negative: `nonnegBits`; needed at library level, `V1Pr.precNN_needed`), relative to the
    codec contract on the diff (`hp`, `hv` as above).  v1 `Diff` honours the precision (v2 does not),
    so the patched document `Equals` `b` under the metadata and is `equivB [Precision eps]` to it —
    NOT structurally equal (`V1Pr.result_not_structural`). -/
theorem v1_native_cli_round_trip_precision (FL : FloatLaws) {N : Nat} (I : V1P.IdxLaws N)
    (nc : NumCodec) (Y : YamlCarrier)
    (Ls : Bool → LibPack) (hL : Ls true = ⟨Json, V1.PDiff, v1Lib nc Y⟩)
    (b : Binary) {fl fl2 : Flags} {e1 e2 : Env} {opts : List Opt}
    (hm : isDiffMode fl) (h : PatchTwin fl fl2) (hv1 : libIsV1 b fl = true)
    (ho : parsedOptions b fl = .ok opts)
    (hset : fl.set = false) (hmset : fl.mset = false) (hprec : nonnegBits fl.precision = true)
    (hfmt : formatOf fl.f = some .jd) (hcolor : fl.color = false)
    (hn : fl.nargs = 1 ∨ fl.nargs = 2)
    {ta tb : String} {a b' : Json}
    (hi1 : e1.in1 = .ok ta) (hi2 : e1.in2 = .ok tb) (hw1 : fl.o = "" ∨ e1.write = .ok ())
    (hra : (v1Lib nc Y).readDoc fl.yaml ta = .ok a)
    (hrb : (v1Lib nc Y).readDoc fl.yaml tb = .ok b')
    (ha1 : a.listDoc = true) (ha2 : a.wf = true) (ha3 : a.finiteNums = true)
    (ha4 : Yaml.voidFree a = true) (ha5 : V1P.lenLe N a = true)
    (hb1 : b'.listDoc = true) (hb2 : b'.wf = true) (hb3 : b'.finiteNums = true)
    (hb4 : Yaml.voidFree b' = true)
    (hp : ∀ h ∈ V1.diffM (metasOf opts) a b',
      (jsonText nc (.arr .raw (V1.rawNormList h.path))).isSome = true ∧ V1S.PathOK nc h.path)
    (hv : ∀ h ∈ V1.diffM (metasOf opts) a b', ∀ v ∈ h.old ++ h.new,
      (V1.marshalNode nc v).isSome = true ∧ V1S.ValOK nc v)
    (hT : e2.in1 = .ok (emitted (proc Ls b fl e1)))
    (ha : e2.in2 = e1.in1) (hw : fl2.o = "" ∨ e2.write = .ok ()) :
    ∃ T d' r,
      V1.renderM nc false (V1.liftDiff (V1.diffM (metasOf opts) a b')) = .ok (some T) ∧
      V1.readDiffM nc T = .ok d' ∧ V1.patchM a d' = .ok r ∧
      V1.equals (metasOf opts) r b' = true ∧ equivB [Opt.prec fl.precision] r b' = true ∧
      TwoRuns (proc Ls b fl e1) (proc Ls b fl2 e2) fl fl2 T (if T = "" then 0 else 1)
        ((v1Lib nc Y).renderDoc fl.yaml opts r) :=
  CliV1.v1_native_cli_round_trip_precision FL I nc Y Ls hL b hm h hv1 ho hset hmset hprec hfmt hcolor
    hn hi1 hi2 hw1 hra hrb ha1 ha2 ha3 ha4 ha5 hb1 hb2 hb3 hb4 hp hv hT ha hw

/-! ## Non-vacuity -/

/-- the flag-level facts on a concrete command line: `jd -v2=false a b` on binary B runs the v1
    library with the metadata `[SetPrecision(0)]`, which are `ListMode` -/
example : libIsV1 .top Example.fl1 = true ∧ parsedOptions .top Example.fl1 = .ok [Opt.prec 0] ∧
    metasOf [Opt.prec 0] = [V1.Meta.prec 0] ∧ V1P.ListMode (metasOf [Opt.prec 0]) :=
  ⟨rfl, rfl, rfl, ⟨rfl, rfl, rfl, rfl⟩⟩

/-- `jd -v2=false -set -mset a b`: the metadata are `[SET, MULTISET, SetPrecision(0)]` and the v1
    reading is SET -/
example : metasOf (modeOpts { set := true, mset := true }) = [.set, .mset, .prec 0] ∧
    setReading { set := true, mset := true } = [Opt.set] ∧
    V1S.Mode (metasOf (modeOpts { set := true, mset := true })) [Opt.set] :=
  ⟨rfl, rfl, mode_of_flags (fl := { set := true, mset := true }) (.inl rfl) rfl⟩

/-- **`v1_native_cli_round_trip` on two concrete JSON files**
    (`{"k":[true,null,["x"]]}` → `{"k":[false,null,["x","y"]],"n":null}`): every hypothesis is
    discharged except the IEEE laws and the two laws on float64 list indices. -/
example (L : FloatLaws) (I : V1P.IdxLaws 3) (J : IdxNumOK NativeRT.exCodec 3) :
    ∃ T r, (proc Example.Ls .top Example.fl1 Example.e1).stdout = T ∧
      (proc Example.Ls .top Example.fl1 Example.e1).exit = (if T = "" then 0 else 1) ∧
      specEq r E2E.Example.exB = true ∧ V1.equals [.prec 0] r E2E.Example.exB = true ∧
      (proc Example.Ls .top Example.fl2 Example.e2).exit = 0 ∧
      (proc Example.Ls .top Example.fl2 Example.e2).stdout = "" ∧
      (proc Example.Ls .top Example.fl2 Example.e2).outfile =
        some ((V1.jsonM NativeRT.exCodec (V1.dispatch [.prec 0] r)).getD "") :=
  Example.ex_v1_cli_end_to_end L I J

/-- **`v1_merge_cli_round_trip` on two concrete JSON files** (`{"a":"x","b":[true]}` →
    `{"a":"y","c":[true,"z"]}`), `-f merge -color`, the second run reading the document from stdin:
    only `FloatLaws` remains. -/
example (L : FloatLaws) :
    ∃ T r, (proc Example.Ls .top Example.flm Example.em1).stdout = T ∧
      specEq r Example.mB = true ∧
      (proc Example.Ls .top Example.flm2 Example.em2).exit = 0 ∧
      (proc Example.Ls .top Example.flm2 Example.em2).stdout =
        (V1.jsonM NativeRT.exCodec (V1.dispatch [.merge, .prec 0] r)).getD "" :=
  Example.ex_v1_merge_cli L

end Jd.Props.C14V1
