/-
  Property C01 — diff-then-patch reproduces the target (v2 library).
  Statement file. Proofs: LIST reading: JdProofs/DiffPatchList.lean (namespace `Jd.DPL`: the diff
  side, against the reference interpreter of hunks) COMPOSED HERE with JdProofs/StrictPatch.lean (the
  library's patch code = the reference interpreter on strict hunks). SET / MULTISET readings:
  JdProofs/SetDiffPatch.lean (namespace `Jd.SetDP`), directly about the library's patch code.

  Model side: `diffM o a b` (JdModel/Diff.lean) is `a.Diff(b, options...)`; `patchM n d`
  (= `patchAll true n d`, JdModel/Patch.lean) is `n.Patch(d)` on the in-memory diff value;
  `equals o r b` is `r.Equals(b, options...)`. Spec side: `equivB o` (JdSpec/CanonEq.lean), the
  advertised equivalence written without hashes; `specEq = equivB []`.

  WHAT IS STATED, AND FOR WHICH PART OF THE PROPERTY
  * LIST reading of arrays, STRICT strategy (`dispatchTag o = .list`, `isMerge o = false`; a
    Precision option is allowed): the headline theorems `diff_then_patch_list` (no Precision) and
    `diff_then_patch_list_precision` speak about the LIBRARY functions only:
        ∃ r, patchM a (diffM o a b) = .ok r ∧ equals o r b = true.
    The composition is complete: the helper section proves that every hunk of a list-mode diff is a
    non-merge hunk with a key / index path whose values are list documents
    (`diffM_list_hunks_strict`), which is the hypothesis of `patchAll_strict_eq_ref`. Nothing is left
    stated against the reference interpreter only; the reference form is kept as
    `diff_then_apply_reference` because it is sharper (it names the result).
  * The result of `patchM` is equal to the reference result up to the Go dynamic type of array nodes
    (`untag`); `equals` / `equivB` in list mode do not see that type, so the headline needs no `untag`.
  * SET and MULTISET readings of arrays (`dispatchTag o = .set` / `.mset`), no SetKeys
    (`keysOf o = none`), STRICT strategy, no Precision (`precOf o = 0`): `diff_then_patch_set`,
    `diff_then_patch_mset`, `diff_then_patch_setmodes` (either variant `sw` of the patch code; the
    keyed-member branch of `jsonSet.patch` is never reached), and for the literal library calls
    `a.Patch(a.Diff(b, SET))` / `a.Patch(a.Diff(b, MULTISET))`: `patchM_diffM_set`,
    `patchM_diffM_mset`:
        ∃ r, patchM a (diffM o a b) = .ok r ∧ equivB o r b = true ∧ equals o r b = true.
    Arrays may be nested anywhere (sets of sets, sets in objects in sets); members are arbitrary
    documents. The hypothesis `HashFaithful` cannot be dropped from the `equivB` part
    (`alias_needs_hashFaithful`, known finding KF-C04-alias), nor can `memOK`
    (`void_member_not_equivalent`).
  * NOT PROVED — MERGE strategy in memory: JdProofs/MergeProofs.lean proves the RENDERED statements
    C11 / C12 (files JdProps/C11.lean, C12.lean); it does NOT contain the in-memory statement
    `patchM a (diffM [MERGE] a b)` Equals `b`, so nothing is restated here for MERGE (nor for SET /
    MULTISET combined with MERGE).
  * NOT PROVED — SetKeys (sets of objects identified by keys): the patch side is in JdProps/C08.lean;
    the diff side is covered by correspondence and oracle only (known finding KF-C01-identperm lives
    there). Also not proved: SET / MULTISET together with a Precision option.

  HYPOTHESES of the LIST theorems (all of `Jd.DPL.diffM_list_correct`)
    `a`, `b` list documents (`listDoc`: no set / multiset typed array node), `wf` (unique sorted
    object keys, what a Go map guarantees), `finiteNums`, `memOK` (no void member inside);
    `FloatLaws` (IEEE-754 reflexivity / symmetry of `|x - y| ≤ eps`; `Float` is opaque to the kernel);
    `HashOK o a b`: no FNV-1a collision between a sub-term of `a` and a sub-term of `b` (list elements
       are matched by 64-bit hash code: with a collision the property is false, KF-C04-alias);
    `ZeroOK a b`: no `0` / `-0` pair between the numbers of `a` and of `b` (needed before the repair
       of D5b; stronger than necessary on the repaired code, kept because the proof uses it);
    `PrecMono o` (only with a Precision option): within `0` implies within `eps`.

  HYPOTHESES of the SET / MULTISET theorems (all of `Jd.SetDP.diff_then_patch_setmodes`)
    `a.setDoc`, `b.setDoc` = `rawDoc` (as read from JSON / YAML: every array a plain `jsonArray`) ∧
       `wf` ∧ `finiteNums` ∧ `noNegZero`; `memOK` (no void object member: void stands for "absent",
       a void member of the target is deleted by the patch; the readers never produce void);
    `HashFaithful o (subterms a ++ subterms b)`: among the sub-terms of `a` and `b`, equal hash codes
       only for equivalent nodes — no FNV-1a collision and no pre-image alias (`[[]]` / `[""]`). Set
       members ARE their hash codes in the library; without it the patched document still `Equals`
       `b` on the witness but is not equivalent to it;
    `FloatEq0` (`|x - y| ≤ +0` only for `x = y`: equivalent numbers have equal hash codes) and
       `FloatLaws` (`Equals` is reflexive: the patch compares a removed value with itself).
-/
import JdProofs.DiffPatchList
import JdProofs.StrictPatch
import JdProofs.SetDiffPatch

namespace Jd.Props.C01
open Jd Jd.Spec Jd.DPL

/-! ## Helper section: the hunks of a list-mode diff are strict hunks

  (not exported by DiffPatchList; proved here with its induction principle `listDiff_induct` and
  its unfolding equations) -/

/-- the hypothesis of `patchAll_strict_eq_ref` on one hunk -/
def strictHunk (h : Hunk) : Bool := !h.merge && strictPath h.path && hunkListDoc h

theorem strictPath_snoc_idx (p : Path) (i : Int) : strictPath (p ++ [.idx i]) = strictPath p := by
  induction p with
  | nil => simp [strictPath]
  | cons e r ih => cases e <;> simp [strictPath, ih]

theorem strictPath_snoc_key (p : Path) (k : String) : strictPath (p ++ [.key k]) = strictPath p := by
  induction p with
  | nil => simp [strictPath]
  | cons e r ih => cases e <;> simp [strictPath, ih]

theorem listDocList_snoc {l : List Json} {x : Json} (hl : listDocList l = true)
    (hx : x.listDoc = true) : listDocList (l ++ [x]) = true :=
  listDocList_append.2 ⟨hl, by simp [listDocList, hx]⟩

theorem listDocList_nodeList {x : Json} (hx : x.listDoc = true) : listDocList x.nodeList = true := by
  unfold Json.nodeList; split <;> simp [listDocList, hx]

theorem accHunk_strict {p : Path} {s : Nat} {prev after : Json} {R A : List Json}
    (hp : strictPath p = true) (h1 : prev.listDoc = true) (h2 : listDocList R = true)
    (h3 : listDocList A = true) (h4 : after.listDoc = true) :
    ∀ h ∈ accHunk p s prev R A after, strictHunk h = true := by
  intro h hm
  unfold accHunk at hm
  split at hm
  · cases hm
  · simp only [List.mem_singleton] at hm
    subst hm
    simp [strictHunk, hunkListDoc, listDocList, strictPath_snoc_idx, hp, h1, h2, h3, h4]

theorem headD_listDoc {l : List Json} (hl : listDocList l = true) : (l.headD .void).listDoc = true := by
  cases l with
  | nil => rfl
  | cons x r => simp only [listDocList, Bool.and_eq_true] at hl; exact hl.1

theorem listDoc_of_mem_kvs {kv : String × Json} :
    ∀ {kvs : List (String × Json)}, kv ∈ kvs → listDocKvs kvs = true → kv.2.listDoc = true
  | [], h, _ => by cases h
  | (k0, v0) :: r, h, hl => by
    simp only [listDocKvs, Bool.and_eq_true] at hl
    rcases List.mem_cons.1 h with rfl | hr
    · exact hl.1
    · exact listDoc_of_mem_kvs hr hl.2

/-- every hunk produced by the list-mode, strict-strategy diff functions under a key / index path
    prefix is a strict hunk (not a merge hunk, key / index path, list-document values) -/
theorem diff_hunks_strict (o : Opts) (ho : dispatchTag o = .list) :
    (∀ a b, a.listDoc = true → b.listDoc = true → ∀ p, strictPath p = true →
      ∀ h ∈ diffNode o false a b p, strictHunk h = true) ∧
    (∀ kvs' kvs, listDocKvs kvs' = true → listDocKvs kvs = true → ∀ p, strictPath p = true →
      ∀ h ∈ diffKvs o false p kvs' kvs, strictHunk h = true) ∧
    (∀ k s prev a b c R A, listDocList a = true → listDocList b = true → ∀ p, strictPath p = true →
      prev.listDoc = true → listDocList R = true → listDocList A = true →
      ∀ h ∈ diffRest o p k s prev a b c R A, strictHunk h = true) := by
  apply listDiff_induct o ho
    (mN := fun a b => ∀ p, strictPath p = true →
      ∀ h ∈ diffNode o false a b p, strictHunk h = true)
    (mK := fun kvs' kvs => ∀ p, strictPath p = true →
      ∀ h ∈ diffKvs o false p kvs' kvs, strictHunk h = true)
    (mR := fun k s prev a b c R A => ∀ p, strictPath p = true →
      prev.listDoc = true → listDocList R = true → listDocList A = true →
      ∀ h ∈ diffRest o p k s prev a b c R A, strictHunk h = true)
  · intro t t' xs ys ht ht' htt _ _ ih p hp h hm
    rw [diffNode_arr_arr ho xs ys ht ht' htt] at hm
    exact ih p hp rfl rfl rfl h hm
  · intro t xs b ht hxs hb hbb p hp h hm
    rw [diffNode_arr_other ho xs b ht hbb] at hm
    simp only [List.mem_singleton] at hm
    subst hm
    simp [strictHunk, hunkListDoc, listDocList, Json.listDoc, hp, hxs, listDocList_nodeList hb]
  · intro kvs kvs' _ hl' ih p hp h hm
    rw [diffNode_obj_obj, List.mem_append] at hm
    rcases hm with hm | hm
    · exact ih p hp h hm
    · obtain ⟨kv, hkv, rfl⟩ := List.mem_map.1 hm
      have hv : kv.2.listDoc = true := listDoc_of_mem_kvs (List.mem_filter.1 hkv).1 hl'
      simp [strictHunk, hunkListDoc, listDocList, strictPath_snoc_key, hp, listDocList_nodeList hv]
  · intro kvs b hk hb hbb p hp h hm
    rw [diffNode_obj_other o kvs b hbb] at hm
    simp only [List.mem_singleton] at hm
    subst hm
    simp [strictHunk, hunkListDoc, listDocList, Json.listDoc, hp, hk, hb]
  · intro a b h1 h2 hb p hp h hm
    have ha : a.listDoc = true := by
      cases a with
      | arr t xs => exact absurd rfl (h1 t xs)
      | obj kvs => exact absurd rfl (h2 kvs)
      | _ => rfl
    rw [diffNode_scalar o a b h1 h2] at hm
    unfold diffCommon at hm
    split at hm
    · cases hm
    · simp only [Bool.false_eq_true, if_false, List.mem_singleton] at hm
      subst hm
      simp [strictHunk, hunkListDoc, listDocList, hp, listDocList_nodeList ha,
        listDocList_nodeList hb]
  · intro kvs' p _ h hm
    rw [diffKvs_nil] at hm; cases hm
  · intro kvs' k v r hl' hv _ ihN ihK p hp h hm
    rw [diffKvs_cons, List.mem_append] at hm
    rcases hm with hm | hm
    · cases hlk : alookup k kvs' with
      | none =>
        rw [hlk] at hm
        simp only [List.mem_singleton] at hm
        subst hm
        simp [strictHunk, hunkListDoc, listDocList, strictPath_snoc_key, hp,
          listDocList_nodeList hv]
      | some v' =>
        rw [hlk] at hm
        have hv' := alookup_listDoc hlk hl'
        exact ihN v' hv' (p ++ [.key k]) (by rw [strictPath_snoc_key]; exact hp) h hm
    · exact ihK p hp h hm
  · intro k s prev c R A b hb p hp h1 h2 h3 h hm
    rw [diffRest_nilA] at hm
    exact accHunk_strict hp h1 h2 (listDocList_append.2 ⟨h3, hb⟩) rfl h hm
  · intro k s prev c R A a hne ha p hp h1 h2 h3 h hm
    rw [diffRest_nilB _ _ _ _ _ _ _ _ _ hne] at hm
    exact accHunk_strict hp h1 (listDocList_append.2 ⟨h2, ha⟩) h3 rfl h hm
  · intro k s prev c R A x a' y b' hl hl' hA hB ih p hp h1 h2 h3 h hm
    rw [diffRest_cons] at hm
    simp only [listDocList, Bool.and_eq_true] at hl hl'
    simp only [hA, hB, Bool.and_self, if_true, List.mem_append] at hm
    rcases hm with hm | hm
    · exact accHunk_strict hp h1 h2 h3 hl.1 h hm
    · exact ih p hp hl'.1 rfl rfl h hm
  · intro k s prev c R A x a' y b' _ hl' hA hB ih p hp h1 h2 h3 h hm
    rw [diffRest_cons] at hm
    simp only [listDocList, Bool.and_eq_true] at hl'
    simp only [hA, hB, Bool.and_false, Bool.false_eq_true, if_false, if_true] at hm
    exact ih p hp h1 h2 (listDocList_snoc h3 hl'.1) h hm
  · intro k s prev c R A x a' y b' hl _ hA hB ih p hp h1 h2 h3 h hm
    rw [diffRest_cons] at hm
    simp only [listDocList, Bool.and_eq_true] at hl
    simp only [hA, hB, Bool.false_and, Bool.false_eq_true, if_false, if_true] at hm
    exact ih p hp h1 (listDocList_snoc h2 hl.1) h3 h hm
  · intro k s prev c R A x a' y b' hl hl' hA hB hs ihN ihR p hp h1 h2 h3 h hm
    rw [diffRest_cons] at hm
    simp only [listDocList, Bool.and_eq_true] at hl hl'
    simp only [hA, hB, hs, Bool.false_and, Bool.false_eq_true, if_false, if_true,
      List.mem_append] at hm
    rcases hm with (hm | hm) | hm
    · refine accHunk_strict hp h1 h2 h3 ?_ h hm
      split
      · exact headD_listDoc hl.2
      · exact hl.1
    · exact ihN (p ++ [.idx k]) (by rw [strictPath_snoc_idx]; exact hp) h hm
    · exact ihR p hp hl'.1 rfl rfl h hm
  · intro k s prev c R A x a' y b' hl hl' hA hB hs ih p hp h1 h2 h3 h hm
    rw [diffRest_cons] at hm
    simp only [listDocList, Bool.and_eq_true] at hl hl'
    simp only [hA, hB, hs, Bool.false_and, Bool.false_eq_true, if_false] at hm
    exact ih p hp h1 (listDocList_snoc h2 hl.1) (listDocList_snoc h3 hl'.1) h hm

/-- **composition lemma.** In list mode with the strict strategy every hunk of `a.Diff(b)` is a
    non-merge hunk with a key / index path and list-document values: exactly the class of hunks on
    which the library's `Patch` is the reference interpreter (`patchAll_strict_eq_ref`, C03). -/
theorem diffM_list_hunks_strict (o : Opts) (ho : dispatchTag o = .list) (hm : isMerge o = false)
    (a b : Json) (ha : a.listDoc = true) (hb : b.listDoc = true) :
    (diffM o a b).all (fun h => !h.merge && strictPath h.path && hunkListDoc h) = true := by
  rw [List.all_eq_true]
  intro h hmem
  unfold diffM at hmem
  rw [hm] at hmem
  exact (diff_hunks_strict o ho).1 a b ha hb [] rfl h hmem

/-- a sequence of strict hunks keeps list documents list documents (sequence form of
    `patchNode_strict_listDoc`) -/
theorem patchAll_listDoc_of_strict (sw : Bool) (d : Diff) :
    ∀ (n : Json), d.all (fun h => !h.merge && strictPath h.path && hunkListDoc h) = true →
      n.listDoc = true → ∀ r, patchAll sw n d = .ok r → r.listDoc = true := by
  induction d with
  | nil => intro n _ hn r he; simp only [patchAll, Outcome.ok.injEq] at he; rw [← he]; exact hn
  | cons h d ih =>
    intro n hd hn r he
    simp only [List.all_cons, Bool.and_eq_true, Bool.not_eq_true'] at hd
    obtain ⟨⟨⟨hm, hp⟩, hh⟩, hd⟩ := hd
    simp only [patchAll, hm] at he
    cases hP : patchNode sw false n h.path h.before h.remove h.add h.after with
    | ok n1 =>
      rw [hP] at he
      exact ih n1 hd (patchNode_strict_listDoc sw n h h.path hp hn hh n1 hP) r he
    | err => rw [hP] at he; cases he
    | panic => rw [hP] at he; cases he

/-- on its own diff the library's `Patch` IS the reference interpreter (up to array type tags) -/
theorem patch_of_diff_eq_reference (sw : Bool) (o : Opts) (ho : dispatchTag o = .list)
    (hm : isMerge o = false) (a b : Json) (ha : a.listDoc = true) (hb : b.listDoc = true) :
    Outcome.mapO untag (patchAll sw a (diffM o a b))
      = Outcome.mapO untag (optToOutcome (applyStrictAll a (diffM o a b))) :=
  patchAll_strict_eq_ref sw a (diffM o a b) (diffM_list_hunks_strict o ho hm a b ha hb) ha

/-! ## The property, list reading of arrays, strict strategy -/

/-- reference form (sharpest): the hunks of `a.Diff(b)` apply in sequence to `a` under the
    documented meaning of hunks, every removed value and context line checked; the result is
    structurally equal to `b` (ordered arrays, exact numbers), is a list document, and `Equals` `b`
    under the options `o` -/
theorem diff_then_apply_reference (L : FloatLaws) (o : Opts) (ho : dispatchTag o = .list)
    (hm : isMerge o = false) (a b : Json)
    (ha1 : a.listDoc = true) (ha2 : a.wf = true) (ha3 : a.finiteNums = true) (ha4 : memOK a = true)
    (hb1 : b.listDoc = true) (hb2 : b.wf = true) (hb3 : b.finiteNums = true) (hb4 : memOK b = true)
    (H : HashOK o a b) (Z : ZeroOK a b) :
    ∃ r, applyStrictAll a (diffM o a b) = some r ∧ specEq r b = true ∧ specEq b r = true ∧
      r.listDoc = true ∧ (PrecMono o → equivB o r b = true ∧ equals o r b = true) :=
  diffM_list_correct L o ho hm a b ha1 ha2 ha3 ha4 hb1 hb2 hb3 hb4 H Z

/-- **C01, list mode, strict strategy, any Precision** — about the library functions:
    `a.Patch(a.Diff(b))` (either variant of the patch code, `sw = true` is the library) succeeds, its
    result is the reference result up to array type tags, is structurally equal to `b`, and `Equals`
    `b` under the same options (under `PrecMono o` when a Precision option is present) -/
theorem diff_then_patch_list_precision (L : FloatLaws) (sw : Bool) (o : Opts)
    (ho : dispatchTag o = .list) (hm : isMerge o = false) (a b : Json)
    (ha1 : a.listDoc = true) (ha2 : a.wf = true) (ha3 : a.finiteNums = true) (ha4 : memOK a = true)
    (hb1 : b.listDoc = true) (hb2 : b.wf = true) (hb3 : b.finiteNums = true) (hb4 : memOK b = true)
    (H : HashOK o a b) (Z : ZeroOK a b) :
    ∃ r, patchAll sw a (diffM o a b) = .ok r ∧
      (∃ m, applyStrictAll a (diffM o a b) = some m ∧ untag r = untag m) ∧
      specEq r b = true ∧ (PrecMono o → equivB o r b = true ∧ equals o r b = true) := by
  obtain ⟨m, hm1, hm2, _, hm4, hm5⟩ :=
    diffM_list_correct L o ho hm a b ha1 ha2 ha3 ha4 hb1 hb2 hb3 hb4 H Z
  have hs := diffM_list_hunks_strict o ho hm a b ha1 hb1
  obtain ⟨r, hr⟩ := (strictAll_applies_iff sw a _ hs ha1).2 (by rw [hm1]; rfl)
  obtain ⟨m', hm', hu⟩ := strictAll_result sw a _ hs ha1 r hr
  rw [hm1] at hm'
  cases hm'
  have hrl : r.listDoc = true := patchAll_listDoc_of_strict sw (diffM o a b) a hs ha1 r hr
  refine ⟨r, hr, ⟨m, hm1, hu⟩, ?_, fun hp => ?_⟩
  · rw [← specEq_untag_left, hu, specEq_untag_left]; exact hm2
  · have e : equivB o r b = true := by
      rw [← equivB_untag_left o ho, hu, equivB_untag_left o ho]; exact (hm5 hp).1
    exact ⟨e, by rw [equals_eq_equivB_list o ho r b hrl hb1]; exact e⟩

/-- **C01, list mode, strict strategy, no Precision option** — the headline:
    `a.Patch(a.Diff(b))` succeeds and yields a document that `Equals` `b` under the same options -/
theorem diff_then_patch_list (L : FloatLaws) (o : Opts) (ho : dispatchTag o = .list)
    (hm : isMerge o = false) (hp : precOf o = 0) (a b : Json)
    (ha1 : a.listDoc = true) (ha2 : a.wf = true) (ha3 : a.finiteNums = true) (ha4 : memOK a = true)
    (hb1 : b.listDoc = true) (hb2 : b.wf = true) (hb3 : b.finiteNums = true) (hb4 : memOK b = true)
    (H : HashOK o a b) (Z : ZeroOK a b) :
    ∃ r, patchM a (diffM o a b) = .ok r ∧ equals o r b = true ∧ equivB o r b = true := by
  obtain ⟨r, hr, _, _, h⟩ :=
    diff_then_patch_list_precision L true o ho hm a b ha1 ha2 ha3 ha4 hb1 hb2 hb3 hb4 H Z
  exact ⟨r, hr, (h (PrecMono.of_noPrecision hp)).2, (h (PrecMono.of_noPrecision hp)).1⟩

/-- arrays of scalars: no `ZeroOK` needed, any precision; the result is described element by
    element (`PWL`: each element is the target's, or an element of the source with the same hash) -/
theorem diff_then_apply_scalar_arrays (L : FloatLaws) (o : Opts) (ho : dispatchTag o = .list)
    (hm : isMerge o = false) (t t' : Tag) (xs ys : List Json)
    (ha : Good (.arr t xs)) (hb : Good (.arr t' ys)) (hsc : ∀ x ∈ xs, isScalar x = true)
    (HashOK : ∀ x ∈ xs, ∀ y ∈ ys, hashCode o x = hashCode o y →
      specEq x y = true ∧ specEq y x = true) :
    ∃ t'' zs, applyStrictAll (.arr t xs) (diffM o (.arr t xs) (.arr t' ys)) = some (.arr t'' zs) ∧
      PWL o xs zs ys ∧ specEq (.arr t'' zs) (.arr t' ys) = true ∧
      (PrecMono o → equivB o (.arr t'' zs) (.arr t' ys) = true) :=
  diffM_list_correct_scalar_arrays L o ho hm t t' xs ys ha hb hsc HashOK

/-! ## The property, SET and MULTISET readings of arrays, strict strategy, no SetKeys -/

/-- **C01, SET or MULTISET reading** (any option set that selects it, either variant `sw` of the
    patch code; `sw = true` is the library): the hunks of `a.Diff(b)` apply to `a` in sequence with
    the library's own patch code, and the result is equal to `b`, both for the advertised
    equivalence (`equivB`: arrays compared as sets / multisets, no hashes) and for the library's
    `Equals` -/
theorem diff_then_patch_setmodes (F : FloatEq0) (L : FloatLaws) (sw : Bool) (o : Opts)
    (hm : dispatchTag o = .set ∨ dispatchTag o = .mset) (hk : keysOf o = none)
    (hmg : isMerge o = false) (hp : precOf o = 0) (a b : Json)
    (ha : a.setDoc = true) (hb : b.setDoc = true)
    (ha' : DPL.memOK a = true) (hb' : DPL.memOK b = true)
    (HF : HashFaithful o (subterms a ++ subterms b)) :
    ∃ r, patchAll sw a (diffM o a b) = .ok r ∧ equivB o r b = true ∧ equals o r b = true :=
  SetDP.diff_then_patch_setmodes F L sw o hm hk hmg hp a b ha hb ha' hb' HF

/-- **C01, SET reading** -/
theorem diff_then_patch_set (F : FloatEq0) (L : FloatLaws) (sw : Bool) (o : Opts)
    (hd : dispatchTag o = .set) (hk : keysOf o = none) (hmg : isMerge o = false)
    (hp : precOf o = 0) (a b : Json) (ha : a.setDoc = true) (hb : b.setDoc = true)
    (ha' : DPL.memOK a = true) (hb' : DPL.memOK b = true)
    (HF : HashFaithful o (subterms a ++ subterms b)) :
    ∃ r, patchAll sw a (diffM o a b) = .ok r ∧ equivB o r b = true ∧ equals o r b = true :=
  SetDP.diff_then_patch_set F L sw o hd hk hmg hp a b ha hb ha' hb' HF

/-- **C01, MULTISET reading** -/
theorem diff_then_patch_mset (F : FloatEq0) (L : FloatLaws) (sw : Bool) (o : Opts)
    (hd : dispatchTag o = .mset) (hk : keysOf o = none) (hmg : isMerge o = false)
    (hp : precOf o = 0) (a b : Json) (ha : a.setDoc = true) (hb : b.setDoc = true)
    (ha' : DPL.memOK a = true) (hb' : DPL.memOK b = true)
    (HF : HashFaithful o (subterms a ++ subterms b)) :
    ∃ r, patchAll sw a (diffM o a b) = .ok r ∧ equivB o r b = true ∧ equals o r b = true :=
  SetDP.diff_then_patch_mset F L sw o hd hk hmg hp a b ha hb ha' hb' HF

/-- the headline for the library call `a.Patch(a.Diff(b, SET))`: it succeeds and yields a document
    that `Equals` `b` under SET (and is equivalent to `b` read as sets) -/
theorem patchM_diffM_set (F : FloatEq0) (L : FloatLaws) (a b : Json)
    (ha : a.setDoc = true) (hb : b.setDoc = true)
    (ha' : DPL.memOK a = true) (hb' : DPL.memOK b = true)
    (HF : HashFaithful [.set] (subterms a ++ subterms b)) :
    ∃ r, patchM a (diffM [.set] a b) = .ok r ∧ equivB [.set] r b = true ∧
      equals [.set] r b = true :=
  SetDP.patchM_diffM_set F L a b ha hb ha' hb' HF

/-- the headline for the library call `a.Patch(a.Diff(b, MULTISET))` -/
theorem patchM_diffM_mset (F : FloatEq0) (L : FloatLaws) (a b : Json)
    (ha : a.setDoc = true) (hb : b.setDoc = true)
    (ha' : DPL.memOK a = true) (hb' : DPL.memOK b = true)
    (HF : HashFaithful [.mset] (subterms a ++ subterms b)) :
    ∃ r, patchM a (diffM [.mset] a b) = .ok r ∧ equivB [.mset] r b = true ∧
      equals [.mset] r b = true :=
  SetDP.patchM_diffM_mset F L a b ha hb ha' hb' HF

/-! ### Counter-witnesses: the hypotheses of the set-mode theorems are needed -/

/-- `HashFaithful` cannot be dropped from the `equivB` part (known finding KF-C04-alias): `[[]]` and
    `[""]` are documents of the domain, their members `[]` and `""` have the same hash code under
    SET, so the library's `Equals` holds them equal (the diff is empty, the patched document is `a`
    itself), but they are not equivalent as sets -/
theorem alias_needs_hashFaithful :
    SetDP.Example.alA.setDoc = true ∧ SetDP.Example.alB.setDoc = true ∧
    hashCode [.set] (.arr .raw []) = hashCode [.set] (.str "") ∧
    equals [.set] SetDP.Example.alA SetDP.Example.alB = true ∧
    equivB [.set] SetDP.Example.alA SetDP.Example.alB = false :=
  SetDP.Example.alias_needs_hashFaithful

/-- `memOK` cannot be dropped: `{"k":void}` satisfies `setDoc`, and `{}` (what patching towards it
    yields: a void member is a deletion) is not equivalent to it -/
theorem void_member_not_equivalent :
    (Json.obj [("k", .void)]).setDoc = true ∧
    equivB [.set] (.obj []) (.obj [("k", .void)]) = false :=
  SetDP.Example.void_member_not_equiv

/-! ## Non-vacuity

  `[true, 1, [1], null]` → `[false, 1, [1, 1], null, null]` (three hunks, one inside the nested
  list) satisfies every hypothesis of the list theorems, so the library patches it to a document
  equal to the target.
  `{"s":[true,null,{"k":null}]}` → `{"s":[{"k":null},null,false],"t":null}` (a set hunk below the
  key `s`, an added member, an object member of the set) satisfies every hypothesis of the set-mode
  theorems (`HashFaithful` checked on its 13 sub-terms), under SET and under MULTISET; only the
  IEEE-754 laws are left as assumptions. -/

example (F : FloatEq0) (L : FloatLaws) :
    ∃ r, patchM SetDP.Example.exA (diffM [.set] SetDP.Example.exA SetDP.Example.exB) = .ok r ∧
      equivB [.set] r SetDP.Example.exB = true ∧ equals [.set] r SetDP.Example.exB = true :=
  SetDP.Example.ex_set F L

example (F : FloatEq0) (L : FloatLaws) :
    ∃ r, patchM SetDP.Example.exA (diffM [.mset] SetDP.Example.exA SetDP.Example.exB) = .ok r ∧
      equivB [.mset] r SetDP.Example.exB = true ∧ equals [.mset] r SetDP.Example.exB = true :=
  SetDP.Example.ex_mset F L

example : SetDP.Example.exA.setDoc = true ∧ SetDP.Example.exB.setDoc = true ∧
    DPL.memOK SetDP.Example.exA = true ∧ DPL.memOK SetDP.Example.exB = true ∧
    HashFaithful [.set] (subterms SetDP.Example.exA ++ subterms SetDP.Example.exB) ∧
    HashFaithful [.mset] (subterms SetDP.Example.exA ++ subterms SetDP.Example.exB) :=
  ⟨SetDP.Example.ex_docs.1, SetDP.Example.ex_docs.2.1, SetDP.Example.ex_docs.2.2.1,
    SetDP.Example.ex_docs.2.2.2, SetDP.Example.ex_hashFaithful_set,
    SetDP.Example.ex_hashFaithful_mset⟩

example (L : FloatLaws) :
    ∃ r, patchM Example.exA (diffM [] Example.exA Example.exB) = .ok r ∧
      equals [] r Example.exB = true := by
  obtain ⟨h1, h2, h3, h4, h5, h6, h7, h8, h9, h10⟩ := Example.hyps L
  obtain ⟨r, hr, he, _⟩ :=
    diff_then_patch_list L [] rfl rfl rfl Example.exA Example.exB h1 h2 h3 h4 h5 h6 h7 h8 h9 h10
  exact ⟨r, hr, he⟩

end Jd.Props.C01
