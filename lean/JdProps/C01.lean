/-
  Property C01 — diff-then-patch reproduces the target (v2 library).
  Statement file. Proofs: LIST reading: JdProofs/DiffPatchList.lean (namespace `Jd.DPL`: the diff
  side, against the reference interpreter of hunks) COMPOSED HERE with JdProofs/StrictPatch.lean (the
  library's patch code = the reference interpreter on strict hunks). SET / MULTISET readings:
  JdProofs/SetDiffPatch.lean (namespace `Jd.SetDP`), directly about the library's patch code. MERGE
  strategy in memory (alone, with SET, with MULTISET) and the SetKeys reading (strict strategy):
  JdProofs/DiffPatchKeys.lean (namespace `Jd.DPK`), directly about the library's patch code.

  Model side: `diffM o a b` (JdModel/Diff.lean) is `a.Diff(b, options...)`; `patchM n d`
  (= `patchAll true n d`, JdModel/Patch.lean) is `n.Patch(d)` on the in-memory diff value;
  `equals o r b` is `r.Equals(b, options...)`. Spec side: `equivB o` (JdSpec/CanonEq.lean), the
  advertised equivalence written without hashes; `specEq = equivB []`.

  WHAT IS STATED, AND FOR WHICH PART OF THE PROPERTY
  * LIST reading of arrays, STRICT strategy (`dispatchTag o = .list`, `isMerge o = false`; a
    Precision option is allowed): the headline theorems `diff_then_patch_list` (no Precision) and
    `diff_then_patch_list_precision` speak about the LIBRARY functions only:
        ∃ r, patchM a (diffM o a b) = .ok r ∧ equals o r b = true.
    The composition is complete: the helper section proves that every hunk of a list-mode diff is a
    non-merge hunk with a key / index path whose values are list documents
    (`diffM_list_hunks_strict`), which is the hypothesis of `patchAll_strict_eq_ref`. Nothing is left
    stated against the reference interpreter only; the reference form is kept as
    `diff_then_apply_reference` because it is sharper (it names the result).
  * The result of `patchM` is equal to the reference result up to the Go dynamic type of array nodes
    (`untag`); `equals` / `equivB` in list mode do not see that type, so the headline needs no `untag`.
  * SET and MULTISET readings of arrays (`dispatchTag o = .set` / `.mset`), no SetKeys
    (`keysOf o = none`), STRICT strategy, no Precision (`precOf o = 0`): `diff_then_patch_set`,
    `diff_then_patch_mset`, `diff_then_patch_setmodes` (either variant `sw` of the patch code; the
    keyed-member branch of `jsonSet.patch` is never reached), and for the literal library calls
    `a.Patch(a.Diff(b, SET))` / `a.Patch(a.Diff(b, MULTISET))`: `patchM_diffM_set`,
    `patchM_diffM_mset`:
        ∃ r, patchM a (diffM o a b) = .ok r ∧ equivB o r b = true ∧ equals o r b = true.
    Arrays may be nested anywhere (sets of sets, sets in objects in sets); members are arbitrary
    documents. The hypothesis `HashFaithful` cannot be dropped from the `equivB` part
    (`alias_needs_hashFaithful`, known finding KF-C04-alias), nor can `memOK`
    (`void_member_not_equivalent`).
  * MERGE strategy IN MEMORY ("merge for null-free documents"; the diff value as returned, not its
    RFC 7386 rendering, which is C11 / C12), no Precision:
    - list reading of arrays (`isMerge o`, `dispatchTag o = .list`): `merge_diff_then_patch_list`
      (either variant `sw` of the patch code), `patchM_diffM_MERGE` (`a.Patch(a.Diff(b, MERGE))`):
        ∃ r, patchM a (diffM o a b) = .ok r ∧ equals o r b = true ∧ equivB o r b = true ∧
             specEq r b = true;
    - SET / MULTISET reading together with MERGE, no SetKeys: `merge_diff_then_patch_setmodes`,
      `patchM_diffM_SET_MERGE`, `patchM_diffM_MULTISET_MERGE`: the same without `specEq`.
    `a` may hold nulls (and void members); `b` must be null-free: that is the domain of the property.
    No statement about MERGE was found false.
  * SetKeys reading (arrays as sets of objects identified by the values of the keys `ks`), STRICT
    strategy, no Precision (`dispatchTag o = .set`, `keysOf o = some ks`): `diff_then_patch_setkeys`
    (either variant `sw`; the six hypotheses bundled as `DPK.KeysHyp`),
    `diff_then_patch_setkeys_explicit` (the same with the six hypotheses written out),
    `patchM_diffM_SetKeys` (`a.Patch(a.Diff(b, SetKeys(ks...)))`):
        ∃ r, patchM a (diffM o a b) = .ok r ∧ equals o r b = true ∧ equivB o r b = true
             (∧ hashCode o r = hashCode o b).
    Members need NOT carry all the set keys (more than the property asks). The property as worded is
    FALSE for SetKeys; the hypotheses of `KeysHyp` say where it holds, and three witnesses, each
    satisfying every hypothesis but one, show that those three cannot be dropped:
      `kt : KeyTuple`       ↔ known finding KF-C01-identperm (the identity of a member forgets which
                              key carries which value): `identperm_breaks`, `Patch` returns an ERROR;
      `pf : PathFaithful`   ↔ known finding KF-C01-keytwin (a member lacking a set key and a member
                              holding null for it share the path object): `null_completion_breaks`,
                              `Patch` succeeds on the WRONG member, result not `Equals` the target;
      `kd : KeyedDistinct`  =  the SetKeys precondition "within one array of `a` the identities of the
                              object members are pairwise distinct" (not in the property text, which
                              allows "duplicated array elements"): `duplicate_member_breaks`, `Patch`
                              changes the first bearer only, result not `Equals` the target;
      `hf : HashFaithful`, `ksep : KindSepI`, `ib : IdentInj`: no-collision / no-alias hypotheses
                              (KF-C04-alias and FNV collisions), as for SET.
    All six are decidable on the two documents (`keysHyp_of_checks`); `witnesses_outside_keysHyp`
    records that the three witnesses fall outside the bundle.
  * NOT PROVED: SetKeys together with MERGE; SetKeys, SET or MULTISET together with a Precision
    option; MERGE together with a Precision option. (The patch side of keyed members on arbitrary
    hunks, incl. KF-C08-swallow, is in JdProps/C08.lean.)

  HYPOTHESES of the LIST theorems (all of `Jd.DPL.diffM_list_correct`)
    `a`, `b` list documents (`listDoc`: no set / multiset typed array node), `wf` (unique sorted
    object keys, what a Go map guarantees), `finiteNums`, `memOK` (no void member inside);
    `FloatLaws` (IEEE-754 reflexivity / symmetry of `|x - y| ≤ eps`; `Float` is opaque to the kernel);
    `HashOK o a b`: no FNV-1a collision between a sub-term of `a` and a sub-term of `b` (list elements
       are matched by 64-bit hash code: with a collision the property is false, KF-C04-alias);
    `ZeroOK a b`: no `0` / `-0` pair between the numbers of `a` and of `b` (needed before the repair
       of D5b; stronger than necessary on the repaired code, kept because the proof uses it);
    `PrecMono o` (only with a Precision option): within `0` implies within `eps`.

  HYPOTHESES of the SET / MULTISET theorems (all of `Jd.SetDP.diff_then_patch_setmodes`)
    `a.setDoc`, `b.setDoc` = `rawDoc` (as read from JSON / YAML: every array a plain `jsonArray`) ∧
       `wf` ∧ `finiteNums` ∧ `noNegZero`; `memOK` (no void object member: void stands for "absent",
       a void member of the target is deleted by the patch; the readers never produce void);
    `HashFaithful o (subterms a ++ subterms b)`: among the sub-terms of `a` and `b`, equal hash codes
       only for equivalent nodes — no FNV-1a collision and no pre-image alias (`[[]]` / `[""]`). Set
       members ARE their hash codes in the library; without it the patched document still `Equals`
       `b` on the witness but is not equivalent to it;
    `FloatEq0` (`|x - y| ≤ +0` only for `x = y`: equivalent numbers have equal hash codes) and
       `FloatLaws` (`Equals` is reflexive: the patch compares a removed value with itself).

  HYPOTHESES of the MERGE theorems
    `isMerge o = true`, `precOf o = 0`; list reading: `dispatchTag o = .list`; set readings:
       `dispatchTag o = .set ∨ .mset`, `keysOf o = none`;
    `a.wf`, `a.rawDoc` (list reading) / `a.setDoc` (set readings): as read from JSON / YAML text;
    `b.wf`, `b.rawDoc`, `b.finiteNums` / `b.setDoc`; `b.nullFree` (the domain of merge patches: in the
       RENDERED form a null means "delete"; the property restricts MERGE to null-free documents);
       `objVoidFree b` (void is not a JSON value);
    `FloatLaws` (`Equals` is reflexive on the values copied from `b`); set readings only:
       `HashFaithful o (subterms a ++ subterms b)` and `FloatEq0` (equal arrays are handed to the
       strict set diff, which must be empty).

  HYPOTHESES of the SetKeys theorems (all of `Jd.DPK.diff_then_patch_setkeys`)
    `dispatchTag o = .set`, `keysOf o = some ks`, `isMerge o = false`, `precOf o = 0`;
    `a.setDoc`, `b.setDoc`, `memOK a`, `memOK b`, `FloatEq0`, `FloatLaws`: as for SET;
    `DPK.KeysHyp o ks a b`, six fields (definitions in JdProofs/DiffPatchKeys.lean §B.6,
    JdProofs/DiffEmptySet.lean):
      `hf`   `HashFaithful o (subterms a ++ subterms b)`;
      `kd`   `KeyedDistinct o (subterms a)`: in every array of `a` the object members have pairwise
             distinct identities (duplicates ARE allowed in `b`, and among non-object members);
      `ksep` `KindSepI o (subterms a) (subterms a ++ subterms b)`: no object has the identity of a
             non-object;
      `ib`   `IdentInj o (subterms b)`: in every array of `b`, members with the same identity have the
             same hash code;
      `pf`   `PathFaithful o ks (subterms a)`: among the object members of one array of `a`, the
             two-pass keyed lookup for the path object of a member hits only members with that
             member's identity (when every member carries every key with a non-null value this is a
             pure no-collision hypothesis);
      `kt`   `KeyTuple o ks (subterms a) (subterms b)`: two objects with the same identity have, key
             by key, values with the same hash code, and lack the same keys.
-/
import JdProofs.DiffPatchList
import JdProofs.PathSites
import JdProofs.StrictPatch
import JdProofs.SetDiffPatch
import JdProofs.DiffPatchKeys
import JdProofs.MergePrecision
import JdProofs.KeysMergeB
import JdProofs.KeysMerge
import JdProps.C01Precision
import JdProps.C01Void

set_option autoImplicit false

namespace Jd.Props.C01
open Jd Jd.Spec Jd.DPL

/-! ## Helper section: the hunks of a list-mode diff are strict hunks

  (not exported by DiffPatchList; proved here with its induction principle `listDiff_induct` and
  its unfolding equations) -/

/-- the hypothesis of `patchAll_strict_eq_ref` on one hunk -/
def strictHunk (h : Hunk) : Bool := !h.merge && strictPath h.path && hunkListDoc h

theorem strictPath_snoc_idx (p : Path) (i : Int) : strictPath (p ++ [.idx i]) = strictPath p := by
  induction p with
  | nil => simp [strictPath]
  | cons e r ih => cases e <;> simp [strictPath, ih]

theorem strictPath_snoc_key (p : Path) (k : String) : strictPath (p ++ [.key k]) = strictPath p := by
  induction p with
  | nil => simp [strictPath]
  | cons e r ih => cases e <;> simp [strictPath, ih]

theorem listDocList_snoc {l : List Json} {x : Json} (hl : listDocList l = true)
    (hx : x.listDoc = true) : listDocList (l ++ [x]) = true :=
  listDocList_append.2 ⟨hl, by simp [listDocList, hx]⟩

theorem listDocList_nodeList {x : Json} (hx : x.listDoc = true) : listDocList x.nodeList = true := by
  unfold Json.nodeList; split <;> simp [listDocList, hx]

theorem accHunk_strict {p : Path} {s : Nat} {prev after : Json} {R A : List Json}
    (hp : strictPath p = true) (h1 : prev.listDoc = true) (h2 : listDocList R = true)
    (h3 : listDocList A = true) (h4 : after.listDoc = true) :
    ∀ h ∈ accHunk p s prev R A after, strictHunk h = true := by
  intro h hm
  unfold accHunk at hm
  split at hm
  · cases hm
  · simp only [List.mem_singleton] at hm
    subst hm
    simp [strictHunk, hunkListDoc, listDocList, strictPath_snoc_idx, hp, h1, h2, h3, h4]

theorem headD_listDoc {l : List Json} (hl : listDocList l = true) : (l.headD .void).listDoc = true := by
  cases l with
  | nil => rfl
  | cons x r => simp only [listDocList, Bool.and_eq_true] at hl; exact hl.1

theorem listDoc_of_mem_kvs {kv : String × Json} :
    ∀ {kvs : List (String × Json)}, kv ∈ kvs → listDocKvs kvs = true → kv.2.listDoc = true
  | [], h, _ => by cases h
  | (k0, v0) :: r, h, hl => by
    simp only [listDocKvs, Bool.and_eq_true] at hl
    rcases List.mem_cons.1 h with rfl | hr
    · exact hl.1
    · exact listDoc_of_mem_kvs hr hl.2

/-- every hunk produced by the list-mode, strict-strategy diff functions under a key / index path
    prefix is a strict hunk (not a merge hunk, key / index path, list-document values) -/
theorem diff_hunks_strict (o : Opts) (ho : dispatchTag o = .list) :
    (∀ a b, a.listDoc = true → b.listDoc = true → ∀ p, strictPath p = true →
      ∀ h ∈ diffNode o false a b p, strictHunk h = true) ∧
    (∀ kvs' kvs, listDocKvs kvs' = true → listDocKvs kvs = true → ∀ p, strictPath p = true →
      ∀ h ∈ diffKvs o false p kvs' kvs, strictHunk h = true) ∧
    (∀ k s prev a b c R A, listDocList a = true → listDocList b = true → ∀ p, strictPath p = true →
      prev.listDoc = true → listDocList R = true → listDocList A = true →
      ∀ h ∈ diffRest o p k s prev a b c R A, strictHunk h = true) := by
  apply listDiff_induct o ho
    (mN := fun a b => ∀ p, strictPath p = true →
      ∀ h ∈ diffNode o false a b p, strictHunk h = true)
    (mK := fun kvs' kvs => ∀ p, strictPath p = true →
      ∀ h ∈ diffKvs o false p kvs' kvs, strictHunk h = true)
    (mR := fun k s prev a b c R A => ∀ p, strictPath p = true →
      prev.listDoc = true → listDocList R = true → listDocList A = true →
      ∀ h ∈ diffRest o p k s prev a b c R A, strictHunk h = true)
  · intro t t' xs ys ht ht' htt _ _ ih p hp h hm
    rw [diffNode_arr_arr ho xs ys ht ht' htt] at hm
    exact ih p hp rfl rfl rfl h hm
  · intro t xs b ht hxs hb hbb p hp h hm
    rw [diffNode_arr_other ho xs b ht hbb] at hm
    simp only [List.mem_singleton] at hm
    subst hm
    simp [strictHunk, hunkListDoc, listDocList, Json.listDoc, hp, hxs, listDocList_nodeList hb]
  · intro kvs kvs' _ hl' ih p hp h hm
    rw [diffNode_obj_obj, List.mem_append] at hm
    rcases hm with hm | hm
    · exact ih p hp h hm
    · obtain ⟨kv, hkv, rfl⟩ := List.mem_map.1 hm
      have hv : kv.2.listDoc = true := listDoc_of_mem_kvs (List.mem_filter.1 hkv).1 hl'
      simp [strictHunk, hunkListDoc, listDocList, strictPath_snoc_key, hp, listDocList_nodeList hv]
  · intro kvs b hk hb hbb p hp h hm
    rw [diffNode_obj_other o kvs b hbb] at hm
    simp only [List.mem_singleton] at hm
    subst hm
    simp [strictHunk, hunkListDoc, listDocList, Json.listDoc, hp, hk, hb]
  · intro a b h1 h2 hb p hp h hm
    have ha : a.listDoc = true := by
      cases a with
      | arr t xs => exact absurd rfl (h1 t xs)
      | obj kvs => exact absurd rfl (h2 kvs)
      | _ => rfl
    rw [diffNode_scalar o a b h1 h2] at hm
    unfold diffCommon at hm
    split at hm
    · cases hm
    · simp only [Bool.false_eq_true, if_false, List.mem_singleton] at hm
      subst hm
      simp [strictHunk, hunkListDoc, listDocList, hp, listDocList_nodeList ha,
        listDocList_nodeList hb]
  · intro kvs' p _ h hm
    rw [diffKvs_nil] at hm; cases hm
  · intro kvs' k v r hl' hv _ ihN ihK p hp h hm
    rw [diffKvs_cons, List.mem_append] at hm
    rcases hm with hm | hm
    · cases hlk : alookup k kvs' with
      | none =>
        rw [hlk] at hm
        simp only [List.mem_singleton] at hm
        subst hm
        simp [strictHunk, hunkListDoc, listDocList, strictPath_snoc_key, hp,
          listDocList_nodeList hv]
      | some v' =>
        rw [hlk] at hm
        have hv' := alookup_listDoc hlk hl'
        exact ihN v' hv' (p ++ [.key k]) (by rw [strictPath_snoc_key]; exact hp) h hm
    · exact ihK p hp h hm
  · intro k s prev c R A b hb p hp h1 h2 h3 h hm
    rw [diffRest_nilA] at hm
    exact accHunk_strict hp h1 h2 (listDocList_append.2 ⟨h3, hb⟩) rfl h hm
  · intro k s prev c R A a hne ha p hp h1 h2 h3 h hm
    rw [diffRest_nilB _ _ _ _ _ _ _ _ _ hne] at hm
    exact accHunk_strict hp h1 (listDocList_append.2 ⟨h2, ha⟩) h3 rfl h hm
  · intro k s prev c R A x a' y b' hl hl' hA hB ih p hp h1 h2 h3 h hm
    rw [diffRest_cons] at hm
    simp only [listDocList, Bool.and_eq_true] at hl hl'
    simp only [hA, hB, Bool.and_self, if_true, List.mem_append] at hm
    rcases hm with hm | hm
    · exact accHunk_strict hp h1 h2 h3 hl.1 h hm
    · exact ih p hp hl'.1 rfl rfl h hm
  · intro k s prev c R A x a' y b' _ hl' hA hB ih p hp h1 h2 h3 h hm
    rw [diffRest_cons] at hm
    simp only [listDocList, Bool.and_eq_true] at hl'
    simp only [hA, hB, Bool.and_false, Bool.false_eq_true, if_false, if_true] at hm
    exact ih p hp h1 h2 (listDocList_snoc h3 hl'.1) h hm
  · intro k s prev c R A x a' y b' hl _ hA hB ih p hp h1 h2 h3 h hm
    rw [diffRest_cons] at hm
    simp only [listDocList, Bool.and_eq_true] at hl
    simp only [hA, hB, Bool.false_and, Bool.false_eq_true, if_false, if_true] at hm
    exact ih p hp h1 (listDocList_snoc h2 hl.1) h3 h hm
  · intro k s prev c R A x a' y b' hl hl' hA hB hs ihN ihR p hp h1 h2 h3 h hm
    rw [diffRest_cons] at hm
    simp only [listDocList, Bool.and_eq_true] at hl hl'
    simp only [hA, hB, hs, Bool.false_and, Bool.false_eq_true, if_false, if_true,
      List.mem_append] at hm
    rcases hm with (hm | hm) | hm
    · refine accHunk_strict hp h1 h2 h3 ?_ h hm
      split
      · exact headD_listDoc hl.2
      · exact hl.1
    · -- the sub-diff went through `subAfter`: only the after-context of one hunk may have become
      -- the next element of the source (a list document)
      obtain ⟨h0, hm0, e1, e2, e3, e4, e5, ha⟩ := mem_subAfter' hm
      have g := ihN (p ++ [.idx k]) (by rw [strictPath_snoc_idx]; exact hp) h0 hm0
      have hnx := headD_listDoc hl.2
      simp only [strictHunk, hunkListDoc, Bool.and_eq_true, Bool.not_eq_true'] at g ⊢
      rw [e1, e2, e3, e4, e5]
      rcases ha with ha | ha
      · rw [ha]; exact g
      · rw [ha]
        exact ⟨g.1, ⟨⟨g.2.1.1, g.2.1.2⟩, by simp only [listDocList, Bool.and_true]; exact hnx⟩⟩
    · exact ihR p hp hl'.1 rfl rfl h hm
  · intro k s prev c R A x a' y b' hl hl' hA hB hs ih p hp h1 h2 h3 h hm
    rw [diffRest_cons] at hm
    simp only [listDocList, Bool.and_eq_true] at hl hl'
    simp only [hA, hB, hs, Bool.false_and, Bool.false_eq_true, if_false] at hm
    exact ih p hp h1 (listDocList_snoc h2 hl.1) (listDocList_snoc h3 hl'.1) h hm

/-- **composition lemma.** In list mode with the strict strategy every hunk of `a.Diff(b)` is a
    non-merge hunk with a key / index path and list-document values: exactly the class of hunks on
    which the library's `Patch` is the reference interpreter (`patchAll_strict_eq_ref`, C03). -/
theorem diffM_list_hunks_strict (o : Opts) (ho : dispatchTag o = .list) (hm : isMerge o = false)
    (a b : Json) (ha : a.listDoc = true) (hb : b.listDoc = true) :
    (diffM o a b).all (fun h => !h.merge && strictPath h.path && hunkListDoc h) = true := by
  rw [List.all_eq_true]
  intro h hmem
  unfold diffM at hmem
  rw [hm] at hmem
  exact (diff_hunks_strict o ho).1 a b ha hb [] rfl h hmem

/-- a sequence of strict hunks keeps list documents list documents (sequence form of
    `patchNode_strict_listDoc`) -/
theorem patchAll_listDoc_of_strict (sw : Bool) (d : Diff) :
    ∀ (n : Json), d.all (fun h => !h.merge && strictPath h.path && hunkListDoc h) = true →
      n.listDoc = true → ∀ r, patchAll sw n d = .ok r → r.listDoc = true := by
  induction d with
  | nil => intro n _ hn r he; simp only [patchAll, Outcome.ok.injEq] at he; rw [← he]; exact hn
  | cons h d ih =>
    intro n hd hn r he
    simp only [List.all_cons, Bool.and_eq_true, Bool.not_eq_true'] at hd
    obtain ⟨⟨⟨hm, hp⟩, hh⟩, hd⟩ := hd
    simp only [patchAll, hm] at he
    cases hP : patchNode sw false n h.path h.before h.remove h.add h.after with
    | ok n1 =>
      rw [hP] at he
      exact ih n1 hd (patchNode_strict_listDoc sw n h h.path hp hn hh n1 hP) r he
    | err => rw [hP] at he; cases he
    | panic => rw [hP] at he; cases he

/-- on its own diff the library's `Patch` IS the reference interpreter (up to array type tags) -/
theorem patch_of_diff_eq_reference (sw : Bool) (o : Opts) (ho : dispatchTag o = .list)
    (hm : isMerge o = false) (a b : Json) (ha : a.listDoc = true) (hb : b.listDoc = true) :
    Outcome.mapO untag (patchAll sw a (diffM o a b))
      = Outcome.mapO untag (optToOutcome (applyStrictAll a (diffM o a b))) :=
  patchAll_strict_eq_ref sw a (diffM o a b) (diffM_list_hunks_strict o ho hm a b ha hb) ha

/-! ## The property, list reading of arrays, strict strategy -/

/-- reference form (sharpest): the hunks of `a.Diff(b)` apply in sequence to `a` under the
    documented meaning of hunks, every removed value and context line checked; the result is
    structurally equal to `b` (ordered arrays, exact numbers), is a list document, and `Equals` `b`
    under the options `o` -/
theorem diff_then_apply_reference (L : FloatLaws) (o : Opts) (ho : dispatchTag o = .list)
    (hm : isMerge o = false) (a b : Json)
    (ha1 : a.listDoc = true) (ha2 : a.wf = true) (ha3 : a.finiteNums = true) (ha4 : memOK a = true)
    (hb1 : b.listDoc = true) (hb2 : b.wf = true) (hb3 : b.finiteNums = true) (hb4 : memOK b = true)
    (H : HashOK o a b) (Z : ZeroOK a b) :
    ∃ r, applyStrictAll a (diffM o a b) = some r ∧ specEq r b = true ∧ specEq b r = true ∧
      r.listDoc = true ∧ (PrecMono o → equivB o r b = true ∧ equals o r b = true) :=
  diffM_list_correct L o ho hm a b ha1 ha2 ha3 ha4 hb1 hb2 hb3 hb4 H Z

/-- **C01, list mode, strict strategy, any Precision** — about the library functions:
    `a.Patch(a.Diff(b))` (either variant of the patch code, `sw = true` is the library) succeeds, its
    result is the reference result up to array type tags, is structurally equal to `b`, and `Equals`
    `b` under the same options (under `PrecMono o` when a Precision option is present) -/
theorem diff_then_patch_list_precision (L : FloatLaws) (sw : Bool) (o : Opts)
    (ho : dispatchTag o = .list) (hm : isMerge o = false) (a b : Json)
    (ha1 : a.listDoc = true) (ha2 : a.wf = true) (ha3 : a.finiteNums = true) (ha4 : memOK a = true)
    (hb1 : b.listDoc = true) (hb2 : b.wf = true) (hb3 : b.finiteNums = true) (hb4 : memOK b = true)
    (H : HashOK o a b) (Z : ZeroOK a b) :
    ∃ r, patchAll sw a (diffM o a b) = .ok r ∧
      (∃ m, applyStrictAll a (diffM o a b) = some m ∧ untag r = untag m) ∧
      specEq r b = true ∧ (PrecMono o → equivB o r b = true ∧ equals o r b = true) := by
  obtain ⟨m, hm1, hm2, _, hm4, hm5⟩ :=
    diffM_list_correct L o ho hm a b ha1 ha2 ha3 ha4 hb1 hb2 hb3 hb4 H Z
  have hs := diffM_list_hunks_strict o ho hm a b ha1 hb1
  obtain ⟨r, hr⟩ := (strictAll_applies_iff sw a _ hs ha1).2 (by rw [hm1]; rfl)
  obtain ⟨m', hm', hu⟩ := strictAll_result sw a _ hs ha1 r hr
  rw [hm1] at hm'
  cases hm'
  have hrl : r.listDoc = true := patchAll_listDoc_of_strict sw (diffM o a b) a hs ha1 r hr
  refine ⟨r, hr, ⟨m, hm1, hu⟩, ?_, fun hp => ?_⟩
  · rw [← specEq_untag_left, hu, specEq_untag_left]; exact hm2
  · have e : equivB o r b = true := by
      rw [← equivB_untag_left o ho, hu, equivB_untag_left o ho]; exact (hm5 hp).1
    exact ⟨e, by rw [equals_eq_equivB_list o ho r b hrl hb1]; exact e⟩

/-- **C01, list mode, strict strategy, no Precision option** — the headline:
    `a.Patch(a.Diff(b))` succeeds and yields a document that `Equals` `b` under the same options -/
theorem diff_then_patch_list (L : FloatLaws) (o : Opts) (ho : dispatchTag o = .list)
    (hm : isMerge o = false) (hp : precOf o = 0) (a b : Json)
    (ha1 : a.listDoc = true) (ha2 : a.wf = true) (ha3 : a.finiteNums = true) (ha4 : memOK a = true)
    (hb1 : b.listDoc = true) (hb2 : b.wf = true) (hb3 : b.finiteNums = true) (hb4 : memOK b = true)
    (H : HashOK o a b) (Z : ZeroOK a b) :
    ∃ r, patchM a (diffM o a b) = .ok r ∧ equals o r b = true ∧ equivB o r b = true := by
  obtain ⟨r, hr, _, _, h⟩ :=
    diff_then_patch_list_precision L true o ho hm a b ha1 ha2 ha3 ha4 hb1 hb2 hb3 hb4 H Z
  exact ⟨r, hr, (h (PrecMono.of_noPrecision hp)).2, (h (PrecMono.of_noPrecision hp)).1⟩

/-- arrays of scalars: no `ZeroOK` needed, any precision; the result is described element by
    element (`PWL`: each element is the target's, or an element of the source with the same hash) -/
theorem diff_then_apply_scalar_arrays (L : FloatLaws) (o : Opts) (ho : dispatchTag o = .list)
    (hm : isMerge o = false) (t t' : Tag) (xs ys : List Json)
    (ha : Good (.arr t xs)) (hb : Good (.arr t' ys)) (hsc : ∀ x ∈ xs, isScalar x = true)
    (HashOK : ∀ x ∈ xs, ∀ y ∈ ys, hashCode o x = hashCode o y →
      specEq x y = true ∧ specEq y x = true) :
    ∃ t'' zs, applyStrictAll (.arr t xs) (diffM o (.arr t xs) (.arr t' ys)) = some (.arr t'' zs) ∧
      PWL o xs zs ys ∧ specEq (.arr t'' zs) (.arr t' ys) = true ∧
      (PrecMono o → equivB o (.arr t'' zs) (.arr t' ys) = true) :=
  diffM_list_correct_scalar_arrays L o ho hm t t' xs ys ha hb hsc HashOK

/-! ## The property, SET and MULTISET readings of arrays, strict strategy, no SetKeys -/

/-- **C01, SET or MULTISET reading** (any option set that selects it, either variant `sw` of the
    patch code; `sw = true` is the library): the hunks of `a.Diff(b)` apply to `a` in sequence with
    the library's own patch code, and the result is equal to `b`, both for the advertised
    equivalence (`equivB`: arrays compared as sets / multisets, no hashes) and for the library's
    `Equals` -/
theorem diff_then_patch_setmodes (F : FloatEq0) (L : FloatLaws) (sw : Bool) (o : Opts)
    (hm : dispatchTag o = .set ∨ dispatchTag o = .mset) (hk : keysOf o = none)
    (hmg : isMerge o = false) (hp : precOf o = 0) (a b : Json)
    (ha : a.setDoc = true) (hb : b.setDoc = true)
    (ha' : DPL.memOK a = true) (hb' : DPL.memOK b = true)
    (HF : HashFaithful o (subterms a ++ subterms b)) :
    ∃ r, patchAll sw a (diffM o a b) = .ok r ∧ equivB o r b = true ∧ equals o r b = true :=
  SetDP.diff_then_patch_setmodes F L sw o hm hk hmg hp a b ha hb ha' hb' HF

/-- **C01, SET reading** -/
theorem diff_then_patch_set (F : FloatEq0) (L : FloatLaws) (sw : Bool) (o : Opts)
    (hd : dispatchTag o = .set) (hk : keysOf o = none) (hmg : isMerge o = false)
    (hp : precOf o = 0) (a b : Json) (ha : a.setDoc = true) (hb : b.setDoc = true)
    (ha' : DPL.memOK a = true) (hb' : DPL.memOK b = true)
    (HF : HashFaithful o (subterms a ++ subterms b)) :
    ∃ r, patchAll sw a (diffM o a b) = .ok r ∧ equivB o r b = true ∧ equals o r b = true :=
  SetDP.diff_then_patch_set F L sw o hd hk hmg hp a b ha hb ha' hb' HF

/-- **C01, MULTISET reading** -/
theorem diff_then_patch_mset (F : FloatEq0) (L : FloatLaws) (sw : Bool) (o : Opts)
    (hd : dispatchTag o = .mset) (hk : keysOf o = none) (hmg : isMerge o = false)
    (hp : precOf o = 0) (a b : Json) (ha : a.setDoc = true) (hb : b.setDoc = true)
    (ha' : DPL.memOK a = true) (hb' : DPL.memOK b = true)
    (HF : HashFaithful o (subterms a ++ subterms b)) :
    ∃ r, patchAll sw a (diffM o a b) = .ok r ∧ equivB o r b = true ∧ equals o r b = true :=
  SetDP.diff_then_patch_mset F L sw o hd hk hmg hp a b ha hb ha' hb' HF

/-- the headline for the library call `a.Patch(a.Diff(b, SET))`: it succeeds and yields a document
    that `Equals` `b` under SET (and is equivalent to `b` read as sets) -/
theorem patchM_diffM_set (F : FloatEq0) (L : FloatLaws) (a b : Json)
    (ha : a.setDoc = true) (hb : b.setDoc = true)
    (ha' : DPL.memOK a = true) (hb' : DPL.memOK b = true)
    (HF : HashFaithful [.set] (subterms a ++ subterms b)) :
    ∃ r, patchM a (diffM [.set] a b) = .ok r ∧ equivB [.set] r b = true ∧
      equals [.set] r b = true :=
  SetDP.patchM_diffM_set F L a b ha hb ha' hb' HF

/-- the headline for the library call `a.Patch(a.Diff(b, MULTISET))` -/
theorem patchM_diffM_mset (F : FloatEq0) (L : FloatLaws) (a b : Json)
    (ha : a.setDoc = true) (hb : b.setDoc = true)
    (ha' : DPL.memOK a = true) (hb' : DPL.memOK b = true)
    (HF : HashFaithful [.mset] (subterms a ++ subterms b)) :
    ∃ r, patchM a (diffM [.mset] a b) = .ok r ∧ equivB [.mset] r b = true ∧
      equals [.mset] r b = true :=
  SetDP.patchM_diffM_mset F L a b ha hb ha' hb' HF

/-! ### Counter-witnesses: the hypotheses of the set-mode theorems are needed -/

/-- `HashFaithful` cannot be dropped from the `equivB` part (known finding KF-C04-alias): `[[]]` and
    `[""]` are documents of the domain, their members `[]` and `""` have the same hash code under
    SET, so the library's `Equals` holds them equal (the diff is empty, the patched document is `a`
    itself), but they are not equivalent as sets -/
theorem alias_needs_hashFaithful :
    SetDP.Example.alA.setDoc = true ∧ SetDP.Example.alB.setDoc = true ∧
    hashCode [.set] (.arr .raw []) = hashCode [.set] (.str "") ∧
    equals [.set] SetDP.Example.alA SetDP.Example.alB = true ∧
    equivB [.set] SetDP.Example.alA SetDP.Example.alB = false :=
  SetDP.Example.alias_needs_hashFaithful

/-- `memOK` cannot be dropped: `{"k":void}` satisfies `setDoc`, and `{}` (what patching towards it
    yields: a void member is a deletion) is not equivalent to it -/
theorem void_member_not_equivalent :
    (Json.obj [("k", .void)]).setDoc = true ∧
    equivB [.set] (.obj []) (.obj [("k", .void)]) = false :=
  SetDP.Example.void_member_not_equiv

/-! ## The property, MERGE strategy, in memory

  The diff value `a.Diff(b, MERGE, ...)` is applied as returned (merge hunks: key paths, the new
  value or void = "delete"); its RFC 7386 rendering is the subject of C11 / C12. -/

/-- **C01, MERGE strategy in memory, list reading of arrays** (any option list with MERGE, no SET /
    MULTISET / SetKeys, no Precision; either variant `sw` of the patch code, `sw = true` is the
    library): for documents as read from text, `b` null-free, `a.Patch(a.Diff(b, MERGE))` succeeds
    and its result `Equals` `b` under the options, is equivalent to it (`equivB o`) and
    structurally equal to it (`specEq`: ordered arrays, exact numbers). `a` may hold nulls. -/
theorem merge_diff_then_patch_list (L : FloatLaws) (sw : Bool) (o : Opts) (hm : isMerge o = true)
    (ho : dispatchTag o = .list) (hprec : precOf o = 0) (a b : Json)
    (haw : a.wf = true) (har : a.rawDoc = true)
    (hbw : b.wf = true) (hbr : b.rawDoc = true) (hbn : b.nullFree = true)
    (hbv : Merge.objVoidFree b = true) (hbf : b.finiteNums = true) :
    ∃ r, patchAll sw a (diffM o a b) = .ok r ∧ equals o r b = true ∧ equivB o r b = true ∧
      specEq r b = true :=
  DPK.merge_diff_then_patch_list L sw o hm ho hprec a b haw har hbw hbr hbn hbv hbf

/-- the headline for the library call `a.Patch(a.Diff(b, MERGE))` -/
theorem patchM_diffM_MERGE (L : FloatLaws) (a b : Json)
    (haw : a.wf = true) (har : a.rawDoc = true)
    (hbw : b.wf = true) (hbr : b.rawDoc = true) (hbn : b.nullFree = true)
    (hbv : Merge.objVoidFree b = true) (hbf : b.finiteNums = true) :
    ∃ r, patchM a (diffM [.merge] a b) = .ok r ∧ equals [.merge] r b = true ∧
      equivB [.merge] r b = true ∧ specEq r b = true :=
  DPK.patchM_diffM_MERGE L a b haw har hbw hbr hbn hbv hbf

/-- **C01, MERGE strategy in memory, SET / MULTISET reading of arrays** (no SetKeys, no Precision;
    either variant `sw` of the patch code): for documents as read from text, `b` null-free,
    `a.Patch(a.Diff(b, SET, MERGE))` (resp. MULTISET) succeeds and its result `Equals` `b` under the
    options and is equivalent to it under the set (bag) reading -/
theorem merge_diff_then_patch_setmodes (F : FloatEq0) (L : FloatLaws) (sw : Bool) (o : Opts)
    (hmg : isMerge o = true) (hm : dispatchTag o = .set ∨ dispatchTag o = .mset)
    (hk : keysOf o = none) (hp : precOf o = 0) (a b : Json)
    (ha : a.setDoc = true) (hb : b.setDoc = true) (hbn : b.nullFree = true)
    (hbv : Merge.objVoidFree b = true) (HF : HashFaithful o (subterms a ++ subterms b)) :
    ∃ r, patchAll sw a (diffM o a b) = .ok r ∧ equals o r b = true ∧ equivB o r b = true :=
  DPK.merge_diff_then_patch_setmodes F L sw o hmg hm hk hp a b ha hb hbn hbv HF

/-- the headline for the library call `a.Patch(a.Diff(b, SET, MERGE))` -/
theorem patchM_diffM_SET_MERGE (F : FloatEq0) (L : FloatLaws) (a b : Json)
    (ha : a.setDoc = true) (hb : b.setDoc = true) (hbn : b.nullFree = true)
    (hbv : Merge.objVoidFree b = true)
    (HF : HashFaithful [.set, .merge] (subterms a ++ subterms b)) :
    ∃ r, patchM a (diffM [.set, .merge] a b) = .ok r ∧ equals [.set, .merge] r b = true ∧
      equivB [.set, .merge] r b = true :=
  DPK.patchM_diffM_SET_MERGE F L a b ha hb hbn hbv HF

/-- the headline for the library call `a.Patch(a.Diff(b, MULTISET, MERGE))` -/
theorem patchM_diffM_MULTISET_MERGE (F : FloatEq0) (L : FloatLaws) (a b : Json)
    (ha : a.setDoc = true) (hb : b.setDoc = true) (hbn : b.nullFree = true)
    (hbv : Merge.objVoidFree b = true)
    (HF : HashFaithful [.mset, .merge] (subterms a ++ subterms b)) :
    ∃ r, patchM a (diffM [.mset, .merge] a b) = .ok r ∧ equals [.mset, .merge] r b = true ∧
      equivB [.mset, .merge] r b = true :=
  DPK.patchM_diffM_MULTISET_MERGE F L a b ha hb hbn hbv HF

/-! ## The property, SetKeys reading (sets of objects identified by keys), strict strategy -/

/-- **C01, SetKeys reading** (any option list selecting it: `dispatchTag o = .set`,
    `keysOf o = some ks`; strict strategy, no Precision; either variant `sw` of the patch code):
    for documents as read from text satisfying `DPK.KeysHyp o ks a b` (six decidable hypotheses, see
    the header and `diff_then_patch_setkeys_explicit`), the hunks of `a.Diff(b)` apply to `a` in
    sequence with the library's own patch code — every keyed lookup finds its member, no nested
    application fails — and the result `Equals` `b` under the same options, is equivalent to `b`
    for the advertised equivalence (arrays as sets, no hashes), and has the hash code of `b`.
    Members need not carry all the set keys. -/
theorem diff_then_patch_setkeys (F : FloatEq0) (L : FloatLaws) (sw : Bool) (o : Opts)
    (ks : List String) (hd : dispatchTag o = .set) (hk : keysOf o = some ks)
    (hmg : isMerge o = false) (hp : precOf o = 0) (a b : Json)
    (ha : a.setDoc = true) (hb : b.setDoc = true)
    (ha' : DPL.memOK a = true) (hb' : DPL.memOK b = true) (K : DPK.KeysHyp o ks a b) :
    ∃ r, patchAll sw a (diffM o a b) = .ok r ∧ equals o r b = true ∧
      equivB o r b = true ∧ hashCode o r = hashCode o b :=
  DPK.diff_then_patch_setkeys F L sw o ks hd hk hmg hp a b ha hb ha' hb' K

/-- the same with the six hypotheses of `DPK.KeysHyp` written out:
    `hf` no collision / alias among the sub-terms; `kd` pairwise distinct identities among the object
    members of each array of `a` (the SetKeys precondition); `ksep` no object shares its identity
    with a non-object; `ib` in each array of `b` equal identities only for equal hash codes; `pf` the
    keyed lookup for a member's path object hits only bearers of that member's identity (excludes
    KF-C01-keytwin); `kt` equal identities only for key tuples equal key by key (excludes
    KF-C01-identperm) -/
theorem diff_then_patch_setkeys_explicit (F : FloatEq0) (L : FloatLaws) (sw : Bool) (o : Opts)
    (ks : List String) (hd : dispatchTag o = .set) (hk : keysOf o = some ks)
    (hmg : isMerge o = false) (hp : precOf o = 0) (a b : Json)
    (ha : a.setDoc = true) (hb : b.setDoc = true)
    (ha' : DPL.memOK a = true) (hb' : DPL.memOK b = true)
    (hf : HashFaithful o (subterms a ++ subterms b))
    (kd : DPK.KeyedDistinct o (subterms a))
    (ksep : DES.KindSepI o (subterms a) (subterms a ++ subterms b))
    (ib : DES.IdentInj o (subterms b))
    (pf : DPK.PathFaithful o ks (subterms a))
    (kt : DPK.KeyTuple o ks (subterms a) (subterms b)) :
    ∃ r, patchAll sw a (diffM o a b) = .ok r ∧ equals o r b = true ∧
      equivB o r b = true ∧ hashCode o r = hashCode o b :=
  DPK.diff_then_patch_setkeys F L sw o ks hd hk hmg hp a b ha hb ha' hb' ⟨hf, kd, ksep, ib, pf, kt⟩

/-- the headline for the library call `a.Patch(a.Diff(b, SetKeys(ks...)))`: it succeeds and yields a
    document that `Equals` `b` under `SetKeys(ks...)` (and is equivalent to `b`, arrays read as sets) -/
theorem patchM_diffM_SetKeys (F : FloatEq0) (L : FloatLaws) (ks : List String) (a b : Json)
    (ha : a.setDoc = true) (hb : b.setDoc = true)
    (ha' : DPL.memOK a = true) (hb' : DPL.memOK b = true)
    (K : DPK.KeysHyp [.setKeys ks] ks a b) :
    ∃ r, patchM a (diffM [.setKeys ks] a b) = .ok r ∧ equals [.setKeys ks] r b = true ∧
      equivB [.setKeys ks] r b = true :=
  DPK.patchM_diffM_SetKeys F L ks a b ha hb ha' hb' K

/-- `DPK.KeysHyp` is decidable on the two documents: six Boolean checks over their (finitely many)
    sub-terms establish it (this is how the examples and the witnesses below are checked, in the
    kernel) -/
theorem keysHyp_of_checks {o : Opts} {ks : List String} {a b : Json}
    (h1 : ((subterms a ++ subterms b).all fun x => (subterms a ++ subterms b).all fun y =>
      hashCode o x != hashCode o y || equivB o x y) = true)
    (h2 : (subterms a).all (DPK.nodeKeyedDistinct o) = true)
    (h3 : ((subterms a).all fun x => (subterms a ++ subterms b).all fun y =>
      identOf o x != identOf o y || x.isObj == y.isObj) = true)
    (h4 : (subterms b).all (DES.nodeIdentInj o) = true)
    (h5 : (subterms a).all (DPK.nodePathFaithful o ks) = true)
    (h6 : ((subterms a).all fun x => (subterms b).all fun y => DPK.keyTupleOK o ks x y) = true) :
    DPK.KeysHyp o ks a b :=
  ⟨DPK.hashFaithful_of_check h1, DPK.keyedDistinct_of_check h2, DES.Example.kindSepI_of_check h3,
    DES.Example.identInj_of_check h4, DPK.pathFaithful_of_check h5, DPK.keyTuple_of_check h6⟩

/-! ### Counter-witnesses: where the property is FALSE under SetKeys

  Three pairs of documents as read from text (`setDoc`, `memOK`). Each satisfies every hypothesis of
  `diff_then_patch_setkeys` but ONE field of `KeysHyp`, and `a.Patch(a.Diff(b, SetKeys(...)))` does
  not yield a document that `Equals` `b`. Proved on the model by evaluation; replayed on the Go
  library with the same outcomes. The documents, literally: -/

example : DPK.Witness.o2 = [.setKeys ["id", "k"]] ∧ DPK.Witness.o1 = [.setKeys ["id"]] := ⟨rfl, rfl⟩

/-- `[{"id":"5","k":"3"}]` → `[{"id":"3","k":"5"}]` -/
example : DPK.Witness.pa = .arr .raw [.obj [("id", .str "5"), ("k", .str "3")]] ∧
    DPK.Witness.pb = .arr .raw [.obj [("id", .str "3"), ("k", .str "5")]] := ⟨rfl, rfl⟩

/-- `[{"id":"1","v":"1"},{"id":"1","v":"1"}]` → `[{"id":"1","v":"2"}]`; the result of the patch is
    `[{"id":"1","v":"2"},{"id":"1","v":"1"}]` -/
example : DPK.Witness.da = .arr .raw [.obj [("id", .str "1"), ("v", .str "1")],
      .obj [("id", .str "1"), ("v", .str "1")]] ∧
    DPK.Witness.db = .arr .raw [.obj [("id", .str "1"), ("v", .str "2")]] ∧
    DPK.Witness.dy = .obj [("id", .str "1"), ("v", .str "2")] ∧
    DPK.Witness.dx = .obj [("id", .str "1"), ("v", .str "1")] := ⟨rfl, rfl, rfl, rfl⟩

/-- `[{"id":"1"},{"id":"1","k":null}]` → `[{"id":"1","v":"y"},{"id":"1","k":null}]`; the result of
    the patch is `[{"id":"1"},{"id":"1","k":null,"v":"y"}]` -/
example : DPK.Witness.na = .arr .raw [.obj [("id", .str "1")], .obj [("id", .str "1"), ("k", .null)]] ∧
    DPK.Witness.nb = .arr .raw [.obj [("id", .str "1"), ("v", .str "y")],
      .obj [("id", .str "1"), ("k", .null)]] ∧
    DPK.Witness.n1 = .obj [("id", .str "1")] ∧
    DPK.Witness.n4 = .obj [("id", .str "1"), ("k", .null), ("v", .str "y")] := ⟨rfl, rfl, rfl, rfl⟩

/-- **known finding KF-C01-identperm: `KeyTuple` cannot be dropped.** `[{"id":"5","k":"3"}]` →
    `[{"id":"3","k":"5"}]` under SetKeys(id,k): every member carries both keys, no two members of an
    array share an identity, every hypothesis of the theorem but `KeyTuple` holds — the two members
    have the same identity (the identity combines the SORTED hash codes of the key values) — and
    `a.Patch(a.Diff(b, SetKeys(id,k)))` returns an ERROR, in both variants of the patch code: the
    first hunk changes `id`, the second no longer finds the member. -/
theorem identperm_breaks :
    DPK.Witness.pa.setDoc = true ∧ DPK.Witness.pb.setDoc = true ∧
    DPL.memOK DPK.Witness.pa = true ∧ DPL.memOK DPK.Witness.pb = true ∧
    HashFaithful DPK.Witness.o2 (subterms DPK.Witness.pa ++ subterms DPK.Witness.pb) ∧
    DPK.KeyedDistinct DPK.Witness.o2 (subterms DPK.Witness.pa) ∧
    DES.KindSepI DPK.Witness.o2 (subterms DPK.Witness.pa)
      (subterms DPK.Witness.pa ++ subterms DPK.Witness.pb) ∧
    DES.IdentInj DPK.Witness.o2 (subterms DPK.Witness.pb) ∧
    DPK.PathFaithful DPK.Witness.o2 ["id", "k"] (subterms DPK.Witness.pa) ∧
    ¬ DPK.KeyTuple DPK.Witness.o2 ["id", "k"] (subterms DPK.Witness.pa) (subterms DPK.Witness.pb) ∧
    patchM DPK.Witness.pa (diffM DPK.Witness.o2 DPK.Witness.pa DPK.Witness.pb) = .err ∧
    patchAll false DPK.Witness.pa (diffM DPK.Witness.o2 DPK.Witness.pa DPK.Witness.pb) = .err :=
  DPK.Witness.identperm_breaks

/-- **the SetKeys precondition: `KeyedDistinct` cannot be dropped.**
    `[{"id":"1","v":"1"},{"id":"1","v":"1"}]` → `[{"id":"1","v":"2"}]` under SetKeys(id): one key,
    every member carries it, a duplicated array element (inside the wording of C01); every
    hypothesis of the theorem but `KeyedDistinct` holds; `a.Patch(a.Diff(b, SetKeys(id)))` SUCCEEDS
    with `[{"id":"1","v":"2"},{"id":"1","v":"1"}]` (the keyed lookup patches the first bearer of the
    key value only), which does NOT `Equals` `b`. -/
theorem duplicate_member_breaks :
    DPK.Witness.da.setDoc = true ∧ DPK.Witness.db.setDoc = true ∧
    DPL.memOK DPK.Witness.da = true ∧ DPL.memOK DPK.Witness.db = true ∧
    HashFaithful DPK.Witness.o1 (subterms DPK.Witness.da ++ subterms DPK.Witness.db) ∧
    ¬ DPK.KeyedDistinct DPK.Witness.o1 (subterms DPK.Witness.da) ∧
    DES.KindSepI DPK.Witness.o1 (subterms DPK.Witness.da)
      (subterms DPK.Witness.da ++ subterms DPK.Witness.db) ∧
    DES.IdentInj DPK.Witness.o1 (subterms DPK.Witness.db) ∧
    DPK.PathFaithful DPK.Witness.o1 ["id"] (subterms DPK.Witness.da) ∧
    DPK.KeyTuple DPK.Witness.o1 ["id"] (subterms DPK.Witness.da) (subterms DPK.Witness.db) ∧
    patchM DPK.Witness.da (diffM DPK.Witness.o1 DPK.Witness.da DPK.Witness.db)
      = .ok (.arr .set [DPK.Witness.dy, DPK.Witness.dx]) ∧
    equals DPK.Witness.o1 (.arr .set [DPK.Witness.dy, DPK.Witness.dx]) DPK.Witness.db = false :=
  DPK.Witness.duplicate_member_breaks

/-- **known finding KF-C01-keytwin: `PathFaithful` cannot be dropped.**
    `[{"id":"1"},{"id":"1","k":null}]` → `[{"id":"1","v":"y"},{"id":"1","k":null}]` under
    SetKeys(id,k): the two members have different identities, every hypothesis of the theorem but
    `PathFaithful` holds, no collision is involved. The hunk for the member lacking `k` is addressed
    through `{"id":"1","k":null}` (`Diff` writes null for an absent key) and the first pass of the
    lookup hits the OTHER member: `a.Patch(a.Diff(b, SetKeys(id,k)))` SUCCEEDS with
    `[{"id":"1"},{"id":"1","k":null,"v":"y"}]`, which does NOT `Equals` `b`. (Outside the wording of
    C01, which asks every member to carry all the keys; inside the domain of the theorem.) -/
theorem null_completion_breaks :
    DPK.Witness.na.setDoc = true ∧ DPK.Witness.nb.setDoc = true ∧
    DPL.memOK DPK.Witness.na = true ∧ DPL.memOK DPK.Witness.nb = true ∧
    HashFaithful DPK.Witness.o2 (subterms DPK.Witness.na ++ subterms DPK.Witness.nb) ∧
    DPK.KeyedDistinct DPK.Witness.o2 (subterms DPK.Witness.na) ∧
    DES.KindSepI DPK.Witness.o2 (subterms DPK.Witness.na)
      (subterms DPK.Witness.na ++ subterms DPK.Witness.nb) ∧
    DES.IdentInj DPK.Witness.o2 (subterms DPK.Witness.nb) ∧
    ¬ DPK.PathFaithful DPK.Witness.o2 ["id", "k"] (subterms DPK.Witness.na) ∧
    DPK.KeyTuple DPK.Witness.o2 ["id", "k"] (subterms DPK.Witness.na) (subterms DPK.Witness.nb) ∧
    patchM DPK.Witness.na (diffM DPK.Witness.o2 DPK.Witness.na DPK.Witness.nb)
      = .ok (.arr .set [DPK.Witness.n1, DPK.Witness.n4]) ∧
    equals DPK.Witness.o2 (.arr .set [DPK.Witness.n1, DPK.Witness.n4]) DPK.Witness.nb = false :=
  DPK.Witness.null_completion_breaks

/-- the three witnesses fall outside the hypothesis bundle of the SetKeys theorem — each through the
    one field named above — so none of them contradicts it -/
theorem witnesses_outside_keysHyp :
    ¬ DPK.KeysHyp DPK.Witness.o2 ["id", "k"] DPK.Witness.pa DPK.Witness.pb ∧
    ¬ DPK.KeysHyp DPK.Witness.o1 ["id"] DPK.Witness.da DPK.Witness.db ∧
    ¬ DPK.KeysHyp DPK.Witness.o2 ["id", "k"] DPK.Witness.na DPK.Witness.nb :=
  ⟨fun K => DPK.Witness.identperm_breaks.2.2.2.2.2.2.2.2.2.1 K.kt,
   fun K => DPK.Witness.duplicate_member_breaks.2.2.2.2.2.1 K.kd,
   fun K => DPK.Witness.null_completion_breaks.2.2.2.2.2.2.2.2.1 K.pf⟩

/-! ## Non-vacuity

  `[true, 1, [1], null]` → `[false, 1, [1, 1], null, null]` (three hunks, one inside the nested
  list) satisfies every hypothesis of the list theorems, so the library patches it to a document
  equal to the target.
  `{"s":[true,null,{"k":null}]}` → `{"s":[{"k":null},null,false],"t":null}` (a set hunk below the
  key `s`, an added member, an object member of the set) satisfies every hypothesis of the set-mode
  theorems (`HashFaithful` checked on its 13 sub-terms), under SET and under MULTISET; only the
  IEEE-754 laws are left as assumptions.
  MERGE: `{"a":1,"b":[1,2],"c":{"d":"x","n":null},"z":true}` → `{"a":2,"b":[2,1],"c":{"e":[true]},
  "y":{"k":"v"}}` (the source holds a null; keys deleted, added, replaced, a nested object) satisfies
  every hypothesis of `patchM_diffM_MERGE`; the pair of JdProofs/MergeSetModes.lean those of the
  SET+MERGE and MULTISET+MERGE theorems.
  SetKeys(id,k): `[{"id":"1","k":"a","v":"x"},{"id":"2","k":"a","v":["p"]},"s"]` →
  `[{"id":"2","k":"a","v":["q"],"w":true},{"id":"1","k":"b","v":"x"},"t"]` (a member changed inside a
  nested array, one removed, one added, scalar members) and `[{"id":"1","v":"x"},{"v":"q"}]` →
  `[{"id":"1","v":"z"},{"v":"r"}]` (members lacking set keys, found by the second pass of the keyed
  lookup) satisfy `KeysHyp` (all six fields checked in the kernel). -/

example (F : FloatEq0) (L : FloatLaws) :
    ∃ r, patchM SetDP.Example.exA (diffM [.set] SetDP.Example.exA SetDP.Example.exB) = .ok r ∧
      equivB [.set] r SetDP.Example.exB = true ∧ equals [.set] r SetDP.Example.exB = true :=
  SetDP.Example.ex_set F L

example (F : FloatEq0) (L : FloatLaws) :
    ∃ r, patchM SetDP.Example.exA (diffM [.mset] SetDP.Example.exA SetDP.Example.exB) = .ok r ∧
      equivB [.mset] r SetDP.Example.exB = true ∧ equals [.mset] r SetDP.Example.exB = true :=
  SetDP.Example.ex_mset F L

example : SetDP.Example.exA.setDoc = true ∧ SetDP.Example.exB.setDoc = true ∧
    DPL.memOK SetDP.Example.exA = true ∧ DPL.memOK SetDP.Example.exB = true ∧
    HashFaithful [.set] (subterms SetDP.Example.exA ++ subterms SetDP.Example.exB) ∧
    HashFaithful [.mset] (subterms SetDP.Example.exA ++ subterms SetDP.Example.exB) :=
  ⟨SetDP.Example.ex_docs.1, SetDP.Example.ex_docs.2.1, SetDP.Example.ex_docs.2.2.1,
    SetDP.Example.ex_docs.2.2.2, SetDP.Example.ex_hashFaithful_set,
    SetDP.Example.ex_hashFaithful_mset⟩

example (L : FloatLaws) :
    ∃ r, patchM Example.exA (diffM [] Example.exA Example.exB) = .ok r ∧
      equals [] r Example.exB = true := by
  obtain ⟨h1, h2, h3, h4, h5, h6, h7, h8, h9, h10⟩ := Example.hyps L
  obtain ⟨r, hr, he, _⟩ :=
    diff_then_patch_list L [] rfl rfl rfl Example.exA Example.exB h1 h2 h3 h4 h5 h6 h7 h8 h9 h10
  exact ⟨r, hr, he⟩

example (L : FloatLaws) :
    ∃ r, patchM DPK.ExampleA.exA (diffM [.merge] DPK.ExampleA.exA DPK.ExampleA.exB) = .ok r ∧
      equals [.merge] r DPK.ExampleA.exB = true ∧ equivB [.merge] r DPK.ExampleA.exB = true ∧
      specEq r DPK.ExampleA.exB = true :=
  patchM_diffM_MERGE L _ _ DPK.ExampleA.ex_docs.1 DPK.ExampleA.ex_docs.2.1
    DPK.ExampleA.ex_docs.2.2.1 DPK.ExampleA.ex_docs.2.2.2.1 DPK.ExampleA.ex_docs.2.2.2.2.1
    DPK.ExampleA.ex_docs.2.2.2.2.2.1 DPK.ExampleA.ex_docs.2.2.2.2.2.2

example (F : FloatEq0) (L : FloatLaws) :
    ∃ r, patchM MSet.Example.exA (diffM [.set, .merge] MSet.Example.exA MSet.Example.exB) = .ok r ∧
      equals [.set, .merge] r MSet.Example.exB = true ∧
      equivB [.set, .merge] r MSet.Example.exB = true :=
  patchM_diffM_SET_MERGE F L _ _ MSet.Example.ex_docs.1 MSet.Example.ex_docs.2.1
    MSet.Example.ex_docs.2.2.1 MSet.Example.ex_docs.2.2.2 MSet.Example.ex_hashFaithful_set

example (F : FloatEq0) (L : FloatLaws) :
    ∃ r, patchM MSet.Example.exA (diffM [.mset, .merge] MSet.Example.exA MSet.Example.exB) = .ok r ∧
      equals [.mset, .merge] r MSet.Example.exB = true ∧
      equivB [.mset, .merge] r MSet.Example.exB = true :=
  patchM_diffM_MULTISET_MERGE F L _ _ MSet.Example.ex_docs.1 MSet.Example.ex_docs.2.1
    MSet.Example.ex_docs.2.2.1 MSet.Example.ex_docs.2.2.2 MSet.Example.ex_hashFaithful_mset

example : DPK.KeysHyp [.setKeys ["id", "k"]] ["id", "k"] DPK.ExampleB.exA DPK.ExampleB.exB ∧
    DPK.KeysHyp [.setKeys ["id", "k"]] ["id", "k"] DPK.ExampleB.exC DPK.ExampleB.exD :=
  ⟨DPK.ExampleB.ex_keysHyp, DPK.ExampleB.ex3_keysHyp⟩

example (F : FloatEq0) (L : FloatLaws) :
    ∃ r, patchM DPK.ExampleB.exA (diffM [.setKeys ["id", "k"]] DPK.ExampleB.exA DPK.ExampleB.exB)
        = .ok r ∧
      equals [.setKeys ["id", "k"]] r DPK.ExampleB.exB = true ∧
      equivB [.setKeys ["id", "k"]] r DPK.ExampleB.exB = true :=
  DPK.ExampleB.ex_run F L

/-- members lacking set keys -/
example (F : FloatEq0) (L : FloatLaws) :
    ∃ r, patchM DPK.ExampleB.exC (diffM [.setKeys ["id", "k"]] DPK.ExampleB.exC DPK.ExampleB.exD)
        = .ok r ∧
      equals [.setKeys ["id", "k"]] r DPK.ExampleB.exD = true ∧
      equivB [.setKeys ["id", "k"]] r DPK.ExampleB.exD = true :=
  DPK.ExampleB.ex3_run F L

/-! ### "the diff value exactly as the library returns it": stored paths are copies

   The functional model treats a hunk's path as a value. The Go code passes path SLICES down the
   recursion (`append(path, PathKey(k))`, writing into the shared backing array when it has spare
   capacity) and stores them in the hunks it returns. `Gen.pathSites` (regenerated from the Go source on
   every run, tools/pathfacts) lists the expression at every such site of v2/; the discipline checked
   here — stored paths are copies, only safe expressions are evaluated — is the hypothesis `Act.okL` of
   the refinement theorem `PathHeap.run_faithful` (Go slice semantics = functional model). -/

/-- v2: every path stored in a hunk by the diff-building code is a copy; every path expression is safe -/
theorem v2_stored_paths_are_copies :
    (Gen.pathSites.filter (fun s => Jd.PathSites.isV2 s && !Jd.PathSites.isWrite s)).all Jd.PathSites.ok = true :=
  Jd.PathSites.v2_diff_paths_ok

/-! ## MERGE strategy together with a Precision option (list reading; `jd -f merge -precision eps`)

   In MERGE mode arrays are compared WITH the precision (an array within eps of its counterpart is
   kept), scalars WITHOUT it (a number within eps is still replaced: KF-C05-precision), so the patched
   document is `Equals` to `b` under the options but not structurally equal to it. The proof needs no
   transitivity of "within eps". `nonnegBits eps` (the sign bit is clear and eps is not NaN/Inf) is
   needed: with a negative precision no number Equals itself (`MP.Witness.negative_precision_breaks`;
   the CLI accepts `-precision=-1`). -/

/-- **C01, MERGE with any non-negative Precision, list reading, in memory** (either variant `sw`) -/
theorem merge_diff_then_patch_list_precision (L : FloatLaws) (sw : Bool) (o : Opts)
    (hm : isMerge o = true) (ho : dispatchTag o = .list)
    (hp : Jd.Spec.nonnegBits (precOf o) = true) (M : Jd.DPL.PrecMono o) (a b : Json)
    (haw : a.wf = true) (har : a.rawDoc = true)
    (hbw : b.wf = true) (hbr : b.rawDoc = true) (hbn : b.nullFree = true)
    (hbv : Jd.Merge.objVoidFree b = true) (hbf : b.finiteNums = true) :
    ∃ r, patchAll sw a (diffM o a b) = .ok r ∧ equals o r b = true ∧ equivB o r b = true :=
  Jd.MP.merge_diff_then_patch_list_precision L sw o hm ho hp M a b haw har hbw hbr hbn hbv hbf

/-- the same without `b.nullFree`: applied in memory a merge hunk carrying `null` stores `null` (only void
    deletes), so C01 in memory does not need null-free documents (new also for eps = 0) -/
theorem merge_diff_then_patch_list_precision_nulls (L : FloatLaws) (sw : Bool) (o : Opts)
    (hm : isMerge o = true) (ho : dispatchTag o = .list)
    (hp : Jd.Spec.nonnegBits (precOf o) = true) (M : Jd.DPL.PrecMono o) (a b : Json)
    (haw : a.wf = true) (har : a.rawDoc = true) (hbw : b.wf = true) (hbr : b.rawDoc = true)
    (hbv : Jd.Merge.objVoidFree b = true) (hbf : b.finiteNums = true) :
    ∃ r, patchAll sw a (diffM o a b) = .ok r ∧ equals o r b = true ∧ equivB o r b = true :=
  Jd.MP.merge_diff_then_patch_list_precision_nulls L sw o hm ho hp M a b haw har hbw hbr hbv hbf

/-- the headline for `a.Patch(a.Diff(b, MERGE, Precision(eps)))` — the option list `jd -f merge -precision eps` builds -/
theorem patchM_diffM_MERGE_precision (L : FloatLaws) (eps : UInt64)
    (hp : Jd.Spec.nonnegBits eps = true) (M : Jd.DPL.PrecMono [.merge, .prec eps]) (a b : Json)
    (haw : a.wf = true) (har : a.rawDoc = true) (hbw : b.wf = true) (hbr : b.rawDoc = true)
    (hbn : b.nullFree = true) (hbv : Jd.Merge.objVoidFree b = true) (hbf : b.finiteNums = true) :
    ∃ r, patchM a (diffM [.merge, .prec eps] a b) = .ok r ∧
      equals [.merge, .prec eps] r b = true ∧ equivB [.merge, .prec eps] r b = true :=
  Jd.MP.patchM_diffM_MERGE_precision L eps hp M a b haw har hbw hbr hbn hbv hbf

/-! ## SetKeys together with MERGE (`jd -setkeys k -f merge`) — proofs in JdProofs/KeysMerge.lean, KeysMergeB.lean (ns `Jd.KM`)

   Under MERGE two arrays that are not `Equals` are replaced wholesale; arrays that ARE `Equals` still go
   through the keyed set diff, which sub-diffs the last bearers of each identity in merge mode BELOW a
   keyed path element — and a merge hunk through a set element can never be applied or rendered
   (`KM.patchNode_merge_bad`). The decidable `KM.clash o a b` is exactly that class: C01 holds IFF there is no
   clash; with a clash `Patch` and `RenderMerge` return an error. A clash needs two object members with the
   same identity and different content in one array of `a` and of `b` — outside the SetKeys precondition
   (`KM.merge_diff_then_patch_setkeys_distinct`), or the known finding KF-C01-identperm
   (`KM.Witness.identperm_merge_breaks`); both witnesses replay on the Go library. -/

/-- **C01, SetKeys + MERGE, in memory**: holds exactly when there is no clash -/
theorem merge_diff_then_patch_setkeys_iff (F : FloatEq0) (L : FloatLaws) (sw : Bool) (o : Opts)
    (hmg : isMerge o = true) (hd : dispatchTag o = .set) (hp : precOf o = 0) (a b : Json)
    (ha : a.setDoc = true) (hb : b.setDoc = true)
    (HF : HashFaithful o (subterms a ++ subterms b))
    (hbn : b.nullFree = true) (hbv : Jd.Merge.objVoidFree b = true) :
    (∃ r, patchAll sw a (diffM o a b) = .ok r ∧ equals o r b = true ∧ equivB o r b = true)
      ↔ Jd.KM.clash o a b = false :=
  Jd.KM.merge_diff_then_patch_setkeys_iff F o hmg hd hp a b ha hb HF L sw hbn hbv

/-- the sufficient form: identities determine hash codes within each array of `b` (implied by the SetKeys
    precondition on `b`, `KM.identInj_of_keyedDistinct`); `keysOf o` is arbitrary, so this also covers the option
    list the CLI builds for `-set -setkeys k -f merge` -/
theorem merge_diff_then_patch_setkeys (F : FloatEq0) (L : FloatLaws) (sw : Bool) (o : Opts)
    (hmg : isMerge o = true) (hd : dispatchTag o = .set) (hp : precOf o = 0) (a b : Json)
    (ha : a.setDoc = true) (hb : b.setDoc = true) (hbn : b.nullFree = true)
    (hbv : Jd.Merge.objVoidFree b = true) (HF : HashFaithful o (subterms a ++ subterms b))
    (IB : Jd.DES.IdentInj o (subterms b)) :
    ∃ r, patchAll sw a (diffM o a b) = .ok r ∧ equals o r b = true ∧ equivB o r b = true :=
  Jd.KM.merge_diff_then_patch_setkeys F L sw o hmg hd hp a b ha hb hbn hbv HF IB

/-- with a clash the library's own diff cannot be applied -/
theorem setkeys_merge_clash_is_rejected (F : FloatEq0) (o : Opts)
    (hmg : isMerge o = true) (hd : dispatchTag o = .set) (hp : precOf o = 0) (a b : Json)
    (ha : a.setDoc = true) (hb : b.setDoc = true)
    (HF : HashFaithful o (subterms a ++ subterms b)) (sw : Bool) (hc : Jd.KM.clash o a b = true) :
    patchAll sw a (diffM o a b) = .err :=
  Jd.KM.patch_err_of_clash F o hmg hd hp a b ha hb HF sw hc

end Jd.Props.C01
