/-
  Property C02 — the native jd diff text is a lossless carrier of a diff.
  Statement file (proofs in JdProofs/NativeRoundTrip.lean, namespace `Jd.NativeRT`: the TEXT clauses;
  JdProofs/Robust.lean, namespace `Jd.Robust`, group 2: the EFFECT clause).

  Model side: `renderM nc opts d` is `Diff.Render(opts...)`, `readDiffM nc text` is
  `ReadDiffString(text)` (JdModel/Native.lean); the reader is the 7-state automaton with the
  transition / flush / open / close tables GENERATED from the Go source (JdModel/Gen/Reader.lean), so
  a change to the automaton changes the premises of these theorems.
  `nc : NumCodec` stands for strconv / encoding/json on number tokens (external code).

  Spec side: `normDiff d` is what reading back may at most change in a diff: payload values and the
  key objects of `{"k":v}` path elements lose the Go dynamic type of array nodes (`untag`), the path
  element `setKeys []` becomes `set` (both are written `{}`), and entries that render as nothing
  (void in `remove`, void in the `add` of a strict hunk) are dropped.

  Hypotheses and why:
    `wfDiff d`     every hunk is in the domain the reader accepts (`wfHunk`: path indices survive
                   float64; `[` only as the first context line; at least one `-` / `+` line;
                   `checkDiffElement` holds on what is rendered) and no strict hunk follows a merge
                   hunk. This covers every hunk shape the library emits: boundary markers, context
                   lines, multi-value set hunks, merge metadata lines, void additions.
    `CodecOK nc d` the contract on encoding/json for the payloads and paths OF THIS DIFF: the JSON
                   text of a value has no newline and is read back as that value (up to `untag`).
                   encoding/json is not modelled; the contract is satisfiable (`exDiff_codecOK`) and
                   is checked on the real library by the correspondence stream.
    `d.all listDocHunk` (identical re-rendering only) no set / multiset TYPED array node in payloads
                   and key objects: their text is sorted by hash, which `untag` does not preserve.
    `NoEsc nc d`   (colour only) no rendered payload / path text contains ESC (control characters
                   are escaped by encoding/json).

  THE EFFECT CLAUSE ("... and has the identical effect on every document")
  `patchM c d` is `c.Patch(d)`, `patchAll sw c d` the same with either variant `sw` of the patch code
  (`sw = true` is the library). Reading back gives `normDiff d` (`read_of_render`), so the clause is:
  `normDiff d` has the effect of `d`. It is TRUE on the following domain and FALSE outside it.
   (E1) TAG-FREE hunks — `read_back_same_effect`, `normalised_same_effect`: EXACT equality of the
        outcome (result or error) on EVERY document `c` (any array types in `c`), any mix of strict
        and merge hunks, every path kind. Per hunk:
          `rawHunk h`    payload values and the key objects of `{"k":v}` path elements carry no Go
                         array type (`rawDoc`): what every text reader produces, and what `Diff`
                         produces on documents read from text except for a removed / added array,
                         which it reports as a `jsonList` (→ E2);
          `setKeysOK h`  a STRICT hunk has no path element `.setKeys []`: it is written `{}` and read
                         back as the plain set element `.set` (`noEmptySetKeys d` says it of every
                         hunk; the merge strategy does not look at it);
          `voidOK h`     the void entries that the renderer drops are alone in their list
                         (`voidAlone`: `[void]`, never `[void, v]`), and in a STRICT hunk either
                         there is none, or the path is a `valuePath` (no set / multiset element, the
                         last element not a list index): exactly where `remove` / `add` are used
                         through `len > 1` and `singleValue` only, so `[void]` acts like `[]`.
        When a hunk has no void entry to drop at all, reading back gives the very same hunk
        (`normalised_is_identity`).
   (E2) payloads WITH `jsonList` tags, LIST-mode documents — `read_back_same_effect_list`,
        `normalised_same_effect_list`: on every `c` with `c.listDoc` the outcomes are equal up to the
        array types of the result (`Outcome.mapO untag`). Per hunk `listHunkOK h`: `voidOK h`, and a
        strict hunk is on a key / index path (`strictPath`) with list-document payloads
        (`hunkListDoc`); nothing more is asked of a merge hunk. Strict hunks first, merge hunks after
        (`mergeMono`, part of `wfDiff`). Strict key / index hunks with list-document payloads is the
        shape of the diffs the library produces in list mode (`Jd.Props.C01.diffM_list_hunks_strict`);
        that they also satisfy `voidOK` is not a theorem.
   (E3) MERGE hunks only, any tags, any path — `normalised_same_effect_merge`: EVERY document, up
        to the array types of the result; the only hypothesis is `voidOK` (= a void entry of `remove`
        is alone in its list).
  OUTSIDE the domain the effect CAN differ; every witness below is inside `wfDiff` (the domain of the
  text clauses), so the hypotheses are not artefacts of the proof:
    `noEmptySetKeys_needed` / `emptySetKeys_witness`  `{}` as keyed element: error before, `[null]` after;
    `voidOK_needed`           a set hunk looks the void `remove` entry up in the set: error / success;
    `void_append_witness`     index `-1` (append) refuses any `remove` entry, the void one included;
    `void_pair_witness`, `void_pair_merge_witness`   `[void, v]`: `len > 1` counts the void entry;
    `void_add_in_list_witness`  a strict list hunk stores a void `add` entry in the array;
    `set_tag_witness`         a `jsonSet`-typed `remove` value (not `rawHunk`, not `hunkListDoc`):
                              error before, success after.
  NOT PROVED: strict hunks whose payload carries set / multiset TYPED array nodes, and tagged
  payloads of strict hunks on set / multiset paths (false in general, `set_tag_witness`); these are
  not producible from text and are covered by the oracle (same effect on `a` and `b`) only.
-/
import JdProofs.NativeRoundTrip
import JdProofs.Robust

namespace Jd.Props.C02
open Jd Jd.Spec Jd.NativeRT Jd.Robust

/-- reading the rendered text of a well-formed diff succeeds and gives the diff itself (normalised) -/
theorem read_of_render (nc : NumCodec) (d : Diff) (text : String)
    (hw : wfDiff d = true) (hc : CodecOK nc d) (hr : renderM nc [] d = some text) :
    readDiffM nc text = .ok (normDiff d) :=
  read_render nc d text hw hc hr

/-- the normalised diff renders to the identical text -/
theorem render_of_normalised (nc : NumCodec) (d : Diff) (hd : d.all listDocHunk = true) :
    renderM nc [] (normDiff d) = renderM nc [] d :=
  render_norm nc d hd

/-- render, read back, render again: the identical text -/
theorem render_read_render_identical (nc : NumCodec) (d : Diff) (text : String)
    (hw : wfDiff d = true) (hd : d.all listDocHunk = true) (hc : CodecOK nc d)
    (hr : renderM nc [] d = some text) :
    ∃ d', readDiffM nc text = .ok d' ∧ renderM nc [] d' = some text :=
  render_read_render nc d text hw hd hc hr

/-- rendering with colour adds ANSI escape sequences and nothing else -/
theorem color_is_plain_plus_ansi (nc : NumCodec) (d : Diff) (hn : NoEsc nc d) :
    (renderM nc [.color] d).map (fun s => String.ofList (stripAnsi s.toList)) = renderM nc [] d :=
  renderM_color_strip nc d hn

/-- the same for one hunk -/
theorem color_is_plain_plus_ansi_hunk (nc : NumCodec) (h : Hunk) (hn : NoEsc nc [h]) :
    (renderHunk nc [.color] h).map (fun s => String.ofList (stripAnsi s.toList))
      = renderHunk nc [] h :=
  renderHunk_color_strip nc h hn

/-- path indices below 2^53 in absolute value survive the `float64` round trip (so `idxOK`, part of
    `wfHunk`, holds for every index a real document can have) -/
theorem index_survives_float64 (i : Int) (h : i.natAbs < 2 ^ 53) :
    floatTrunc (intToFloatBits i) = i :=
  NativeRT.floatTrunc_intToFloatBits i h

/-! Non-vacuity: a list hunk with boundary marker, context, two removed values and a void addition,
    followed by a merge hunk that deletes (`exDiff`), with a concrete codec: every hypothesis holds. -/

example : wfDiff exDiff = true ∧ exDiff.all listDocHunk = true ∧ CodecOK exCodec exDiff :=
  ⟨by decide, by decide, exDiff_codecOK⟩

example (text : String) (h : renderM exCodec [] exDiff = some text) :
    readDiffM exCodec text = .ok (normDiff exDiff) :=
  read_of_render exCodec exDiff text (by decide) exDiff_codecOK h

/-! ## The effect clause: the diff read back has the identical effect on every document -/

/-- **(E1) on the text.** Tag-free hunks, no `{}`-keyed element in a strict hunk, void entries
    harmless: the rendered diff is read back as a diff with EXACTLY the same outcome on EVERY
    document -/
theorem read_back_same_effect (nc : NumCodec) (d : Diff) (text : String)
    (hw : wfDiff d = true) (hc : CodecOK nc d) (hr : renderM nc [] d = some text)
    (hd : d.all (fun h => rawHunk h && setKeysOK h && voidOK h) = true) :
    ∃ d', readDiffM nc text = .ok d' ∧ ∀ c : Json, patchM c d' = patchM c d :=
  read_render_same_effect nc d text hw hc hr hd

/-- **(E1) in memory**, stated with `noEmptySetKeys d` (no `.setKeys []` path element anywhere):
    the normalised diff has exactly the effect of the diff, on every document, for either variant
    of the patch code -/
theorem normalised_same_effect (sw : Bool) (d : Diff)
    (h1 : d.all rawHunk = true) (h2 : noEmptySetKeys d = true) (h3 : d.all voidOK = true) (c : Json) :
    patchAll sw c (normDiff d) = patchAll sw c d :=
  patchAll_normDiff_of_noEmptySetKeys sw d h1 h2 h3 c

/-- with no void entry to drop (`Robust.noVoid l`: no entry of `l` is void), reading back gives the
    very same hunk -/
theorem normalised_is_identity (h : Hunk) (hraw : rawHunk h = true)
    (hk : noEmptySetKeysP h.path = true) (h1 : Robust.noVoid h.remove = true)
    (h2 : (h.merge || Robust.noVoid h.add) = true) : normHunk h = h :=
  normHunk_eq_self h hraw hk h1 h2

/-- **(E2) on the text.** Payloads may carry `jsonList` tags (what `Diff` reports for a removed /
    added array); strict key / index hunks followed by merge hunks: the diff read back has the same
    effect on every LIST-mode document, up to the array types of the result -/
theorem read_back_same_effect_list (nc : NumCodec) (d : Diff) (text : String)
    (hw : wfDiff d = true) (hc : CodecOK nc d) (hr : renderM nc [] d = some text)
    (hd : d.all listHunkOK = true) :
    ∃ d', readDiffM nc text = .ok d' ∧
      ∀ c : Json, c.listDoc = true →
        Outcome.mapO untag (patchM c d') = Outcome.mapO untag (patchM c d) :=
  read_render_same_effect_list nc d text hw hc hr hd

/-- **(E2) in memory** -/
theorem normalised_same_effect_list (sw : Bool) (d : Diff) (hmono : mergeMono false d = true)
    (hd : d.all listHunkOK = true) (c : Json) (hc : c.listDoc = true) :
    Outcome.mapO untag (patchAll sw c (normDiff d)) = Outcome.mapO untag (patchAll sw c d) :=
  patchAll_normDiff_listMixed_gen sw d hmono hd c c rfl hc hc

/-- **(E3)** a diff of MERGE hunks, any tags, any path kinds (`{}`-keyed elements included): same
    effect on EVERY document up to the array types of the result -/
theorem normalised_same_effect_merge (sw : Bool) (c : Json) (d : Diff)
    (hd : d.all (fun h => h.merge && voidOK h) = true) :
    Outcome.mapO untag (patchAll sw c (normDiff d)) = Outcome.mapO untag (patchAll sw c d) :=
  patchAll_normDiff_merge sw c d hd

/-! ### Outside the domain the effect can differ (all witnesses are well-formed for the reader) -/

/-- `noEmptySetKeys` cannot be dropped: a well-formed, tag-free diff with harmless void entries
    whose normal form has a different outcome on some document -/
theorem noEmptySetKeys_needed (sw : Bool) :
    ∃ (d : Diff) (c : Json), wfDiff d = true ∧ d.all rawHunk = true ∧ d.all voidOK = true ∧
      patchAll sw c (normDiff d) ≠ patchAll sw c d :=
  Robust.noEmptySetKeys_needed sw

/-- `voidOK` cannot be dropped either -/
theorem voidOK_needed (sw : Bool) :
    ∃ (d : Diff) (c : Json), wfDiff d = true ∧ d.all rawHunk = true ∧ noEmptySetKeys d = true ∧
      patchAll sw c (normDiff d) ≠ patchAll sw c d :=
  Robust.voidOK_needed sw

/-- the witness behind `noEmptySetKeys_needed`, `ceKeys` = `@ [{},"x"]` / `+ null`: on `[]` the hunk
    itself is an error (no member with the empty key object), the hunk read back (`{}` = set
    element) succeeds -/
theorem emptySetKeys_witness (sw : Bool) :
    wfHunk ceKeys = true ∧ rawHunk ceKeys = true ∧ voidOK ceKeys = true ∧
    noEmptySetKeysP ceKeys.path = false ∧
    patchNode sw false (.arr .raw []) ceKeys.path ceKeys.before ceKeys.remove ceKeys.add ceKeys.after
      = .err ∧
    patchNode sw false (.arr .raw []) (normHunk ceKeys).path (normHunk ceKeys).before
      (normHunk ceKeys).remove (normHunk ceKeys).add (normHunk ceKeys).after
      = .ok (.arr .set [.null]) :=
  ceKeys_facts sw

/-- `ceAppend` = path `[-1]`, `remove = [void]`, `add = [null]`: the void entry is alone but the path
    ends in a list index (not a `valuePath`); an append refuses any `remove` entry -/
theorem void_append_witness (sw : Bool) :
    wfHunk ceAppend = true ∧ rawHunk ceAppend = true ∧ voidAlone ceAppend.remove = true ∧
    patchNode sw false (.arr .raw []) ceAppend.path ceAppend.before ceAppend.remove ceAppend.add
      ceAppend.after = .err ∧
    patchNode sw false (.arr .raw []) (normHunk ceAppend).path (normHunk ceAppend).before
      (normHunk ceAppend).remove (normHunk ceAppend).add (normHunk ceAppend).after
      = .ok (.arr .list [.null]) :=
  ceAppend_facts sw

/-- `ceLen` = root path, `remove = [void, {}]`: a value path, but the void entry is not alone;
    `len(remove) > 1` counts it -/
theorem void_pair_witness (sw : Bool) :
    wfHunk ceLen = true ∧ rawHunk ceLen = true ∧ valuePath ceLen.path = true ∧
    voidAlone ceLen.remove = false ∧
    patchNode sw false (.obj []) ceLen.path ceLen.before ceLen.remove ceLen.add ceLen.after = .err ∧
    patchNode sw false (.obj []) (normHunk ceLen).path (normHunk ceLen).before
      (normHunk ceLen).remove (normHunk ceLen).add (normHunk ceLen).after = .ok .void :=
  ceLen_facts sw

/-- the same in the MERGE strategy: `ceLenMerge` = merge hunk at the root, `remove = [void, null]` -/
theorem void_pair_merge_witness (sw : Bool) :
    wfHunk ceLenMerge = true ∧ rawHunk ceLenMerge = true ∧ voidOK ceLenMerge = false ∧
    patchNode sw true (.obj []) ceLenMerge.path ceLenMerge.before ceLenMerge.remove ceLenMerge.add
      ceLenMerge.after = .err ∧
    patchNode sw true (.obj []) (normHunk ceLenMerge).path (normHunk ceLenMerge).before
      (normHunk ceLenMerge).remove (normHunk ceLenMerge).add (normHunk ceLenMerge).after
      = .ok .null :=
  ceLenMerge_facts sw

/-- `ceAddVoid` = path `[0]`, `add = [void, null]`: the strict list patch stores the void entry in
    the array, the hunk read back does not -/
theorem void_add_in_list_witness (sw : Bool) :
    wfHunk ceAddVoid = true ∧ rawHunk ceAddVoid = true ∧
    patchNode sw false (.arr .raw []) ceAddVoid.path ceAddVoid.before ceAddVoid.remove ceAddVoid.add
      ceAddVoid.after = .ok (.arr .list [.void, .null]) ∧
    patchNode sw false (.arr .raw []) (normHunk ceAddVoid).path (normHunk ceAddVoid).before
      (normHunk ceAddVoid).remove (normHunk ceAddVoid).add (normHunk ceAddVoid).after
      = .ok (.arr .list [.null]) :=
  ceAddVoid_facts sw

/-- `ceSetVoid` = path `[{}]` (set element), `remove = [void]`, `add = [null]` (the witness behind
    `voidOK_needed`): a set hunk looks the void entry up in the set -/
theorem void_in_set_hunk_witness (sw : Bool) :
    wfHunk ceSetVoid = true ∧ rawHunk ceSetVoid = true ∧ voidAlone ceSetVoid.remove = true ∧
    patchNode sw false (.arr .raw []) ceSetVoid.path ceSetVoid.before ceSetVoid.remove ceSetVoid.add
      ceSetVoid.after = .err ∧
    patchNode sw false (.arr .raw []) (normHunk ceSetVoid).path (normHunk ceSetVoid).before
      (normHunk ceSetVoid).remove (normHunk ceSetVoid).add (normHunk ceSetVoid).after
      = .ok (.arr .set [.null]) :=
  ceSetVoid_facts sw

/-- `ceTag` = root path, `remove = [a jsonSet-typed empty array]`: the Go types of payload values
    matter to the strict strategy outside list mode — a `jsonSet` never `Equals` the `jsonArray` it
    is compared with under no options; the hunk read back (plain array) applies -/
theorem set_tag_witness (sw : Bool) :
    wfHunk ceTag = true ∧ voidOK ceTag = true ∧ hunkListDoc ceTag = false ∧
    patchNode sw false (.arr .raw []) ceTag.path ceTag.before ceTag.remove ceTag.add ceTag.after
      = .err ∧
    patchNode sw false (.arr .raw []) (normHunk ceTag).path (normHunk ceTag).before
      (normHunk ceTag).remove (normHunk ceTag).add (normHunk ceTag).after = .ok .void :=
  ceTag_facts sw

/-! Non-vacuity of the effect clause.
    On the text: the merge hunk of `exDiff` (`exDiff.drop 1`, `@ ["b"]` / `+` void = delete the member)
    with the concrete codec satisfies every hypothesis of `read_back_same_effect` and of
    `read_back_same_effect_list`. (The FIRST hunk of `exDiff` is outside the effect domain on purpose:
    its `add` is `[void, true]` on a list index, the shape of `void_add_in_list_witness`.)
    In memory: `exEffect`, a strict list hunk with context, a set hunk with two removed values, a
    keyed-member hunk, a root replacement with a void `remove` entry and a merge hunk, satisfies the
    hypotheses of `normalised_same_effect`. -/

example : wfDiff (exDiff.drop 1) = true ∧ CodecOK exCodec (exDiff.drop 1) ∧
    (exDiff.drop 1).all (fun h => rawHunk h && setKeysOK h && voidOK h) = true ∧
    (exDiff.drop 1).all listHunkOK = true :=
  ⟨by decide, fun h hh => exDiff_codecOK h (List.mem_of_mem_drop hh), by decide, by decide⟩

example (text : String) (hr : renderM exCodec [] (exDiff.drop 1) = some text) :
    ∃ d', readDiffM exCodec text = .ok d' ∧ ∀ c : Json, patchM c d' = patchM c (exDiff.drop 1) :=
  read_back_same_effect exCodec _ text (by decide)
    (fun h hh => exDiff_codecOK h (List.mem_of_mem_drop hh)) hr (by decide)

/-- a diff with every hunk shape of the domain (E1) -/
def exEffect : Diff :=
  [ { path := [.key "a", .idx 1], before := [.void], remove := [.str "x"], add := [.bool true, .null],
      after := [.arr .raw [.null]] },
    { path := [.key "s", .set], remove := [.str "p", .str "q"], add := [.obj [("k", .null)]] },
    { path := [.setKeys [("id", .str "u")], .key "v"], remove := [.null], add := [.bool false] },
    { path := [.key "r"], remove := [.void], add := [.str "new"] },
    { merge := true, path := [.key "b"], add := [.void] } ]

example : wfDiff exEffect = true ∧ exEffect.all rawHunk = true ∧ noEmptySetKeys exEffect = true ∧
    exEffect.all voidOK = true := ⟨by decide, by decide, by decide, by decide⟩

example (sw : Bool) (c : Json) : patchAll sw c (normDiff exEffect) = patchAll sw c exEffect :=
  normalised_same_effect sw exEffect (by decide) (by decide) (by decide) c

end Jd.Props.C02
