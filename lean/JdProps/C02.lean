/-
  Property C02 — the native jd diff text is a lossless carrier of a diff.
  Statement file (proofs in JdProofs/NativeRoundTrip.lean, namespace `Jd.NativeRT`).

  Model side: `renderM nc opts d` is `Diff.Render(opts...)`, `readDiffM nc text` is
  `ReadDiffString(text)` (JdModel/Native.lean); the reader is the 7-state automaton with the
  transition / flush / open / close tables GENERATED from the Go source (JdModel/Gen/Reader.lean), so
  a change to the automaton changes the premises of these theorems.
  `nc : NumCodec` stands for strconv / encoding/json on number tokens (external code).

  Spec side: `normDiff d` is what reading back may at most change in a diff: payload values and the
  key objects of `{"k":v}` path elements lose the Go dynamic type of array nodes (`untag`), the path
  element `setKeys []` becomes `set` (both are written `{}`), and entries that render as nothing
  (void in `remove`, void in the `add` of a strict hunk) are dropped.

  Hypotheses and why:
    `wfDiff d`     every hunk is in the domain the reader accepts (`wfHunk`: path indices survive
                   float64; `[` only as the first context line; at least one `-` / `+` line;
                   `checkDiffElement` holds on what is rendered) and no strict hunk follows a merge
                   hunk. This covers every hunk shape the library emits: boundary markers, context
                   lines, multi-value set hunks, merge metadata lines, void additions.
    `CodecOK nc d` the contract on encoding/json for the payloads and paths OF THIS DIFF: the JSON
                   text of a value has no newline and is read back as that value (up to `untag`).
                   encoding/json is not modelled; the contract is satisfiable (`exDiff_codecOK`) and
                   is checked on the real library by the correspondence stream.
    `d.all listDocHunk` (identical re-rendering only) no set / multiset TYPED array node in payloads
                   and key objects: their text is sorted by hash, which `untag` does not preserve.
    `NoEsc nc d`   (colour only) no rendered payload / path text contains ESC (control characters
                   are escaped by encoding/json).

  What is NOT stated: "identical effect on every document" is the effect of `normDiff d` against
  `d`; for strict list-mode hunks it follows from C03 (`Patch` = reference interpreter up to
  `untag`), in general it is covered by the oracle (same effect on `a` and `b`) only.
-/
import JdProofs.NativeRoundTrip

namespace Jd.Props.C02
open Jd Jd.Spec Jd.NativeRT

/-- reading the rendered text of a well-formed diff succeeds and gives the diff itself (normalised) -/
theorem read_of_render (nc : NumCodec) (d : Diff) (text : String)
    (hw : wfDiff d = true) (hc : CodecOK nc d) (hr : renderM nc [] d = some text) :
    readDiffM nc text = .ok (normDiff d) :=
  read_render nc d text hw hc hr

/-- the normalised diff renders to the identical text -/
theorem render_of_normalised (nc : NumCodec) (d : Diff) (hd : d.all listDocHunk = true) :
    renderM nc [] (normDiff d) = renderM nc [] d :=
  render_norm nc d hd

/-- render, read back, render again: the identical text -/
theorem render_read_render_identical (nc : NumCodec) (d : Diff) (text : String)
    (hw : wfDiff d = true) (hd : d.all listDocHunk = true) (hc : CodecOK nc d)
    (hr : renderM nc [] d = some text) :
    ∃ d', readDiffM nc text = .ok d' ∧ renderM nc [] d' = some text :=
  render_read_render nc d text hw hd hc hr

/-- rendering with colour adds ANSI escape sequences and nothing else -/
theorem color_is_plain_plus_ansi (nc : NumCodec) (d : Diff) (hn : NoEsc nc d) :
    (renderM nc [.color] d).map (fun s => String.ofList (stripAnsi s.toList)) = renderM nc [] d :=
  renderM_color_strip nc d hn

/-- the same for one hunk -/
theorem color_is_plain_plus_ansi_hunk (nc : NumCodec) (h : Hunk) (hn : NoEsc nc [h]) :
    (renderHunk nc [.color] h).map (fun s => String.ofList (stripAnsi s.toList))
      = renderHunk nc [] h :=
  renderHunk_color_strip nc h hn

/-- path indices below 2^53 in absolute value survive the `float64` round trip (so `idxOK`, part of
    `wfHunk`, holds for every index a real document can have) -/
theorem index_survives_float64 (i : Int) (h : i.natAbs < 2 ^ 53) :
    floatTrunc (intToFloatBits i) = i :=
  floatTrunc_intToFloatBits i h

/-! Non-vacuity: a list hunk with boundary marker, context, two removed values and a void addition,
    followed by a merge hunk that deletes (`exDiff`), with a concrete codec: every hypothesis holds. -/

example : wfDiff exDiff = true ∧ exDiff.all listDocHunk = true ∧ CodecOK exCodec exDiff :=
  ⟨by decide, by decide, exDiff_codecOK⟩

example (text : String) (h : renderM exCodec [] exDiff = some text) :
    readDiffM exCodec text = .ok (normDiff exDiff) :=
  read_of_render exCodec exDiff text (by decide) exDiff_codecOK h

end Jd.Props.C02
