/-
  Property C02 — the native jd diff text is a lossless carrier of a diff.
  Statement file (proofs in JdProofs/NativeRoundTrip.lean, namespace `Jd.NativeRT`: the TEXT clauses;
  JdProofs/Robust.lean, namespace `Jd.Robust`, group 2: the EFFECT clause;
  JdProofs/NativeEndToEnd.lean, namespace `Jd.E2E`: the diffs PRODUCED by `Diff`, END TO END, list
  reading and strict strategy; JdProofs/NativeEndToEndSet.lean, namespace `Jd.E2ES`: the same END TO END
  for the SET / MULTISET readings, the MERGE strategy, and MERGE with SET / MULTISET).

  Model side: `renderM nc opts d` is `Diff.Render(opts...)`, `readDiffM nc text` is
  `ReadDiffString(text)` (JdModel/Native.lean); the reader is the 7-state automaton with the
  transition / flush / open / close tables GENERATED from the Go source (JdModel/Gen/Reader.lean), so
  a change to the automaton changes the premises of these theorems.
  `nc : NumCodec` stands for strconv / encoding/json on number tokens (external code).

  Spec side: `normDiff d` is what reading back may at most change in a diff: payload values and the
  key objects of `{"k":v}` path elements lose the Go dynamic type of array nodes (`untag`), the path
  element `setKeys []` becomes `set` (both are written `{}`), and entries that render as nothing
  (void in `remove`, void in the `add` of a strict hunk) are dropped.

  Hypotheses and why:
    `wfDiff d`     every hunk is in the domain the reader accepts (`wfHunk`: path indices survive
                   float64; `[` only as the first context line; at least one `-` / `+` line;
                   `checkDiffElement` holds on what is rendered) and no strict hunk follows a merge
                   hunk. This covers every hunk shape the library emits: boundary markers, context
                   lines, multi-value set hunks, merge metadata lines, void additions.
    `CodecOK nc d` the contract on encoding/json for the payloads and paths OF THIS DIFF: the JSON
                   text of a value has no newline and is read back as that value (up to `untag`).
                   encoding/json is not modelled; the contract is satisfiable (`exDiff_codecOK`) and
                   is checked on the real library by the correspondence stream.
    `d.all listDocHunk` (identical re-rendering only) no set / multiset TYPED array node in payloads
                   and key objects: their text is sorted by hash, which `untag` does not preserve.
    `NoEsc nc d`   (colour only) no rendered payload / path text contains ESC (control characters
                   are escaped by encoding/json).

  THE EFFECT CLAUSE ("... and has the identical effect on every document")
  `patchM c d` is `c.Patch(d)`, `patchAll sw c d` the same with either variant `sw` of the patch code
  (`sw = true` is the library). Reading back gives `normDiff d` (`read_of_render`), so the clause is:
  `normDiff d` has the effect of `d`. It is TRUE on the following domain and FALSE outside it.
   (E1) TAG-FREE hunks — `read_back_same_effect`, `normalised_same_effect`: EXACT equality of the
        outcome (result or error) on EVERY document `c` (any array types in `c`), any mix of strict
        and merge hunks, every path kind. Per hunk:
          `rawHunk h`    payload values and the key objects of `{"k":v}` path elements carry no Go
                         array type (`rawDoc`): what every text reader produces, and what `Diff`
                         produces on documents read from text except for a removed / added array,
                         which it reports as a `jsonList` (→ E2);
          `setKeysOK h`  a STRICT hunk has no path element `.setKeys []`: it is written `{}` and read
                         back as the plain set element `.set` (`noEmptySetKeys d` says it of every
                         hunk; the merge strategy does not look at it);
          `voidOK h`     the void entries that the renderer drops are alone in their list
                         (`voidAlone`: `[void]`, never `[void, v]`), and in a STRICT hunk either
                         there is none, or the path is a `valuePath` (no set / multiset element, the
                         last element not a list index): exactly where `remove` / `add` are used
                         through `len > 1` and `singleValue` only, so `[void]` acts like `[]`.
        When a hunk has no void entry to drop at all, reading back gives the very same hunk
        (`normalised_is_identity`).
   (E2) payloads WITH `jsonList` tags, LIST-mode documents — `read_back_same_effect_list`,
        `normalised_same_effect_list`: on every `c` with `c.listDoc` the outcomes are equal up to the
        array types of the result (`Outcome.mapO untag`). Per hunk `listHunkOK h`: `voidOK h`, and a
        strict hunk is on a key / index path (`strictPath`) with list-document payloads
        (`hunkListDoc`); nothing more is asked of a merge hunk. Strict hunks first, merge hunks after
        (`mergeMono`, part of `wfDiff`). Strict key / index hunks with list-document payloads is the
        shape of the diffs the library produces in list mode (`Jd.Props.C01.diffM_list_hunks_strict`);
        that they also satisfy `voidOK` — and `wfDiff`, and the codec contract — is now a theorem
        about `Diff` under `voidFree` (→ E4, `produced_diff_in_domain`).
   (E3) MERGE hunks only, any tags, any path — `normalised_same_effect_merge`: EVERY document, up
        to the array types of the result; the only hypothesis is `voidOK` (= a void entry of `remove`
        is alone in its list).
   (E4) DIFFS PRODUCED BY `Diff`, END TO END ("a diff printed by `jd a b` and applied with `jd -p`
        turns a into b"), LIST reading of arrays, STRICT strategy. `diffM o a b` is
        `a.Diff(b, options...)` (JdModel/Diff.lean). The premises of the theorems above are no longer
        hypotheses about the diff but THEOREMS about `Diff`:
          `produced_diff_in_domain`     `wfDiff`, `listHunkOK` (so `voidOK`), `noEmptySetKeys`, strict,
                                        paths of keys of `a` / `b` and indices < 2^53;
          `produced_diff_rerenders`     `listDocHunk` (premise of identical re-rendering);
          `produced_diff_codec`         `CodecOK nc (a.Diff(b))` from the contract on the SUB-TERMS of
                                        `a`, `b` and on the paths of the diff
                                        (`produced_diff_paths_codec`: or on all key / index paths
                                        over the keys of the two documents).
        Composed:
          `produced_diff_text_lossless`  C02 proper for `d = a.Diff(b)`: the printed text is read back
                                        as a diff that renders to the IDENTICAL text and has the same
                                        effect as `d` on EVERY list document (up to array types). No
                                        hypothesis on hashes, numbers, key order.
          `print_read_patch`            `jd a b | jd -p a` on the model: if `Render` gives `text`, then
                                        `ReadDiffString(text)` = `normDiff d` and `a.Patch` of it is a
                                        list document structurally equal to `b` (`specEq` both ways)
                                        that `Equals` `b` under the options (`PrecMono o` when there
                                        is a Precision option; `print_read_patch_equals`: none).
          `produced_diff_renders`, `print_read_patch_total`   the total form: the text EXISTS when
                                        `json.Marshal` succeeds on the sub-terms and the paths.
        Hypotheses of E4 and why:
          `dispatchTag o = .list`, `isMerge o = false`   list reading, strict strategy;
          `a.listDoc`, `b.listDoc`                       list-mode documents;
          `E2E.voidFree a`, `E2E.voidFree b` (decidable)  no array ELEMENT and no object member inside
                the document is void (jd's in-memory "absent" value; no reader produces it inside a
                document). Contains `DPL.memOK`. The array-element part CANNOT be dropped: with a void
                element the printed diff is REJECTED by the reader (`void_element_read_witness`) or
                read back as a diff that patches `a` to something else (`void_element_effect_witness`);
                both pairs are inside the domain of the C01 list theorem and correct in memory. Not
                reachable from `jd a b | jd -p` (text never yields void inside a document): a boundary
                of the model's domain, not a defect of the Go code;
          `E2E.shortArrays b` (decidable)  every array of `b` has fewer than 2^53 elements: indices are
                written as float64 numbers (`idxOK` of `wfHunk`); nothing is asked of `a`;
          `ValOK nc z` for `z ∈ subterms a ++ subterms b`, `PathOK nc h.path` for the hunks of the
                diff   the contract on encoding/json, now on the INPUTS (values) and the path arrays,
                no longer on the payloads of the diff;
          `a.wf`, `b.wf`, `finiteNums`, `FloatLaws`, `DPL.HashOK o a b`, `DPL.ZeroOK a b`
                (`print_read_patch*` only)   the domain of the C01 list theorem, unchanged: the
                in-memory diff must be correct for the printed one to be.
        NOT in E4: SET / MULTISET readings and the MERGE strategy (→ E5, E6, E7: their hunks carry set
        path elements or merge metadata, i.e. other premises), SetKeys, colour output end to end.
   (E5) DIFFS PRODUCED BY `Diff`, END TO END, SET / MULTISET readings, STRICT strategy, no SetKeys
        option, no Precision option (`DES.SetReading o`: `dispatchTag o = .set ∧ keysOf o = none`, or
        `dispatchTag o = .mset`; `precOf o = 0`; `isMerge o = false`; in particular `jd -set`, `jd -mset`).
          `produced_diff_in_domain_set`    every hunk of `a.Diff(b)` is strict, has no context lines and
                                        sits at a path of keys of the two documents possibly followed
                                        by `{}` / `[]` (`E2ES.SPath`); the diff satisfies `wfDiff`, `rawHunk`
                                        (a replaced array is reported as the PLAIN array here, unlike
                                        the list reading), `noEmptySetKeys`, `voidOK`, `listDocHunk`: the
                                        premises of the text clauses AND of the EXACT effect theorem E1;
          `produced_diff_codec_set`, `produced_diff_paths_codec_set`, `produced_diff_renders_set`
                                        the codec contract / the success of `Render` from the contract
                                        on the sub-terms of `a`, `b` (every payload value is LITERALLY
                                        one of them) and on the paths;
          `produced_diff_text_lossless_set`  C02 proper: read back, identical text, and EXACTLY the same
                                        outcome as `a.Diff(b)` on EVERY document (any array tags);
          `print_read_patch_set`, `print_read_patch_total_set`   `jd -set a b | jd -p -set a` on the model:
                                        `a.Patch` of the diff read back succeeds with THE SAME document
                                        as the in-memory `a.Patch(a.Diff(b))`, which is equivalent to `b`
                                        (`equivB o`) and `Equals` `b` under the options of the diff.
        Hypotheses of E5 and why: `a.rawDoc`, `a.wf`, `b.rawDoc`, `b.wf` (premises / lossless) resp.
        `a.setDoc`, `b.setDoc` (end to end: plain arrays, sorted unique keys, finite numbers, no `-0`:
        documents as read from text, the domain of the C01 set theorem); `E2E.voidFree a`, `E2E.voidFree b`
        (needed: `void_element_read_witness_set`, `[void]` → `[]` under SET is printed as `@ [{}]` alone,
        which the reader rejects; no reader produces void inside a document);
        `DES.DiffFaithful o (subterms a) (subterms b)` (premises / lossless; decidable:
        `DES.diffFaithful_of_check`) resp. `HashFaithful o (subterms a ++ subterms b)` with `FloatEq0` (end
        to end; implies the former): no harmful hash collision — with an alias such as `{"a":""}` /
        `{"a":[]}` the set diff descends below a `{"k":v}` element (known finding KF-C04-alias), and the
        in-memory theorem C01 needs it anyway; `FloatLaws`, `FloatEq0` (end to end: the IEEE-754 laws of
        C01 in the set modes); the codec contract on the sub-terms and on the paths, as in E4.
   (E6) DIFFS PRODUCED BY `Diff`, END TO END, MERGE strategy, LIST reading of arrays, no Precision
        (`isMerge o = true`, `dispatchTag o = .list`; `precOf o = 0` for the `print_read_patch_merge*`
        theorems only; in particular `jd -f merge`).
          `produced_diff_in_domain_merge`  `a.Diff(b, MERGE)` is a sequence of merge hunks `Merge.mh ks v`
                                        (`^ {"Merge":true}` / `@ [keys]` / `+ v`; a bare `+` line = void =
                                        delete) over the keys of the two documents; `wfDiff`, the domain
                                        of E3, `listDocHunk` hold with NO hypothesis beyond "as read from
                                        text" and "no void member in `b`";
          `produced_diff_codec_merge`, `produced_diff_paths_codec_merge`, `produced_diff_renders_merge`
                                        from the contract on the sub-terms of `b` ONLY (every value of a
                                        merge diff comes from `b`) and on the key paths;
          `produced_diff_text_lossless_merge`  identical text; same effect on EVERY document up to the Go
                                        type of the array nodes of the result (a replaced array is
                                        reported as a `jsonList` and read back as a plain array). No
                                        hypothesis on hashes or numbers, none on `a` beyond `rawDoc`;
          `print_read_patch_merge`, `print_read_patch_total_merge`   `a.Patch` of the diff read back
                                        succeeds with a document that `Equals` `b`, is equivalent to it
                                        and structurally equal to it.
        Hypotheses of E6: `a.wf`, `a.rawDoc` (`a` may contain nulls and void members); `b.wf`, `b.rawDoc`,
        `b.nullFree` (a merge patch cannot produce a null: C11), `Merge.objVoidFree b` (no void root / member),
        `b.finiteNums`, `FloatLaws`: exactly those of the in-memory theorem `DPK.merge_diff_then_patch_list`;
        codec contract on the sub-terms of `b` and the paths of the diff. No hash hypothesis.
   (E7) DIFFS PRODUCED BY `Diff`, END TO END, MERGE strategy WITH the SET / MULTISET reading (no SetKeys,
        no Precision; `jd -set -f merge`, `jd -mset -f merge`): `produced_diff_in_domain_setMerge`,
        `produced_diff_codec_setMerge`, `produced_diff_paths_codec_setMerge`, `produced_diff_renders_setMerge`,
        `produced_diff_text_lossless_setMerge`, `print_read_patch_setMerge`, `print_read_patch_total_setMerge`.
        A replaced array is the TYPED node `jsonSet` / `jsonMultiset`; `json.Marshal` writes its members
        in stored order, so its text is the text of the plain array, the reader returns the plain
        array, and under the same options it is read as a set / bag again: nothing is lost.
        Hypotheses (`E2ES.SetMergeDom`, written out in the statements): `isMerge o`, `dispatchTag o = .set ∨
        .mset`, `keysOf o = none`, `precOf o = 0`, `a.setDoc`, `b.setDoc`, `b.nullFree`, `Merge.objVoidFree b`,
        `HashFaithful o (subterms a ++ subterms b)`, `FloatEq0` (those of `DPK.merge_diff_then_patch_setmodes`),
        `FloatLaws` end to end; codec contract on the sub-terms of `b` and the paths.
        `HashFaithful` is NEEDED HERE FOR C02 ITSELF, not only for C01 — `setMerge_collision_witness`
        (replayed on the Go library with the same outcome; class of the known finding KF-C04-alias, hash
        collisions, with a new end-to-end symptom): `{"a":"x","b":["aedb68afb","b7cdeb749"]}` →
        `{"a":"y","b":["a568b3ad2","b76a57d20"]}` under `[SET, MERGE]`. The two arrays collide (genuine
        FNV-1a 64 collision), the merge strategy takes them for `Equal` and runs the STRICT set diff:
        `Diff` emits a strict hunk AFTER a merge hunk (`wfDiff` is false). In memory `Patch` succeeds and
        `Equals` the target; in the text the strict hunk has no metadata line of its own,
        `ReadDiffString` lets it inherit `{"Merge":true}`, and `Patch` of the diff read back is an ERROR.
        The general fact behind it, `read_of_render_inherits_merge`: for ANY sequence of `wfHunk` hunks
        (no `mergeMono`) the reader returns `E2ES.inheritMerge false (normDiff d)` — the Merge flag stays in
        force for every following hunk; `read_of_render` is the case `mergeMono`. So the text format
        CANNOT carry a strict hunk after a merge hunk: that is why `wfDiff` asks `mergeMono`.
  OUTSIDE the domain the effect CAN differ; every witness below is inside `wfDiff` (the domain of the
  text clauses), so the hypotheses are not artefacts of the proof:
    `noEmptySetKeys_needed` / `emptySetKeys_witness`  `{}` as keyed element: error before, `[null]` after;
    `voidOK_needed`           a set hunk looks the void `remove` entry up in the set: error / success;
    `void_append_witness`     index `-1` (append) refuses any `remove` entry, the void one included;
    `void_pair_witness`, `void_pair_merge_witness`   `[void, v]`: `len > 1` counts the void entry;
    `void_add_in_list_witness`  a strict list hunk stores a void `add` entry in the array;
    `set_tag_witness`         a `jsonSet`-typed `remove` value (not `rawHunk`, not `hunkListDoc`):
                              error before, success after.
  NOT PROVED: END TO END for the SetKeys option (keyed `{"k":v}` path elements; E1 covers such hunks
  hunk-wise, with the premises as hypotheses) and for a Precision option together with the SET /
  MULTISET readings or the MERGE strategy (E4 has Precision; E5, E7 and `print_read_patch_merge*` ask
  `precOf o = 0`); colour output end to end (colour text is not input for the reader;
  `color_is_plain_plus_ansi` is the clause of the property); anything under a hash collision (`setMerge_collision_witness`); strict hunks whose payload
  carries set / multiset TYPED array nodes, and tagged payloads of strict hunks on set / multiset
  paths (false in general, `set_tag_witness`; not producible from text, covered by the oracle — same
  effect on `a` and `b` — only).
-/
import JdProofs.NativeRoundTrip
import JdProofs.Robust
import JdProofs.NativeEndToEnd
import JdProofs.NativeEndToEndSet
import JdProofs.NativeEndToEndKeysB
import JdProofs.NativeEndToEndKeys
import JdProps.C01Void
import JdProps.C02Precision

set_option autoImplicit false

namespace Jd.Props.C02
open Jd Jd.Spec Jd.NativeRT Jd.Robust

/-- reading the rendered text of a well-formed diff succeeds and gives the diff itself (normalised) -/
theorem read_of_render (nc : NumCodec) (d : Diff) (text : String)
    (hw : wfDiff d = true) (hc : CodecOK nc d) (hr : renderM nc [] d = some text) :
    readDiffM nc text = .ok (normDiff d) :=
  read_render nc d text hw hc hr

/-- the normalised diff renders to the identical text -/
theorem render_of_normalised (nc : NumCodec) (d : Diff) (hd : d.all listDocHunk = true) :
    renderM nc [] (normDiff d) = renderM nc [] d :=
  render_norm nc d hd

/-- render, read back, render again: the identical text -/
theorem render_read_render_identical (nc : NumCodec) (d : Diff) (text : String)
    (hw : wfDiff d = true) (hd : d.all listDocHunk = true) (hc : CodecOK nc d)
    (hr : renderM nc [] d = some text) :
    ∃ d', readDiffM nc text = .ok d' ∧ renderM nc [] d' = some text :=
  render_read_render nc d text hw hd hc hr

/-- rendering with colour adds ANSI escape sequences and nothing else -/
theorem color_is_plain_plus_ansi (nc : NumCodec) (d : Diff) (hn : NoEsc nc d) :
    (renderM nc [.color] d).map (fun s => String.ofList (stripAnsi s.toList)) = renderM nc [] d :=
  renderM_color_strip nc d hn

/-- the same for one hunk -/
theorem color_is_plain_plus_ansi_hunk (nc : NumCodec) (h : Hunk) (hn : NoEsc nc [h]) :
    (renderHunk nc [.color] h).map (fun s => String.ofList (stripAnsi s.toList))
      = renderHunk nc [] h :=
  renderHunk_color_strip nc h hn

/-- path indices below 2^53 in absolute value survive the `float64` round trip (so `idxOK`, part of
    `wfHunk`, holds for every index a real document can have) -/
theorem index_survives_float64 (i : Int) (h : i.natAbs < 2 ^ 53) :
    floatTrunc (intToFloatBits i) = i :=
  NativeRT.floatTrunc_intToFloatBits i h

/-! Non-vacuity: a list hunk with boundary marker, context, two removed values and a void addition,
    followed by a merge hunk that deletes (`exDiff`), with a concrete codec: every hypothesis holds. -/

example : wfDiff exDiff = true ∧ exDiff.all listDocHunk = true ∧ CodecOK exCodec exDiff :=
  ⟨by decide, by decide, exDiff_codecOK⟩

example (text : String) (h : renderM exCodec [] exDiff = some text) :
    readDiffM exCodec text = .ok (normDiff exDiff) :=
  read_of_render exCodec exDiff text (by decide) exDiff_codecOK h

/-! ## The effect clause: the diff read back has the identical effect on every document -/

/-- **(E1) on the text.** Tag-free hunks, no `{}`-keyed element in a strict hunk, void entries
    harmless: the rendered diff is read back as a diff with EXACTLY the same outcome on EVERY
    document -/
theorem read_back_same_effect (nc : NumCodec) (d : Diff) (text : String)
    (hw : wfDiff d = true) (hc : CodecOK nc d) (hr : renderM nc [] d = some text)
    (hd : d.all (fun h => rawHunk h && setKeysOK h && voidOK h) = true) :
    ∃ d', readDiffM nc text = .ok d' ∧ ∀ c : Json, patchM c d' = patchM c d :=
  read_render_same_effect nc d text hw hc hr hd

/-- **(E1) in memory**, stated with `noEmptySetKeys d` (no `.setKeys []` path element anywhere):
    the normalised diff has exactly the effect of the diff, on every document, for either variant
    of the patch code -/
theorem normalised_same_effect (sw : Bool) (d : Diff)
    (h1 : d.all rawHunk = true) (h2 : noEmptySetKeys d = true) (h3 : d.all voidOK = true) (c : Json) :
    patchAll sw c (normDiff d) = patchAll sw c d :=
  patchAll_normDiff_of_noEmptySetKeys sw d h1 h2 h3 c

/-- with no void entry to drop (`Robust.noVoid l`: no entry of `l` is void), reading back gives the
    very same hunk -/
theorem normalised_is_identity (h : Hunk) (hraw : rawHunk h = true)
    (hk : noEmptySetKeysP h.path = true) (h1 : Robust.noVoid h.remove = true)
    (h2 : (h.merge || Robust.noVoid h.add) = true) : normHunk h = h :=
  normHunk_eq_self h hraw hk h1 h2

/-- **(E2) on the text.** Payloads may carry `jsonList` tags (what `Diff` reports for a removed /
    added array); strict key / index hunks followed by merge hunks: the diff read back has the same
    effect on every LIST-mode document, up to the array types of the result -/
theorem read_back_same_effect_list (nc : NumCodec) (d : Diff) (text : String)
    (hw : wfDiff d = true) (hc : CodecOK nc d) (hr : renderM nc [] d = some text)
    (hd : d.all listHunkOK = true) :
    ∃ d', readDiffM nc text = .ok d' ∧
      ∀ c : Json, c.listDoc = true →
        Outcome.mapO untag (patchM c d') = Outcome.mapO untag (patchM c d) :=
  read_render_same_effect_list nc d text hw hc hr hd

/-- **(E2) in memory** -/
theorem normalised_same_effect_list (sw : Bool) (d : Diff) (hmono : mergeMono false d = true)
    (hd : d.all listHunkOK = true) (c : Json) (hc : c.listDoc = true) :
    Outcome.mapO untag (patchAll sw c (normDiff d)) = Outcome.mapO untag (patchAll sw c d) :=
  patchAll_normDiff_listMixed_gen sw d hmono hd c c rfl hc hc

/-- **(E3)** a diff of MERGE hunks, any tags, any path kinds (`{}`-keyed elements included): same
    effect on EVERY document up to the array types of the result -/
theorem normalised_same_effect_merge (sw : Bool) (c : Json) (d : Diff)
    (hd : d.all (fun h => h.merge && voidOK h) = true) :
    Outcome.mapO untag (patchAll sw c (normDiff d)) = Outcome.mapO untag (patchAll sw c d) :=
  patchAll_normDiff_merge sw c d hd

/-! ### Outside the domain the effect can differ (all witnesses are well-formed for the reader) -/

/-- `noEmptySetKeys` cannot be dropped: a well-formed, tag-free diff with harmless void entries
    whose normal form has a different outcome on some document -/
theorem noEmptySetKeys_needed (sw : Bool) :
    ∃ (d : Diff) (c : Json), wfDiff d = true ∧ d.all rawHunk = true ∧ d.all voidOK = true ∧
      patchAll sw c (normDiff d) ≠ patchAll sw c d :=
  Robust.noEmptySetKeys_needed sw

/-- `voidOK` cannot be dropped either -/
theorem voidOK_needed (sw : Bool) :
    ∃ (d : Diff) (c : Json), wfDiff d = true ∧ d.all rawHunk = true ∧ noEmptySetKeys d = true ∧
      patchAll sw c (normDiff d) ≠ patchAll sw c d :=
  Robust.voidOK_needed sw

/-- the witness behind `noEmptySetKeys_needed`, `ceKeys` = `@ [{},"x"]` / `+ null`: on `[]` the hunk
    itself is an error (no member with the empty key object), the hunk read back (`{}` = set
    element) succeeds -/
theorem emptySetKeys_witness (sw : Bool) :
    wfHunk ceKeys = true ∧ rawHunk ceKeys = true ∧ voidOK ceKeys = true ∧
    noEmptySetKeysP ceKeys.path = false ∧
    patchNode sw false (.arr .raw []) ceKeys.path ceKeys.before ceKeys.remove ceKeys.add ceKeys.after
      = .err ∧
    patchNode sw false (.arr .raw []) (normHunk ceKeys).path (normHunk ceKeys).before
      (normHunk ceKeys).remove (normHunk ceKeys).add (normHunk ceKeys).after
      = .ok (.arr .set [.null]) :=
  ceKeys_facts sw

/-- `ceAppend` = path `[-1]`, `remove = [void]`, `add = [null]`: the void entry is alone but the path
    ends in a list index (not a `valuePath`); an append refuses any `remove` entry -/
theorem void_append_witness (sw : Bool) :
    wfHunk ceAppend = true ∧ rawHunk ceAppend = true ∧ voidAlone ceAppend.remove = true ∧
    patchNode sw false (.arr .raw []) ceAppend.path ceAppend.before ceAppend.remove ceAppend.add
      ceAppend.after = .err ∧
    patchNode sw false (.arr .raw []) (normHunk ceAppend).path (normHunk ceAppend).before
      (normHunk ceAppend).remove (normHunk ceAppend).add (normHunk ceAppend).after
      = .ok (.arr .list [.null]) :=
  ceAppend_facts sw

/-- `ceLen` = root path, `remove = [void, {}]`: a value path, but the void entry is not alone;
    `len(remove) > 1` counts it -/
theorem void_pair_witness (sw : Bool) :
    wfHunk ceLen = true ∧ rawHunk ceLen = true ∧ valuePath ceLen.path = true ∧
    voidAlone ceLen.remove = false ∧
    patchNode sw false (.obj []) ceLen.path ceLen.before ceLen.remove ceLen.add ceLen.after = .err ∧
    patchNode sw false (.obj []) (normHunk ceLen).path (normHunk ceLen).before
      (normHunk ceLen).remove (normHunk ceLen).add (normHunk ceLen).after = .ok .void :=
  ceLen_facts sw

/-- the same in the MERGE strategy: `ceLenMerge` = merge hunk at the root, `remove = [void, null]` -/
theorem void_pair_merge_witness (sw : Bool) :
    wfHunk ceLenMerge = true ∧ rawHunk ceLenMerge = true ∧ voidOK ceLenMerge = false ∧
    patchNode sw true (.obj []) ceLenMerge.path ceLenMerge.before ceLenMerge.remove ceLenMerge.add
      ceLenMerge.after = .err ∧
    patchNode sw true (.obj []) (normHunk ceLenMerge).path (normHunk ceLenMerge).before
      (normHunk ceLenMerge).remove (normHunk ceLenMerge).add (normHunk ceLenMerge).after
      = .ok .null :=
  ceLenMerge_facts sw

/-- `ceAddVoid` = path `[0]`, `add = [void, null]`: the strict list patch stores the void entry in
    the array, the hunk read back does not -/
theorem void_add_in_list_witness (sw : Bool) :
    wfHunk ceAddVoid = true ∧ rawHunk ceAddVoid = true ∧
    patchNode sw false (.arr .raw []) ceAddVoid.path ceAddVoid.before ceAddVoid.remove ceAddVoid.add
      ceAddVoid.after = .ok (.arr .list [.void, .null]) ∧
    patchNode sw false (.arr .raw []) (normHunk ceAddVoid).path (normHunk ceAddVoid).before
      (normHunk ceAddVoid).remove (normHunk ceAddVoid).add (normHunk ceAddVoid).after
      = .ok (.arr .list [.null]) :=
  ceAddVoid_facts sw

/-- `ceSetVoid` = path `[{}]` (set element), `remove = [void]`, `add = [null]` (the witness behind
    `voidOK_needed`): a set hunk looks the void entry up in the set -/
theorem void_in_set_hunk_witness (sw : Bool) :
    wfHunk ceSetVoid = true ∧ rawHunk ceSetVoid = true ∧ voidAlone ceSetVoid.remove = true ∧
    patchNode sw false (.arr .raw []) ceSetVoid.path ceSetVoid.before ceSetVoid.remove ceSetVoid.add
      ceSetVoid.after = .err ∧
    patchNode sw false (.arr .raw []) (normHunk ceSetVoid).path (normHunk ceSetVoid).before
      (normHunk ceSetVoid).remove (normHunk ceSetVoid).add (normHunk ceSetVoid).after
      = .ok (.arr .set [.null]) :=
  ceSetVoid_facts sw

/-- `ceTag` = root path, `remove = [a jsonSet-typed empty array]`: the Go types of payload values
    matter to the strict strategy outside list mode — a `jsonSet` never `Equals` the `jsonArray` it
    is compared with under no options; the hunk read back (plain array) applies -/
theorem set_tag_witness (sw : Bool) :
    wfHunk ceTag = true ∧ voidOK ceTag = true ∧ hunkListDoc ceTag = false ∧
    patchNode sw false (.arr .raw []) ceTag.path ceTag.before ceTag.remove ceTag.add ceTag.after
      = .err ∧
    patchNode sw false (.arr .raw []) (normHunk ceTag).path (normHunk ceTag).before
      (normHunk ceTag).remove (normHunk ceTag).add (normHunk ceTag).after = .ok .void :=
  ceTag_facts sw

/-! Non-vacuity of the effect clause.
    On the text: the merge hunk of `exDiff` (`exDiff.drop 1`, `@ ["b"]` / `+` void = delete the member)
    with the concrete codec satisfies every hypothesis of `read_back_same_effect` and of
    `read_back_same_effect_list`. (The FIRST hunk of `exDiff` is outside the effect domain on purpose:
    its `add` is `[void, true]` on a list index, the shape of `void_add_in_list_witness`.)
    In memory: `exEffect`, a strict list hunk with context, a set hunk with two removed values, a
    keyed-member hunk, a root replacement with a void `remove` entry and a merge hunk, satisfies the
    hypotheses of `normalised_same_effect`. -/

example : wfDiff (exDiff.drop 1) = true ∧ CodecOK exCodec (exDiff.drop 1) ∧
    (exDiff.drop 1).all (fun h => rawHunk h && setKeysOK h && voidOK h) = true ∧
    (exDiff.drop 1).all listHunkOK = true :=
  ⟨by decide, fun h hh => exDiff_codecOK h (List.mem_of_mem_drop hh), by decide, by decide⟩

example (text : String) (hr : renderM exCodec [] (exDiff.drop 1) = some text) :
    ∃ d', readDiffM exCodec text = .ok d' ∧ ∀ c : Json, patchM c d' = patchM c (exDiff.drop 1) :=
  read_back_same_effect exCodec _ text (by decide)
    (fun h hh => exDiff_codecOK h (List.mem_of_mem_drop hh)) hr (by decide)

/-- a diff with every hunk shape of the domain (E1) -/
def exEffect : Diff :=
  [ { path := [.key "a", .idx 1], before := [.void], remove := [.str "x"], add := [.bool true, .null],
      after := [.arr .raw [.null]] },
    { path := [.key "s", .set], remove := [.str "p", .str "q"], add := [.obj [("k", .null)]] },
    { path := [.setKeys [("id", .str "u")], .key "v"], remove := [.null], add := [.bool false] },
    { path := [.key "r"], remove := [.void], add := [.str "new"] },
    { merge := true, path := [.key "b"], add := [.void] } ]

example : wfDiff exEffect = true ∧ exEffect.all rawHunk = true ∧ noEmptySetKeys exEffect = true ∧
    exEffect.all voidOK = true := ⟨by decide, by decide, by decide, by decide⟩

example (sw : Bool) (c : Json) : patchAll sw c (normDiff exEffect) = patchAll sw c exEffect :=
  normalised_same_effect sw exEffect (by decide) (by decide) (by decide) c

/-! ## (E4) Diffs produced by `Diff`, end to end: `jd a b | jd -p a` (list reading, strict strategy)

  Names of `Jd.E2E` and `Jd.DPL` are written qualified. `E2E.voidFree x`: nothing strictly inside
  `x` is void; `E2E.shortArrays x`: every array of `x` has fewer than 2^53 elements; `DPL.subterms x`:
  all nodes of `x`; `E2E.docKeys x`: all object keys of `x`; `E2E.PathIn K N p`: `p` consists of keys
  from `K` and natural indices `≤ N`. -/

/-- **the premises are theorems about `Diff`.** For list documents with nothing void inside (arrays
    of `b` shorter than 2^53) the hunk sequence `a.Diff(b)` is in the reader's domain (`wfDiff`),
    every hunk is in the domain of the list-mode effect theorem (E2: `listHunkOK`), no hunk has a
    `{}`-keyed element, every hunk is strict, `voidOK`, and addressed by keys of the two documents
    and natural indices below 2^53 -/
theorem produced_diff_in_domain (o : Opts) (ho : dispatchTag o = .list) (hm : isMerge o = false)
    (a b : Json) (ha : a.listDoc = true) (hb : b.listDoc = true) (hva : E2E.voidFree a = true)
    (hvb : E2E.voidFree b = true) (hlen : E2E.shortArrays b = true) :
    wfDiff (diffM o a b) = true ∧ (diffM o a b).all listHunkOK = true ∧
    noEmptySetKeys (diffM o a b) = true ∧
    (∀ h ∈ diffM o a b, h.merge = false ∧ voidOK h = true ∧
      E2E.PathIn (E2E.docKeys a ++ E2E.docKeys b) (2 ^ 53 - 1) h.path) :=
  E2E.diffM_premises o ho hm a b ha hb hva hvb hlen

/-- … and the premise of identical re-rendering: no set / multiset typed array node in a payload,
    no key object in a path -/
theorem produced_diff_rerenders (o : Opts) (ho : dispatchTag o = .list) (hm : isMerge o = false)
    (a b : Json) (ha : a.listDoc = true) (hb : b.listDoc = true) (hva : E2E.voidFree a = true)
    (hvb : E2E.voidFree b = true) (hlen : E2E.shortArrays b = true) :
    (diffM o a b).all listDocHunk = true :=
  E2E.diffM_listDocHunk o ho hm a b ha hb hva hvb hlen

/-- the codec contract for the diff follows from the contract on the SUB-TERMS of the two documents
    (every payload value of `a.Diff(b)` is one, up to the Go type of a top array node) and on the
    paths of the diff -/
theorem produced_diff_codec (nc : NumCodec) (o : Opts) (ho : dispatchTag o = .list)
    (hm : isMerge o = false) (a b : Json) (ha : a.listDoc = true) (hb : b.listDoc = true)
    (hva : E2E.voidFree a = true) (hvb : E2E.voidFree b = true) (hlen : E2E.shortArrays b = true)
    (hv : ∀ z ∈ DPL.subterms a ++ DPL.subterms b, ValOK nc z)
    (hp : ∀ h ∈ diffM o a b, PathOK nc h.path) :
    CodecOK nc (diffM o a b) :=
  E2E.diffM_codecOK nc o ho hm a b ha hb hva hvb hlen hv hp

/-- the path hypothesis at the level of the inputs: it is enough that the contract holds of every
    path made of keys of the two documents and natural indices below 2^53 -/
theorem produced_diff_paths_codec (nc : NumCodec) (o : Opts) (ho : dispatchTag o = .list)
    (hm : isMerge o = false) (a b : Json) (ha : a.listDoc = true) (hb : b.listDoc = true)
    (hva : E2E.voidFree a = true) (hvb : E2E.voidFree b = true) (hlen : E2E.shortArrays b = true)
    (hpaths : ∀ p, E2E.PathIn (E2E.docKeys a ++ E2E.docKeys b) (2 ^ 53 - 1) p → PathOK nc p) :
    ∀ h ∈ diffM o a b, PathOK nc h.path :=
  E2E.diffM_pathOK_of_inputs nc o ho hm a b ha hb hva hvb hlen hpaths

/-- **C02 for every diff PRODUCED by `Diff` (list reading, strict strategy).** The printed text of
    `a.Diff(b)` is read back as a diff that renders to the IDENTICAL text and has the same effect as
    `a.Diff(b)` on EVERY list document `c` (same success / failure, same result up to the Go type of
    array nodes). No hypothesis on hashes, numbers or key order -/
theorem produced_diff_text_lossless (nc : NumCodec) (o : Opts) (ho : dispatchTag o = .list)
    (hm : isMerge o = false) (a b : Json) (ha : a.listDoc = true) (hb : b.listDoc = true)
    (hva : E2E.voidFree a = true) (hvb : E2E.voidFree b = true) (hlen : E2E.shortArrays b = true)
    (hv : ∀ z ∈ DPL.subterms a ++ DPL.subterms b, ValOK nc z)
    (hp : ∀ h ∈ diffM o a b, PathOK nc h.path)
    (text : String) (hr : renderM nc [] (diffM o a b) = some text) :
    ∃ d', readDiffM nc text = .ok d' ∧ renderM nc [] d' = some text ∧
      ∀ c : Json, c.listDoc = true →
        Outcome.mapO untag (patchM c d') = Outcome.mapO untag (patchM c (diffM o a b)) :=
  E2E.diff_text_lossless nc o ho hm a b ha hb hva hvb hlen hv hp text hr

/-- **`jd a b | jd -p a`, on the model.** If `a.Diff(b).Render()` gives `text`, then
    `ReadDiffString(text)` succeeds with `d' = normDiff (a.Diff(b))`, and `a.Patch(d')` succeeds with a
    list document `r` that is structurally equal to `b` (`specEq`, from either side) and `Equals` `b`
    under the options of the diff (`DPL.PrecMono o`: when there is a Precision option) -/
theorem print_read_patch (L : FloatLaws) (nc : NumCodec) (o : Opts)
    (ho : dispatchTag o = .list) (hm : isMerge o = false) (a b : Json)
    (ha1 : a.listDoc = true) (ha2 : a.wf = true) (ha3 : a.finiteNums = true)
    (hb1 : b.listDoc = true) (hb2 : b.wf = true) (hb3 : b.finiteNums = true)
    (H : DPL.HashOK o a b) (Z : DPL.ZeroOK a b)
    (hva : E2E.voidFree a = true) (hvb : E2E.voidFree b = true) (hlen : E2E.shortArrays b = true)
    (hv : ∀ z ∈ DPL.subterms a ++ DPL.subterms b, ValOK nc z)
    (hp : ∀ h ∈ diffM o a b, PathOK nc h.path)
    (text : String) (hr : renderM nc [] (diffM o a b) = some text) :
    ∃ d', readDiffM nc text = .ok d' ∧ d' = normDiff (diffM o a b) ∧
      ∃ r, patchM a d' = .ok r ∧ specEq r b = true ∧ specEq b r = true ∧ r.listDoc = true ∧
        (DPL.PrecMono o → equivB o r b = true ∧ equals o r b = true) :=
  E2E.diff_render_read_patch L nc o ho hm a b ha1 ha2 ha3 hb1 hb2 hb3 H Z hva hvb hlen hv hp text hr

/-- the headline without a Precision option: the diff printed by `jd a b`, applied to `a` by `jd -p`,
    gives a document that is structurally equal to `b` and `Equals` `b` -/
theorem print_read_patch_equals (L : FloatLaws) (nc : NumCodec) (o : Opts)
    (ho : dispatchTag o = .list) (hm : isMerge o = false) (hprec : precOf o = 0) (a b : Json)
    (ha1 : a.listDoc = true) (ha2 : a.wf = true) (ha3 : a.finiteNums = true)
    (hb1 : b.listDoc = true) (hb2 : b.wf = true) (hb3 : b.finiteNums = true)
    (H : DPL.HashOK o a b) (Z : DPL.ZeroOK a b)
    (hva : E2E.voidFree a = true) (hvb : E2E.voidFree b = true) (hlen : E2E.shortArrays b = true)
    (hv : ∀ z ∈ DPL.subterms a ++ DPL.subterms b, ValOK nc z)
    (hp : ∀ h ∈ diffM o a b, PathOK nc h.path)
    (text : String) (hr : renderM nc [] (diffM o a b) = some text) :
    ∃ d', readDiffM nc text = .ok d' ∧
      ∃ r, patchM a d' = .ok r ∧ specEq r b = true ∧ equals o r b = true :=
  E2E.diff_render_read_patch_noPrecision L nc o ho hm hprec a b ha1 ha2 ha3 hb1 hb2 hb3 H Z
    hva hvb hlen hv hp text hr

/-- `a.Diff(b).Render()` succeeds when `json.Marshal` succeeds on every sub-term of `a` and `b` and on
    the paths of the diff (it can only fail on a number, through the number codec) -/
theorem produced_diff_renders (nc : NumCodec) (o : Opts) (ho : dispatchTag o = .list)
    (hm : isMerge o = false) (a b : Json) (ha : a.listDoc = true) (hb : b.listDoc = true)
    (hva : E2E.voidFree a = true) (hvb : E2E.voidFree b = true) (hlen : E2E.shortArrays b = true)
    (hmv : ∀ z ∈ DPL.subterms a ++ DPL.subterms b, (marshalNode nc z).isSome = true)
    (hmp : ∀ h ∈ diffM o a b, (jsonM nc (pathToJson h.path)).isSome = true) :
    ∃ text, renderM nc [] (diffM o a b) = some text :=
  E2E.diffM_renders nc o ho hm a b ha hb hva hvb hlen hmv hmp

/-- **end to end, total form**: when the values and paths at hand have a JSON text, the printed
    diff EXISTS, is read back, and the diff read back patches `a` to a document equal to `b` -/
theorem print_read_patch_total (L : FloatLaws) (nc : NumCodec) (o : Opts)
    (ho : dispatchTag o = .list) (hm : isMerge o = false) (a b : Json)
    (ha1 : a.listDoc = true) (ha2 : a.wf = true) (ha3 : a.finiteNums = true)
    (hb1 : b.listDoc = true) (hb2 : b.wf = true) (hb3 : b.finiteNums = true)
    (H : DPL.HashOK o a b) (Z : DPL.ZeroOK a b)
    (hva : E2E.voidFree a = true) (hvb : E2E.voidFree b = true) (hlen : E2E.shortArrays b = true)
    (hv : ∀ z ∈ DPL.subterms a ++ DPL.subterms b, (marshalNode nc z).isSome = true ∧ ValOK nc z)
    (hp : ∀ h ∈ diffM o a b, (jsonM nc (pathToJson h.path)).isSome = true ∧ PathOK nc h.path) :
    ∃ text d' r, renderM nc [] (diffM o a b) = some text ∧ readDiffM nc text = .ok d' ∧
      patchM a d' = .ok r ∧ specEq r b = true ∧ specEq b r = true ∧ r.listDoc = true ∧
      (DPL.PrecMono o → equivB o r b = true ∧ equals o r b = true) :=
  E2E.diff_print_read_patch L nc o ho hm a b ha1 ha2 ha3 hb1 hb2 hb3 H Z hva hvb hlen hv hp

/-! ### `voidFree` cannot be dropped (model-only boundary: no reader produces void inside a document)

  Both pairs satisfy every hypothesis of the C01 list theorem (`listDoc`, `wf`, `finiteNums`,
  `DPL.memOK`) and `shortArrays`, and `a.Patch(a.Diff(b))` is correct IN MEMORY; only `voidFree` fails. -/

/-- `E2E.Witness.wA` = `[void]`, `wB` = `[]`: the diff is printed as `@ [0]` / `[` / `]` (a removed void
    value has no `-` line) and `ReadDiffString` REJECTS that text -/
theorem void_element_read_witness :
    E2E.Witness.wA.listDoc = true ∧ E2E.Witness.wA.wf = true ∧ E2E.Witness.wA.finiteNums = true ∧
    DPL.memOK E2E.Witness.wA = true ∧
    E2E.Witness.wB.listDoc = true ∧ E2E.Witness.wB.wf = true ∧ E2E.Witness.wB.finiteNums = true ∧
    DPL.memOK E2E.Witness.wB = true ∧
    E2E.voidFree E2E.Witness.wA = false ∧ E2E.voidFree E2E.Witness.wB = true ∧
    E2E.shortArrays E2E.Witness.wB = true ∧
    patchM E2E.Witness.wA (diffM [] E2E.Witness.wA E2E.Witness.wB) = .ok (.arr .list []) ∧
    ∃ text, renderM exCodec [] (diffM [] E2E.Witness.wA E2E.Witness.wB) = some text ∧
      readDiffM exCodec text = .err :=
  E2E.Witness.void_element_witness_read

/-- `E2E.Witness.vA` = `[true, null]`, `vB` = `[void, null]`: the text `@ [0]` / `[` / `- true` /
    `  null` (no `+` line for the void value) IS accepted, and the diff read back patches
    `[true, null]` to `[null]` — success, but not the target -/
theorem void_element_effect_witness :
    E2E.Witness.vA.listDoc = true ∧ E2E.Witness.vA.wf = true ∧ E2E.Witness.vA.finiteNums = true ∧
    DPL.memOK E2E.Witness.vA = true ∧
    E2E.Witness.vB.listDoc = true ∧ E2E.Witness.vB.wf = true ∧ E2E.Witness.vB.finiteNums = true ∧
    DPL.memOK E2E.Witness.vB = true ∧
    E2E.voidFree E2E.Witness.vA = true ∧ E2E.voidFree E2E.Witness.vB = false ∧
    E2E.shortArrays E2E.Witness.vB = true ∧
    patchM E2E.Witness.vA (diffM [] E2E.Witness.vA E2E.Witness.vB)
      = .ok (.arr .list [.void, .null]) ∧
    ∃ text d', renderM exCodec [] (diffM [] E2E.Witness.vA E2E.Witness.vB) = some text ∧
      readDiffM exCodec text = .ok d' ∧ patchM E2E.Witness.vA d' = .ok (.arr .list [.null]) ∧
      specEq (.arr .list [.null]) E2E.Witness.vB = false :=
  E2E.Witness.void_element_witness_effect

/-! Non-vacuity of (E4): `E2E.Example.exA` = `{"k":[true,null,["x"]]}`, `E2E.Example.exB` =
    `{"k":[false,null,["x","y"]],"n":null}` (three hunks: `[` marker + after-context; a hunk inside the
    nested list with before-context + `]` marker; an added member) with the concrete codec `exCodec`:
    every decidable hypothesis holds (`E2E.Example.dom`), the codec contract holds on all sub-terms
    and on the three paths (`ex_vals`, `ex_paths`), there is no hash collision (`ex_hash`); only the
    IEEE-754 laws `FloatLaws` remain. -/

example : E2E.Example.exA.listDoc = true ∧ E2E.Example.exB.listDoc = true ∧
    E2E.voidFree E2E.Example.exA = true ∧ E2E.voidFree E2E.Example.exB = true ∧
    E2E.shortArrays E2E.Example.exB = true ∧ (diffM [] E2E.Example.exA E2E.Example.exB).length = 3 :=
  ⟨E2E.Example.dom.1, E2E.Example.dom.2.2.2.2.1, E2E.Example.dom.2.2.2.2.2.2.2.2.1,
    E2E.Example.dom.2.2.2.2.2.2.2.2.2.1, E2E.Example.dom.2.2.2.2.2.2.2.2.2.2,
    by rw [E2E.Example.ex_diff]; rfl⟩

/-- the end-to-end statement for this pair: the printed diff exists, is read back, and patches `exA`
    to a document that `Equals` `exB` -/
example (L : FloatLaws) :
    ∃ text d' r, renderM exCodec [] (diffM [] E2E.Example.exA E2E.Example.exB) = some text ∧
      readDiffM exCodec text = .ok d' ∧ patchM E2E.Example.exA d' = .ok r ∧
      specEq r E2E.Example.exB = true ∧ equals [] r E2E.Example.exB = true :=
  E2E.Example.ex_end_to_end L

example (text : String)
    (hr : renderM exCodec [] (diffM [] E2E.Example.exA E2E.Example.exB) = some text) :
    ∃ d', readDiffM exCodec text = .ok d' ∧ renderM exCodec [] d' = some text ∧
      ∀ c : Json, c.listDoc = true → Outcome.mapO untag (patchM c d')
        = Outcome.mapO untag (patchM c (diffM [] E2E.Example.exA E2E.Example.exB)) :=
  produced_diff_text_lossless exCodec [] rfl rfl _ _ E2E.Example.dom.1 E2E.Example.dom.2.2.2.2.1
    E2E.Example.dom.2.2.2.2.2.2.2.2.1 E2E.Example.dom.2.2.2.2.2.2.2.2.2.1
    E2E.Example.dom.2.2.2.2.2.2.2.2.2.2 (fun z hz => (E2E.Example.ex_vals z hz).2)
    (fun h hh => (E2E.Example.ex_paths h hh).2) text hr

/-! ## (E5) Diffs produced by `Diff`, end to end: SET / MULTISET readings, strict strategy

  Names of `Jd.E2ES`, `Jd.DES` and `Jd.Merge` are written qualified. `subterms x` (`Jd.subterms`,
  JdProofs/EqualsSet.lean) lists all nodes of `x` (the same function as `DPL.subterms`:
  `E2ES.subterms_eq`); `DES.SetReading o`: `dispatchTag o = .set ∧ keysOf o = none`, or `dispatchTag o = .mset`;
  `E2ES.SPath K p`: `p` is a path of object keys from `K`, possibly followed by one `{}` (set) or `[]`
  (multiset) element; `DES.DiffFaithful o SA SB`: a node of `SA` and a node of `SB` with the same hash
  code are arrays hashed from the same member hash codes resp. (SET reading) `Equals` objects;
  `HashFaithful o S`: equal hash codes among the nodes `S` only for equivalent nodes. -/

/-- **the premises are theorems about `Diff`, SET / MULTISET readings.** For documents as read from
    text with nothing void inside and no harmful hash collision, the hunk sequence `a.Diff(b)` is in
    the reader's domain (`wfDiff`); every hunk is tag-free (`rawHunk`: a replaced array is reported as
    the plain array), there is no `{}`-keyed element (`noEmptySetKeys`), void entries are harmless
    (`voidOK`), the hunks re-render identically (`listDocHunk`); every hunk is strict, has no context
    lines, and is addressed by keys of the two documents possibly followed by `{}` / `[]` -/
theorem produced_diff_in_domain_set {o : Opts} (hm : DES.SetReading o) (hp : precOf o = 0)
    (hmg : isMerge o = false) (a b : Json) (ha : a.rawDoc = true) (hwa : a.wf = true)
    (hb : b.rawDoc = true) (hwb : b.wf = true) (hva : E2E.voidFree a = true)
    (hvb : E2E.voidFree b = true) (FH : DES.DiffFaithful o (subterms a) (subterms b)) :
    wfDiff (diffM o a b) = true ∧ (diffM o a b).all rawHunk = true ∧
    noEmptySetKeys (diffM o a b) = true ∧ (diffM o a b).all voidOK = true ∧
    (diffM o a b).all listDocHunk = true ∧
    (∀ h ∈ diffM o a b, h.merge = false ∧ h.before = [] ∧ h.after = [] ∧
      E2ES.SPath (E2E.docKeys a ++ E2E.docKeys b) h.path) :=
  E2ES.diffM_premises_set hm hp hmg a b ha hwa hb hwb hva hvb FH

/-- the codec contract for the diff follows from the contract on the SUB-TERMS of the two documents
    (every payload value of the diff is literally one of them) and on the paths of the diff -/
theorem produced_diff_codec_set (nc : NumCodec) {o : Opts} (hm : DES.SetReading o)
    (hp : precOf o = 0) (hmg : isMerge o = false) (a b : Json) (ha : a.rawDoc = true)
    (hwa : a.wf = true) (hb : b.rawDoc = true) (hwb : b.wf = true)
    (hva : E2E.voidFree a = true) (hvb : E2E.voidFree b = true)
    (FH : DES.DiffFaithful o (subterms a) (subterms b))
    (hv : ∀ z ∈ subterms a ++ subterms b, ValOK nc z)
    (hpth : ∀ h ∈ diffM o a b, PathOK nc h.path) :
    CodecOK nc (diffM o a b) :=
  E2ES.diffM_codecOK_set nc hm hp hmg a b ha hwa hb hwb hva hvb FH hv hpth

/-- the path hypothesis at the level of the inputs: it is enough that the contract holds of every
    path `keys ++ ({} | [] | nothing)` over the keys of the two documents -/
theorem produced_diff_paths_codec_set (nc : NumCodec) {o : Opts} (hm : DES.SetReading o)
    (hp : precOf o = 0) (hmg : isMerge o = false) (a b : Json) (ha : a.rawDoc = true)
    (hwa : a.wf = true) (hb : b.rawDoc = true) (hwb : b.wf = true)
    (hva : E2E.voidFree a = true) (hvb : E2E.voidFree b = true)
    (FH : DES.DiffFaithful o (subterms a) (subterms b))
    (hpaths : ∀ p, E2ES.SPath (E2E.docKeys a ++ E2E.docKeys b) p → PathOK nc p) :
    ∀ h ∈ diffM o a b, PathOK nc h.path :=
  E2ES.diffM_pathOK_of_inputs_set nc hm hp hmg a b ha hwa hb hwb hva hvb FH hpaths

/-- **C02 for every diff PRODUCED by `Diff` in the SET / MULTISET readings (strict strategy).** The
    printed text of `a.Diff(b)` is read back as a diff that renders to the IDENTICAL text and has
    EXACTLY the same outcome (result or error) as `a.Diff(b)` on EVERY document `c`, whatever its
    array types -/
theorem produced_diff_text_lossless_set (nc : NumCodec) {o : Opts} (hm : DES.SetReading o)
    (hp : precOf o = 0) (hmg : isMerge o = false) (a b : Json) (ha : a.rawDoc = true)
    (hwa : a.wf = true) (hb : b.rawDoc = true) (hwb : b.wf = true)
    (hva : E2E.voidFree a = true) (hvb : E2E.voidFree b = true)
    (FH : DES.DiffFaithful o (subterms a) (subterms b))
    (hv : ∀ z ∈ subterms a ++ subterms b, ValOK nc z)
    (hpth : ∀ h ∈ diffM o a b, PathOK nc h.path)
    (text : String) (hr : renderM nc [] (diffM o a b) = some text) :
    ∃ d', readDiffM nc text = .ok d' ∧ renderM nc [] d' = some text ∧
      ∀ c : Json, patchM c d' = patchM c (diffM o a b) :=
  E2ES.diff_text_lossless_set nc hm hp hmg a b ha hwa hb hwb hva hvb FH hv hpth text hr

/-- **`jd -set a b | jd -p -set a` (resp. `-mset`), on the model.** If `a.Diff(b).Render()` gives `text`,
    then `ReadDiffString(text)` succeeds with `d' = normDiff (a.Diff(b))`, and `a.Patch(d')` succeeds with
    THE SAME document `r` as the in-memory `a.Patch(a.Diff(b))`; `r` is equivalent to `b` under the set
    (bag) reading and `Equals` `b` under the options of the diff -/
theorem print_read_patch_set (F : FloatEq0) (L : FloatLaws) (nc : NumCodec) (o : Opts)
    (hm : dispatchTag o = .set ∨ dispatchTag o = .mset) (hk : keysOf o = none)
    (hmg : isMerge o = false) (hp : precOf o = 0) (a b : Json)
    (ha : a.setDoc = true) (hb : b.setDoc = true)
    (hva : E2E.voidFree a = true) (hvb : E2E.voidFree b = true)
    (HF : HashFaithful o (subterms a ++ subterms b))
    (hv : ∀ z ∈ subterms a ++ subterms b, ValOK nc z)
    (hpth : ∀ h ∈ diffM o a b, PathOK nc h.path)
    (text : String) (hr : renderM nc [] (diffM o a b) = some text) :
    ∃ d', readDiffM nc text = .ok d' ∧ d' = normDiff (diffM o a b) ∧
      ∃ r, patchM a d' = .ok r ∧ patchM a (diffM o a b) = .ok r ∧
        equivB o r b = true ∧ equals o r b = true :=
  E2ES.diff_render_read_patch_set F L nc o hm hk hmg hp a b ha hb hva hvb HF hv hpth text hr

/-- `a.Diff(b).Render()` succeeds when `json.Marshal` succeeds on every sub-term of `a` and `b` and on
    the paths of the diff -/
theorem produced_diff_renders_set (nc : NumCodec) {o : Opts} (hm : DES.SetReading o)
    (hp : precOf o = 0) (hmg : isMerge o = false) (a b : Json) (ha : a.rawDoc = true)
    (hwa : a.wf = true) (hb : b.rawDoc = true) (hwb : b.wf = true)
    (hva : E2E.voidFree a = true) (hvb : E2E.voidFree b = true)
    (FH : DES.DiffFaithful o (subterms a) (subterms b))
    (hmv : ∀ z ∈ subterms a ++ subterms b, (marshalNode nc z).isSome = true)
    (hmp : ∀ h ∈ diffM o a b, (jsonM nc (pathToJson h.path)).isSome = true) :
    ∃ text, renderM nc [] (diffM o a b) = some text :=
  E2ES.diffM_renders_set nc hm hp hmg a b ha hwa hb hwb hva hvb FH hmv hmp

/-- **end to end, SET / MULTISET readings, total form**: the text EXISTS, is read back, and the
    diff read back patches `a` to a document equal to `b` -/
theorem print_read_patch_total_set (F : FloatEq0) (L : FloatLaws) (nc : NumCodec) (o : Opts)
    (hm : dispatchTag o = .set ∨ dispatchTag o = .mset) (hk : keysOf o = none)
    (hmg : isMerge o = false) (hp : precOf o = 0) (a b : Json)
    (ha : a.setDoc = true) (hb : b.setDoc = true)
    (hva : E2E.voidFree a = true) (hvb : E2E.voidFree b = true)
    (HF : HashFaithful o (subterms a ++ subterms b))
    (hv : ∀ z ∈ subterms a ++ subterms b, (marshalNode nc z).isSome = true ∧ ValOK nc z)
    (hpth : ∀ h ∈ diffM o a b, (jsonM nc (pathToJson h.path)).isSome = true ∧ PathOK nc h.path) :
    ∃ text d' r, renderM nc [] (diffM o a b) = some text ∧ readDiffM nc text = .ok d' ∧
      patchM a d' = .ok r ∧ equivB o r b = true ∧ equals o r b = true :=
  E2ES.diff_print_read_patch_set F L nc o hm hk hmg hp a b ha hb hva hvb HF hv hpth

/-- **`voidFree` cannot be dropped in the SET reading either** (model-only boundary). `E2ES.Witness.wA` =
    `[void]`, `wB` = `[]`: both satisfy every hypothesis of the C01 set theorem and of
    `print_read_patch_set` except `voidFree wA` (`HashFaithful` holds), the diff applies IN MEMORY, its
    text is `@ [{}]` alone (a removed void value has no `-` line) and `ReadDiffString` REJECTS it -/
theorem void_element_read_witness_set :
    E2ES.Witness.wA.setDoc = true ∧ E2ES.Witness.wB.setDoc = true ∧
    DPL.memOK E2ES.Witness.wA = true ∧ DPL.memOK E2ES.Witness.wB = true ∧
    HashFaithful [.set] (subterms E2ES.Witness.wA ++ subterms E2ES.Witness.wB) ∧
    E2E.voidFree E2ES.Witness.wA = false ∧ E2E.voidFree E2ES.Witness.wB = true ∧
    patchM E2ES.Witness.wA (diffM [.set] E2ES.Witness.wA E2ES.Witness.wB) = .ok (.arr .set []) ∧
    ∃ text, renderM exCodec [] (diffM [.set] E2ES.Witness.wA E2ES.Witness.wB) = some text ∧
      readDiffM exCodec text = .err :=
  E2ES.Witness.void_element_witness_set

/-! Non-vacuity of (E5): `SetDP.Example.exA` = `{"s":[true,null,{"k":null}]}`, `SetDP.Example.exB` =
    `{"s":[{"k":null},null,false],"t":null}` under `[SET]` and `[MULTISET]` (a `@ ["s",{}]` hunk next to an
    equal object member of the set, and an added member) with the codec `exCodec`: every hypothesis
    is proved in JdProofs/NativeEndToEndSet.lean (`E2ES.Example`: documents, `voidFree_set`,
    `faithful_set`, `vals_set`, `paths_set`); only `FloatEq0` / `FloatLaws` remain. -/

example (F : FloatEq0) (L : FloatLaws) : ∀ o, o = [Opt.set] ∨ o = [Opt.mset] →
    ∃ text d' r, renderM exCodec [] (diffM o SetDP.Example.exA SetDP.Example.exB) = some text ∧
      readDiffM exCodec text = .ok d' ∧ patchM SetDP.Example.exA d' = .ok r ∧
      equivB o r SetDP.Example.exB = true ∧ equals o r SetDP.Example.exB = true :=
  E2ES.Example.ex_set_end_to_end F L

/-- the hypotheses of `produced_diff_text_lossless_set` hold for the pair (no float law at all) -/
example (text : String)
    (hr : renderM exCodec [] (diffM [.set] SetDP.Example.exA SetDP.Example.exB) = some text) :
    ∃ d', readDiffM exCodec text = .ok d' ∧ renderM exCodec [] d' = some text ∧
      ∀ c : Json, patchM c d' = patchM c (diffM [.set] SetDP.Example.exA SetDP.Example.exB) :=
  produced_diff_text_lossless_set exCodec (.inl ⟨rfl, rfl⟩) rfl rfl _ _ (by decide) (by decide)
    (by decide) (by decide) E2ES.Example.voidFree_set.1 E2ES.Example.voidFree_set.2
    (E2ES.Example.faithful_set _ (.inl rfl)) (fun z hz => (E2ES.Example.vals_set z hz).2)
    (fun h hh => (E2ES.Example.paths_set _ (.inl rfl) h hh).2) text hr

/-! ## (E6) Diffs produced by `Diff`, end to end: MERGE strategy, list reading of arrays

  `Merge.mh ks v` is the merge hunk `^ {"Merge":true}` / `@ [ks]` / `+ v` (`merge := true`, path `ks` as
  keys, `add = [v]`, nothing else; `v` void: the bare `+` line, a deletion). `Merge.objVoidFree x`: `x`
  is not void and no object member inside `x` is void. -/

/-- **the premises are theorems about `Diff`, MERGE strategy.** For documents as read from text
    (`b` without void members) `a.Diff(b, MERGE)` is in the reader's domain (`wfDiff`), in the domain of
    the merge same-effect theorem (E3), re-renders identically (`listDocHunk`), and every hunk is a
    merge hunk `Merge.mh ks v` over the keys of the two documents whose value is a list document -/
theorem produced_diff_in_domain_merge (o : Opts) (ho : dispatchTag o = .list)
    (hm : isMerge o = true) (a b : Json) (ha : a.rawDoc = true) (hb : b.rawDoc = true)
    (hv : Merge.objVoidFree b = true) :
    wfDiff (diffM o a b) = true ∧
    (diffM o a b).all (fun h => h.merge && voidOK h) = true ∧
    (diffM o a b).all listDocHunk = true ∧
    (∀ h ∈ diffM o a b, ∃ ks v, h = Merge.mh ks v ∧
      (∀ k ∈ ks, k ∈ E2E.docKeys a ++ E2E.docKeys b) ∧ v.listDoc = true) :=
  E2ES.diffM_premises_mergeList o ho hm a b ha hb hv

/-- the codec contract for `a.Diff(b, MERGE)` from the contract on the sub-terms of `b` (the only
    source of values) and on the paths of the diff -/
theorem produced_diff_codec_merge (nc : NumCodec) (o : Opts) (ho : dispatchTag o = .list)
    (hm : isMerge o = true) (a b : Json) (ha : a.rawDoc = true) (hb : b.rawDoc = true)
    (hvf : Merge.objVoidFree b = true) (hv : ∀ z ∈ subterms b, ValOK nc z)
    (hpth : ∀ h ∈ diffM o a b, PathOK nc h.path) :
    CodecOK nc (diffM o a b) :=
  E2ES.diffM_codecOK_mergeList nc o ho hm a b ha hb hvf hv hpth

/-- the path hypothesis at the level of the inputs: the contract on every key path over the keys of
    the two documents -/
theorem produced_diff_paths_codec_merge (nc : NumCodec) (o : Opts) (ho : dispatchTag o = .list)
    (hm : isMerge o = true) (a b : Json) (ha : a.rawDoc = true) (hb : b.rawDoc = true)
    (hvf : Merge.objVoidFree b = true)
    (hpaths : ∀ ks : List String, (∀ k ∈ ks, k ∈ E2E.docKeys a ++ E2E.docKeys b) →
      PathOK nc (ks.map PathElem.key)) :
    ∀ h ∈ diffM o a b, PathOK nc h.path :=
  E2ES.diffM_pathOK_of_inputs_mergeList nc o ho hm a b ha hb hvf hpaths

/-- **C02 for every diff PRODUCED by `Diff` with the MERGE strategy (list reading).** No hypothesis
    on hashes or numbers, none on `a` beyond "as read from text": the printed text of
    `a.Diff(b, MERGE)` is read back as a diff that renders to the IDENTICAL text and has the same
    effect as the original on EVERY document `c` (same success / failure, same result up to the Go
    type of array nodes) -/
theorem produced_diff_text_lossless_merge (nc : NumCodec) (o : Opts) (ho : dispatchTag o = .list)
    (hm : isMerge o = true) (a b : Json) (ha : a.rawDoc = true) (hb : b.rawDoc = true)
    (hvf : Merge.objVoidFree b = true) (hv : ∀ z ∈ subterms b, ValOK nc z)
    (hpth : ∀ h ∈ diffM o a b, PathOK nc h.path)
    (text : String) (hr : renderM nc [] (diffM o a b) = some text) :
    ∃ d', readDiffM nc text = .ok d' ∧ renderM nc [] d' = some text ∧
      ∀ c : Json,
        Outcome.mapO untag (patchM c d') = Outcome.mapO untag (patchM c (diffM o a b)) :=
  E2ES.diff_text_lossless_mergeList nc o ho hm a b ha hb hvf hv hpth text hr

/-- **`jd -f merge a b | jd -p -f merge a` in the native text, on the model** (the diff value is
    rendered by `Render`, the jd format). `ReadDiffString(text)` succeeds with `d' = normDiff
    (a.Diff(b, MERGE))` (the same merge hunks, values as plain arrays), and `a.Patch(d')` succeeds with a
    document that `Equals` `b` under the options, is equivalent to it and structurally equal to it -/
theorem print_read_patch_merge (L : FloatLaws) (nc : NumCodec) (o : Opts)
    (hm : isMerge o = true) (ho : dispatchTag o = .list) (hprec : precOf o = 0) (a b : Json)
    (haw : a.wf = true) (har : a.rawDoc = true)
    (hbw : b.wf = true) (hbr : b.rawDoc = true) (hbn : b.nullFree = true)
    (hbv : Merge.objVoidFree b = true) (hbf : b.finiteNums = true)
    (hv : ∀ z ∈ subterms b, ValOK nc z)
    (hpth : ∀ h ∈ diffM o a b, PathOK nc h.path)
    (text : String) (hr : renderM nc [] (diffM o a b) = some text) :
    ∃ d', readDiffM nc text = .ok d' ∧ d' = normDiff (diffM o a b) ∧
      ∃ r, patchM a d' = .ok r ∧ equals o r b = true ∧ equivB o r b = true ∧
        specEq r b = true :=
  E2ES.diff_render_read_patch_mergeList L nc o hm ho hprec a b haw har hbw hbr hbn hbv hbf hv hpth
    text hr

/-- `a.Diff(b, MERGE).Render()` succeeds when `json.Marshal` succeeds on every sub-term of `b` and on
    the key paths -/
theorem produced_diff_renders_merge (nc : NumCodec) (o : Opts) (ho : dispatchTag o = .list)
    (hm : isMerge o = true) (a b : Json) (ha : a.rawDoc = true) (hb : b.rawDoc = true)
    (hvf : Merge.objVoidFree b = true)
    (hmv : ∀ z ∈ subterms b, (marshalNode nc z).isSome = true)
    (hmp : ∀ h ∈ diffM o a b, (jsonM nc (pathToJson h.path)).isSome = true) :
    ∃ text, renderM nc [] (diffM o a b) = some text :=
  E2ES.diffM_renders_mergeList nc o ho hm a b ha hb hvf hmv hmp

/-- **end to end, MERGE strategy, list reading, total form** -/
theorem print_read_patch_total_merge (L : FloatLaws) (nc : NumCodec) (o : Opts)
    (hm : isMerge o = true) (ho : dispatchTag o = .list) (hprec : precOf o = 0) (a b : Json)
    (haw : a.wf = true) (har : a.rawDoc = true)
    (hbw : b.wf = true) (hbr : b.rawDoc = true) (hbn : b.nullFree = true)
    (hbv : Merge.objVoidFree b = true) (hbf : b.finiteNums = true)
    (hv : ∀ z ∈ subterms b, (marshalNode nc z).isSome = true ∧ ValOK nc z)
    (hpth : ∀ h ∈ diffM o a b, (jsonM nc (pathToJson h.path)).isSome = true ∧ PathOK nc h.path) :
    ∃ text d' r, renderM nc [] (diffM o a b) = some text ∧ readDiffM nc text = .ok d' ∧
      patchM a d' = .ok r ∧ equals o r b = true ∧ equivB o r b = true ∧ specEq r b = true :=
  E2ES.diff_print_read_patch_mergeList L nc o hm ho hprec a b haw har hbw hbr hbn hbv hbf hv hpth

/-! Non-vacuity of (E6): `MSet.Example.exA` = `{"s":["x","y"],"u":"x","v":["x"]}`, `MSet.Example.exB` =
    `{"s":["y","x"],"t":[true],"v":["x","z"]}` under `[MERGE]` (four merge hunks: `s` and `v` replaced by
    `jsonList` nodes, `u` deleted with a bare `+` line, `t` added): every hypothesis is proved
    (`E2ES.Example.docs_merge`, `vals_merge`, `flat_keys`); only `FloatLaws` remains. -/

example (L : FloatLaws) :
    ∃ text d' r, renderM exCodec [] (diffM [.merge] MSet.Example.exA MSet.Example.exB) = some text ∧
      readDiffM exCodec text = .ok d' ∧ patchM MSet.Example.exA d' = .ok r ∧
      equals [.merge] r MSet.Example.exB = true ∧ equivB [.merge] r MSet.Example.exB = true ∧
      specEq r MSet.Example.exB = true :=
  E2ES.Example.ex_merge_end_to_end L

/-! ## (E7) Diffs produced by `Diff`, end to end: MERGE strategy with the SET / MULTISET reading

  The hypotheses on options and documents are those of the structure `E2ES.SetMergeDom o a b`, written
  out here: `isMerge o`, `dispatchTag o = .set ∨ .mset`, `keysOf o = none`, `precOf o = 0`, `a.setDoc`,
  `b.setDoc`, `b.nullFree`, `Merge.objVoidFree b`, `HashFaithful o (subterms a ++ subterms b)`. -/

/-- **the premises are theorems about `Diff`, SET / MULTISET with MERGE**: a sequence of merge hunks
    over the keys of the two documents, in the domain of the reader (`wfDiff`) and of the merge
    same-effect theorem (E3); every value is void (deletion), a plain document, or a plain array
    re-typed as `jsonSet` / `jsonMultiset` at the top (so `untag v` is a plain document) -/
theorem produced_diff_in_domain_setMerge (F : FloatEq0) {o : Opts} {a b : Json}
    (hmg : isMerge o = true) (hm : dispatchTag o = .set ∨ dispatchTag o = .mset)
    (hk : keysOf o = none) (hp : precOf o = 0) (ha : a.setDoc = true) (hb : b.setDoc = true)
    (hn : b.nullFree = true) (hvf : Merge.objVoidFree b = true)
    (HF : HashFaithful o (subterms a ++ subterms b)) :
    wfDiff (diffM o a b) = true ∧
    (diffM o a b).all (fun h => h.merge && voidOK h) = true ∧
    (∀ h ∈ diffM o a b, ∃ ks v, h = Merge.mh ks v ∧
      (∀ k ∈ ks, k ∈ E2E.docKeys a ++ E2E.docKeys b) ∧ (untag v).rawDoc = true ∧
      (v.rawDoc = true ∨ ∃ ys, rawDocList ys = true ∧ v = .arr (dispatchTag o) ys)) :=
  E2ES.diffM_premises_mergeSet F ⟨hmg, hm, hk, hp, ha, hb, hn, hvf, HF⟩

/-- the codec contract for `a.Diff(b, SET, MERGE)`: the contract on a plain array carries over to the
    typed node (same text, same value read back) -/
theorem produced_diff_codec_setMerge (F : FloatEq0) (nc : NumCodec) {o : Opts} {a b : Json}
    (hmg : isMerge o = true) (hm : dispatchTag o = .set ∨ dispatchTag o = .mset)
    (hk : keysOf o = none) (hp : precOf o = 0) (ha : a.setDoc = true) (hb : b.setDoc = true)
    (hn : b.nullFree = true) (hvf : Merge.objVoidFree b = true)
    (HF : HashFaithful o (subterms a ++ subterms b))
    (hv : ∀ z ∈ subterms b, ValOK nc z) (hpth : ∀ h ∈ diffM o a b, PathOK nc h.path) :
    CodecOK nc (diffM o a b) :=
  E2ES.diffM_codecOK_mergeSet F nc ⟨hmg, hm, hk, hp, ha, hb, hn, hvf, HF⟩ hv hpth

/-- the path hypothesis at the level of the inputs -/
theorem produced_diff_paths_codec_setMerge (F : FloatEq0) (nc : NumCodec) {o : Opts} {a b : Json}
    (hmg : isMerge o = true) (hm : dispatchTag o = .set ∨ dispatchTag o = .mset)
    (hk : keysOf o = none) (hp : precOf o = 0) (ha : a.setDoc = true) (hb : b.setDoc = true)
    (hn : b.nullFree = true) (hvf : Merge.objVoidFree b = true)
    (HF : HashFaithful o (subterms a ++ subterms b))
    (hpaths : ∀ ks : List String, (∀ k ∈ ks, k ∈ E2E.docKeys a ++ E2E.docKeys b) →
      PathOK nc (ks.map PathElem.key)) :
    ∀ h ∈ diffM o a b, PathOK nc h.path :=
  E2ES.diffM_pathOK_of_inputs_mergeSet F nc ⟨hmg, hm, hk, hp, ha, hb, hn, hvf, HF⟩ hpaths

/-- **C02 for every diff PRODUCED by `Diff` with SET / MULTISET and MERGE**: identical text when
    rendered again; same effect on EVERY document up to the Go type of array nodes of the result -/
theorem produced_diff_text_lossless_setMerge (F : FloatEq0) (nc : NumCodec) {o : Opts} {a b : Json}
    (hmg : isMerge o = true) (hm : dispatchTag o = .set ∨ dispatchTag o = .mset)
    (hk : keysOf o = none) (hp : precOf o = 0) (ha : a.setDoc = true) (hb : b.setDoc = true)
    (hn : b.nullFree = true) (hvf : Merge.objVoidFree b = true)
    (HF : HashFaithful o (subterms a ++ subterms b))
    (hv : ∀ z ∈ subterms b, ValOK nc z) (hpth : ∀ h ∈ diffM o a b, PathOK nc h.path)
    (text : String) (hr : renderM nc [] (diffM o a b) = some text) :
    ∃ d', readDiffM nc text = .ok d' ∧ renderM nc [] d' = some text ∧
      ∀ c : Json,
        Outcome.mapO untag (patchM c d') = Outcome.mapO untag (patchM c (diffM o a b)) :=
  E2ES.diff_text_lossless_mergeSet F nc ⟨hmg, hm, hk, hp, ha, hb, hn, hvf, HF⟩ hv hpth text hr

/-- **end to end, MERGE strategy with the SET / MULTISET reading.** The text printed for
    `a.Diff(b, SET, MERGE)` is read back as `d' = normDiff (a.Diff(b, SET, MERGE))`, and the library's
    `a.Patch(d')` succeeds with a document that `Equals` `b` under the options and is equivalent to it
    under the set (bag) reading -/
theorem print_read_patch_setMerge (F : FloatEq0) (L : FloatLaws) (nc : NumCodec) {o : Opts}
    {a b : Json} (hmg : isMerge o = true) (hm : dispatchTag o = .set ∨ dispatchTag o = .mset)
    (hk : keysOf o = none) (hp : precOf o = 0) (ha : a.setDoc = true) (hb : b.setDoc = true)
    (hn : b.nullFree = true) (hvf : Merge.objVoidFree b = true)
    (HF : HashFaithful o (subterms a ++ subterms b))
    (hv : ∀ z ∈ subterms b, ValOK nc z) (hpth : ∀ h ∈ diffM o a b, PathOK nc h.path)
    (text : String) (hr : renderM nc [] (diffM o a b) = some text) :
    ∃ d', readDiffM nc text = .ok d' ∧ d' = normDiff (diffM o a b) ∧
      ∃ r, patchM a d' = .ok r ∧ equals o r b = true ∧ equivB o r b = true :=
  E2ES.diff_render_read_patch_mergeSet F L nc ⟨hmg, hm, hk, hp, ha, hb, hn, hvf, HF⟩ hv hpth text hr

/-- `a.Diff(b, SET, MERGE).Render()` succeeds when `json.Marshal` succeeds on every sub-term of `b` and
    on the key paths -/
theorem produced_diff_renders_setMerge (F : FloatEq0) (nc : NumCodec) {o : Opts} {a b : Json}
    (hmg : isMerge o = true) (hm : dispatchTag o = .set ∨ dispatchTag o = .mset)
    (hk : keysOf o = none) (hp : precOf o = 0) (ha : a.setDoc = true) (hb : b.setDoc = true)
    (hn : b.nullFree = true) (hvf : Merge.objVoidFree b = true)
    (HF : HashFaithful o (subterms a ++ subterms b))
    (hmv : ∀ z ∈ subterms b, (marshalNode nc z).isSome = true)
    (hmp : ∀ h ∈ diffM o a b, (jsonM nc (pathToJson h.path)).isSome = true) :
    ∃ text, renderM nc [] (diffM o a b) = some text :=
  E2ES.diffM_renders_mergeSet F nc ⟨hmg, hm, hk, hp, ha, hb, hn, hvf, HF⟩ hmv hmp

/-- **end to end, SET / MULTISET with MERGE, total form** -/
theorem print_read_patch_total_setMerge (F : FloatEq0) (L : FloatLaws) (nc : NumCodec) {o : Opts}
    {a b : Json} (hmg : isMerge o = true) (hm : dispatchTag o = .set ∨ dispatchTag o = .mset)
    (hk : keysOf o = none) (hp : precOf o = 0) (ha : a.setDoc = true) (hb : b.setDoc = true)
    (hn : b.nullFree = true) (hvf : Merge.objVoidFree b = true)
    (HF : HashFaithful o (subterms a ++ subterms b))
    (hv : ∀ z ∈ subterms b, (marshalNode nc z).isSome = true ∧ ValOK nc z)
    (hpth : ∀ h ∈ diffM o a b, (jsonM nc (pathToJson h.path)).isSome = true ∧ PathOK nc h.path) :
    ∃ text d' r, renderM nc [] (diffM o a b) = some text ∧ readDiffM nc text = .ok d' ∧
      patchM a d' = .ok r ∧ equals o r b = true ∧ equivB o r b = true :=
  E2ES.diff_print_read_patch_mergeSet F L nc ⟨hmg, hm, hk, hp, ha, hb, hn, hvf, HF⟩ hv hpth

/-! Non-vacuity of (E7): the pair of (E6) under `[SET, MERGE]` and `[MULTISET, MERGE]` (`s` is unchanged
    as a set; `v` is replaced by a `jsonSet` / `jsonMultiset` node): every hypothesis is proved
    (`E2ES.Example.dom_setMerge`); only `FloatEq0` / `FloatLaws` remain. -/

example (F : FloatEq0) (L : FloatLaws) : ∀ o, o = [Opt.set, Opt.merge] ∨ o = [Opt.mset, Opt.merge] →
    ∃ text d' r, renderM exCodec [] (diffM o MSet.Example.exA MSet.Example.exB) = some text ∧
      readDiffM exCodec text = .ok d' ∧ patchM MSet.Example.exA d' = .ok r ∧
      equals o r MSet.Example.exB = true ∧ equivB o r MSet.Example.exB = true :=
  E2ES.Example.ex_setMerge_end_to_end F L

/-! ### What the text cannot carry: a strict hunk after a merge hunk

  `E2ES.setMerge m h` is `h` with its Merge flag set to `m`; `E2ES.inheritMerge m d` sets the flag of
  every hunk of `d` to "`m`, or some hunk up to and including this one is a merge hunk". -/

/-- **what `ReadDiffString` returns for ANY rendered hunk sequence** (every hunk in the reader's
    domain, `wfHunk`; NO `mergeMono`): the hunks as `normDiff` describes them, with the Merge flag
    INHERITED from the preceding hunks — a strict hunk that follows a merge hunk comes back as a
    merge hunk. `read_of_render` is the case `mergeMono` (`E2ES.read_render_inherit_mono`) -/
theorem read_of_render_inherits_merge (nc : NumCodec) (d : Diff) (text : String)
    (hw : d.all wfHunk = true) (hc : CodecOK nc d) (hr : renderM nc [] d = some text) :
    readDiffM nc text = .ok (E2ES.inheritMerge false (normDiff d)) :=
  E2ES.read_render_inherit nc d text hw hc hr

/-- with `mergeMono` nothing is inherited that was not there -/
theorem inherits_nothing_when_merge_hunks_come_last (m : Bool) (d : Diff)
    (h : mergeMono m d = true) : E2ES.inheritMerge m d = d :=
  E2ES.inheritMerge_of_mono m d h

/-- **`HashFaithful` cannot be dropped from (E7): a genuine FNV-1a 64 collision** (class of the known
    finding KF-C04-alias; replayed on the Go library). `E2ES.Collision.wa` =
    `{"a":"x","b":["aedb68afb","b7cdeb749"]}`, `wb` = `{"a":"y","b":["a568b3ad2","b76a57d20"]}`,
    `E2ES.Collision.o` = `[SET, MERGE]`: every other hypothesis of `print_read_patch_setMerge` holds; `Diff`
    emits a merge hunk followed by a STRICT set hunk (`wfDiff` false); in memory `Patch` succeeds and the
    result `Equals` the target; the printed text is accepted by `ReadDiffString`, and `Patch` of the
    diff read back is an ERROR -/
theorem setMerge_collision_witness :
    isMerge E2ES.Collision.o = true ∧ dispatchTag E2ES.Collision.o = .set ∧
    keysOf E2ES.Collision.o = none ∧ precOf E2ES.Collision.o = 0 ∧
    E2ES.Collision.wa.setDoc = true ∧ E2ES.Collision.wb.setDoc = true ∧
    E2ES.Collision.wb.nullFree = true ∧ Merge.objVoidFree E2ES.Collision.wb = true ∧
    ¬ HashFaithful E2ES.Collision.o (subterms E2ES.Collision.wa ++ subterms E2ES.Collision.wb) ∧
    (∃ h1 h2, diffM E2ES.Collision.o E2ES.Collision.wa E2ES.Collision.wb = [h1, h2] ∧
      h1.merge = true ∧ h2.merge = false) ∧
    wfDiff (diffM E2ES.Collision.o E2ES.Collision.wa E2ES.Collision.wb) = false ∧
    (∃ r, patchM E2ES.Collision.wa (diffM E2ES.Collision.o E2ES.Collision.wa E2ES.Collision.wb) = .ok r ∧
      equals E2ES.Collision.o r E2ES.Collision.wb = true) ∧
    ∃ text d', renderM exCodec [] (diffM E2ES.Collision.o E2ES.Collision.wa E2ES.Collision.wb)
        = some text ∧
      readDiffM exCodec text = .ok d' ∧ patchM E2ES.Collision.wa d' = .err :=
  E2ES.Collision.collision_witness_setMerge

/-! ## End to end for the SetKeys reading (`jd -setkeys k a b | jd -p`), strict strategy

   Proofs in JdProofs/NativeEndToEndKeys.lean / …KeysB.lean (ns `Jd.E2EK`). Unlike the SET reading the
   diff does descend below keyed path elements; `E2EK.Nav` describes the finitely many paths a diff of `a`
   can have. `ks ≠ []` is needed: under `SetKeys()` `Diff` emits the path element `{}`-as-keys, which the
   text reads back as the set marker (`E2EK.EmptyKeys.emptyKeys_witness`, replayed on the Go library; not
   reachable from the command line). The three fields of `KeysHyp` shown necessary in memory are shown
   necessary through the text as well (`E2EK.KeysHypNeeded.*_breaks_text`). -/

/-- **C02 proper for diffs produced under SetKeys**: the text reads back to a diff that renders to the
    identical text and has the identical outcome on EVERY document -/
theorem diff_text_lossless_setkeys (nc : NumCodec) {o : Opts} {ks : List String}
    (hd : dispatchTag o = .set) (hk : keysOf o = some ks) (hmg : isMerge o = false)
    (hks : ks ≠ []) (a b : Json) (ha : a.rawDoc = true) (hb : b.rawDoc = true)
    (hva : Jd.E2E.voidFree a = true) (hvb : Jd.E2E.voidFree b = true)
    (hv : ∀ z ∈ subterms a ++ subterms b, ValOK nc z)
    (hpth : ∀ h ∈ diffM o a b, PathOK nc h.path)
    (text : String) (hr : renderM nc [] (diffM o a b) = some text) :
    ∃ d', readDiffM nc text = .ok d' ∧ renderM nc [] d' = some text ∧
      ∀ c : Json, patchM c d' = patchM c (diffM o a b) :=
  Jd.E2EK.diff_text_lossless_setkeys nc hd hk hmg hks a b ha hb hva hvb hv hpth text hr

/-- **the end-to-end theorem, SetKeys**: print, read back, apply to `a`: the result `Equals` `b` under
    the options (and is the same document the in-memory patch gives) -/
theorem diff_render_read_patch_setkeys (F : FloatEq0) (L : FloatLaws) (nc : NumCodec) (o : Opts)
    (ks : List String) (hd : dispatchTag o = .set) (hk : keysOf o = some ks)
    (hmg : isMerge o = false) (hp : precOf o = 0) (hks : ks ≠ []) (a b : Json)
    (ha : a.setDoc = true) (hb : b.setDoc = true)
    (hva : Jd.E2E.voidFree a = true) (hvb : Jd.E2E.voidFree b = true)
    (KH : Jd.DPK.KeysHyp o ks a b)
    (hv : ∀ z ∈ subterms a ++ subterms b, ValOK nc z)
    (hpth : ∀ h ∈ diffM o a b, PathOK nc h.path)
    (text : String) (hr : renderM nc [] (diffM o a b) = some text) :
    ∃ d', readDiffM nc text = .ok d' ∧ d' = normDiff (diffM o a b) ∧
      ∃ r, patchM a d' = .ok r ∧ patchM a (diffM o a b) = .ok r ∧
        equals o r b = true ∧ equivB o r b = true ∧ hashCode o r = hashCode o b :=
  Jd.E2EK.diff_render_read_patch_setkeys F L nc o ks hd hk hmg hp hks a b ha hb hva hvb KH hv hpth text hr

end Jd.Props.C02
