/-
  Properties C01, C04, C05 of the v2 library for a `Precision(eps)` option TOGETHER WITH the SET,
  MULTISET or SetKeys reading of arrays (the combinations DESIGN.md §7 lists as "not proved").
  Statements only; the proofs are in JdProofs/SetPrecision.lean (namespace `Jd.SP`).

  WHAT THE CODE DOES (model = code). In the set readings two arrays are compared through their hash
  codes, and the hash code of a number does not depend on the precision. Scalars outside arrays are
  compared by `Equals` with the precision — except inside `Diff`, where `diff_common.go` calls
  `Equals()` WITHOUT the options (KF-C05-precision). Consequently
    * `a.Diff(b, o)` is literally the diff computed without the precision (`diff_ignores_precision`);
    * `Equals(o)` compares numbers within `eps` only OUTSIDE arrays; inside an array (at any depth
      below it) numbers must be equal (`equals_decides_equivP`): C04 as worded ("numbers within eps
      under Precision(eps)") is FALSE for members of arrays (`c04_false_inside_arrays`);
    * diff-then-patch reproduces the target up to `Equals` WITHOUT the precision, hence (monotonicity,
      `equals_monotone_in_precision`) up to `Equals(o)`: C01 HOLDS;
    * the diff is empty iff the documents are Equal WITHOUT the precision; "empty ⇒ Equals(o)" holds,
      "Equals(o) ⇒ empty" is false (`c05_converse_false`).

  NOTATION. `SP.stripPrec o` is the option list `o` with its Precision options removed. Hash
  hypotheses (`HashFaithful`, `DPK.KeysHyp`, `DES.DiffFaithful`, …) are taken for `stripPrec o`: "equal
  hash codes only for nodes equivalent in the exact reading" (for the full `o` the hypothesis would
  be weaker, since `equivB o` is coarser).
  Float hypotheses: `FloatEq0`, `FloatLaws` as everywhere; `DPL.PrecMono o`
  (`|u - v| ≤ 0 → |u - v| ≤ eps`: true for every IEEE `eps ≥ 0`, opaque to the kernel).

  SPEC DOUBT (reported, nothing changed): in the MULTISET reading `equivB` compares bags by a GREEDY
  matching; with a precision "within eps" is not transitive and the greedy matching rejects a
  permutation of a bag (`spec_bag_matching_is_greedy`). Therefore the MULTISET theorems conclude
  `equivB (stripPrec o) r b` (exact bag equivalence) and `equals o r b`, not `equivB o r b`.
-/
import JdProofs.SetPrecision

set_option autoImplicit false

namespace Jd.Props.C01Precision
open Jd Jd.Spec Jd.SP

/-! ## C01 — diff-then-patch reproduces the target -/

/-- **The diff does not see the precision** (SET, MULTISET, SetKeys; strict or MERGE strategy).
    `hm`: the options read arrays as sets or bags; `ha`: the first document is as read from text
    (every array a plain `jsonArray`; a typed `jsonList` node would be compared WITH the precision
    in MERGE mode). Then `a.Diff(b, o...)` is `a.Diff(b, o-without-Precision...)`. -/
theorem diff_ignores_precision (o : Opts)
    (hm : dispatchTag o = .set ∨ dispatchTag o = .mset) (a b : Json) (ha : a.rawDoc = true) :
    diffM o a b = diffM (stripPrec o) a b :=
  diffM_strip o hm a b ha

/-- **C01, SET + Precision, strict strategy.** For documents as read from JSON text (`setDoc`:
    plain arrays, unique sorted keys, finite numbers, no `-0`; `memOK`: no void member), options
    that read arrays as sets (`hd`), without SetKeys (`hk`) and MERGE (`hmg`), when equal hash
    codes occur only for nodes equivalent in the exact reading (`HF`; needed: KF-C04-alias), the
    hunks of `a.Diff(b, o)` apply to `a` with the library's own patch code (either variant `sw` of
    the keyed branch) and the result `Equals` `b` under `o` and is equivalent to `b` for the
    advertised equivalence (sets recursively, numbers within `eps`). `M`: the IEEE fact that
    within-0 implies within-eps. -/
theorem c01_set_precision (F : FloatEq0) (L : FloatLaws) (sw : Bool) (o : Opts)
    (hd : dispatchTag o = .set) (hk : keysOf o = none) (hmg : isMerge o = false)
    (M : DPL.PrecMono o) (a b : Json) (ha : a.setDoc = true) (hb : b.setDoc = true)
    (ha' : DPL.memOK a = true) (hb' : DPL.memOK b = true)
    (HF : HashFaithful (stripPrec o) (subterms a ++ subterms b)) :
    ∃ r, patchAll sw a (diffM o a b) = .ok r ∧ equals o r b = true ∧ equivB o r b = true :=
  diff_then_patch_set_precision F L sw o hd hk hmg M a b ha hb ha' hb' HF

/-- **C01, SET or MULTISET + Precision, strict strategy**: same hypotheses; the result `Equals` `b`
    under `o`, and — stronger — `Equals` it and is equivalent to it WITHOUT the precision (every
    number of the result is a number of `b` or within 0 of one). For MULTISET the conclusion
    `equivB o r b` is not available: `c01_mset_equivB_unavailable`. -/
theorem c01_setmodes_precision (F : FloatEq0) (L : FloatLaws) (sw : Bool) (o : Opts)
    (hm : dispatchTag o = .set ∨ dispatchTag o = .mset) (hk : keysOf o = none)
    (hmg : isMerge o = false) (M : DPL.PrecMono o) (a b : Json)
    (ha : a.setDoc = true) (hb : b.setDoc = true)
    (ha' : DPL.memOK a = true) (hb' : DPL.memOK b = true)
    (HF : HashFaithful (stripPrec o) (subterms a ++ subterms b)) :
    ∃ r, patchAll sw a (diffM o a b) = .ok r ∧ equals o r b = true ∧
      equals (stripPrec o) r b = true ∧ equivB (stripPrec o) r b = true :=
  diff_then_patch_setmodes_precision F L sw o hm hk hmg M a b ha hb ha' hb' HF

/-- **C01, SetKeys + Precision, strict strategy**: under the decidable bundle `DPK.KeysHyp` of the
    SetKeys theorem (identities pairwise distinct within an array, path objects faithful, key tuples
    faithful, no collision; each field shown necessary in JdProps/C01.lean), read for the options
    without the precision. The result `Equals` `b` and is equivalent to it under `o`. -/
theorem c01_setkeys_precision (F : FloatEq0) (L : FloatLaws) (sw : Bool) (o : Opts)
    (ks : List String) (hd : dispatchTag o = .set) (hk : keysOf o = some ks)
    (hmg : isMerge o = false) (M : DPL.PrecMono o) (a b : Json)
    (ha : a.setDoc = true) (hb : b.setDoc = true)
    (ha' : DPL.memOK a = true) (hb' : DPL.memOK b = true)
    (K : DPK.KeysHyp (stripPrec o) ks a b) :
    ∃ r, patchAll sw a (diffM o a b) = .ok r ∧ equals o r b = true ∧ equivB o r b = true := by
  obtain ⟨r, h1, h2, h3, _⟩ :=
    diff_then_patch_setkeys_precision F L sw o ks hd hk hmg M a b ha hb ha' hb' K
  exact ⟨r, h1, h2, h3⟩

/-- **C01, MERGE + SET / MULTISET + Precision** (in memory): `b` null-free and without void
    (the domain of merge patches). The last conjunct gives the advertised equivalence under `o` in
    the SET reading. -/
theorem c01_merge_setmodes_precision (F : FloatEq0) (L : FloatLaws) (sw : Bool) (o : Opts)
    (hmg : isMerge o = true) (hm : dispatchTag o = .set ∨ dispatchTag o = .mset)
    (hk : keysOf o = none) (M : DPL.PrecMono o) (a b : Json)
    (ha : a.setDoc = true) (hb : b.setDoc = true) (hbn : b.nullFree = true)
    (hbv : Merge.objVoidFree b = true)
    (HF : HashFaithful (stripPrec o) (subterms a ++ subterms b)) :
    ∃ r, patchAll sw a (diffM o a b) = .ok r ∧ equals o r b = true ∧
      equals (stripPrec o) r b = true ∧ equivB (stripPrec o) r b = true ∧
      (dispatchTag o = .set → equivB o r b = true) :=
  merge_diff_then_patch_setmodes_precision F L sw o hmg hm hk M a b ha hb hbn hbv HF

/-- **C01, SetKeys + MERGE + Precision: holds exactly on the pairs without a clash** (`KM.clash`,
    decidable, read without the precision: two members of one array with the same identity and
    different content on both sides — outside the SetKeys precondition, or KF-C01-identperm; then
    `Diff` emits a merge hunk below a keyed path element, which `Patch` rejects). `b` null-free and
    void-free (domain of merge patches); `HF` as above. -/
theorem c01_setkeys_merge_precision_iff (F : FloatEq0) (L : FloatLaws) (sw : Bool)
    (o : Opts) (hmg : isMerge o = true) (hd : dispatchTag o = .set) (M : DPL.PrecMono o)
    (a b : Json) (ha : a.setDoc = true) (hb : b.setDoc = true)
    (HF : HashFaithful (stripPrec o) (subterms a ++ subterms b))
    (hbn : b.nullFree = true) (hbv : Merge.objVoidFree b = true) :
    (∃ r, patchAll sw a (diffM o a b) = .ok r ∧ equals o r b = true ∧ equivB o r b = true)
      ↔ KM.clash (stripPrec o) a b = false :=
  merge_diff_then_patch_setkeys_precision_iff F L sw o hmg hd M a b ha hb HF hbn hbv

/-- the library calls `a.Patch(a.Diff(b, SET, Precision(eps)))` and
    `a.Patch(a.Diff(b, MULTISET, Precision(eps)))` -/
theorem c01_patchM_SET_Precision (F : FloatEq0) (L : FloatLaws) (eps : UInt64)
    (M : DPL.PrecMono [.set, .prec eps]) (a b : Json) (ha : a.setDoc = true) (hb : b.setDoc = true)
    (ha' : DPL.memOK a = true) (hb' : DPL.memOK b = true)
    (HF : HashFaithful [.set] (subterms a ++ subterms b)) :
    ∃ r, patchM a (diffM [.set, .prec eps] a b) = .ok r ∧ equals [.set, .prec eps] r b = true ∧
      equivB [.set, .prec eps] r b = true :=
  diff_then_patch_set_precision F L true [.set, .prec eps] rfl rfl rfl M a b ha hb ha' hb' HF

theorem c01_patchM_MULTISET_Precision (F : FloatEq0) (L : FloatLaws) (eps : UInt64)
    (M : DPL.PrecMono [.mset, .prec eps]) (a b : Json) (ha : a.setDoc = true)
    (hb : b.setDoc = true) (ha' : DPL.memOK a = true) (hb' : DPL.memOK b = true)
    (HF : HashFaithful [.mset] (subterms a ++ subterms b)) :
    ∃ r, patchM a (diffM [.mset, .prec eps] a b) = .ok r ∧
      equals [.mset, .prec eps] r b = true ∧ equivB [.mset] r b = true := by
  obtain ⟨r, h1, h2, _, h4⟩ := diff_then_patch_setmodes_precision F L true [.mset, .prec eps]
    (.inr rfl) rfl rfl M a b ha hb ha' hb' HF
  exact ⟨r, h1, h2, h4⟩

/-- **Why the MULTISET theorem does not conclude `equivB o r b`** (a weakness of the SPEC, not of
    the code): `a = [1, 1.001, 0.999]`, `b = [0.999, 1, 1.001]` (a permutation), MULTISET +
    `Precision(eps)` with `|1 - 0.999| ≤ eps`, `|1.001 - 1| ≤ eps`, not `|0.999 - 1.001| ≤ eps` (three
    IEEE facts, true for `eps = 0.0015`; see the `#eval` below): the diff is empty, the patched
    document is `a`, `Equals` says yes, and the greedy bag matching of `equivB` says no.
    Confirmed on the Go code (Equals true, empty diff). -/
theorem c01_mset_equivB_unavailable (eps : UInt64)
    (h1 : numWithin eps Witness.one Witness.n999 = true)
    (h2 : numWithin eps Witness.n1001 Witness.one = true)
    (h3 : numWithin eps Witness.n999 Witness.n1001 = false) :
    patchM Witness.ga (diffM [.mset, .prec eps] Witness.ga Witness.gb) = .ok Witness.ga ∧
    equals [.mset, .prec eps] Witness.ga Witness.gb = true ∧
    equivB [.mset, .prec eps] Witness.ga Witness.gb = false :=
  Witness.mset_equivB_conclusion_fails eps h1 h2 h3

/-- **`PrecMono` is needed** (any option list): were a number within `+0` of another but not within
    the precision — impossible in IEEE arithmetic for `eps ≥ +0`, but the case of `x = y` under a
    negative or NaN precision, which `Precision(-1)` allows — the diff is empty, the patched
    document is `x`, and it does not `Equals` the target under `o`. -/
theorem c01_precMono_needed (sw : Bool) (o : Opts) (x y : UInt64) (h0 : numWithin 0 x y = true)
    (h1 : numWithin (precOf o) x y = false) :
    patchAll sw (.num x) (diffM o (.num x) (.num y)) = .ok (.num x) ∧
      equals o (.num x) (.num y) = false :=
  Witness.precMono_used sw o x y h0 h1

/-! ## C04 — what `Equals` decides -/

/-- **`Equals` is monotone in the precision**, every reading, every array tag: Equal under options
    `o'` without a precision (`hp`) that read arrays like `o` (`h`) ⇒ Equal under `o`.
    `M`: within-0 implies within-eps. -/
theorem equals_monotone_in_precision {o o' : Opts} (h : dispatchTag o' = dispatchTag o)
    (hp : precOf o' = 0) (M : DPL.PrecMono o) (a b : Json) (e : equals o' a b = true) :
    equals o a b = true :=
  equals_mono h hp M a b e

/-- **C04, SET / MULTISET / SetKeys + Precision (partial: relative to `HashFaithful` for the exact
    reading).** For documents as read from text, `Equals(o)` decides exactly `SP.equivP o`: numbers
    outside arrays within `eps`, objects member by member, an array together with everything below
    it as a set / bag for the equivalence WITHOUT the precision. -/
theorem equals_decides_equivP (F : FloatEq0) (o : Opts)
    (hm : dispatchTag o = .set ∨ dispatchTag o = .mset) (a b : Json)
    (ha : a.setDoc = true) (hb : b.setDoc = true)
    (hf : HashFaithful (stripPrec o) (subterms a ++ subterms b)) :
    equals o a b = equivP o a b :=
  equals_eq_equivP F o hm a b ha hb hf

/-- without a Precision option `equivP` IS the advertised equivalence (so the theorem above
    specialises to the existing C04 theorem) -/
theorem equivP_is_equivB_without_precision (o : Opts) (hs : stripPrec o = o) (a b : Json) :
    equivP o a b = equivB o a b :=
  equivP_eq_equivB_noPrec o hs a b

/-- SET / SetKeys reading: what `Equals` decides is FINER than the advertised equivalence -/
theorem equivP_finer_than_advertised {o : Opts} (hd : dispatchTag o = .set) (M : DPL.PrecMono o)
    (a b : Json) (e : equivP o a b = true) : equivB o a b = true :=
  equivB_of_equivP hd M a b e

/-- **C04 as worded is FALSE inside arrays**: `[1]` vs `[1.00001]` under SET (or MULTISET) +
    `Precision(eps)`: equivalent for the advertised equivalence as soon as `|1 - 1.00001| ≤ eps`
    (`h1`, an IEEE fact, true for `eps = 0.001`), but `Equals` says NO, for EVERY `eps`.
    Confirmed on the Go code. -/
theorem c04_false_inside_arrays (eps : UInt64)
    (h1 : numWithin eps Witness.one Witness.oneE = true) :
    equals [.set, .prec eps] Witness.wa Witness.wb = false ∧
    equivB [.set, .prec eps] Witness.wa Witness.wb = true ∧
    equals [.mset, .prec eps] Witness.wa Witness.wb = false ∧
    equivB [.mset, .prec eps] Witness.wa Witness.wb = true :=
  Witness.equals_exact_inside_arrays eps h1

/-- **Spec doubt**: the bag comparison of `equivB` is a greedy matching; under a precision it
    rejects a permutation of a bag which `Equals` (rightly) accepts. -/
theorem spec_bag_matching_is_greedy (eps : UInt64)
    (h1 : numWithin eps Witness.one Witness.n999 = true)
    (h2 : numWithin eps Witness.n1001 Witness.one = true)
    (h3 : numWithin eps Witness.n999 Witness.n1001 = false) :
    equals [.mset, .prec eps] Witness.ga Witness.gb = true ∧
    equivB [.mset, .prec eps] Witness.ga Witness.gb = false :=
  Witness.greedy_bag_not_monotone eps h1 h2 h3

/-! ## C05 — empty diff ⇔ Equals -/

/-- **C05 (⇒), SET / MULTISET + Precision, strict or MERGE**: an empty diff means `Equals` under
    the options — and even without the precision. No hash hypothesis. `a` as read from text, unique
    sorted keys in both documents. -/
theorem c05_empty_diff_implies_equals (o : Opts) (hm : DES.SetReading o) (M : DPL.PrecMono o)
    (a b : Json) (hr : a.rawDoc = true) (hw : a.wf = true) (hw' : b.wf = true)
    (h : diffM o a b = []) : equals o a b = true ∧ equals (stripPrec o) a b = true :=
  equals_of_diffM_nil_precision o hm M a b hr hw hw' h

/-- **C05, what is true with a Precision** (SET / MULTISET, strict or MERGE): the diff is empty iff
    the documents are Equal WITHOUT the precision; (⇐) relative to the decidable `DiffFaithful`
    (needed already without a precision: FNV collision witness in JdProps/C05.lean). -/
theorem c05_empty_diff_iff_equals_without_precision (o : Opts) (hm : DES.SetReading o) (a b : Json)
    (hr : a.rawDoc = true) (hw : a.wf = true) (hw' : b.wf = true)
    (FH : DES.DiffFaithful (stripPrec o) (subterms a) (subterms b)) :
    diffM o a b = [] ↔ equals (stripPrec o) a b = true :=
  diffM_nil_iff_equals_strip o hm a b hr hw hw' FH

/-- **C05 with SetKeys + Precision**: the same iff, under the hypotheses of the SetKeys theorem of
    C05 (identities tell members apart, objects are not hashed like non-objects, no harmful
    collision) read without the precision; and empty ⇒ `Equals(o)`. -/
theorem c05_setkeys_precision (F : FloatEq0) (o : Opts) (hd : dispatchTag o = .set)
    (a b : Json) (ha : a.setDoc = true) (hb : b.setDoc = true)
    (IA : DES.IdentInj (stripPrec o) (subterms a)) (IB : DES.IdentInj (stripPrec o) (subterms b))
    (KI : DES.KindSepI (stripPrec o) (subterms a) (subterms b))
    (KH : DES.KindSepH (stripPrec o) (subterms a) (subterms b))
    (FH : DES.DiffFaithful (stripPrec o) (subterms a) (subterms b)) :
    (diffM o a b = [] ↔ equals (stripPrec o) a b = true) ∧
    (DPL.PrecMono o → diffM o a b = [] → equals o a b = true) :=
  diffM_nil_iff_equals_strip_keys F o hd a b ha hb IA IB KI KH FH

/-- **C05 (⇐) is FALSE with a Precision in every set reading** (KF-C05-precision, numbers outside
    arrays): `{"a":x}` vs `{"a":y}` with `|x - y| ≤ eps` (`h1`) but not `|x - y| ≤ 0` (`h0`), ANY
    option list `o` (SET, MULTISET, SetKeys, with or without MERGE): Equal, and the diff is not
    empty. Confirmed on the Go code for `x = 1`, `y = 1.00001`, `eps = 0.001`. -/
theorem c05_converse_false (o : Opts) (x y : UInt64) (h1 : numWithin (precOf o) x y = true)
    (h0 : numWithin 0 x y = false) :
    equals o (.obj [("a", .num x)]) (.obj [("a", .num y)]) = true ∧
    diffM o (.obj [("a", .num x)]) (.obj [("a", .num y)]) ≠ [] :=
  Witness.converse_fails_member o x y h1 h0

/-! ## Non-vacuity -/

/-- the decidable hypotheses of the SET / MULTISET theorems hold on
    `{"n":1,"s":[1,{"k":2}]}` → `{"n":1.00001,"s":[{"k":2},1.00001]}` with `Precision(0.001)` -/
example : Example.exA.setDoc = true ∧ Example.exB.setDoc = true ∧
    DPL.memOK Example.exA = true ∧ DPL.memOK Example.exB = true ∧
    dispatchTag Example.oS = .set ∧ keysOf Example.oS = none ∧ isMerge Example.oS = false ∧
    precOf Example.oS = Example.eps ∧ stripPrec Example.oS = [.set] :=
  ⟨Example.ex_docs.1, Example.ex_docs.2.1, Example.ex_docs.2.2.1, Example.ex_docs.2.2.2,
    rfl, rfl, rfl, rfl, rfl⟩

/-- … and `HashFaithful` too, relative to reflexivity of `|x - x| ≤ 0` -/
example (L : FloatLaws) :
    HashFaithful (stripPrec Example.oS) (subterms Example.exA ++ subterms Example.exB) :=
  Example.ex_hashFaithful_set L

/-- so the SET theorem describes an actual run (two hunks: see the `#eval` below) -/
theorem example_set_run (F : FloatEq0) (L : FloatLaws) (M : DPL.PrecMono Example.oS) :
    ∃ r, patchM Example.exA (diffM Example.oS Example.exA Example.exB) = .ok r ∧
      equals Example.oS r Example.exB = true ∧ equivB Example.oS r Example.exB = true :=
  Example.ex_set F L M

theorem example_mset_run (F : FloatEq0) (L : FloatLaws) (M : DPL.PrecMono Example.oM) :
    ∃ r, patchM Example.exA (diffM Example.oM Example.exA Example.exB) = .ok r ∧
      equals Example.oM r Example.exB = true ∧ equals [.mset] r Example.exB = true ∧
      equivB [.mset] r Example.exB = true :=
  Example.ex_mset F L M

/-- SetKeys + Precision: the example of the SetKeys theorem (JdProofs/DiffPatchKeys, `ExampleB`)
    satisfies `KeysHyp` for `[SetKeys("id","k"), Precision(0.001)]` (its documents hold no numbers:
    the hypotheses are about hash codes and identities only) -/
theorem example_setkeys_run (F : FloatEq0) (L : FloatLaws)
    (M : DPL.PrecMono [.setKeys ["id", "k"], .prec Example.eps]) :
    ∃ r, patchM DPK.ExampleB.exA
        (diffM [.setKeys ["id", "k"], .prec Example.eps] DPK.ExampleB.exA DPK.ExampleB.exB) = .ok r ∧
      equals [.setKeys ["id", "k"], .prec Example.eps] r DPK.ExampleB.exB = true ∧
      equivB [.setKeys ["id", "k"], .prec Example.eps] r DPK.ExampleB.exB = true :=
  c01_setkeys_precision F L true [.setKeys ["id", "k"], .prec Example.eps] ["id", "k"] rfl rfl rfl M
    DPK.ExampleB.exA DPK.ExampleB.exB DPK.ExampleB.ex_docs.1 DPK.ExampleB.ex_docs.2.1
    DPK.ExampleB.ex_docs.2.2.1 DPK.ExampleB.ex_docs.2.2.2 DPK.ExampleB.ex_keysHyp

/-- the hypotheses of the (⇐) witness of C05 are the two IEEE facts; those of C05 (⇒) hold on the
    example pair (whose diff is not empty) and on `ga`, `gb` (whose diff is empty) -/
example : DES.SetReading Example.oM ∧ Witness.ga.rawDoc = true ∧ Witness.ga.wf = true ∧
    Witness.gb.wf = true ∧ DES.DiffFaithful [.mset] (subterms Witness.ga) (subterms Witness.gb) :=
  ⟨.inr rfl, by decide, by decide, by decide, Witness.g_faithful⟩

end Jd.Props.C01Precision

-- the runs of the examples on the model (the runtime evaluates the floats)
#eval Jd.diffM Jd.SP.Example.oS Jd.SP.Example.exA Jd.SP.Example.exB
#eval Jd.patchM Jd.SP.Example.exA (Jd.diffM Jd.SP.Example.oS Jd.SP.Example.exA Jd.SP.Example.exB)
-- the IEEE facts the witness theorems take as hypotheses, evaluated by the runtime:
-- |1 - 1.00001| ≤ 0.001, not ≤ 0; |1 - 0.999| ≤ 0.0015, |1.001 - 1| ≤ 0.0015, not |0.999 - 1.001| ≤ 0.0015
#eval (Jd.numWithin Jd.SP.Example.eps Jd.SP.Witness.one Jd.SP.Witness.oneE,
       Jd.numWithin 0 Jd.SP.Witness.one Jd.SP.Witness.oneE,
       Jd.numWithin 0x3f589374bc6a7efa Jd.SP.Witness.one Jd.SP.Witness.n999,
       Jd.numWithin 0x3f589374bc6a7efa Jd.SP.Witness.n1001 Jd.SP.Witness.one,
       Jd.numWithin 0x3f589374bc6a7efa Jd.SP.Witness.n999 Jd.SP.Witness.n1001)
-- the witnesses on the model: (Equals, equivB) of [1] vs [1.00001] under SET+Precision(0.001); of the bags
#eval (Jd.equals [.set, .prec Jd.SP.Example.eps] Jd.SP.Witness.wa Jd.SP.Witness.wb,
       Jd.Spec.equivB [.set, .prec Jd.SP.Example.eps] Jd.SP.Witness.wa Jd.SP.Witness.wb,
       Jd.equals [.mset, .prec 0x3f589374bc6a7efa] Jd.SP.Witness.ga Jd.SP.Witness.gb,
       Jd.Spec.equivB [.mset, .prec 0x3f589374bc6a7efa] Jd.SP.Witness.ga Jd.SP.Witness.gb,
       Jd.diffM [.mset, .prec 0x3f589374bc6a7efa] Jd.SP.Witness.ga Jd.SP.Witness.gb)
