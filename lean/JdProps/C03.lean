/-
  Property C03 — strict patches apply only where they match; bad patches are rejected.
  Statement file: property theorems only (proofs in JdProofs/StrictPatch.lean).

  Model side: `patchNode` / `patchAll` (JdModel/Patch.lean) = the library's `Patch`.
  Spec side: `applyStrict` / `applyStrictAll` (JdSpec/HunkSem.lean) = the documented meaning of a
  strict hunk: navigate keys and indices; replace a value that must be what the hunk removes, or
  splice a list at an index with the before / after context checked against the neighbours.
  Documents: `listDoc` (arrays are plain or list-typed), hunk values likewise. Results are compared
  up to the Go dynamic type of array nodes (`untag`).
-/
import JdProofs.StrictPatch

namespace Jd.Props.C03
open Jd Jd.Spec

/-- one strict hunk with a key/index path: the library IS the reference interpreter -/
theorem patch_eq_reference (sw : Bool) (n : Json) (h : Hunk) (p : Path)
    (hp : strictPath p = true) (hn : n.listDoc = true) (hh : hunkListDoc h = true) :
    Outcome.mapO untag (patchNode sw false n p h.before h.remove h.add h.after)
      = Outcome.mapO untag (optToOutcome (applyStrict n p h)) :=
  patchNode_strict_eq_ref sw n h p hp hn hh

/-- any sequence of strict hunks (hence any sub-sequence of a generated list-mode diff) -/
theorem patchAll_eq_reference (sw : Bool) (n : Json) (d : Diff)
    (hd : d.all (fun h => !h.merge && strictPath h.path && hunkListDoc h) = true) (hn : n.listDoc = true) :
    Outcome.mapO untag (patchAll sw n d) = Outcome.mapO untag (optToOutcome (applyStrictAll n d)) :=
  patchAll_strict_eq_ref sw n d hd hn

/-- the patch applies exactly when every expectation encoded in the hunks holds; it never panics -/
theorem applies_iff (sw : Bool) (n : Json) (d : Diff)
    (hd : d.all (fun h => !h.merge && strictPath h.path && hunkListDoc h) = true) (hn : n.listDoc = true) :
    ((∃ r, patchAll sw n d = .ok r) ↔ (applyStrictAll n d).isSome = true) ∧ patchAll sw n d ≠ .panic :=
  ⟨strictAll_applies_iff sw n d hd hn, patchAll_ne_panic sw n d⟩

/-- otherwise it is an error -/
theorem rejects_iff (sw : Bool) (n : Json) (d : Diff)
    (hd : d.all (fun h => !h.merge && strictPath h.path && hunkListDoc h) = true) (hn : n.listDoc = true) :
    patchAll sw n d = .err ↔ applyStrictAll n d = none :=
  strictAll_rejects_iff sw n d hd hn

/-- and when it applies, the document is the one the hunks describe: never a silently different one -/
theorem result_is_reference (sw : Bool) (n : Json) (d : Diff) (r : Json)
    (hd : d.all (fun h => !h.merge && strictPath h.path && hunkListDoc h) = true) (hn : n.listDoc = true)
    (hr : patchAll sw n d = .ok r) :
    ∃ m, applyStrictAll n d = some m ∧ untag r = untag m :=
  strictAll_result sw n d hd hn r hr

end Jd.Props.C03
