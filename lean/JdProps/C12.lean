/-
  Property C12 — RFC 7386 input is applied as the RFC specifies.
  Statement file (proofs in JdProofs/MergeProofs.lean, namespace `Jd.Merge`).

  Model side: `readMergeDoc p` (JdModel/MergeFmt.lean) is `ReadMergeString` after JSON decoding: the
  merge hunks jd reads from the patch DOCUMENT `p`; `patchAll true t d` is `t.Patch(d)` as the code is.
  Spec side: `mergePatch t p` (JdSpec/Rfc7386.lean) is the pseudocode of RFC 7386 section 2: objects
  merge recursively, `null` deletes a member, any non-object patch value replaces the target.

  THE PROPERTY AS WORDED ("for every target and every patch document") IS FALSE on the code as it
  is. What is proved is sharper than a partial statement: an IFF —
      reading `p` and applying it to `t` gives EXACTLY `MergePatch(t, p)`  ⇔  `Clean t p`
  (equality of documents, array tags included), where `Clean` (decidable, defined in
  JdProofs/MergeProofs.lean and re-exported here through `open Jd.Merge`) excludes exactly three
  classes, each of them inhabited (witness theorems below):
    (a) patch `{}` at the root and the target is not an object   — jd: no-op; RFC: `{}`
        (known finding KF-C12-emptyobj);
    (b) patch has `{}` where the target holds a non-empty object — jd: member replaced by `{}`; RFC:
        unchanged (KF-C12-emptyobj);
    (c) patch `null` at the root                                 — jd: void (no document); RFC: `null`
        (KF-C12-rootnull).
  So `Clean` is the WEAKEST restriction under which the property holds.

  HYPOTHESES and why
    `t.wf`, `p.wf`: unique sorted object keys (what a Go map / the JSON reader guarantees);
    `objVoidFree p`: the patch document contains no void (a JSON reader never produces one).
-/
import JdProofs.MergeProofs
import JdProps.C09Text

namespace Jd.Props.C12
open Jd Jd.Spec Jd.Merge

/-- **C12, sharp form**: the library's result is exactly `MergePatch(t, p)` if and only if the pair
    is outside the three known classes -/
theorem read_apply_is_mergePatch_iff_clean (t p : Json) (ht : t.wf = true) (hp : p.wf = true)
    (hv : objVoidFree p = true) :
    patchAll true t (readMergeDoc p) = .ok (mergePatch t p) ↔ Clean t p = true :=
  merge_read_apply_iff t p ht hp hv

/-- **C12 on its domain** (the direction used as the property) -/
theorem read_apply_is_mergePatch (t p : Json) (ht : t.wf = true) (hp : p.wf = true)
    (hv : objVoidFree p = true) (hc : Clean t p = true) :
    patchAll true t (readMergeDoc p) = .ok (mergePatch t p) :=
  merge_read_apply_partial t p ht hp hv hc

/-- the same with the library entry point `patchM` and up to array tags (existential phrasing) -/
theorem read_apply_is_mergePatch_untag (t p : Json) (ht : t.wf = true) (hp : p.wf = true)
    (hv : objVoidFree p = true) (hc : Clean t p = true) :
    ∃ r, patchM t (readMergeDoc p) = .ok r ∧ untag r = untag (mergePatch t p) :=
  merge_read_apply_partial_untag t p ht hp hv hc

/-- outside `Clean` the library's result is NOT the RFC 7386 result -/
theorem read_apply_differs_outside_clean (t p : Json) (ht : t.wf = true) (hp : p.wf = true)
    (hv : objVoidFree p = true) (hc : Clean t p = false) :
    patchAll true t (readMergeDoc p) ≠ .ok (mergePatch t p) :=
  merge_read_apply_unclean t p ht hp hv hc

/-! ### The three classes are inhabited (counter-witnesses, by evaluation) -/

/-- (a) patch `{}` at the root, target a number: the library does nothing, RFC 7386 gives `{}` -/
theorem witness_root_empty_object (one : UInt64) :
    patchAll true (.num one) (readMergeDoc (.obj [])) = .ok (.num one) ∧
    mergePatch (.num one) (.obj []) = .obj [] ∧ Clean (.num one) (.obj []) = false :=
  Jd.Merge.witness_root_empty_object one

/-- (b) patch `{"a":{}}`, target `{"a":{"b":1}}`: the library replaces the member by `{}`, RFC 7386
    leaves the target unchanged -/
theorem witness_nested_empty_object (one : UInt64) :
    patchAll true (.obj [("a", .obj [("b", .num one)])]) (readMergeDoc (.obj [("a", .obj [])]))
      = .ok (.obj [("a", .obj [])]) ∧
    mergePatch (.obj [("a", .obj [("b", .num one)])]) (.obj [("a", .obj [])])
      = .obj [("a", .obj [("b", .num one)])] ∧
    Clean (.obj [("a", .obj [("b", .num one)])]) (.obj [("a", .obj [])]) = false :=
  Jd.Merge.witness_nested_empty_object one

/-- (c) patch `null` at the root: the library returns void (no document), RFC 7386 gives `null` -/
theorem witness_root_null (t : Json) :
    patchAll true t (readMergeDoc .null) = .ok .void ∧ mergePatch t .null = .null ∧
    Clean t .null = false :=
  Jd.Merge.witness_root_null t

/-! Non-vacuity: target `{"a":{"b":"x","c":"y"},"d":"z"}`, patch `{"a":{"b":null,"e":{}},"d":["w"]}`
    (a null deleting at depth, an empty object over an absent key, an array replacing a scalar) is
    inside `Clean` and satisfies the hypotheses; the theorem gives the library's result. -/

private def exT : Json := .obj [("a", .obj [("b", .str "x"), ("c", .str "y")]), ("d", .str "z")]
private def exP : Json := .obj [("a", .obj [("b", .null), ("e", .obj [])]), ("d", .arr .raw [.str "w"])]

example : exT.wf = true ∧ exP.wf = true ∧ objVoidFree exP = true ∧ Clean exT exP = true := by
  decide

example : patchAll true exT (readMergeDoc exP) = .ok (mergePatch exT exP) :=
  read_apply_is_mergePatch exT exP (by decide) (by decide) (by decide) (by decide)

end Jd.Props.C12
