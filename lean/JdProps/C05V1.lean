/-
  Property C05, second sentence — "Consequently the CLI exits 0 exactly when the two inputs are equal
  under the flags given and 1 exactly when they differ" — and C14 ("exit 0 when there is no
  difference, 1 when there is, 2 on any error"), for the V1 LIBRARY: /repo/main.go (binary B) started
  with `-v2=false` calls package `lib` (model: `JdModel/V1/*`).
  Statement file. Proofs: JdProofs/CliExitCodesV1.lean (namespace `Jd.CliExitV1`).
  (JdProps/C05.lean states the clause for the v2 library.)

  HOW v1 MODE DECIDES THE EXIT STATUS (`diff` / `printDiff` of /repo/main.go): native format from the
  TEXT (`str != ""`), `-f patch` from the TEXT (`str != "[]"`), `-f merge` from `len(diff) > 0`; an
  error of `RenderPatch` / `RenderMerge` exits 2.

  VOCABULARY
    `CliRT.proc Ls b fl e`   THE PROCESS (JdProofs/CliRoundTrip.lean): the decision logic of `main`
                             run on what the library `Ls plan.v1` returns; `Ls true` is the v1 library;
    `CliV1.v1Lib nc Y`       the v1 library of the model as a `Lib` (JdProofs/CliRoundTripV1.lean);
    `CliV1.metasOf opts`     the `[]jd.Metadata` that `parseMetadata` built, as `V1.Metas`;
    `CliExitV1.DiffRun nc Y Ls b fl e a b'`   THE SITUATION: `Ls true = v1Lib nc Y`; `fl` is a diff
                             command line (no `-version`, `-port`, `-git-diff-driver`, `-p`, `-t`);
                             `libIsV1 b fl` (binary B with `-v2=false`); one or two arguments; both
                             inputs are read and parse (v1 reader for `-yaml`) to `a`, `b'`; writing
                             the `-o` file succeeds where asked for.  All about the command line and
                             the OS, none about the library;
    `ho : parsedOptions b fl = ok opts`   `main` accepted the flags (well-formed `-setkeys`, no
                             `-precision` with `-set` / `-mset`);
    `V1.equals (metasOf opts) a b'`       `a.Equals(b, metadata...)` of the v1 library.
-/
import JdProofs.CliExitCodesV1

set_option autoImplicit false

namespace Jd.Props.C05V1
open Jd Jd.Spec Jd.Cli Jd.CliRT Jd.CliRTM Jd.CliV1 Jd.CliExitV1

variable {nc : NumCodec} {Y : YamlCarrier} {Ls : Bool → LibPack} {b : Binary} {fl : Flags} {e : Env}
  {a b' : Json}

/-- **the two ways a v1 diff run ends.** In the situation `R`, with the flags accepted (`ho`) and a
    known format (`hf`): either the renderer of the format returned a text `T` — then `T` is what
    leaves the program (stdout or the `-o` file), nothing is logged, and the exit status is 1 when
    `haveDiff` (`T ≠ ""` / `T ≠ "[]"` / `len(diff) > 0`) and 0 otherwise — or the renderer
    (`RenderPatch`, `RenderMerge`) returned an error and the exit status is 2.  Nothing else. -/
theorem v1_exit_cases (R : DiffRun nc Y Ls b fl e a b') {opts : List Opt}
    (ho : parsedOptions b fl = .ok opts) {fmt : Format} (hf : formatOf fl.f = some fmt) :
    (∃ T, renderAs (v1Lib nc Y) fmt fl.color (V1.liftDiff (V1.diffM (metasOf opts) a b')) = .ok T ∧
      (proc Ls b fl e).exit = (if haveDiffOf fmt T (V1.diffM (metasOf opts) a b') then 1 else 0) ∧
      emitted (proc Ls b fl e) = T ∧ (proc Ls b fl e).stderr = "") ∨
    (∃ msg, renderAs (v1Lib nc Y) fmt fl.color (V1.liftDiff (V1.diffM (metasOf opts) a b')) =
        .error msg ∧ (proc Ls b fl e).exit = 2) :=
  exit_cases R ho hf

/-- **C05 on the process, v1 library, native format, list reading.**
    `jd -v2=false [-setkeys ks] [-precision eps] [-color] [-yaml] [-o F] a b` exits 0 exactly when
    `a.Equals(b, metadata...)`, exits 1 exactly when not, and never exits 2.
    `P`: neither `-set` nor `-mset` (in v1 `-setkeys` alone leaves arrays lists). ANY `-precision`:
    v1 `Diff` compares numbers with the metadata, so — unlike the v2 library (KF-C05-precision) —
    the clause holds with a precision. `hraw`, `haw`: the first document has plain arrays and unique
    sorted keys; `hbl`, `hbw`: the second is a list document with unique sorted keys (what every
    reader returns; needed by `V1Pr.v1_diff_empty_iff_equals_precision`, see
    `V1P.tag_witness`). `hren`: `Render` succeeds on the model — needed on the model only
    (`render_artifact` below). No hash hypothesis, no float hypothesis. -/
theorem v1_exit_list_native (R : DiffRun nc Y Ls b fl e a b') {opts : List Opt}
    (ho : parsedOptions b fl = .ok opts) (P : ListFlags fl) (hfmt : formatOf fl.f = some .jd)
    (hraw : a.rawDoc = true) (haw : a.wf = true) (hbl : b'.listDoc = true) (hbw : b'.wf = true)
    (hren : ∃ T, V1.renderM nc fl.color (V1.liftDiff (V1.diffM (metasOf opts) a b')) = .ok (some T)) :
    ((proc Ls b fl e).exit = 0 ↔ V1.equals (metasOf opts) a b' = true) ∧
    ((proc Ls b fl e).exit = 1 ↔ V1.equals (metasOf opts) a b' = false) ∧
    (proc Ls b fl e).exit ≠ 2 :=
  cli_exit_iff_equal_list R ho P hfmt hraw haw hbl hbw hren

/-- **the same with hypotheses on the two documents only** (no hypothesis about the diff or its
    rendering). `J`: the codec prints and reads back the float64 list indices below `N` and -1
    (`Float` is opaque to the kernel; true of `strconv`). `ha4`, `hb4`: no void marker in the
    documents (no reader produces one; a blank file is excluded). `ha5`: the arrays of `a` have at
    most `N` elements. `ha6`, `hb6`: the codec prints and reads back every number of the documents.
    These make `Render` / `Render(COLOR)` succeed (`lr_render_ok`). -/
theorem v1_exit_list_native_docs {N : Nat} (J : IdxNumOK nc N)
    (R : DiffRun nc Y Ls b fl e a b') {opts : List Opt}
    (ho : parsedOptions b fl = .ok opts) (P : ListFlags fl) (hfmt : formatOf fl.f = some .jd)
    (ha1 : a.rawDoc = true) (ha2 : a.wf = true) (ha4 : Yaml.voidFree a = true)
    (ha5 : V1P.lenLe N a = true) (ha6 : JText.NumOK nc a = true)
    (hb1 : b'.listDoc = true) (hb2 : b'.wf = true) (hb4 : Yaml.voidFree b' = true)
    (hb6 : JText.NumOK nc b' = true) :
    ((proc Ls b fl e).exit = 0 ↔ V1.equals (metasOf opts) a b' = true) ∧
    ((proc Ls b fl e).exit = 1 ↔ V1.equals (metasOf opts) a b' = false) ∧
    (proc Ls b fl e).exit ≠ 2 :=
  cli_exit_iff_equal_list_docs J R ho P hfmt ha1 ha2 ha4 ha5 ha6 hb1 hb2 hb4 hb6

/-- … and for JSON files (`hy`: no `-yaml`): the shape of the documents is what `ReadJsonString`
    returns (proved from the reader); left: neither file is blank (`hav`, `hbv`), the length bound
    and the number codec. -/
theorem v1_exit_list_native_json {N : Nat} (J : IdxNumOK nc N)
    (R : DiffRun nc Y Ls b fl e a b') {opts : List Opt}
    (ho : parsedOptions b fl = .ok opts) (P : ListFlags fl) (hfmt : formatOf fl.f = some .jd)
    (hy : fl.yaml = false) (hav : a.isVoid = false) (hbv : b'.isVoid = false)
    (ha5 : V1P.lenLe N a = true) (ha6 : JText.NumOK nc a = true) (hb6 : JText.NumOK nc b' = true) :
    ((proc Ls b fl e).exit = 0 ↔ V1.equals (metasOf opts) a b' = true) ∧
    ((proc Ls b fl e).exit = 1 ↔ V1.equals (metasOf opts) a b' = false) ∧
    (proc Ls b fl e).exit ≠ 2 :=
  cli_exit_iff_equal_list_docs_json J R ho P hfmt hy hav hbv ha5 ha6 hb6

/-- **`-f patch`, list reading, JSON files: no hypothesis on the documents at all.** Exit 0 exactly
    when Equal; when not Equal, exit 1, or — exactly when `RenderPatch` returns an error — exit 2.
    So "1 exactly when they differ" FAILS precisely when the renderer refuses the diff
    (`dash_key_exit_two`: the object key `-`). Any `-setkeys`, any `-precision`. The text is `[]`
    only for the empty diff: `diffM_nil_of_no_ops`. -/
theorem v1_exit_list_patch_json (R : DiffRun nc Y Ls b fl e a b') {opts : List Opt}
    (ho : parsedOptions b fl = .ok opts) (P : ListFlags fl) (hfmt : formatOf fl.f = some .patch)
    (hy : fl.yaml = false) :
    ((proc Ls b fl e).exit = 0 ↔ V1.equals (metasOf opts) a b' = true) ∧
    ((proc Ls b fl e).exit = 1 ↔ V1.equals (metasOf opts) a b' = false ∧
      ∃ T, (v1Lib nc Y).renderPatch (V1.liftDiff (V1.diffM (metasOf opts) a b')) = .ok T) ∧
    ((proc Ls b fl e).exit = 2 ↔ V1.equals (metasOf opts) a b' = false ∧
      ∃ m, (v1Lib nc Y).renderPatch (V1.liftDiff (V1.diffM (metasOf opts) a b')) = .error m) :=
  cli_exit_iff_equal_list_patch_json R ho P hfmt hy

/-- the same for any reader (`-yaml` included): the shape hypotheses of `v1_exit_list_native` -/
theorem v1_exit_list_patch (R : DiffRun nc Y Ls b fl e a b') {opts : List Opt}
    (ho : parsedOptions b fl = .ok opts) (P : ListFlags fl) (hfmt : formatOf fl.f = some .patch)
    (hraw : a.rawDoc = true) (haw : a.wf = true) (hbl : b'.listDoc = true) (hbw : b'.wf = true) :
    ((proc Ls b fl e).exit = 0 ↔ V1.equals (metasOf opts) a b' = true) ∧
    ((proc Ls b fl e).exit = 1 ↔ V1.equals (metasOf opts) a b' = false ∧
      ∃ T, (v1Lib nc Y).renderPatch (V1.liftDiff (V1.diffM (metasOf opts) a b')) = .ok T) ∧
    ((proc Ls b fl e).exit = 2 ↔ V1.equals (metasOf opts) a b' = false ∧
      ∃ m, (v1Lib nc Y).renderPatch (V1.liftDiff (V1.diffM (metasOf opts) a b')) = .error m) :=
  cli_exit_iff_equal_list_patch R ho P hfmt hraw haw hbl hbw

/-- **`-f patch`, list reading: never exit 2 when no object key is `-`.** `hda`, `hdb`
    (`V1R.noDash`): the key `-` is the only one `writePointer` of the v1 library refuses.
    `hprec`: no `-precision`. The other hypotheses (IEEE laws on list indices, text domain of the
    documents) are those of `V1T.v1_patch_text_readback_noDash`, from which `RenderPatch ok` is
    taken. -/
theorem v1_exit_list_patch_never_two (L : FloatLaws) {N : Nat} (I : V1P.IdxLaws N)
    (hN : N ≤ 2 ^ 63)
    (R : DiffRun nc Y Ls b fl e a b') {opts : List Opt}
    (ho : parsedOptions b fl = .ok opts) (P : ListFlags fl) (hprec : fl.precision = 0)
    (hfmt : formatOf fl.f = some .patch)
    (ha0 : a.rawDoc = true) (ha2 : a.wf = true) (ha3 : a.finiteNums = true)
    (ha4 : Yaml.voidFree a = true) (ha5 : V1P.lenLe N a = true) (ha6 : JText.NumOK nc a = true)
    (hb1 : b'.listDoc = true) (hb2 : b'.wf = true) (hb3 : b'.finiteNums = true)
    (hb4 : Yaml.voidFree b' = true) (hb6 : JText.NumOK nc b' = true)
    (hda : V1R.noDash a = true) (hdb : V1R.noDash b' = true) :
    ((proc Ls b fl e).exit = 0 ↔ V1.equals (metasOf opts) a b' = true) ∧
    ((proc Ls b fl e).exit = 1 ↔ V1.equals (metasOf opts) a b' = false) ∧
    (proc Ls b fl e).exit ≠ 2 :=
  cli_exit_codes_list_patch L I hN R ho P hprec hfmt ha0 ha2 ha3 ha4 ha5 ha6 hb1 hb2 hb3 hb4 hb6
    hda hdb

/-- **`-f merge` (no `-set` / `-mset`), v1 library, any `-precision`.** The exit status comes from
    `len(diff)`: exit 0 exactly when `a.Equals(b, MERGE, SetPrecision(eps), …)`; when not Equal,
    exit 1, or — exactly when `RenderMerge` returns an error — exit 2. `hbv`: no void marker at the
    root or as an object member of the second document (domain of
    `V1PM.v1_merge_diff_empty_iff_equals_anyprec`). No hash, no float hypothesis. -/
theorem v1_exit_list_merge (R : DiffRun nc Y Ls b fl e a b') {opts : List Opt}
    (ho : parsedOptions b fl = .ok opts) (P : ListFlags fl) (hfmt : formatOf fl.f = some .merge)
    (hraw : a.rawDoc = true) (haw : a.wf = true) (hbr : b'.rawDoc = true) (hbw : b'.wf = true)
    (hbv : Merge.objVoidFree b' = true) :
    ((proc Ls b fl e).exit = 0 ↔ V1.equals (metasOf opts) a b' = true) ∧
    ((proc Ls b fl e).exit = 1 ↔ V1.equals (metasOf opts) a b' = false ∧
      ∃ T, (v1Lib nc Y).renderMerge (V1.liftDiff (V1.diffM (metasOf opts) a b')) = .ok T) ∧
    ((proc Ls b fl e).exit = 2 ↔ V1.equals (metasOf opts) a b' = false ∧
      ∃ m, (v1Lib nc Y).renderMerge (V1.liftDiff (V1.diffM (metasOf opts) a b')) = .error m) :=
  cli_exit_iff_equal_list_merge R ho P hfmt hraw haw hbr hbw hbv

/-- **`-f merge`, never exit 2**: second document in the domain of JSON Merge Patch (`hbn` no
    `null`, `hbv` no void), printable (`hbN`), finite numbers; `hab`: `a` is an object or `b'` is
    not `{}` (`mergeRTDom`); `hprec`: no `-precision`. -/
theorem v1_exit_list_merge_never_two (L : FloatLaws)
    (R : DiffRun nc Y Ls b fl e a b') {opts : List Opt}
    (ho : parsedOptions b fl = .ok opts) (P : ListFlags fl) (hprec : fl.precision = 0)
    (hfmt : formatOf fl.f = some .merge)
    (haw : a.wf = true) (har : a.rawDoc = true)
    (hbw : b'.wf = true) (hbr : b'.rawDoc = true) (hbn : b'.nullFree = true)
    (hbf : b'.finiteNums = true) (hbv : Yaml.voidFree b' = true) (hbN : JText.NumOK nc b' = true)
    (hab : mergeRTDom a b' = true) :
    ((proc Ls b fl e).exit = 0 ↔ V1.equals (metasOf opts) a b' = true) ∧
    ((proc Ls b fl e).exit = 1 ↔ V1.equals (metasOf opts) a b' = false) ∧
    (proc Ls b fl e).exit ≠ 2 :=
  cli_exit_codes_list_merge L R ho P hprec hfmt haw har hbw hbr hbn hbf hbv hbN hab

/-- **`-set` / `-mset`, native format, v1 library, RELATIVE TO `V1S.HashFaithful`.** `S`: `-set` or
    `-mset` (SET wins when both), no `-setkeys`, no `-precision`. `ha`, `hb` (`setDoc`): plain
    arrays, unique sorted keys, finite numbers, no `-0`; `ma`, `mb`: no void object member. `HF`:
    among the sub-terms of the two documents equal v1 hash codes occur only for equivalent nodes
    (the v1 set diff compares hash codes; needed: alias classes of the v1 hash, see
    JdProofs/V1SetDiffPatch.lean). `F`, `FL`: IEEE laws. `hren`: `Render` succeeds on the model. -/
theorem v1_exit_set_native (F : FloatEq0) (FL : FloatLaws) (R : DiffRun nc Y Ls b fl e a b')
    {opts : List Opt} (ho : parsedOptions b fl = .ok opts) (S : SetFlags fl)
    (hfmt : formatOf fl.f = some .jd)
    (ha : a.setDoc = true) (hb : b'.setDoc = true)
    (ma : DPL.memOK a = true) (mb : DPL.memOK b' = true)
    (HF : V1S.HashFaithful (metasOf opts) (setReading fl) (subterms a ++ subterms b'))
    (hren : ∃ T, V1.renderM nc fl.color (V1.liftDiff (V1.diffM (metasOf opts) a b')) = .ok (some T)) :
    ((proc Ls b fl e).exit = 0 ↔ V1.equals (metasOf opts) a b' = true) ∧
    ((proc Ls b fl e).exit = 1 ↔ V1.equals (metasOf opts) a b' = false) ∧
    (proc Ls b fl e).exit ≠ 2 :=
  cli_exit_iff_equal_set F FL R ho S hfmt ha hb ma mb HF hren

/-- (Equal ⇒ exit 0) for `-set` / `-mset`, native and JSON Patch formats, under `HashFaithful`; no
    rendering hypothesis -/
theorem v1_equal_exit_zero_set (F : FloatEq0) (FL : FloatLaws) (R : DiffRun nc Y Ls b fl e a b')
    {opts : List Opt} (ho : parsedOptions b fl = .ok opts) (S : SetFlags fl) {fmt : Format}
    (hfmt : formatOf fl.f = some fmt) (hnm : fmt ≠ .merge)
    (ha : a.setDoc = true) (hb : b'.setDoc = true)
    (ma : DPL.memOK a = true) (mb : DPL.memOK b' = true)
    (HF : V1S.HashFaithful (metasOf opts) (setReading fl) (subterms a ++ subterms b'))
    (heq : V1.equals (metasOf opts) a b' = true) : (proc Ls b fl e).exit = 0 :=
  cli_equal_exit_zero_set F FL R ho S hfmt hnm ha hb ma mb HF heq

/-- **`-set` / `-mset` with `-f merge`, relative to `HashFaithful`**: exit 0 ⇔ Equal; when not Equal
    exit 1 or — exactly when `RenderMerge` returns an error — exit 2 -/
theorem v1_exit_set_merge (F : FloatEq0) (FL : FloatLaws) (R : DiffRun nc Y Ls b fl e a b')
    {opts : List Opt} (ho : parsedOptions b fl = .ok opts) (S : SetFlags fl)
    (hfmt : formatOf fl.f = some .merge)
    (ha : a.setDoc = true) (hb : b'.setDoc = true) (mb : DPL.memOK b' = true)
    (HF : V1S.HashFaithful (metasOf opts) (setReading fl) (subterms a ++ subterms b')) :
    ((proc Ls b fl e).exit = 0 ↔ V1.equals (metasOf opts) a b' = true) ∧
    ((proc Ls b fl e).exit = 1 ↔ V1.equals (metasOf opts) a b' = false ∧
      ∃ T, (v1Lib nc Y).renderMerge (V1.liftDiff (V1.diffM (metasOf opts) a b')) = .ok T) ∧
    ((proc Ls b fl e).exit = 2 ↔ V1.equals (metasOf opts) a b' = false ∧
      ∃ m, (v1Lib nc Y).renderMerge (V1.liftDiff (V1.diffM (metasOf opts) a b')) = .error m) :=
  cli_exit_iff_equal_set_merge F FL R ho S hfmt ha hb mb HF

/-- **`-set -setkeys ks`, native format, relative to `V1K.KeysHyp`** (the decidable hypotheses of
    `V1K.v1_diff_empty_iff_equals_setkeys`: faithful v1 hashes, the keyed objects of `a` carry the
    keys and are pairwise distinct, …, see JdProofs/V1KeysDiffPatchB.lean). `hks`: `ks` is the
    trimmed key list `parseMetadata` builds. -/
theorem v1_exit_set_setkeys (F : FloatEq0) (FL : FloatLaws) (R : DiffRun nc Y Ls b fl e a b')
    {opts : List Opt} (ho : parsedOptions b fl = .ok opts)
    (hset : fl.set = true) (hk : fl.setkeys ≠ "") {ks : List String}
    (hks : splitKeys fl.setkeys = .ok ks) (hprec : fl.precision = 0)
    (hfmt : formatOf fl.f = some .jd)
    (ha : a.setDoc = true) (hb : b'.setDoc = true)
    (ma : DPL.memOK a = true) (mb : DPL.memOK b' = true)
    (H : V1K.KeysHyp (metasOf opts) ks a b')
    (hren : ∃ T, V1.renderM nc fl.color (V1.liftDiff (V1.diffM (metasOf opts) a b')) = .ok (some T)) :
    ((proc Ls b fl e).exit = 0 ↔ V1.equals (metasOf opts) a b' = true) ∧
    ((proc Ls b fl e).exit = 1 ↔ V1.equals (metasOf opts) a b' = false) ∧
    (proc Ls b fl e).exit ≠ 2 :=
  cli_exit_iff_equal_set_setkeys F FL R ho hset hk hks hprec hfmt ha hb ma mb H hren

/-- **`-mset` (no `-set`) with any `-setkeys`, native format, relative to `HashFaithful`**: in v1
    the set keys do not matter for multisets -/
theorem v1_exit_mset_setkeys (F : FloatEq0) (FL : FloatLaws) (R : DiffRun nc Y Ls b fl e a b')
    {opts : List Opt} (ho : parsedOptions b fl = .ok opts)
    (hset : fl.set = false) (hmset : fl.mset = true) (hprec : fl.precision = 0)
    (hfmt : formatOf fl.f = some .jd)
    (ha : a.setDoc = true) (hb : b'.setDoc = true)
    (ma : DPL.memOK a = true) (mb : DPL.memOK b' = true)
    (HF : V1S.HashFaithful (metasOf opts) [.mset] (subterms a ++ subterms b'))
    (hren : ∃ T, V1.renderM nc fl.color (V1.liftDiff (V1.diffM (metasOf opts) a b')) = .ok (some T)) :
    ((proc Ls b fl e).exit = 0 ↔ V1.equals (metasOf opts) a b' = true) ∧
    ((proc Ls b fl e).exit = 1 ↔ V1.equals (metasOf opts) a b' = false) ∧
    (proc Ls b fl e).exit ≠ 2 :=
  cli_exit_iff_equal_mset_setkeys F FL R ho hset hmset hprec hfmt ha hb ma mb HF hren

/-- **C14 (v1), `-p` round trip with `-precision eps`, hypotheses on the two documents only.**
    `CliV1.v1_native_cli_round_trip_precision` (JdProps/C14V1.lean) asks for a codec contract on the
    paths and values of the diff (`hp`, `hv`); here it is DISCHARGED (`lr_contract`) from
    `Yaml.voidFree`, `JText.NumOK` of the two parsed documents and `IdxNumOK nc N`. `hprec`: `eps`
    finite and non-negative. The patched document `Equals` `b'` under the metadata. -/
theorem v1_native_round_trip_precision_docs (FL : FloatLaws) {N : Nat} (I : V1P.IdxLaws N)
    (J : IdxNumOK nc N) (hL : Ls true = ⟨Json, V1.PDiff, v1Lib nc Y⟩)
    {fl2 : Flags} {e1 e2 : Env} {opts : List Opt}
    (hm : isDiffMode fl) (h : PatchTwin fl fl2) (hv1 : libIsV1 b fl = true)
    (ho : parsedOptions b fl = .ok opts)
    (hset : fl.set = false) (hmset : fl.mset = false) (hprec : nonnegBits fl.precision = true)
    (hfmt : formatOf fl.f = some .jd) (hcolor : fl.color = false)
    (hn : fl.nargs = 1 ∨ fl.nargs = 2)
    {ta tb : String}
    (hi1 : e1.in1 = .ok ta) (hi2 : e1.in2 = .ok tb) (hw1 : fl.o = "" ∨ e1.write = .ok ())
    (hra : (v1Lib nc Y).readDoc fl.yaml ta = .ok a)
    (hrb : (v1Lib nc Y).readDoc fl.yaml tb = .ok b')
    (ha1 : a.listDoc = true) (ha2 : a.wf = true) (ha3 : a.finiteNums = true)
    (ha4 : Yaml.voidFree a = true) (ha5 : V1P.lenLe N a = true) (ha6 : JText.NumOK nc a = true)
    (hb1 : b'.listDoc = true) (hb2 : b'.wf = true) (hb3 : b'.finiteNums = true)
    (hb4 : Yaml.voidFree b' = true) (hb6 : JText.NumOK nc b' = true)
    (hT : e2.in1 = .ok (emitted (proc Ls b fl e1)))
    (ha : e2.in2 = e1.in1) (hw : fl2.o = "" ∨ e2.write = .ok ()) :
    ∃ T d' r,
      V1.renderM nc false (V1.liftDiff (V1.diffM (metasOf opts) a b')) = .ok (some T) ∧
      V1.readDiffM nc T = .ok d' ∧ V1.patchM a d' = .ok r ∧
      V1.equals (metasOf opts) r b' = true ∧ equivB [Opt.prec fl.precision] r b' = true ∧
      TwoRuns (proc Ls b fl e1) (proc Ls b fl2 e2) fl fl2 T (if T = "" then 0 else 1)
        ((v1Lib nc Y).renderDoc fl.yaml opts r) :=
  v1_native_cli_round_trip_precision_docs FL I nc J Y Ls hL b hm h hv1 ho hset hmset hprec hfmt
    hcolor hn hi1 hi2 hw1 hra hrb ha1 ha2 ha3 ha4 ha5 ha6 hb1 hb2 hb3 hb4 hb6 hT ha hw

/-! ### the hypotheses are satisfiable; witnesses -/

/-- `jd -v2=false a.json b.json` on `{"k":[true,null,["x"]]}` / `{"k":[false,null,["x","y"]],"n":null}`:
    every hypothesis of `v1_exit_list_native_json` is discharged except the codec law on the list
    indices below 3; not Equal; the process exits 1. -/
theorem ex_list_differ (J : IdxNumOK NativeRT.exCodec 3) :
    (proc CliV1.Example.Ls .top CliExitV1.Example.fl1
      { in1 := .ok CliRT.NativeExample.taE, in2 := .ok CliRT.NativeExample.tbE }).exit = 1 ∧
    V1.equals [.prec 0] E2E.Example.exA E2E.Example.exB = false :=
  CliExitV1.Example.ex_list_differ J

/-- `jd -v2=false -precision 1.5 a.json b.json` on the files `1` and `2` EXITS 0 and the two are
    Equal under `SetPrecision(1.5)` — relative to the IEEE fact `|1 − 2| ≤ 1.5` (`h1`; `Float` is
    opaque to the kernel). The v2 library exits 1 on the same command line
    (`CliExit.Witness.precision_process_witness`). -/
theorem ex_precision_exit_zero
    (h1 : numWithin CliExit.Witness.eps15 CliExit.Witness.one CliExit.Witness.two = true) :
    (proc CliV1.Example.Ls .top CliExitV1.Example.flPrec { in1 := .ok "1", in2 := .ok "2" }).exit = 0 ∧
    V1.equals [.prec CliExit.Witness.eps15] (.num CliExit.Witness.one)
      (.num CliExit.Witness.two) = true :=
  CliExitV1.Example.ex_precision_exit_zero h1

/-- `jd -v2=false -set a.json b.json` on `{"s":[true,null,{"k":null}]}` /
    `{"s":[{"k":null},null,true,null]}`: `HashFaithful` holds (kernel-checked), Equal as sets,
    exit 0. -/
theorem ex_set_equal (F : FloatEq0) (FL : FloatLaws) :
    (proc CliV1.Example.Ls .top CliExitV1.Example.flSet
      { in1 := .ok CliExitV1.Example.tsA, in2 := .ok CliExitV1.Example.tsB }).exit = 0 ∧
    V1.equals [.set, .prec 0] CliExitV1.Example.sA CliExitV1.Example.sB = true :=
  CliExitV1.Example.ex_set_equal F FL

/-- **WITNESS: "1 exactly when they differ" is FALSE for `-f patch` (v1) at the object key `-`.**
    `jd -v2=false -f patch a.json b.json` with `{"-":true}` and `{}`: not Equal, `RenderPatch`
    returns an error, the process exits 2. -/
theorem dash_key_exit_two :
    V1.equals [.prec 0] CliExitV1.Witness.dA CliExitV1.Witness.dB = false ∧
    (proc CliV1.Example.Ls .top CliExitV1.Witness.flPatch
      { in1 := .ok CliExitV1.Witness.tdA, in2 := .ok CliExitV1.Witness.tdB }).exit = 2 :=
  CliExitV1.Witness.dash_key_exit_two

/-- **WITNESS: `hren` is needed on the model** (totalisation `textOrEmpty` of `v1Lib.renderJd`; not
    a behaviour of the Go program): with a codec that cannot print `1.5`, the files `1.5` and
    `null` are not Equal and the model process exits 0. -/
theorem render_artifact :
    V1.equals [.prec 0] CliExit.Witness.x15 .null = false ∧
    (proc (fun _ => ⟨Json, V1.PDiff, v1Lib CliExit.Witness.badCodec CliRT.NativeExample.noYaml⟩)
      .top CliExitV1.Example.fl1 { in1 := .ok "1.5", in2 := .ok "null" }).exit = 0 :=
  CliExitV1.Witness.render_artifact

end Jd.Props.C05V1
