/-
  Property C15 — diffing and rendering are pure and deterministic.
  Statement file (proofs in JdProofs/MapOrder.lean).

  Two halves.
  (1) PURITY. The model's `diffM`, `equals`, `renderM`, `renderPatchM`, `renderMergeM`, `jsonM` are
      functions: they cannot change their arguments, and calling them again gives the same result.
      That the Go functions they model leave the caller-visible documents and diffs unchanged is not
      a theorem about the model but the content of the HISTORY correspondence of ./check C15 (every
      argument re-observed after every call, patch after the history = patch on fresh copies, whole
      batch re-executed in fresh processes).
  (2) INDEPENDENCE OF MAP ITERATION ORDER. The Go code ranges over maps without sorting in
      `jsonObject.Equals`, `readMetadata`, `pathIdent`, `newPathSetKeys`, `NewJsonNode`, `raw()`; the
      model visits the members of an object in list order. The theorems below say the model's result
      is the same for EVERY order of visiting (any permutation of a list with distinct keys — what a
      Go map guarantees), so representing a Go map by its sorted association list loses nothing, and
      the merge-patch reader (which sorts since fix 33ee725) produces its hunks in one fixed order.
-/
import JdProofs.MapOrder

namespace Jd.Props.C15
open Jd Jd.MapOrder

/-- `Equals` of two objects: the order in which either map is visited / stored is irrelevant -/
theorem equals_independent_of_member_order (o : Opts) {kvs₁ kvs₂ kvs'₁ kvs'₂ : List (String × Json)}
    (p : kvs₁.Perm kvs₂) (p' : kvs'₁.Perm kvs'₂) (hn' : (keys kvs'₁).Nodup) :
    equals o (.obj kvs₁) (.obj kvs'₁) = equals o (.obj kvs₂) (.obj kvs'₂) :=
  equals_obj_perm o p p' hn'

/-- metadata lines (`^ {...}`): accepted / rejected / Merge flag independent of the member order -/
theorem metadata_independent_of_member_order {kvs₁ kvs₂ : List (String × Json)} (p : kvs₁.Perm kvs₂) :
    readMetadataM (.obj kvs₁) = readMetadataM (.obj kvs₂) :=
  readMetadataM_perm p

/-- the identity used to find a keyed set member depends only on the key SET of the path object -/
theorem path_identity_independent_of_key_order (o : Opts) (kvs : List (String × Json))
    {po₁ po₂ : List (String × Json)} (p : po₁.Perm po₂) : pathIdent o kvs po₁ = pathIdent o kvs po₂ :=
  pathIdent_perm o kvs p

/-- the path element of a keyed member does not depend on the order of the SetKeys option's keys -/
theorem keyed_path_element_independent_of_key_order {ks₁ ks₂ : List String} (p : ks₁.Perm ks₂)
    (rest : Opts) (kvs : List (String × Json)) :
    newPathSetKeys (.setKeys ks₁ :: rest) kvs = newPathSetKeys (.setKeys ks₂ :: rest) kvs :=
  newPathSetKeys_perm p rest kvs

/-- a Go map is faithfully represented by its sorted association list: every enumeration of the map
    gives the same sorted list, which is sorted and has the same lookups -/
theorem sorted_representative_is_canonical {kvs₁ kvs₂ : List (String × Json)} (p : kvs₁.Perm kvs₂)
    (hn : (keys kvs₁).Nodup) :
    sortKvs kvs₁ = sortKvs kvs₂ ∧ keysSorted (sortKvs kvs₁) = true ∧
      ∀ j, alookup j (sortKvs kvs₁) = alookup j kvs₁ :=
  ⟨sortKvs_perm p hn, keysSorted_sortKvs kvs₁, fun j => alookup_sortKvs hn j⟩

/-- diffs read from merge patches: one fixed hunk order whatever the enumeration of the patch object -/
theorem merge_reader_deterministic {kvs₁ kvs₂ : List (String × Json)} (p : kvs₁.Perm kvs₂)
    (hn : (keys kvs₁).Nodup) :
    readMergeDoc (.obj (sortKvs kvs₁)) = readMergeDoc (.obj (sortKvs kvs₂)) :=
  readMergeDoc_sortKvs_perm p hn

/-- non-vacuity: two different enumerations of a two-member map -/
example : ([("b", Json.null), ("a", Json.bool true)] : List (String × Json)).Perm [("a", .bool true), ("b", .null)] ∧
    (keys [("b", Json.null), ("a", Json.bool true)]).Nodup := by
  constructor
  · exact List.Perm.swap _ _ _
  · decide

end Jd.Props.C15
