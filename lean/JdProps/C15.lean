/-
  Property C15 — diffing and rendering are pure and deterministic.
  Statement file (proofs in JdProofs/MapOrder.lean).

  Two halves.
  (1) PURITY. The model's `diffM`, `equals`, `renderM`, `renderPatchM`, `renderMergeM`, `jsonM` are
      functions: they cannot change their arguments, and calling them again gives the same result.
      That the Go functions they model leave the caller-visible documents and diffs unchanged is not
      a theorem about the model but the content of the HISTORY correspondence of ./check C15 (every
      argument re-observed after every call, patch after the history = patch on fresh copies, whole
      batch re-executed in fresh processes).
  (2) INDEPENDENCE OF MAP ITERATION ORDER. The Go code ranges over maps without sorting in
      `jsonObject.Equals`, `readMetadata`, `pathIdent`, `newPathSetKeys`, `NewJsonNode`, `raw()`; the
      model visits the members of an object in list order. The theorems below say the model's result
      is the same for EVERY order of visiting (any permutation of a list with distinct keys — what a
      Go map guarantees), so representing a Go map by its sorted association list loses nothing, and
      the merge-patch reader (which sorts since fix 33ee725) produces its hunks in one fixed order.
-/
import JdProofs.MapOrder
import JdProofs.PathSites
import JdProofs.PathHeapProofs
import JdProps.C15Heap
import JdProps.C15Clone

namespace Jd.Props.C15
open Jd Jd.MapOrder

/-- `Equals` of two objects: the order in which either map is visited / stored is irrelevant -/
theorem equals_independent_of_member_order (o : Opts) {kvs₁ kvs₂ kvs'₁ kvs'₂ : List (String × Json)}
    (p : kvs₁.Perm kvs₂) (p' : kvs'₁.Perm kvs'₂) (hn' : (keys kvs'₁).Nodup) :
    equals o (.obj kvs₁) (.obj kvs'₁) = equals o (.obj kvs₂) (.obj kvs'₂) :=
  equals_obj_perm o p p' hn'

/-- metadata lines (`^ {...}`): accepted / rejected / Merge flag independent of the member order -/
theorem metadata_independent_of_member_order {kvs₁ kvs₂ : List (String × Json)} (p : kvs₁.Perm kvs₂) :
    readMetadataM (.obj kvs₁) = readMetadataM (.obj kvs₂) :=
  readMetadataM_perm p

/-- the identity used to find a keyed set member depends only on the key SET of the path object -/
theorem path_identity_independent_of_key_order (o : Opts) (kvs : List (String × Json))
    {po₁ po₂ : List (String × Json)} (p : po₁.Perm po₂) : pathIdent o kvs po₁ = pathIdent o kvs po₂ :=
  pathIdent_perm o kvs p

/-- the path element of a keyed member does not depend on the order of the SetKeys option's keys -/
theorem keyed_path_element_independent_of_key_order {ks₁ ks₂ : List String} (p : ks₁.Perm ks₂)
    (rest : Opts) (kvs : List (String × Json)) :
    newPathSetKeys (.setKeys ks₁ :: rest) kvs = newPathSetKeys (.setKeys ks₂ :: rest) kvs :=
  newPathSetKeys_perm p rest kvs

/-- a Go map is faithfully represented by its sorted association list: every enumeration of the map
    gives the same sorted list, which is sorted and has the same lookups -/
theorem sorted_representative_is_canonical {kvs₁ kvs₂ : List (String × Json)} (p : kvs₁.Perm kvs₂)
    (hn : (keys kvs₁).Nodup) :
    sortKvs kvs₁ = sortKvs kvs₂ ∧ keysSorted (sortKvs kvs₁) = true ∧
      ∀ j, alookup j (sortKvs kvs₁) = alookup j kvs₁ :=
  ⟨sortKvs_perm p hn, keysSorted_sortKvs kvs₁, fun j => alookup_sortKvs hn j⟩

/-- diffs read from merge patches: one fixed hunk order whatever the enumeration of the patch object -/
theorem merge_reader_deterministic {kvs₁ kvs₂ : List (String × Json)} (p : kvs₁.Perm kvs₂)
    (hn : (keys kvs₁).Nodup) :
    readMergeDoc (.obj (sortKvs kvs₁)) = readMergeDoc (.obj (sortKvs kvs₂)) :=
  readMergeDoc_sortKvs_perm p hn

/-- non-vacuity: two different enumerations of a two-member map -/
example : ([("b", Json.null), ("a", Json.bool true)] : List (String × Json)).Perm [("a", .bool true), ("b", .null)] ∧
    (keys [("b", Json.null), ("a", Json.bool true)]).Nodup := by
  constructor
  · exact List.Perm.swap _ _ _
  · decide

/-! ### The renderers edit copies (aliasing discipline on the regenerated table of source sites)

   `Gen.pathSites` is regenerated from the Go source on every run (tools/pathfacts): for every index
   assignment into, in-place library call on (`slices.Reverse`, `sort.…`), or assignment through a pointer
   to a path / value slice in v2/ and lib/, the shape of the slice expression. The renderers may only
   edit COPIES of what the caller's diff holds (defects D11, D12 and D12-lib were exactly violations of
   this; D12-lib — v1 `RenderMerge` — was FOUND by this table). -/

/-- every slice a renderer edits in place is a copy of the caller's data -/
theorem renderers_edit_copies_only :
    (Gen.pathSites.filter Jd.PathSites.isWrite).all Jd.PathSites.ok = true :=
  Jd.PathSites.renderers_write_copies

/-- the table covers the diff-building files of both libraries and the renderers' in-place edits -/
theorem alias_table_covers_the_code :
    (["v2/object.go", "v2/list.go", "v2/set.go", "v2/multiset.go", "v2/diff_common.go", "v2/diff_read.go",
      "lib/object.go", "lib/list.go", "lib/set.go", "lib/multiset.go", "lib/diff_common.go", "lib/diff_read.go"].all
        (fun f => Gen.pathSites.any (fun s => s.1.startsWith f && s.2.1 == .store))) = true ∧
    (["v2/diff_write.go:Diff.RenderPatch", "v2/diff_write.go:Diff.RenderMerge", "lib/diff_write.go:Diff.RenderMerge",
      "v2/patch_common.go:patchAll", "lib/patch_common.go:patchAll"].all
        (fun f => Gen.pathSites.any (fun s => s.1.startsWith f && s.2.1 == .write))) = true :=
  ⟨Jd.PathSites.table_covers_the_diff_code.1, Jd.PathSites.table_covers_the_diff_code.2.2⟩

/-! ### Go slice semantics = functional model, under the discipline (refinement theorem)

   `PathHeap` (JdModel/PathHeap.lean) is an imperative model of Go slices over backing arrays: `append`
   writing in place when there is spare capacity, `clone`, `drop`, index assignment; programs are
   arbitrary nestings of "store in the result / pass to a callee / assign to a slot". For EVERY growth
   policy, a program whose expressions obey the discipline — exactly what the regenerated table of source
   sites is checked for above and in JdProps/C01, C17 — stores slices that, read at the END of the run, are
   the paths of the functional model; the caller's parameter and everything that existed before are
   unchanged. Witnesses (`PathHeap.Witness.*`): a non-fresh store is overwritten by a sibling at depth 3
   (the shape of six seeded changes), an unsafe expression or a write through a non-fresh slice changes the
   caller's data (the shape of D11 / D12 / D12-lib). -/

theorem go_slices_refine_functional_paths (grow : Nat → Nat) (prog : List PathHeap.Act)
    (hok : PathHeap.Act.okL prog = true) (h : PathHeap.Heap) (s : PathHeap.Slice) (v : s.valid h) :
    (PathHeap.Act.runL grow s prog h).2.map (PathHeap.read (PathHeap.Act.runL grow s prog h).1)
        = PathHeap.Act.valsL (PathHeap.read h s) prog ∧
    PathHeap.read (PathHeap.Act.runL grow s prog h).1 s = PathHeap.read h s ∧
    (∀ a n, a < h.length → (a ≠ s.arr ∨ n ≤ s.len) →
      ((PathHeap.Act.runL grow s prog h).1.getD a []).take n = (h.getD a []).take n) :=
  PathHeap.refinement grow prog hok h s v

/-- a program all of whose sites are in a table that passes the check is disciplined -/
theorem disciplined_of_table (table : List (PathHeap.SiteKind × PathHeap.SExpr))
    (htab : table.all (fun p => PathHeap.siteOk p.1 p.2) = true) (prog : List PathHeap.Act)
    (hsub : ∀ p ∈ PathHeap.Act.sitesL prog, p ∈ table) : PathHeap.Act.okL prog = true :=
  PathHeap.okL_of_table table htab prog hsub

/-- the shape of the path-alias defects: without the copy, two stored paths read the same at the end -/
theorem nonfresh_store_is_overwritten :
    (PathHeap.Act.runL PathHeap.growDouble PathHeap.Witness.s0 PathHeap.Witness.progAlias PathHeap.Witness.h0).2.map
        (PathHeap.read (PathHeap.Act.runL PathHeap.growDouble PathHeap.Witness.s0 PathHeap.Witness.progAlias PathHeap.Witness.h0).1)
      ≠ PathHeap.Act.valsL (PathHeap.read PathHeap.Witness.h0 PathHeap.Witness.s0) PathHeap.Witness.progAlias :=
  PathHeap.Witness.store_nonfresh_aliases

end Jd.Props.C15
