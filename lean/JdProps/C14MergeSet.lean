/-
  Property C14 — the `-p` round trip and the exit status, for `-f merge` and `-f patch` COMBINED WITH
  `-set` / `-mset` (v2 library, on the CLI model).  Statement file; proofs in
  JdProofs/CliRoundTripMergeSet.lean (namespace `Jd.CliRTMS`).  Companion of JdProps/C14.lean, whose
  round-trip theorems (`Jd.CliRTM`) cover `-set`/`-mset`/`-setkeys` in the native format and `-f merge`,
  `-f patch` in the list reading, and list these combinations as "not proved".

  Model side: `cliM` / `proc` (JdModel/Cli.lean, JdProofs/CliRoundTrip.lean): the decision logic of
  `main` run on what the library model `nativeLib nc Y` returns; `setOpts fl` is the option list
  `parseMetadata` builds for `-set` / `-mset` (`[SET]?, [MULTISET]?, [MERGE if -f merge], Precision 0`).

  WHAT IS STATED
  * `-f merge -set` / `-f merge -mset`: the round trip HOLDS (`merge_set_cli_round_trip`), total (the
    first process is proved not to fail), on the domain of C11 for the set readings plus the text
    hypotheses of the `-f merge` list theorem.  The target is reproduced UNDER THE READING IN FORCE
    (`Equals` and `equivB` with the options): arrays that are equal as sets are left as `a` has
    them, and with `-set` a replaced array comes back in hash order without duplicates (that is what
    `jsonSet.raw()` prints) — `["z","a","a"]` comes back as `["z","a"]`, checked on the Go binary.
    Library form: `merge_set_lib_round_trip`.
  * `-f patch -set` / `-f patch -mset`: there is NO round trip to state.  `RenderPatch` refuses every
    hunk path that holds a set (`{}`) or multiset (`[]`) element, so the first process exits 2 as
    soon as the diff holds a set hunk.  Proved: the exact exit status (`patch_set_exit_status`):
    exit 2 ⇔ some hunk path has an element that is not a JSON-Pointer-expressible key; exit 0 ⇔ the
    diff is empty; exit 1 ⇔ non-empty diff, all paths expressible (then only object members
    outside arrays differ, the output is a JSON Patch of test/remove/add on key paths — its `-p`
    round trip is the list-reading theorem's business and is NOT proved here under `-set`).

  HYPOTHESES
    `isDiffMode fl`, `PatchTwin fl fl2`, `libIsV1 b fl = false`, `fl.nargs`, the `Env` equations: the
       two command lines `jd [flags] a b` and `jd -p [same flags] T a` (as in JdProps/C14.lean);
    `SetFlags fl`: `-set` or `-mset` (both: SET wins), no `-setkeys`, `-precision` 0;
    `a.setDoc`, `b'.setDoc`: documents as read (plain arrays, unique sorted keys, finite numbers,
       no `-0`); `b'.nullFree` (domain of merge patches); `Yaml.voidFree b'`, `JText.NumOK nc b'`:
       the JSON text layer (void is not a JSON value; the number codec prints and re-reads the
       numbers of `b'`);
    `HashFaithful (setOpts fl) (subterms a ++ subterms b')`: no FNV collision / alias among the
       sub-terms (as in C11 for the set readings; without it `RenderMerge` can fail);
    `mergeRTDom a b'` = `a` is an object or `b' ≠ {}`: NEEDED (`merge_set_emptyobj_witness`,
       known finding KF-C12-emptyobj);
    `-f patch`: `rawDoc`, `wf`, `E2E.voidFree` of both documents, `DES.DiffFaithful` (the shape of
       the set-mode diff, `E2ES.diffM_shunk`), `marshalNode … isSome` on the sub-terms (a number the
       codec cannot print would also end in exit 2).
-/
import JdProofs.CliRoundTripMergeSet

set_option autoImplicit false

namespace Jd.Props.C14MergeSet
open Jd Jd.Spec Jd.Cli Jd.CliRT Jd.CliExit Jd.CliRTM Jd.CliRTMS

/-! ## `-f merge` with `-set` / `-mset` -/

/-- **library level**: `a.Diff(b, SET|MULTISET, MERGE).RenderMerge()` prints a text, `ReadMergeString`
    reads it back, `a.Patch` of the diff read succeeds and yields a document that `Equals` `b` and is
    equivalent to it (`equivB`) under the options.  `hab`: `a` is an object or `b` is not `{}`. -/
theorem merge_set_lib_round_trip (F : FloatEq0) (L : FloatLaws) (nc : NumCodec) (o : Opts)
    (hmg : isMerge o = true) (hm : dispatchTag o = .set ∨ dispatchTag o = .mset)
    (hk : keysOf o = none) (hp : precOf o = 0) (a b : Json)
    (ha : a.setDoc = true) (hb : b.setDoc = true) (hbn : b.nullFree = true)
    (hbv : Yaml.voidFree b = true) (hbN : JText.NumOK nc b = true)
    (HF : HashFaithful o (subterms a ++ subterms b))
    (hab : a.isObj = true ∨ b ≠ .obj []) :
    ∃ text d' r, renderMergeM nc (diffM o a b) = .ok (some text) ∧
      readMergeM nc text = .ok d' ∧ patchM a d' = .ok r ∧
      equals o r b = true ∧ equivB o r b = true :=
  mergeSet_lib_round_trip F L nc o hmg hm hk hp a b ha hb hbn hbv hbN HF hab

/-- **C14, `jd -f merge -set|-mset a b` then `jd -p -f merge -set|-mset T a`** (any of the three
    binaries on the v2 library; `-yaml`, `-color`, `-o` free): the option list is `setOpts fl`; the
    first process emits the RFC 7386 text `T` with exit status 1 when the diff is non-empty and 0
    otherwise, nothing on stderr; the second process exits 0, nothing on stderr, and emits
    `Json/Yaml(options…)` of a document `r` that `Equals` `b'` and is equivalent to it under the
    options (`TwoRuns`, JdProofs/CliRoundTripModes.lean §1). -/
theorem merge_set_cli_round_trip (F : FloatEq0) (L : FloatLaws) (nc : NumCodec)
    (Y : YamlCarrier) (Ls : Bool → LibPack) (hL : Ls false = ⟨Json, Diff, nativeLib nc Y⟩)
    (b : Binary) {fl fl2 : Flags} {e1 e2 : Env}
    (hm : isDiffMode fl) (h : PatchTwin fl fl2) (hv2 : libIsV1 b fl = false)
    (hf : fl.f = "merge") (S : SetFlags fl) (hn : fl.nargs = 1 ∨ fl.nargs = 2)
    {ta tb : String} {a b' : Json}
    (hi1 : e1.in1 = .ok ta) (hi2 : e1.in2 = .ok tb) (hw1 : fl.o = "" ∨ e1.write = .ok ())
    (hra : (nativeLib nc Y).readDoc fl.yaml ta = .ok a)
    (hrb : (nativeLib nc Y).readDoc fl.yaml tb = .ok b')
    (ha : a.setDoc = true) (hb : b'.setDoc = true) (hbn : b'.nullFree = true)
    (hbv : Yaml.voidFree b' = true) (hbN : JText.NumOK nc b' = true)
    (HF : HashFaithful (setOpts fl) (subterms a ++ subterms b'))
    (hab : mergeRTDom a b' = true)
    (hT : e2.in1 = .ok (emitted (proc Ls b fl e1)))
    (ha2 : e2.in2 = e1.in1) (hw : fl2.o = "" ∨ e2.write = .ok ()) :
    ∃ T d' r,
      parsedOptions b fl = .ok (setOpts fl) ∧
      renderMergeM nc (diffM (setOpts fl) a b') = .ok (some T) ∧
      readMergeM nc T = .ok d' ∧ patchM a d' = .ok r ∧
      equals (setOpts fl) r b' = true ∧ equivB (setOpts fl) r b' = true ∧
      TwoRuns (proc Ls b fl e1) (proc Ls b fl2 e2) fl fl2 T
        (if (diffM (setOpts fl) a b').length > 0 then 1 else 0)
        ((nativeLib nc Y).renderDoc fl.yaml (setOpts fl) r) :=
  mergeSet_cli_round_trip F L nc Y Ls hL b hm h hv2 hf S hn hi1 hi2 hw1 hra hrb ha hb hbn hbv hbN HF
    hab hT ha2 hw

/-- **`mergeRTDom` cannot be dropped** (KF-C12-emptyobj in the set readings): `null` against `{}`
    under `[SET, MERGE, Precision 0]` — the text is that of `{}`, read back as the empty diff; the
    library round trip fails for every codec, with or without `-color` -/
theorem merge_set_emptyobj_witness (nc : NumCodec) (Y : YamlCarrier) (color : Bool) :
    mergeRTDom .null (.obj []) = false ∧
    ¬ LibRoundTrip (nativeLib nc Y) .merge color [Opt.set, Opt.merge, Opt.prec 0] .null (.obj [])
        (fun r => equals [Opt.set, Opt.merge, Opt.prec 0] r (.obj []) = true) :=
  Example.mergeSet_emptyobj_no_libRoundTrip nc Y color

/-- non-vacuity: the library theorem on `{"s":["x","y"],"u":"x","v":["x"]}` →
    `{"s":["y","x"],"t":[true],"v":["x","z"]}` under `[SET, MERGE]` and `[MULTISET, MERGE]` (every
    decidable hypothesis checked; only the IEEE laws remain) -/
example (F : FloatEq0) (L : FloatLaws) :
    (∃ text d' r, renderMergeM NativeRT.exCodec
        (diffM [.set, .merge] MSet.Example.exA MSet.Example.exB) = .ok (some text) ∧
      readMergeM NativeRT.exCodec text = .ok d' ∧ patchM MSet.Example.exA d' = .ok r ∧
      equals [.set, .merge] r MSet.Example.exB = true ∧
      equivB [.set, .merge] r MSet.Example.exB = true) ∧
    (∃ text d' r, renderMergeM NativeRT.exCodec
        (diffM [.mset, .merge] MSet.Example.exA MSet.Example.exB) = .ok (some text) ∧
      readMergeM NativeRT.exCodec text = .ok d' ∧ patchM MSet.Example.exA d' = .ok r ∧
      equals [.mset, .merge] r MSet.Example.exB = true ∧
      equivB [.mset, .merge] r MSet.Example.exB = true) :=
  ⟨Example.ex_merge_set F L, Example.ex_merge_mset F L⟩

/-! ## `-f patch` with `-set` / `-mset`: the exit status -/

/-- **C14, `jd -f patch -set|-mset a b`: exit status** (situation `DiffRun`: a diff command line on
    the v2 library, both inputs read and parsed to `a`, `b'`).
    `expressible x` (JdProofs/PatchRender.lean): `x` is an object key that is not number-like and
    not `-`, or a list index; the set / multiset / keyed elements are not. -/
theorem patch_set_exit_status {nc : NumCodec} {Y : YamlCarrier} {Ls : Bool → LibPack} {b : Binary}
    {fl : Flags} {e : Env} {a b' : Json} (R : DiffRun nc Y Ls b fl e a b') (S : SetFlags fl)
    (hf : formatOf fl.f = some .patch)
    (ha : a.rawDoc = true) (hwa : a.wf = true) (hb : b'.rawDoc = true) (hwb : b'.wf = true)
    (hva : E2E.voidFree a = true) (hvb : E2E.voidFree b' = true)
    (FH : DES.DiffFaithful (setOpts fl) (subterms a) (subterms b'))
    (hmar : ∀ z ∈ subterms a ++ subterms b', (marshalNode nc z).isSome = true) :
    ((proc Ls b fl e).exit = 2 ↔ ∃ h ∈ diffM (setOpts fl) a b', ∃ x ∈ h.path, ¬ expressible x) ∧
    ((proc Ls b fl e).exit = 0 ↔ diffM (setOpts fl) a b' = []) ∧
    ((proc Ls b fl e).exit = 1 ↔
      diffM (setOpts fl) a b' ≠ [] ∧ ∀ h ∈ diffM (setOpts fl) a b', ∀ x ∈ h.path, expressible x) :=
  patch_set_exit R S hf ha hwa hb hwb hva hvb FH hmar

/-- a hunk that adds / removes members of an array (path holding `{}` or `[]`) ⇒ exit 2: the first
    process fails, there is nothing for `jd -p -f patch` to read -/
theorem patch_set_exits_two_on_set_hunk {nc : NumCodec} {Y : YamlCarrier} {Ls : Bool → LibPack}
    {b : Binary} {fl : Flags} {e : Env} {a b' : Json} (R : DiffRun nc Y Ls b fl e a b')
    (S : SetFlags fl) (hf : formatOf fl.f = some .patch)
    (ha : a.rawDoc = true) (hwa : a.wf = true) (hb : b'.rawDoc = true) (hwb : b'.wf = true)
    (hva : E2E.voidFree a = true) (hvb : E2E.voidFree b' = true)
    (FH : DES.DiffFaithful (setOpts fl) (subterms a) (subterms b'))
    (hmar : ∀ z ∈ subterms a ++ subterms b', (marshalNode nc z).isSome = true)
    {h : Hunk} (hh : h ∈ diffM (setOpts fl) a b')
    (hset : PathElem.set ∈ h.path ∨ PathElem.mset ∈ h.path) :
    (proc Ls b fl e).exit = 2 :=
  patch_set_exit_two_of_set_hunk R S hf ha hwa hb hwb hva hvb FH hmar hh hset

/-- library fact behind it: `writePointer` fails exactly on the paths with an inexpressible element -/
theorem pointer_refused_iff (p : Path) :
    writePointerPath p = .err ↔ ∃ x ∈ p, ¬ expressible x :=
  writePointerPath_err_iff p

/-- non-vacuity, and the exit status on a concrete command line: `jd -f patch -set a.json b.json`
    with the files `["x"]` and `[]` (binary A, codec `exCodec`, texts parsed by the model's reader):
    the diff is the set hunk `@ [{}]  - "x"`, the process exits 2 (as the Go binary does) -/
example :
    diffM [Opt.set, Opt.prec 0] Example.pA Example.pB =
      [{ path := [.set], remove := [.str "x"], add := [] }] ∧
    (proc CliRT.NativeExample.Ls .v2jd Example.flPS
      { in1 := .ok Example.tpA, in2 := .ok Example.tpB }).exit = 2 :=
  ⟨Example.ex_diff, Example.ex_patch_set_exit_two⟩

end Jd.Props.C14MergeSet
