/-
  Property C11 — the RFC 7386 output means the same as the merge diff.
  Statement file (proofs in JdProofs/MergeProofs.lean, namespace `Jd.Merge`).

  Model side: `diffM o a b` with `isMerge o = true` is `a.Diff(b, MERGE, …)`;
  `renderMergeDoc d` (JdModel/MergeFmt.lean) is `Diff.RenderMerge()` before JSON encoding: the
  merge patch DOCUMENT. Spec side: `mergePatch target patch` (JdSpec/Rfc7386.lean) is the pseudocode of
  RFC 7386 section 2, transcribed; `equivB o` the advertised equivalence.

  STATED: for documents as read from JSON text, `b` null-free, that `Equals` tells apart, the diff
  renders to a merge patch document `m` and `MergePatch(a, m)` is `b` (up to `equivB o`, which ignores
  the Go dynamic type of array nodes). Without `a ≠ b` when `a` is an object (the empty diff renders
  to `{}`, the identity on objects). The rendered document is never void and never `null`.

  SCOPE: the MERGE option with the LIST reading of arrays (`dispatchTag o = .list`) and no Precision.
  SET+MERGE and MULTISET+MERGE are not covered by a theorem (correspondence and oracle only; known
  finding KF-C04-alias applies there).

  HYPOTHESES and why
    `a.wf`, `a.rawDoc`: unique sorted keys, plain arrays (as read from text). `a` MAY contain nulls:
       they are overwritten or deleted, never kept;
    `b.wf`, `b.rawDoc`, `b.finiteNums`, `objVoidFree b` (no void at the root or as a member: what a
       reader produces), `b.nullFree`: RFC 7386 cannot express "set to null" — the domain of the
       property;
    `equals o a b = false`: for equal non-object documents the empty diff renders to `{}`, and
       `MergePatch(a, {})` is `{}` — hence the property's "that differ";
    `FloatLaws`: reflexivity of `|x − y| ≤ eps` on the numbers that are copied.
-/
import JdProofs.MergeProofs

namespace Jd.Props.C11
open Jd Jd.Spec Jd.Merge

/-- **C11**: options with MERGE, list reading, no Precision -/
theorem rendered_merge_patch_yields_target (L : FloatLaws) (o : Opts) (hm : isMerge o = true)
    (ho : dispatchTag o = .list) (hprec : precOf o = 0) (a b : Json)
    (haw : a.wf = true) (har : a.rawDoc = true)
    (hbw : b.wf = true) (hbr : b.rawDoc = true) (hbn : b.nullFree = true)
    (hbv : objVoidFree b = true) (hbf : b.finiteNums = true)
    (hne : equals o a b = false) :
    ∃ m, renderMergeDoc (diffM o a b) = .ok m ∧ equivB o (mergePatch a m) b = true :=
  merge_render_correct L o hm ho hprec a b haw har hbw hbr hbn hbv hbf hne

/-- the option list `[MERGE]` itself -/
theorem rendered_merge_patch_yields_target_MERGE (L : FloatLaws) (a b : Json)
    (haw : a.wf = true) (har : a.rawDoc = true)
    (hbw : b.wf = true) (hbr : b.rawDoc = true) (hbn : b.nullFree = true)
    (hbv : objVoidFree b = true) (hbf : b.finiteNums = true)
    (hne : equals [.merge] a b = false) :
    ∃ m, renderMergeDoc (diffM [.merge] a b) = .ok m ∧
      equivB [.merge] (mergePatch a m) b = true :=
  merge_render_correct_MERGE L a b haw har hbw hbr hbn hbv hbf hne

/-- without the hypothesis `a ≠ b` when the first document is an object -/
theorem rendered_merge_patch_yields_target_object (L : FloatLaws) (o : Opts)
    (hm : isMerge o = true) (ho : dispatchTag o = .list) (hprec : precOf o = 0) (a b : Json)
    (haw : a.wf = true) (har : a.rawDoc = true)
    (hbw : b.wf = true) (hbr : b.rawDoc = true) (hbn : b.nullFree = true)
    (hbv : objVoidFree b = true) (hbf : b.finiteNums = true)
    (hobj : a.isObj = true) :
    ∃ m, renderMergeDoc (diffM o a b) = .ok m ∧ equivB o (mergePatch a m) b = true :=
  merge_render_correct_obj L o hm ho hprec a b haw har hbw hbr hbn hbv hbf hobj

/-- the rendered patch is a proper merge patch document: never void, and never `null` at the root -/
theorem rendered_merge_patch_is_a_document (L : FloatLaws) (o : Opts) (hm : isMerge o = true)
    (ho : dispatchTag o = .list) (hprec : precOf o = 0) (a b : Json)
    (haw : a.wf = true) (har : a.rawDoc = true)
    (hbw : b.wf = true) (hbr : b.rawDoc = true) (hbn : b.nullFree = true)
    (hbv : objVoidFree b = true) (hbf : b.finiteNums = true) :
    ∃ m, renderMergeDoc (diffM o a b) = .ok m ∧ m.isVoid = false ∧ m.isNull = false :=
  merge_render_doc L o hm ho hprec a b haw har hbw hbr hbn hbv hbf

/-! Non-vacuity: `{"a":{"b":"x","c":null},"d":["p"]}` → `{"a":{"b":"y"},"e":"q"}` (a changed member at
    depth, a removed key at depth, an array replaced by nothing, an added key; `a` contains a null)
    satisfies every hypothesis. -/

private def exA : Json :=
  .obj [("a", .obj [("b", .str "x"), ("c", .null)]), ("d", .arr .raw [.str "p"])]
private def exB : Json := .obj [("a", .obj [("b", .str "y")]), ("e", .str "q")]

example : isMerge [.merge] = true ∧ dispatchTag [.merge] = .list ∧ precOf [.merge] = 0 ∧
    exA.wf = true ∧ exA.rawDoc = true ∧ exB.wf = true ∧ exB.rawDoc = true ∧ exB.nullFree = true ∧
    objVoidFree exB = true ∧ exB.finiteNums = true ∧ equals [.merge] exA exB = false := by
  refine ⟨rfl, rfl, rfl, by decide, by decide, by decide, by decide, by decide, by decide,
    by decide, ?_⟩
  simp [exA, exB, equals, equalsKvs, alookup]

example (L : FloatLaws) :
    ∃ m, renderMergeDoc (diffM [.merge] exA exB) = .ok m ∧
      equivB [.merge] (mergePatch exA m) exB = true :=
  rendered_merge_patch_yields_target_MERGE L exA exB (by decide) (by decide) (by decide) (by decide)
    (by decide) (by decide) (by decide) (by simp [exA, exB, equals, equalsKvs, alookup])

end Jd.Props.C11
