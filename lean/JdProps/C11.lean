/-
  Property C11 — the RFC 7386 output means the same as the merge diff.
  Statement file (proofs: list reading in JdProofs/MergeProofs.lean, namespace `Jd.Merge`;
  SET+MERGE and MULTISET+MERGE in JdProofs/MergeSetModes.lean, namespace `Jd.MSet`).

  Model side: `diffM o a b` with `isMerge o = true` is `a.Diff(b, MERGE, …)`;
  `renderMergeDoc d` (JdModel/MergeFmt.lean) is `Diff.RenderMerge()` before JSON encoding: the
  merge patch DOCUMENT. Spec side: `mergePatch target patch` (JdSpec/Rfc7386.lean) is the pseudocode of
  RFC 7386 section 2, transcribed; `equivB o` the advertised equivalence (JdSpec/CanonEq.lean: arrays
  compared as lists, sets or multisets according to `o`, no hashes).

  STATED: for documents as read from JSON text, `b` null-free, that `Equals` tells apart, the diff
  renders to a merge patch document `m` and `MergePatch(a, m)` is `b` "under the array reading in
  force". Without `a ≠ b` when `a` is an object (the empty diff renders to `{}`, the identity on
  objects). The rendered document is never void and never `null`.
  * MERGE with the LIST reading of arrays (`dispatchTag o = .list`), no Precision: `MergePatch(a, m)`
    is `b` up to `equivB o`, which in list mode ignores only the Go dynamic type of array nodes.
    No hash hypothesis.
  * SET+MERGE and MULTISET+MERGE (`dispatchTag o = .set` / `.mset`, no SetKeys, no Precision): NOW
    PROVED, RELATIVE TO `HashFaithful o (subterms a ++ subterms b)`. The conclusion is
        `equals o (mergePatch a m) b = true ∧ equivB o (mergePatch a m) b = true`:
    the library's `Equals` AND the advertised equivalence, both under the SET / MULTISET reading.
    It cannot be more: where `a` and `b` hold arrays that are Equal as sets but not as lists the
    merge diff says nothing and RFC 7386 keeps `a`'s array, so the result is `b` only under the set
    reading (`result_is_target_under_the_set_reading_only`). Arrays that are not Equal are
    replaced wholesale.
    Why the hash hypothesis, and what fails without it:
      - pre-image ALIASES (known finding KF-C04-alias) leave the `Equals` conclusion intact and
        break the `equivB` conclusion: `alias_needs_hashFaithful` (`{"k":[[]]}` → `{"k":[""],"z":true}`:
        the patch is `{"z":true}`, the result Equals `b` and is not equivalent to it);
      - a genuine FNV collision between two arrays that `Equals` takes for equal while their member
        identities differ makes `RenderMerge` FAIL (the strict set / multiset diff that the merge
        strategy runs on "equal" arrays emits a non-merge hunk): `render_fails_on_collision_set`,
        `render_fails_on_collision_mset`. These two are CONDITIONAL statements: no theorem of this
        file instantiates them (a concrete pair of arrays that are Equal with no member in common
        is `fnv_collision_breaks_converse` in JdProps/C05.lean).
  NOT PROVED: SetKeys with MERGE, Precision with MERGE; the JSON encoding of the document `m` (text
  level) is outside this file.

  HYPOTHESES and why
    `a.wf`, `a.rawDoc`: unique sorted keys, plain arrays (as read from text). `a` MAY contain nulls:
       they are overwritten or deleted, never kept;
    `b.wf`, `b.rawDoc`, `b.finiteNums`, `objVoidFree b` (no void at the root or as a member: what a
       reader produces), `b.nullFree`: RFC 7386 cannot express "set to null" — the domain of the
       property;
    `equals o a b = false`: for equal non-object documents the empty diff renders to `{}`, and
       `MergePatch(a, {})` is `{}` — hence the property's "that differ";
    `FloatLaws`: reflexivity of `|x − y| ≤ eps` on the numbers that are copied.
    Set modes in addition: `a.setDoc`, `b.setDoc` (= `rawDoc` ∧ `wf` ∧ `finiteNums` ∧ `noNegZero`);
    `FloatEq0` (`|x − y| ≤ +0` only for `x = y`: equivalent numbers have equal hash codes);
    `HashFaithful o (subterms a ++ subterms b)`: among the sub-terms of `a` and `b`, equal hash codes
       only for equivalent nodes (no FNV-1a collision, no pre-image alias) — see above.
-/
import JdProofs.MergeProofs
import JdProofs.MergeSetModes
import JdProofs.MergePrecision
import JdProofs.KeysMergeB
import JdProofs.KeysMerge
import JdProps.C09Text
import JdProps.C01Void
import JdProps.C11TextModes

namespace Jd.Props.C11
open Jd Jd.Spec Jd.Merge

/-- **C11**: options with MERGE, list reading, no Precision -/
theorem rendered_merge_patch_yields_target (L : FloatLaws) (o : Opts) (hm : isMerge o = true)
    (ho : dispatchTag o = .list) (hprec : precOf o = 0) (a b : Json)
    (haw : a.wf = true) (har : a.rawDoc = true)
    (hbw : b.wf = true) (hbr : b.rawDoc = true) (hbn : b.nullFree = true)
    (hbv : objVoidFree b = true) (hbf : b.finiteNums = true)
    (hne : equals o a b = false) :
    ∃ m, renderMergeDoc (diffM o a b) = .ok m ∧ equivB o (mergePatch a m) b = true :=
  merge_render_correct L o hm ho hprec a b haw har hbw hbr hbn hbv hbf hne

/-- the option list `[MERGE]` itself -/
theorem rendered_merge_patch_yields_target_MERGE (L : FloatLaws) (a b : Json)
    (haw : a.wf = true) (har : a.rawDoc = true)
    (hbw : b.wf = true) (hbr : b.rawDoc = true) (hbn : b.nullFree = true)
    (hbv : objVoidFree b = true) (hbf : b.finiteNums = true)
    (hne : equals [.merge] a b = false) :
    ∃ m, renderMergeDoc (diffM [.merge] a b) = .ok m ∧
      equivB [.merge] (mergePatch a m) b = true :=
  merge_render_correct_MERGE L a b haw har hbw hbr hbn hbv hbf hne

/-- without the hypothesis `a ≠ b` when the first document is an object -/
theorem rendered_merge_patch_yields_target_object (L : FloatLaws) (o : Opts)
    (hm : isMerge o = true) (ho : dispatchTag o = .list) (hprec : precOf o = 0) (a b : Json)
    (haw : a.wf = true) (har : a.rawDoc = true)
    (hbw : b.wf = true) (hbr : b.rawDoc = true) (hbn : b.nullFree = true)
    (hbv : objVoidFree b = true) (hbf : b.finiteNums = true)
    (hobj : a.isObj = true) :
    ∃ m, renderMergeDoc (diffM o a b) = .ok m ∧ equivB o (mergePatch a m) b = true :=
  merge_render_correct_obj L o hm ho hprec a b haw har hbw hbr hbn hbv hbf hobj

/-- the rendered patch is a proper merge patch document: never void, and never `null` at the root -/
theorem rendered_merge_patch_is_a_document (L : FloatLaws) (o : Opts) (hm : isMerge o = true)
    (ho : dispatchTag o = .list) (hprec : precOf o = 0) (a b : Json)
    (haw : a.wf = true) (har : a.rawDoc = true)
    (hbw : b.wf = true) (hbr : b.rawDoc = true) (hbn : b.nullFree = true)
    (hbv : objVoidFree b = true) (hbf : b.finiteNums = true) :
    ∃ m, renderMergeDoc (diffM o a b) = .ok m ∧ m.isVoid = false ∧ m.isNull = false :=
  merge_render_doc L o hm ho hprec a b haw har hbw hbr hbn hbv hbf

/-! ## SET+MERGE and MULTISET+MERGE -/

/-- **C11, SET+MERGE and MULTISET+MERGE** (any option list selecting them; no SetKeys, no
    Precision): the merge diff renders to a JSON Merge Patch document `m`, and RFC 7386
    `MergePatch(a, m)` is `b` under the array reading in force — for the library's `Equals` and for
    the advertised equivalence `equivB` -/
theorem rendered_merge_patch_yields_target_setmodes (F : FloatEq0) (L : FloatLaws) (o : Opts)
    (hmg : isMerge o = true) (hm : dispatchTag o = .set ∨ dispatchTag o = .mset)
    (hk : keysOf o = none) (hp : precOf o = 0) (a b : Json)
    (ha : a.setDoc = true) (hb : b.setDoc = true) (hbn : b.nullFree = true)
    (hbv : objVoidFree b = true) (HF : HashFaithful o (subterms a ++ subterms b))
    (hne : equals o a b = false) :
    ∃ m, renderMergeDoc (diffM o a b) = .ok m ∧
      equals o (mergePatch a m) b = true ∧ equivB o (mergePatch a m) b = true :=
  MSet.merge_render_correct_setmodes F L o hmg hm hk hp a b ha hb hbn hbv HF hne

/-- the option list `[SET, MERGE]` itself -/
theorem rendered_merge_patch_yields_target_SET_MERGE (F : FloatEq0) (L : FloatLaws) (a b : Json)
    (ha : a.setDoc = true) (hb : b.setDoc = true) (hbn : b.nullFree = true)
    (hbv : objVoidFree b = true) (HF : HashFaithful [.set, .merge] (subterms a ++ subterms b))
    (hne : equals [.set, .merge] a b = false) :
    ∃ m, renderMergeDoc (diffM [.set, .merge] a b) = .ok m ∧
      equals [.set, .merge] (mergePatch a m) b = true ∧
      equivB [.set, .merge] (mergePatch a m) b = true :=
  MSet.merge_render_correct_SET_MERGE F L a b ha hb hbn hbv HF hne

/-- the option list `[MULTISET, MERGE]` itself -/
theorem rendered_merge_patch_yields_target_MULTISET_MERGE (F : FloatEq0) (L : FloatLaws)
    (a b : Json) (ha : a.setDoc = true) (hb : b.setDoc = true) (hbn : b.nullFree = true)
    (hbv : objVoidFree b = true) (HF : HashFaithful [.mset, .merge] (subterms a ++ subterms b))
    (hne : equals [.mset, .merge] a b = false) :
    ∃ m, renderMergeDoc (diffM [.mset, .merge] a b) = .ok m ∧
      equals [.mset, .merge] (mergePatch a m) b = true ∧
      equivB [.mset, .merge] (mergePatch a m) b = true :=
  MSet.merge_render_correct_MULTISET_MERGE F L a b ha hb hbn hbv HF hne

/-- set modes, without the hypothesis `a ≠ b` when the first document is an object -/
theorem rendered_merge_patch_yields_target_setmodes_object (F : FloatEq0) (L : FloatLaws)
    (o : Opts) (hmg : isMerge o = true) (hm : dispatchTag o = .set ∨ dispatchTag o = .mset)
    (hk : keysOf o = none) (hp : precOf o = 0) (a b : Json)
    (ha : a.setDoc = true) (hb : b.setDoc = true) (hbn : b.nullFree = true)
    (hbv : objVoidFree b = true) (HF : HashFaithful o (subterms a ++ subterms b))
    (hobj : a.isObj = true) :
    ∃ m, renderMergeDoc (diffM o a b) = .ok m ∧
      equals o (mergePatch a m) b = true ∧ equivB o (mergePatch a m) b = true :=
  MSet.merge_render_correct_setmodes_obj F L o hmg hm hk hp a b ha hb hbn hbv HF hobj

/-- set modes: the rendered patch is a proper merge patch document: never void, never `null` at the
    root (whether or not the documents differ) -/
theorem rendered_merge_patch_is_a_document_setmodes (F : FloatEq0) (L : FloatLaws) (o : Opts)
    (hmg : isMerge o = true) (hm : dispatchTag o = .set ∨ dispatchTag o = .mset)
    (hk : keysOf o = none) (hp : precOf o = 0) (a b : Json)
    (ha : a.setDoc = true) (hb : b.setDoc = true) (hbn : b.nullFree = true)
    (hbv : objVoidFree b = true) (HF : HashFaithful o (subterms a ++ subterms b)) :
    ∃ m, renderMergeDoc (diffM o a b) = .ok m ∧ m.isVoid = false ∧ m.isNull = false :=
  MSet.merge_render_doc_setmodes F L o hmg hm hk hp a b ha hb hbn hbv HF

/-! ### Set modes: what the conclusion means, and why `HashFaithful` is there -/

/-- the conclusion is about the SET reading and cannot be about the list reading:
    `{"s":["x","y"],"u":"x","v":["x"]}` → `{"s":["y","x"],"t":[true],"v":["x","z"]}` under
    `[SET, MERGE]` (documents `MSet.Example.exA`, `exB`; every hypothesis of the theorem holds, see the
    examples below). The arrays under `s` are Equal as sets, the patch does not mention `s`,
    RFC 7386 keeps `["x","y"]`: the result Equals `b` and is equivalent to it as sets, and is NOT
    equivalent to it under the list reading `[MERGE]`. Relative to `FloatEq0` only. -/
theorem result_is_target_under_the_set_reading_only (F : FloatEq0) :
    ∃ m, renderMergeDoc (diffM [.set, .merge] MSet.Example.exA MSet.Example.exB) = .ok m ∧
      equals [.set, .merge] (mergePatch MSet.Example.exA m) MSet.Example.exB = true ∧
      equivB [.set, .merge] (mergePatch MSet.Example.exA m) MSet.Example.exB = true ∧
      equivB [.merge] (mergePatch MSet.Example.exA m) MSet.Example.exB = false := by
  obtain ⟨h1, h2, h3, h4, h5⟩ := MSet.Example.ex_run_set F
  exact ⟨_, h1, h2 ▸ h3, h2 ▸ h4, h2 ▸ h5⟩

/-- the same pair under `[MULTISET, MERGE]` (`["x","y"]` and `["y","x"]` are the same bag) -/
theorem result_is_target_under_the_multiset_reading_only (F : FloatEq0) :
    ∃ m, renderMergeDoc (diffM [.mset, .merge] MSet.Example.exA MSet.Example.exB) = .ok m ∧
      equals [.mset, .merge] (mergePatch MSet.Example.exA m) MSet.Example.exB = true ∧
      equivB [.mset, .merge] (mergePatch MSet.Example.exA m) MSet.Example.exB = true ∧
      equivB [.merge] (mergePatch MSet.Example.exA m) MSet.Example.exB = false := by
  obtain ⟨h1, h2, h3, h4, h5⟩ := MSet.Example.ex_run_mset F
  exact ⟨_, h1, h2 ▸ h3, h2 ▸ h4, h2 ▸ h5⟩

/-- `HashFaithful` cannot be dropped from the `equivB` conclusion (known finding KF-C04-alias: `[]`
    and `""` have the same hash code). `a = {"k":[[]]}`, `b = {"k":[""],"z":true}`: documents of
    the domain that `Equals` tells apart; the arrays under `k` are Equal, the merge diff says nothing
    about them, the rendered patch is `{"z":true}`, RFC 7386 keeps `[[]]`: the result
    `{"k":[[]],"z":true}` Equals `b` but is NOT equivalent to it as sets. -/
theorem alias_needs_hashFaithful (a b : Json) (ha : a = .obj [("k", .arr .raw [.arr .raw []])])
    (hb : b = .obj [("k", .arr .raw [.str ""]), ("z", .bool true)]) :
    a.setDoc = true ∧ b.setDoc = true ∧ b.nullFree = true ∧ objVoidFree b = true ∧
    equals [.set, .merge] a b = false ∧
    renderMergeDoc (diffM [.set, .merge] a b) = .ok (.obj [("z", .bool true)]) ∧
    mergePatch a (.obj [("z", .bool true)])
      = .obj [("k", .arr .raw [.arr .raw []]), ("z", .bool true)] ∧
    equals [.set, .merge] (.obj [("k", .arr .raw [.arr .raw []]), ("z", .bool true)]) b = true ∧
    equivB [.set, .merge] (.obj [("k", .arr .raw [.arr .raw []]), ("z", .bool true)]) b
      = false := by
  subst ha hb; exact MSet.Example.alias_needs_hashFaithful

/-- a hash hypothesis is needed even for `RenderMerge` to succeed, SET+MERGE: two arrays that
    `Equals` (one comparison of combined hash codes) takes for equal are handed to the strict set
    diff, which works identity by identity; if it finds a member of the second array whose identity
    is not in the first (`SetDP.setAdd o xs ys ≠ []`: possible only under an FNV collision of the
    combined code), the diff contains a non-merge hunk and `RenderMerge` returns an error -/
theorem render_fails_on_collision_set {o : Opts} (hmg : isMerge o = true)
    (hd : dispatchTag o = .set) (xs ys : List Json)
    (he : equals o (.arr .raw xs) (.arr .raw ys) = true) (hadd : SetDP.setAdd o xs ys ≠ []) :
    renderMergeDoc (diffM o (.arr .raw xs) (.arr .raw ys)) = .err :=
  MSet.render_err_of_collision_set hmg hd xs ys he hadd

/-- the same for MULTISET+MERGE (`SetDP.bagSurplus o ys xs`: the members of `ys` in excess of `xs`,
    by hash code) -/
theorem render_fails_on_collision_mset {o : Opts} (hmg : isMerge o = true)
    (hd : dispatchTag o = .mset) (xs ys : List Json)
    (he : equals o (.arr .raw xs) (.arr .raw ys) = true)
    (hadd : SetDP.bagSurplus o ys xs ≠ []) :
    renderMergeDoc (diffM o (.arr .raw xs) (.arr .raw ys)) = .err :=
  MSet.render_err_of_collision_mset hmg hd xs ys he hadd

/-! Non-vacuity: `{"a":{"b":"x","c":null},"d":["p"]}` → `{"a":{"b":"y"},"e":"q"}` (a changed member at
    depth, a removed key at depth, an array replaced by nothing, an added key; `a` contains a null)
    satisfies every hypothesis. -/

private def exA : Json :=
  .obj [("a", .obj [("b", .str "x"), ("c", .null)]), ("d", .arr .raw [.str "p"])]
private def exB : Json := .obj [("a", .obj [("b", .str "y")]), ("e", .str "q")]

example : isMerge [.merge] = true ∧ dispatchTag [.merge] = .list ∧ precOf [.merge] = 0 ∧
    exA.wf = true ∧ exA.rawDoc = true ∧ exB.wf = true ∧ exB.rawDoc = true ∧ exB.nullFree = true ∧
    objVoidFree exB = true ∧ exB.finiteNums = true ∧ equals [.merge] exA exB = false := by
  refine ⟨rfl, rfl, rfl, by decide, by decide, by decide, by decide, by decide, by decide,
    by decide, ?_⟩
  simp [exA, exB, equals, equalsKvs, alookup]

example (L : FloatLaws) :
    ∃ m, renderMergeDoc (diffM [.merge] exA exB) = .ok m ∧
      equivB [.merge] (mergePatch exA m) exB = true :=
  rendered_merge_patch_yields_target_MERGE L exA exB (by decide) (by decide) (by decide) (by decide)
    (by decide) (by decide) (by decide) (by simp [exA, exB, equals, equalsKvs, alookup])

/-! Non-vacuity, set modes: `MSet.Example.exA = {"s":["x","y"],"u":"x","v":["x"]}` →
    `MSet.Example.exB = {"s":["y","x"],"t":[true],"v":["x","z"]}` (an array Equal as a set but not as a
    list, a removed key, an added array, an array replaced wholesale) satisfies every hypothesis of
    the SET+MERGE and MULTISET+MERGE theorems (`HashFaithful` checked on its 16 sub-terms); only the
    IEEE-754 laws are left as assumptions. -/

example : MSet.Example.exA.setDoc = true ∧ MSet.Example.exB.setDoc = true ∧
    MSet.Example.exB.nullFree = true ∧ objVoidFree MSet.Example.exB = true ∧
    equals [.set, .merge] MSet.Example.exA MSet.Example.exB = false ∧
    equals [.mset, .merge] MSet.Example.exA MSet.Example.exB = false ∧
    HashFaithful [.set, .merge] (subterms MSet.Example.exA ++ subterms MSet.Example.exB) ∧
    HashFaithful [.mset, .merge] (subterms MSet.Example.exA ++ subterms MSet.Example.exB) :=
  ⟨MSet.Example.ex_docs.1, MSet.Example.ex_docs.2.1, MSet.Example.ex_docs.2.2.1,
    MSet.Example.ex_docs.2.2.2, MSet.Example.ex_ne.1, MSet.Example.ex_ne.2,
    MSet.Example.ex_hashFaithful_set, MSet.Example.ex_hashFaithful_mset⟩

example (F : FloatEq0) (L : FloatLaws) :
    ∃ m, renderMergeDoc (diffM [.set, .merge] MSet.Example.exA MSet.Example.exB) = .ok m ∧
      equals [.set, .merge] (mergePatch MSet.Example.exA m) MSet.Example.exB = true ∧
      equivB [.set, .merge] (mergePatch MSet.Example.exA m) MSet.Example.exB = true :=
  MSet.Example.ex_set F L

example (F : FloatEq0) (L : FloatLaws) :
    ∃ m, renderMergeDoc (diffM [.mset, .merge] MSet.Example.exA MSet.Example.exB) = .ok m ∧
      equals [.mset, .merge] (mergePatch MSet.Example.exA m) MSet.Example.exB = true ∧
      equivB [.mset, .merge] (mergePatch MSet.Example.exA m) MSet.Example.exB = true :=
  MSet.Example.ex_mset F L

/-! ## RFC 7386 output with a Precision option (list reading) -/

/-- **C11 with any non-negative Precision**: for null-free documents whose merge diff is not empty (or
    `a` an object), the rendered merge document applied to `a` by the RFC 7386 pseudocode yields a document
    that `Equals` `b` under the options. "Differ" has to be read as "the diff is not empty": `[1]` vs
    `[1.00001]` under Precision(0.01) are Equal, the patch is `{}` and `MergePatch([1], {}) = {}`
    (`MP.Witness.render_within_eps_array`). -/
theorem merge_render_correct_precision (L : FloatLaws) (o : Opts) (hm : isMerge o = true)
    (ho : dispatchTag o = .list) (hp : Jd.Spec.nonnegBits (precOf o) = true) (M : Jd.DPL.PrecMono o)
    (a b : Json) (haw : a.wf = true) (har : a.rawDoc = true)
    (hbw : b.wf = true) (hbr : b.rawDoc = true) (hbn : b.nullFree = true)
    (hbv : Jd.Merge.objVoidFree b = true) (hbf : b.finiteNums = true)
    (hne : diffM o a b ≠ [] ∨ a.isObj = true) :
    ∃ m, Jd.renderMergeDoc (diffM o a b) = .ok m ∧
      equals o (Jd.Spec.mergePatch a m) b = true ∧ equivB o (Jd.Spec.mergePatch a m) b = true :=
  Jd.MP.merge_render_correct_precision_gen L o hm ho hp M a b haw har hbw hbr hbn hbv hbf hne

/-! ## SetKeys + MERGE (see JdProps/C01.lean for the class `KM.clash`) -/

/-- **C11, SetKeys + MERGE**: without a clash the rendered merge document applied to `a` by RFC 7386 is `b`
    under the set reading; `RenderMerge` succeeds iff there is no clash (`KM.render_ok_iff_noclash`) -/
theorem merge_render_correct_setkeys_noclash (F : FloatEq0) (L : FloatLaws) (o : Opts)
    (hmg : isMerge o = true) (hd : dispatchTag o = .set) (hp : precOf o = 0) (a b : Json)
    (ha : a.setDoc = true) (hb : b.setDoc = true)
    (HF : HashFaithful o (subterms a ++ subterms b))
    (hbn : b.nullFree = true) (hbv : Jd.Merge.objVoidFree b = true) (hc : Jd.KM.clash o a b = false)
    (hne : equals o a b = false) :
    ∃ m, renderMergeDoc (diffM o a b) = .ok m ∧
      equals o (mergePatch a m) b = true ∧ equivB o (mergePatch a m) b = true :=
  Jd.KM.merge_render_correct_setkeys_noclash F o hmg hd hp a b ha hb HF L hbn hbv hc hne

end Jd.Props.C11
