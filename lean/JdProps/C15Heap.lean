/-
  Property C15, aliasing half for VALUES — statement file (proofs in JdProofs/NodeHeapProofs.lean, model in
  JdModel/NodeHeap.lean).

  C15 says: Diff, Equals, Render, RenderPatch, RenderMerge, Json and Yaml do not change the documents or
  diffs they are given, and a diff still patches correctly after being rendered in any format. The
  functional model cannot even state the ways this failed in the Go code (D29, D29-lib, D33; D11 / D12 for
  the slices inside hunks): a call wrote through a map or a slice it SHARED with the caller's value.
  `JdModel/NodeHeap.lean` is an imperative model of Go values: a heap of maps and slice backing arrays,
  nodes that refer to them by address, the writes Go can do through a reference, and the library's
  `cloneNode` / `cloneNodes`. The theorems here say that `cloneNode` is a deep copy in the sense that
  matters — what it returns denotes the same value and shares NO address with anything that existed
  before — and that therefore no in-place edit of the copy, however long, can change the diff or the
  source document. The witnesses show that each of the two seeded weakenings of `cloneNode` (shallow copy;
  empty map returned as it is) breaks exactly this.

  Reading guide: `Heap` = list of objects (address = position); `HNode` = a Go interface value
  (`objRef a`, `arrRef tag a off len cap`, or an immutable scalar); `deref h g n : Option Json` = the
  functional value `n` denotes in `h` with fuel `g` (`none`: dangling, cyclic or too deep);
  `reach h g n` = the addresses that reading looks at; `Write` = one effect (`mapSet`, `mapDel`,
  `cellSet`, `alloc`), `runWrites` = a sequence of them.
-/
import JdProofs.NodeHeapProofs

namespace Jd.Props.C15Heap
open Jd Jd.NodeHeap

/-! ### the hypothesis "no dangling reference" and how to establish it -/

/-- `InB h n` (no reference dangles below `n`, at any depth) follows from two decidable checks: no object
    of the heap stores a reference beyond the heap (`closedHeap`), and `n`'s own reference is allocated.
    Go has no dangling pointers, so every heap that arises from a Go execution satisfies both. -/
theorem no_dangling_in_a_closed_heap {h : Heap} (hc : closedHeap h = true) {n : HNode}
    (hn : n.below h.length = true) : InB h n :=
  InB_of_closed hc hn

/-! ### (a) (b) (c): what `cloneNode` returns -/

/-- (a) SAME VALUE. If `n` has no dangling reference and the clone succeeds, the clone denotes what the
    original denotes — for every fuel `g`, so also "denotes nothing with this fuel" is preserved.
    `InB` is needed: `clone_needs_no_dangling` below. -/
theorem clone_denotes_the_same_value {f : Nat} {h h' : Heap} {n n' : HNode} (ib : InB h n)
    (hc : cloneNode f h n = some (h', n')) (g : Nat) : deref h' g n' = deref h g n :=
  clone_same_value ib hc g

/-- the clone succeeds with the very fuel with which the original denotes a value: success of
    `cloneNode` is not an extra assumption for values that exist -/
theorem clone_succeeds_on_values {f : Nat} {h : Heap} {n : HNode} {j : Json} (ib : InB h n)
    (hd : deref h f n = some j) : ∃ h' n', cloneNode f h n = some (h', n') :=
  cloneNode_total f h n j ib hd

/-- (b) FRESHNESS. Every address reachable from the clone was allocated by the clone: it is not an
    address of the old heap `h` (`h.length ≤ a`) and it exists in the new one. -/
theorem clone_reaches_only_new_addresses {f : Nat} {h h' : Heap} {n n' : HNode} (ib : InB h n)
    (hc : cloneNode f h n = some (h', n')) (g : Nat) :
    ∀ a ∈ reach h' g n', h.length ≤ a ∧ a < h'.length :=
  clone_fresh ib hc g

/-- (b') hence the clone shares nothing with any node `x` that existed before — the diff, the source
    document, anything — whether `x` is looked at in the old heap or in the new one -/
theorem clone_shares_nothing_with_old_values {f : Nat} {h h' : Heap} {n n' : HNode} (ib : InB h n)
    (hc : cloneNode f h n = some (h', n')) {x : HNode} (ibx : InB h x) (g g' : Nat) :
    ∀ a ∈ reach h' g n', a ∉ reach h g' x ∧ a ∉ reach h' g' x :=
  clone_disjoint ib hc ibx g g'

/-- (c) FRAME. The clone changes the content of no old address (it only allocates). -/
theorem clone_leaves_old_objects_alone {f : Nat} {h h' : Heap} {n n' : HNode} (ib : InB h n)
    (hc : cloneNode f h n = some (h', n')) :
    (∀ b, b < h.length → h'[b]? = h[b]?) ∧ ∃ e : List Obj, h' = runWrites h (e.map Write.alloc) :=
  ⟨clone_frame ib hc, clone_is_allocs ib hc⟩

/-! ### (d): editing the copy cannot change the diff or the source document -/

/-- (d) After `cloneNode`, run ANY sequence of effects each of which is an allocation or writes into an
    object reachable from the clone (`m[k] = v`, `delete(m,k)`, `s[i] = v`, `append` into spare capacity
    — with ANY stored node `v`). Then every node `x` of the old heap denotes exactly what it denoted, at
    every fuel. Hypotheses: `ib`, `ibx` — no dangling references in the cloned node and in the observed
    node (needed: a dangling reference starts to denote something once its address is allocated);
    `hw` — the write targets are objects of the clone. -/
theorem editing_the_copy_changes_nothing_old {f : Nat} {h h1 : Heap} {n n1 : HNode} (ib : InB h n)
    (hc : cloneNode f h n = some (h1, n1)) (ws : List Write)
    (hw : ∀ w ∈ ws, ∀ a, w.target = some a → ∃ g, a ∈ reach h1 g n1)
    {x : HNode} (ibx : InB h x) (g : Nat) :
    deref (runWrites h1 ws) g x = deref h g x :=
  edits_below_clone_invisible ib hc ws hw ibx g

/-- (d), the `patchAll` shape: the values a hunk adds are handed to `patch` as `cloneNodes(de.Add)`;
    whatever is written below the copies, the hunk's own nodes keep their values -/
theorem editing_cloned_adds_changes_nothing_old {f : Nat} {h h1 : Heap} {adds adds1 : List HNode}
    (ib : ∀ x ∈ adds, InB h x) (hc : cloneNodes f h adds = some (h1, adds1)) (ws : List Write)
    (hw : ∀ w ∈ ws, ∀ a, w.target = some a → ∃ v ∈ adds1, ∃ g, a ∈ reach h1 g v)
    {x : HNode} (ibx : InB h x) (g : Nat) :
    deref (runWrites h1 ws) g x = deref h g x :=
  edits_below_cloned_adds_invisible ib hc ws hw ibx g

/-- (d), dynamic form. The targets of (d) are fixed when the clone is made; a real editor also allocates
    (further copies, new maps), hangs the new objects into the clone and edits THOSE. `okWrites w g root`
    is the executable discipline of an owner: each write goes into an object reachable from `root` at the
    time of the write, and stores only nodes that are immutable or refer to objects allocated at or after
    the watermark `w`. An editor that obeys it for the clone never changes the value of an old node. -/
theorem an_owner_of_the_copy_changes_nothing_old {f : Nat} {h h1 : Heap} {n n1 : HNode} (ib : InB h n)
    (hc : cloneNode f h n = some (h1, n1)) (g : Nat) (ws : List Write)
    (hok : okWrites h.length g n1 h1 ws = true) {x : HNode} (ibx : InB h x) (g' : Nat) :
    deref (runWrites h1 ws) g' x = deref h g' x :=
  owner_edits_invisible ib hc g ws hok ibx g'

/-- the general frame fact behind (d): effects that target no address of `h` cannot change the value of a
    node of `h` -/
theorem writes_to_new_objects_change_nothing_old {h h1 : Heap} (ag : Agree h h1) (ws : List Write)
    (hw : ∀ w ∈ ws, ∀ a, w.target = some a → h.length ≤ a) {x : HNode} (ibx : InB h x) (g : Nat) :
    deref (runWrites h1 ws) g x = deref h g x :=
  writes_to_new_addresses_invisible ag ws hw ibx g

/-- SEPARATION (what `Patch` needs, which edits its RECEIVER in place and is therefore not among the calls
    C15 declares pure): effects none of whose targets is reachable from `x` leave the value of `x` alone.
    With (b) this gives: a `Patch` that writes only into its receiver document and into the copies it made
    cannot change a diff (or any other value) that shares no object with the receiver. `hin`: no dangling
    reference below `x` at this fuel. -/
theorem writes_elsewhere_change_nothing {h : Heap} {x : HNode} {g : Nat}
    (hin : ∀ a ∈ reach h g x, a < h.length) (ws : List Write)
    (hw : ∀ w ∈ ws, ∀ a, w.target = some a → a ∉ reach h g x) :
    deref (runWrites h ws) g x = deref h g x :=
  writes_off_reach_invisible hin ws (fun _ _ => rfl) hw

/-- Go's slice operations are such effects: `s[i] = v` is a `cellSet` on the slice's backing array;
    `append` with spare capacity is a `cellSet` on it as well (IN PLACE: seen through every slice over the
    same cells); `append` without spare capacity is an allocation -/
theorem slice_operations_are_effects (grow : Nat → Nat) (h : Heap) (t : Tag) (a off len cap : Nat) (v : HNode) :
    (∀ i h', arrSet h (.arrRef t a off len cap) i v = some h' →
      i < len ∧ h' = Write.run h (.cellSet a (off + i) v)) ∧
    (len < cap → goAppend grow h (.arrRef t a off len cap) v =
      some (Write.run h (.cellSet a (off + len) v), .arrRef t a off (len + 1) cap)) ∧
    (¬ len < cap → ∀ h' s', goAppend grow h (.arrRef t a off len cap) v = some (h', s') →
      ∃ o, h' = Write.run h (.alloc o) ∧ s'.addr? = some h.length) :=
  ⟨fun _ _ e => arrSet_is_write e, fun hlt => goAppend_in_place hlt, fun hge _ _ e => goAppend_realloc hge e⟩

/-! ### non-vacuity: a concrete heap, its clone, a long edit -/

/-- `{"a":["1",{"x":"y"}],"e":{}}` built on the heap with one spare cell per array -/
def doc : Json := .obj [("a", .arr .list [.str "1", .obj [("x", .str "y")]]), ("e", .obj [])]

example : closedHeap (build 1 [] doc).1 = true ∧ (build 1 [] doc).2.below (build 1 [] doc).1.length = true := by
  decide
example : deref (build 1 [] doc).1 4 (build 1 [] doc).2 = some doc := rfl
example : (cloneNode 4 (build 1 [] doc).1 (build 1 [] doc).2).map (fun r => (reach r.1 4 r.2, (build 1 [] doc).1.length))
    = some ([7, 5, 4, 6], 4) := by decide
example : (cloneNode 4 (build 1 [] doc).1 (build 1 [] doc).2).map (fun r => deref r.1 4 r.2) = some (some doc) := rfl

/-- the hypotheses of the dynamic form hold for a five-step edit of the deep copy of `{"a":["x"]}`
    (overwrite an element, allocate a map, hang it into the copy, write into it, delete a key) … -/
theorem owner_discipline_satisfiable :
    closedHeap Witness.hS = true ∧ Witness.docS.below Witness.hS.length = true ∧
    cloneNode 3 Witness.hS Witness.docS
      = some (Witness.hS ++ [.arr [.str "x"], .map [("a", .arrRef .list 2 0 1 1)]], .objRef 3) ∧
    okWrites Witness.hS.length 4 (.objRef 3)
      (Witness.hS ++ [.arr [.str "x"], .map [("a", .arrRef .list 2 0 1 1)]]) Witness.editProg = true :=
  ⟨Witness.hS_closed.1, Witness.hS_closed.2, Witness.deep_run, Witness.editProg_ok⟩

/-- … the copy then reads `{"b":{"k":"v"}}` and the original still `{"a":["x"]}` -/
theorem owner_edit_result :
    deref (runWrites (Witness.hS ++ [.arr [.str "x"], .map [("a", .arrRef .list 2 0 1 1)]]) Witness.editProg) 4 (.objRef 3)
      = some (.obj [("b", .obj [("k", .str "v")])]) ∧
    deref (runWrites (Witness.hS ++ [.arr [.str "x"], .map [("a", .arrRef .list 2 0 1 1)]]) Witness.editProg) 4 Witness.docS
      = some (.obj [("a", .arr .list [.str "x"])]) :=
  Witness.editProg_result

/-- … and the discipline is not trivially true: it rejects storing an old node into the copy (the shape
    of D29: the diff's own value becomes part of the document) and writing into an old object -/
theorem owner_discipline_rejects_sharing :
    okWrites Witness.hS.length 4 (.objRef 3) (Witness.hS ++ [.arr [.str "x"], .map [("a", .arrRef .list 2 0 1 1)]])
      [.mapSet 3 "b" (.arrRef .list 0 0 1 1)] = false ∧
    okWrites Witness.hS.length 4 (.objRef 3) (Witness.hS ++ [.arr [.str "x"], .map [("a", .arrRef .list 2 0 1 1)]])
      [.cellSet 0 0 (.str "y")] = false :=
  Witness.okWrites_rejects

/-! ### each property of the deep copy matters (witnesses) -/

/-- A SHALLOW copy (new top-level map, nested array shared — `slices.Clone`, seeded change
    C03-clonenode-shallow-slices-clone; the shape of D29) of `{"a":["x"]}`: it denotes the same value, but
    it reaches the old address 0, and ONE write below the copy (`copy["a"][0] = "y"`) makes the ORIGINAL
    denote `{"a":["y"]}`. -/
theorem shallow_copy_lets_a_write_change_the_original :
    cloneShallow Witness.hS Witness.docS = some (Witness.hS ++ [.map [("a", .arrRef .list 0 0 1 1)]], .objRef 2) ∧
    deref (Witness.hS ++ [.map [("a", .arrRef .list 0 0 1 1)]]) 3 (.objRef 2) = deref Witness.hS 3 Witness.docS ∧
    (∃ g, 0 ∈ reach (Witness.hS ++ [.map [("a", .arrRef .list 0 0 1 1)]]) g (.objRef 2)) ∧
    deref Witness.hS 3 Witness.docS = some (.obj [("a", .arr .list [.str "x"])]) ∧
    deref (runWrites (Witness.hS ++ [.map [("a", .arrRef .list 0 0 1 1)]]) [.cellSet 0 0 (.str "y")]) 3 Witness.docS
      = some (.obj [("a", .arr .list [.str "y"])]) ∧
    Json.obj [("a", .arr .list [.str "x"])] ≠ Json.obj [("a", .arr .list [.str "y"])] :=
  ⟨Witness.shallow_run, Witness.shallow_same_value, Witness.shallow_write_changes_original.1,
   Witness.shallow_write_changes_original.2.1, Witness.shallow_write_changes_original.2.2.1,
   Witness.shallow_write_changes_original.2.2.2⟩

/-- Returning an EMPTY map as it is (seeded change C15-clonenode-empty-object-shared) on `{"a":{}}` — the
    value added by the first operation of `[add /a {}, add /a/b 1]`: the copy's `"a"` is the diff's own
    `{}`, and the second operation (`copy["a"]["b"] = 1`) makes the original denote `{"a":{"b":1}}`. An
    empty map has no content to share but it IS a place to write to. -/
theorem sharing_an_empty_map_lets_a_write_change_the_original :
    cloneNodeEmptyShared 3 Witness.hE Witness.docE = some (Witness.hE ++ [.map [("a", .objRef 0)]], .objRef 2) ∧
    (∃ g, 0 ∈ reach (Witness.hE ++ [.map [("a", .objRef 0)]]) g (.objRef 2)) ∧
    deref Witness.hE 3 Witness.docE = some (.obj [("a", .obj [])]) ∧
    deref (runWrites (Witness.hE ++ [.map [("a", .objRef 0)]]) [.mapSet 0 "b" (.num 1)]) 3 Witness.docE
      = some (.obj [("a", .obj [("b", .num 1)])]) ∧
    Json.obj [("a", .obj [])] ≠ Json.obj [("a", .obj [("b", .num 1)])] :=
  ⟨Witness.emptyShared_run, Witness.emptyShared_write_changes_original.1,
   Witness.emptyShared_write_changes_original.2.1, Witness.emptyShared_write_changes_original.2.2.1,
   Witness.emptyShared_write_changes_original.2.2.2⟩

/-- the real `cloneNode` on the same two inputs: the corresponding writes go to new addresses; the
    original keeps its value and the copy shows the edit -/
theorem deep_copy_on_the_same_inputs :
    (deref (runWrites (Witness.hS ++ [.arr [.str "x"], .map [("a", .arrRef .list 2 0 1 1)]]) [.cellSet 2 0 (.str "y")]) 3 Witness.docS
      = some (.obj [("a", .arr .list [.str "x"])]) ∧
     deref (runWrites (Witness.hS ++ [.arr [.str "x"], .map [("a", .arrRef .list 2 0 1 1)]]) [.cellSet 2 0 (.str "y")]) 3 (.objRef 3)
      = some (.obj [("a", .arr .list [.str "y"])])) ∧
    (cloneNode 3 Witness.hE Witness.docE = some (Witness.hE ++ [.map [], .map [("a", .objRef 2)]], .objRef 3) ∧
     deref (runWrites (Witness.hE ++ [.map [], .map [("a", .objRef 2)]]) [.mapSet 2 "b" (.num 1)]) 3 Witness.docE
      = some (.obj [("a", .obj [])]) ∧
     deref (runWrites (Witness.hE ++ [.map [], .map [("a", .objRef 2)]]) [.mapSet 2 "b" (.num 1)]) 3 (.objRef 3)
      = some (.obj [("a", .obj [("b", .num 1)])])) :=
  ⟨⟨Witness.deep_write_leaves_original.2.1, Witness.deep_write_leaves_original.2.2⟩,
   Witness.deep_run_empty, Witness.deep_write_leaves_original_empty.1, Witness.deep_write_leaves_original_empty.2⟩

/-- the hypothesis `InB` of (a) is needed: with a dangling second element the clone of a list succeeds
    and denotes a value although the original denotes none (the dangling address gets allocated by the
    clone of the first element) -/
theorem clone_needs_no_dangling :
    deref Witness.hD 3 (.arrRef .list 1 0 2 2) = none ∧
    (∃ h' n', cloneNode 3 Witness.hD (.arrRef .list 1 0 2 2) = some (h', n') ∧
      deref h' 3 n' = some (.arr .list [.obj [], .obj []])) :=
  Witness.dangling_needed

/-! ### the case analysis of `cloneNode` and the Go source -/

/-- the nodes `cloneNode` returns as they are (`default: return n`) are exactly the nodes that carry no
    reference, and for them nothing is allocated -/
theorem returned_as_is_iff_immutable (n : HNode) :
    (n.cloneCase = .asIs ↔ n.immutable = true) ∧
    (n.cloneCase = .asIs → ∀ f h, cloneNode (f+1) h n = some (h, n)) :=
  ⟨asIs_iff_immutable n, fun hn f h => cloneNode_asIs hn f h⟩

/-- a clone has the Go dynamic type of the original (`jsonList(cloneNodes(t))`), refers to nothing old,
    and a cloned slice has no spare capacity (`make([]JsonNode, len)`): an `append` to it reallocates -/
theorem clone_keeps_type_and_is_new {f : Nat} {h h' : Heap} {n n' : HNode} (ib : InB h n)
    (hc : cloneNode f h n = some (h', n')) :
    n'.goType = n.goType ∧ n'.freshFrom h.length = true ∧
    (∀ t a off len cap, n = .arrRef t a off len cap → ∃ a', n' = .arrRef t a' 0 len len) :=
  ⟨(cloneNode_keeps_type hc).1, cloneNode_root_fresh ib hc,
   fun t a off len cap e => by subst e; exact cloneNode_slice_full hc⟩

/-- REGENERATED TABLE (tools/pathfacts → `Gen.pathSites`), link to the model: in v2/ and lib/ `cloneNode`
    has exactly as many container-returning cases as the model has mutable kinds (five), and every one of
    them returns a copy. Seeded change C15-clonenode-empty-object-shared (`return t` inside the jsonObject
    case) adds a sixth, non-fresh site: this theorem then no longer checks. -/
theorem source_container_cases_match_the_model :
    (cloneNodeReturns "v2").length = modelContainerCases.length ∧
    (cloneNodeReturns "lib").length = modelContainerCases.length ∧
    ((cloneNodeReturns "v2") ++ (cloneNodeReturns "lib")).all (fun s => s.2.1 == .store && s.2.2.fresh) = true :=
  source_container_cases_return_copies

/-- REGENERATED TABLE: the members are assigned into the new map / slice, `cloneNodes` returns a new
    slice, and `patchAll` of both libraries hands the added values over as DEEP copies -/
theorem source_fills_new_containers_and_hands_over_copies :
    (["v2/patch_common.go:cloneNode:write#1", "v2/patch_common.go:cloneNodes:write#1",
      "v2/patch_common.go:cloneNodes:store#1", "v2/patch_common.go:patchAll:write#1",
      "lib/patch_common.go:cloneNode:write#1", "lib/patch_common.go:cloneNodes:write#1",
      "lib/patch_common.go:cloneNodes:store#1", "lib/patch_common.go:patchAll:write#1"].all
        (fun l => Gen.pathSites.any (fun s => s.1 == l && s.2.2.fresh))) = true :=
  source_clone_fills_new_containers

/-- HAND-TRANSCRIBED TABLES (not regenerated — the generated table does not say WHICH type each case
    handles nor that the members are cloned RECURSIVELY; REPORT.md lists the facts tools/pathfacts would
    have to emit): the model's case list equals the type switch of `cloneNode` as read from the source, and
    each case follows Go's representation of the type (map → copied as a map, slice → copied as a slice,
    plain value → returned as it is) with the single exception of `jsonNull`, a `[]byte` that is returned
    SHARED. The model treats `null` as immutable; that is sound for aliasing because every jsonNull of
    the library has capacity 0 and is never indexed or appended to — see `no_write_through_capacity_0`. -/
theorem model_cases_are_the_source_cases :
    modelCloneCases = sourceCloneCases_asRead ∧
    (sourceCloneCases_asRead.zip sourceNodeRepr_asRead).all (fun p =>
      p.1.1 == p.2.1 &&
      (if p.1.1 == "jsonNull" then p.1.2 == .asIs && p.2.2 == .sliceType
       else match p.2.2 with
        | .mapType => p.1.2 == .copyMap
        | .sliceType => p.1.2 == .copySlice
        | .plain => p.1.2 == .asIs)) = true :=
  ⟨modelCloneCases_eq_source, cases_follow_representation_except_null⟩

/-- a slice of capacity 0 — every `jsonNull`, the `nil` that `cloneNodes(nil)` returns, an empty literal —
    cannot be written through: `s[i] = v` panics for every `i`, and `append` goes to a new array. Sharing
    one is unobservable by writes. (Contrast `sharing_an_empty_map_lets_a_write_change_the_original`.) -/
theorem no_write_through_capacity_0 (grow : Nat → Nat) (h : Heap) (t : Tag) (a off i : Nat) (v : HNode) :
    arrSet h (.arrRef t a off 0 0) i v = none ∧
    ∀ h' s', goAppend grow h (.arrRef t a off 0 0) v = some (h', s') →
      (∃ o, h' = Write.run h (.alloc o)) ∧ s'.addr? = some h.length :=
  cap0_no_write_through grow h t a off i v

end Jd.Props.C15Heap
