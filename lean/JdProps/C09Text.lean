/-
  Properties C09, C10, C11, C12 of the v2 library AT THE LEVEL OF THE JSON TEXT.
  Statement file (proofs in JdProofs/RfcTextLevel.lean, namespace `Jd.RTL`). Four sections, one
  namespace each: `Jd.Props.C09Text`, `Jd.Props.C10Text`, `Jd.Props.C11Text`, `Jd.Props.C12Text`.

  JdProps/C09.lean … C12.lean stop at the patch DOCUMENT (the list of operations `{op, path, value}`,
  the merge patch document). Here the same claims are made about the STRINGS that
  `Diff.RenderPatch()` / `Diff.RenderMerge()` return and `ReadPatchString` / `ReadMergeString` parse:
    `renderPatchM nc d`, `renderMergeM nc d : Outcome (Option String)`  the text (`none`: a number the
                                                    number codec cannot print);
    `readPatchM nc s`, `readMergeM nc s : Outcome Diff`                  the readers on a text;
    `parseJson nc s : Option Json`                   the JSON parser (`json.Unmarshal` into a document);
    `nc : NumCodec`                                  decimal text ↔ binary64 (`strconv`), a PARAMETER of
                                                    the model (JdModel/Text.lean).
  Independent specifications (shared with nothing of jd's readers): `Spec.opsOfJson` — the decoder of a
  parsed JSON Patch document (an array of objects with string members `op`, `path`, and a `value`
  member for `add` / `replace` / `test`) —, `Spec.eval` (RFC 6902 / 6901 evaluator), `Spec.mergePatch`
  (RFC 7386 pseudocode), `specEq` / `equivB` (structural equality up to the Go type of array nodes).

  TEXT HYPOTHESES (all Bool-valued functions of the INPUT documents)
    `RTL.LT nc x` := `x.listDoc ∧ x.wf ∧ Yaml.voidFree x ∧ JText.NumOK nc x`
       `listDoc`, `wf`      list reading, unique sorted keys: already in the document-level theorems;
       `Yaml.voidFree x`    no void marker anywhere, ROOT INCLUDED: void has no JSON text (`raw()` prints
                            it as `""`). The document-level theorems allow a void root;
       `JText.NumOK nc x`   every number `n` of `x`: `fmtNum nc n = some s`, `s` is ONE token of the JSON
                            number grammar and `parseNumToken nc s = some n`. Needed because `strconv` is
                            a parameter; a THEOREM for integers of magnitude below 10^15
                            (`JText.numOK_int`), for every codec.
    The values that are printed are sub-terms of `a` and `b`, so nothing is asked of the diff.

  C10 section, after the repair D31 (diff_read.go `readPatchElements`: the patch document is decoded by
  EXACT member names; rejected are a non-array text such as `null`, a non-object element, a missing
  or non-string `op` / `path`, an `add` / `test` without `value`): the FULL text-level statement holds —
  `C10Text.text_accepted_and_applied_is_rfc6902`: whatever text `ReadPatchString` accepts and `Patch`
  applies IS an RFC 6902 document for the independent decoder and evaluates alike. The three former
  findings (the text `null`; an operation without `path`; an `add` without `value`) and the former
  model doubt (case-insensitive member names of encoding/json's struct decoding) are regression
  theorems `fixed_*`.
-/
import JdProofs.RfcTextLevel
import JdProofs.CliRoundTripModesEx

/-! # C09 — RFC 6902 output, text level -/

namespace Jd.Props.C09Text
open Jd Jd.Spec

/-- **C09 at the text level, closed.** `a`, `b` in the list-reading domain of
    `C09.rendered_patch_of_diff_yields_target_closed` (list documents, sorted unique keys, finite
    numbers, no hash collision `H`, no `0` / `-0` pair `Z`, array lengths `Na + Nb < 2^53`, every
    object key expressible as a JSON Pointer token `ka`, `kb`) and in the text domain (`RTL.LT`: no
    void node, codec-correct numbers). Then: the text of `RenderPatch(a.Diff(b))` is produced; it
    parses to a document; the INDEPENDENT decoder reads that document as RFC 6902 operations, each
    a `test`, `remove` or `add`; the independent evaluator turns `a` into a document structurally
    equal to `b` (both ways). `FloatLaws`: symmetry / reflexivity of `|x − y| ≤ eps`, as in C09. -/
theorem rendered_patch_text_yields_target (L : FloatLaws) (nc : NumCodec) (o : Opts)
    (ho : dispatchTag o = .list) (hm : isMerge o = false) (a b : Json)
    (ha : RTL.LT nc a) (ha3 : a.finiteNums = true) (hb : RTL.LT nc b) (hb3 : b.finiteNums = true)
    {Na Nb : Nat} (la : PRC.lenLe Na a = true) (lb : PRC.lenLe Nb b = true) (hN : Na + Nb < 2 ^ 53)
    (H : DPL.HashOK o a b) (Z : DPL.ZeroOK a b)
    (ka : PRC.keysExpressible a = true) (kb : PRC.keysExpressible b = true) :
    ∃ text doc sops r,
      renderPatchM nc (diffM o a b) = .ok (some text) ∧
      parseJson nc text = some doc ∧ Spec.opsOfJson doc = some sops ∧
      (∀ op ∈ sops, op.op = "test" ∨ op.op = "remove" ∨ op.op = "add") ∧
      eval a sops = some r ∧ specEq r b = true ∧ specEq b r = true :=
  RTL.patch_text_rfc L nc o ho hm a b ha ha3 hb hb3 la lb hN H Z ka kb

/-- **sharp form**: the same under "every path element of every hunk of `a.Diff(b)` is expressible"
    (`hp`), which is exactly the condition under which `RenderPatch` succeeds; keys inside removed /
    added values are unrestricted -/
theorem rendered_patch_text_yields_target_of_paths (L : FloatLaws) (nc : NumCodec) (o : Opts)
    (ho : dispatchTag o = .list) (hm : isMerge o = false) (a b : Json)
    (ha : RTL.LT nc a) (ha3 : a.finiteNums = true) (hb : RTL.LT nc b) (hb3 : b.finiteNums = true)
    {Na Nb : Nat} (la : PRC.lenLe Na a = true) (lb : PRC.lenLe Nb b = true) (hN : Na + Nb < 2 ^ 53)
    (H : DPL.HashOK o a b) (Z : DPL.ZeroOK a b)
    (hp : ∀ h ∈ diffM o a b, ∀ e ∈ h.path, expressible e) :
    ∃ text doc sops r,
      renderPatchM nc (diffM o a b) = .ok (some text) ∧
      parseJson nc text = some doc ∧ Spec.opsOfJson doc = some sops ∧
      (∀ op ∈ sops, op.op = "test" ∨ op.op = "remove" ∨ op.op = "add") ∧
      eval a sops = some r ∧ specEq r b = true ∧ specEq b r = true :=
  RTL.patch_text_rfc_of_paths L nc o ho hm a b ha ha3 hb hb3 la lb hN H Z hp

/-- REFUSAL at the text level, any diff: one hunk with a path element that is not expressible (a
    set / multiset / keyed element, a number-like key, the key "-") and `RenderPatch` returns an
    error — there is no text -/
theorem render_text_refuses_inexpressible_path (nc : NumCodec) {d : Diff} {h : Hunk} (hm : h ∈ d)
    (hb : ∃ e ∈ h.path, ¬ expressible e) : renderPatchM nc d = .err :=
  RTL.patch_text_refused nc hm hb

/-- what the parser returns, for every codec and every text: plain arrays, sorted unique keys, no
    void node (so the document-level hypotheses on a parsed patch document are theorems) -/
theorem parsed_text_is_a_document {nc : NumCodec} {s : String} {v : Json}
    (h : parseJson nc s = some v) : v.rawDoc = true ∧ v.wf = true ∧ Yaml.voidFree v = true :=
  RTL.parseJson_shape h

/-! Non-vacuity: `PRC.Example.exA = {"a~/b": [true, 1, [1], null], "k": null}`,
    `exB = {"a~/b": [false, 1, [1, 1], null, null], "m": 1}` with the codec that knows no token
    (`NativeRT.exCodec`): every hypothesis holds. -/

theorem ex_LT : RTL.LT NativeRT.exCodec PRC.Example.exA ∧ RTL.LT NativeRT.exCodec PRC.Example.exB :=
  ⟨⟨by decide, by decide, by decide, CliRTM.Ex.PatchEx.numOK_exA⟩,
   ⟨by decide, by decide, by decide, CliRTM.Ex.PatchEx.numOK_exB⟩⟩

example (L : FloatLaws) :
    ∃ text doc sops r,
      renderPatchM NativeRT.exCodec (diffM [] PRC.Example.exA PRC.Example.exB) = .ok (some text) ∧
      parseJson NativeRT.exCodec text = some doc ∧ Spec.opsOfJson doc = some sops ∧
      (∀ op ∈ sops, op.op = "test" ∨ op.op = "remove" ∨ op.op = "add") ∧
      eval PRC.Example.exA sops = some r ∧ specEq r PRC.Example.exB = true ∧
      specEq PRC.Example.exB r = true := by
  obtain ⟨_, _, h3, _, _, _, h7, _, h9, h10, h11, h12, h13, h14, h15, _⟩ := PRC.Example.hyps L
  exact rendered_patch_text_yields_target L _ [] rfl rfl _ _ ex_LT.1 h3 ex_LT.2 h7 h9 h10 h11 h12
    h13 h14 h15

end Jd.Props.C09Text

/-! # C10 — RFC 6902 input, text level -/

namespace Jd.Props.C10Text
open Jd Jd.Spec

/-- **C10 at the text level, FULL statement: never more permissive than RFC 6902, never different,
    for EVERY text.** `s` any text that `ReadPatchString` accepts, reading the diff `d` (`hread`); `t`
    any list document with unique sorted keys on which `t.Patch(d)` succeeds with `r` (`hp`). THEN
    the text is a JSON text parsing to `doc`, the INDEPENDENT decoder `Spec.opsOfJson` (an array of
    objects with string `op`, `path`, and a `value` where the operation needs one) reads `doc` as
    RFC 6902 operations `sops`, and the independent evaluator applies `sops` to `t` with the same
    result up to the Go type of array nodes. There is NO hypothesis on the independent decoder (since
    the repair D31 whatever `ReadPatchString` accepts and applies is a well-formed RFC 6902 document)
    and none on the spelling of the pointers (since the repair D30). What remains is a range
    condition: `hidx` — every array-index token of every `path` member of the parsed text is below
    2^53 (`RTL.docIdxOK`, an executable predicate on the parsed text, no decoder involved) — and
    `hafter` — `i + |Remove| < 2^53` for the elements read (the index of the after-context line);
    2^53 is where the model's `int → float64` conversion of an index stops being exact.
    `FloatLaws`, `FloatEq0`: as in C10. -/
theorem text_accepted_and_applied_is_rfc6902 (L : FloatLaws) (F : FloatEq0) {nc : NumCodec}
    {s : String} {d : Diff} {t r : Json} (hw : t.wf = true) (hl : t.listDoc = true)
    (hread : readPatchM nc s = .ok d) (hp : patchM t d = .ok r)
    (hidx : ∀ doc, parseJson nc s = some doc → RTL.docIdxOK doc = true)
    (hafter : ∀ h ∈ d, ∀ i, lastIdx? h.path = some i → i + (h.remove.length : Int) < 2 ^ 53) :
    ∃ doc sops r', parseJson nc s = some doc ∧ Spec.opsOfJson doc = some sops ∧
      eval t sops = some r' ∧ untag r' = untag r :=
  RTL.patch_text_rfc6902 L F hw hl hread hp hidx hafter

/-- the operations of a text that is accepted and applied, as the INDEPENDENT decoder reads them, are
    `test`, `remove` and `add` operations only (the supported subset) -/
theorem text_accepted_and_applied_is_in_the_subset (F : FloatEq0) {nc : NumCodec} {s : String}
    {d : Diff} {t r : Json} (hl : t.listDoc = true)
    (hread : readPatchM nc s = .ok d) (hp : patchM t d = .ok r)
    (hidx : ∀ doc, parseJson nc s = some doc → RTL.docIdxOK doc = true) :
    ∃ doc sops, parseJson nc s = some doc ∧ Spec.opsOfJson doc = some sops ∧
      ∀ o ∈ sops, o.op = "test" ∨ o.op = "remove" ∨ o.op = "add" :=
  RTL.patch_text_ops_shape F hl hread hp hidx

/-- the form with the independent decoding GIVEN (`hdoc`, `hs`): the range hypothesis `hc` is then
    on the pointer texts of the independent decoder's operations (`NMP.idxTokensOK`: every token that
    is an RFC 6901 array index is below 2^53). Corollary-strength; kept because it speaks about ANY
    `sops` the independent decoder returns. -/
theorem text_never_more_permissive (L : FloatLaws) (F : FloatEq0) {nc : NumCodec} {s : String}
    {d : Diff} {t r doc : Json} {sops : List Spec.Op} (hw : t.wf = true) (hl : t.listDoc = true)
    (hread : readPatchM nc s = .ok d) (hp : patchM t d = .ok r)
    (hdoc : parseJson nc s = some doc) (hs : Spec.opsOfJson doc = some sops)
    (hc : ∀ o ∈ sops, NMP.idxTokensOK o.path = true)
    (hafter : ∀ h ∈ d, ∀ i, lastIdx? h.path = some i → i + (h.remove.length : Int) < 2 ^ 53) :
    ∃ r', eval t sops = some r' ∧ untag r' = untag r :=
  RTL.patch_text_never_more_permissive L F hw hl hread hp hdoc hs hc hafter

/-- the two decoders agree where both accept: the operations of the independent decoder carry the
    same `op`, `path` and `value` as the library's (`RTL.OpRel`; the independent one also keeps `from`) -/
theorem decoders_agree_where_both_accept {doc : Json} {ops : List PatchOp} {sops : List Spec.Op}
    (h1 : patchOpsOfJson doc = .ok ops) (h2 : Spec.opsOfJson doc = some sops) :
    List.Forall₂ RTL.OpRel sops ops :=
  RTL.opsOfJson_lib h1 h2

/-- **the repaired library decoder against the independent one.** Whatever parsed document the
    library's decoder (`patchOpsOfJson`, the model of `readPatchElements` of diff_read.go) accepts as
    operations none of which is a `replace` (`hne`; true of every accepted and applied text —
    `RTL.accepted_ops_wfOps` — since the element loop refuses `replace`), the independent decoder
    accepts too, reading the same `op`, `path`, `value`. (Extra members, a `from` member, members in
    another letter case, duplicate names — the last wins in the parser — make no difference between
    the two decoders; a missing or non-string `op` / `path`, an `add` / `test` without `value`, a
    non-object element, a non-array document are rejected by both.) -/
theorem library_decoder_within_rfc6902 {doc : Json} {ops : List PatchOp}
    (h1 : patchOpsOfJson doc = .ok ops) (hne : ∀ o ∈ ops, o.op ≠ "replace") :
    ∃ sops, Spec.opsOfJson doc = some sops ∧ List.Forall₂ RTL.OpRel sops ops :=
  RTL.opsOfJson_of_lib h1 hne

/-- the only shape the library's decoder lets through and the independent one does not: a document
    with a `replace` operation (one WITHOUT `value`: the Go code asks for `value` on `add` and `test`
    only; witness `RTL.Witness.replace_without_value`, which also shows the reader refusing it) -/
theorem shapes_accepted_beyond_rfc6902 {doc : Json} {ops : List PatchOp}
    (h1 : patchOpsOfJson doc = .ok ops) (h2 : Spec.opsOfJson doc = none) :
    ∃ o ∈ ops, o.op = "replace" :=
  RTL.lib_accepts_rfc_rejects h1 h2

/-! Non-vacuity of `text_accepted_and_applied_is_rfc6902`: the text
    `[{"op":"add","path":"/k","value":"b"}]` on the target `{}`: it is accepted, applies, and every
    hypothesis holds. -/

section NonVacuity
open Jd.NMP Jd.PB

private def exS : String := "[{\"op\":\"add\",\"path\":\"/k\",\"value\":\"b\"}]"
private def exDoc : Json := .arr .raw [.obj [("op", .str "add"), ("path", .str "/k"), ("value", .str "b")]]
private def exD : Diff := [{ path := [.key "k"], add := [.str "b"] }]
private theorem ex_parse (nc : NumCodec) : parseJson nc exS = some exDoc := by
  simp [exS, exDoc, parseJson, parseValue, skipWs, isJsonWs, parseElems, parseMembers, lexString, ainsert]
private theorem ex_read (nc : NumCodec) : readPatchM nc exS = .ok exD := by
  have h1 : patchOpsOfJson exDoc = .ok [adp "/k" (.str "b")] := by
    simp [exDoc, patchOpsOfJson, patchOpsOfJson.go, patchOpsOfJson.strField,
      patchOpsOfJson.valueField, alookup, adp]
    rfl
  have h2 : readPatchOps [adp "/k" (.str "b")] = .ok exD := by
    simp [readPatchOps, exD, readPatchLoop, readPatchHunk, rp_k, lastIdx?, adp, readPatchCtxLoop, ctxOf,
      checkPatchCtxs, checkPatchCtx]
  simp only [readPatchM, ex_parse, readPatchDoc, h1, h2]
private theorem ex_patch : ∃ r, patchM (.obj []) exD = .ok r ∧ untag r = .obj [("k", .str "b")] := by
  have : applyStrictAll (.obj []) exD = some (.obj [("k", .str "b")]) := by
    simp [applyStrictAll, applyStrict, exD, alookup, specEq, equivB, single, Json.singleValue,
      Json.isVoid, ainsert]
  obtain ⟨r, h1, h2⟩ := patchM_of_ref (by decide) (by decide) this
  exact ⟨r, h1, by rw [h2]; simp [untag, untagKvs]⟩
private theorem ex_idx : RTL.docIdxOK exDoc = true := by
  have h : idxTokensOK "/k" = true := by
    rw [idxTokensOK_of_toks (toks := ["k"]) (by decide) (by decide)]
    decide
  simp [RTL.docIdxOK, RTL.elemIdxOK, exDoc, alookup, h]
example (L : FloatLaws) (F : FloatEq0) (nc : NumCodec) :
    ∃ r doc sops r', patchM (.obj []) exD = .ok r ∧ parseJson nc exS = some doc ∧
      Spec.opsOfJson doc = some sops ∧ eval (.obj []) sops = some r' ∧ untag r' = untag r := by
  obtain ⟨r, hr, _⟩ := ex_patch
  obtain ⟨doc, sops, r', h0, h1, h2, h3⟩ := text_accepted_and_applied_is_rfc6902 L F (t := .obj [])
    (by decide) (by decide) (ex_read nc) hr
    (by intro doc hd; rw [ex_parse] at hd; cases hd; exact ex_idx)
    (by
      intro h hm i hi
      simp only [exD, List.mem_singleton] at hm
      subst hm
      simp [lastIdx?] at hi)
  exact ⟨r, doc, sops, r', hr, h0, h1, h2, h3⟩
end NonVacuity

/-! ### REGRESSIONS of D31 (former findings 1–3: the malformed documents `ReadPatchString` used to
    accept; every codec) -/

/-- FIXED (was finding 1): the text `null` is rejected; RFC 6902 §3 requires an array. Before the
    repair it was accepted as the empty patch and applied (a no-op) to every target. -/
theorem fixed_null_text_rejected (nc : NumCodec) :
    readPatchM nc "null" = .err ∧
    parseJson nc "null" = some .null ∧ Spec.opsOfJson .null = none :=
  RTL.Witness.null_text_rejected nc

/-- FIXED (was finding 2): `[{"op":"add","path":"/k"}]` — an `add` without `value` — is rejected;
    RFC 6902 §4.1 requires the `value` member. Before the repair it was read as `add /k null` and
    turned `{}` into `{"k":null}`. -/
theorem fixed_add_without_value_rejected (nc : NumCodec) :
    readPatchM nc RTL.Witness.text2 = .err ∧
    parseJson nc RTL.Witness.text2 = some RTL.Witness.doc2 ∧
    Spec.opsOfJson RTL.Witness.doc2 = none :=
  RTL.Witness.add_without_value_rejected nc

/-- a `value` member holding `null` is a value: `[{"op":"add","path":"/k","value":null}]` is accepted
    by both decoders and turns `{}` into `{"k":null}` -/
theorem add_with_null_value_still_accepted (nc : NumCodec) :
    readPatchM nc RTL.Witness.text2n = .ok RTL.Witness.diff2 ∧
    (∃ r, patchM (.obj []) RTL.Witness.diff2 = .ok r ∧ untag r = .obj [("k", .null)]) ∧
    parseJson nc RTL.Witness.text2n = some RTL.Witness.doc2n ∧
    Spec.opsOfJson RTL.Witness.doc2n = some [{ op := "add", path := "/k", value := .null }] :=
  RTL.Witness.add_null_value_accepted nc

/-- FIXED (was finding 3): `[{"op":"add","value":"x"}]` — an operation without `path` — is rejected;
    RFC 6902 §4 requires the `path` member. Before the repair it was read as an `add` at the root
    pointer "" and turned the void document (an empty file) into `"x"`. -/
theorem fixed_op_without_path_rejected (nc : NumCodec) :
    readPatchM nc RTL.Witness.text3 = .err ∧
    parseJson nc RTL.Witness.text3 = some RTL.Witness.doc3 ∧
    Spec.opsOfJson RTL.Witness.doc3 = none :=
  RTL.Witness.op_without_path_rejected nc

/-- FIXED (was the model doubt): member names in another letter case (`OP`, `Path`, `VALUE`) are not
    the members `op`, `path`, `value` — for the library's decoder as for RFC 6902 -/
theorem fixed_member_names_are_exact :
    patchOpsOfJson (.arr .raw [.obj [("OP", .str "add"), ("Path", .str "/a"), ("VALUE", .null)]]) = .err ∧
    Spec.opsOfJson (.arr .raw [.obj [("OP", .str "add"), ("Path", .str "/a"), ("VALUE", .null)]]) = none :=
  RTL.Witness.other_case_names_rejected

example : RTL.Witness.text2 = "[{\"op\":\"add\",\"path\":\"/k\"}]" ∧
    RTL.Witness.text2n = "[{\"op\":\"add\",\"path\":\"/k\",\"value\":null}]" ∧
    RTL.Witness.text3 = "[{\"op\":\"add\",\"value\":\"x\"}]" := ⟨rfl, rfl, rfl⟩

/-! ### last sentence: own output read back from the text -/

/-- **C10, last sentence, at the text level.** Hypotheses of `C10.own_patch_output_reproduces_target`
    (`Own.elemsRaw a`: no array ELEMENT of `a` is a typed `jsonList`; needed —
    `C10.typed_list_element_witness` — and true of every document a reader produces) plus the text
    domain `RTL.LT` of `a` and `b`. Then `RenderPatch(a.Diff(b))` returns a text, `ReadPatchString`
    reads that text, and `a.Patch` of the diff read succeeds with a list document structurally
    equal to `b` (and `Equals` it when the precision is monotone, e.g. absent). -/
theorem own_patch_text_reproduces_target (L : FloatLaws) (F : FloatEq0) (nc : NumCodec) (o : Opts)
    (ho : dispatchTag o = .list) (hm : isMerge o = false) (a b : Json)
    (ha : RTL.LT nc a) (ha3 : a.finiteNums = true) (ha5 : Own.elemsRaw a = true)
    (hb : RTL.LT nc b) (hb3 : b.finiteNums = true)
    {Na Nb : Nat} (la : PRC.lenLe Na a = true) (lb : PRC.lenLe Nb b = true) (hN : Na + Nb < 2 ^ 53)
    (H : DPL.HashOK o a b) (Z : DPL.ZeroOK a b)
    (ka : PRC.keysExpressible a = true) (kb : PRC.keysExpressible b = true) :
    ∃ text d' r, renderPatchM nc (diffM o a b) = .ok (some text) ∧
      readPatchM nc text = .ok d' ∧ patchM a d' = .ok r ∧
      specEq r b = true ∧ specEq b r = true ∧ r.listDoc = true ∧
      (DPL.PrecMono o → equivB o r b = true ∧ equals o r b = true) :=
  RTL.patch_text_readback L F nc o ho hm a b ha ha3 ha5 hb hb3 la lb hN H Z ka kb

/-- sharp form (expressible PATHS of the diff) -/
theorem own_patch_text_reproduces_target_of_paths (L : FloatLaws) (F : FloatEq0) (nc : NumCodec)
    (o : Opts) (ho : dispatchTag o = .list) (hm : isMerge o = false) (a b : Json)
    (ha : RTL.LT nc a) (ha3 : a.finiteNums = true) (ha5 : Own.elemsRaw a = true)
    (hb : RTL.LT nc b) (hb3 : b.finiteNums = true)
    {Na Nb : Nat} (la : PRC.lenLe Na a = true) (lb : PRC.lenLe Nb b = true) (hN : Na + Nb < 2 ^ 53)
    (H : DPL.HashOK o a b) (Z : DPL.ZeroOK a b)
    (hp : ∀ h ∈ diffM o a b, ∀ e ∈ h.path, expressible e) :
    ∃ text d' r, renderPatchM nc (diffM o a b) = .ok (some text) ∧
      readPatchM nc text = .ok d' ∧ patchM a d' = .ok r ∧
      specEq r b = true ∧ specEq b r = true ∧ r.listDoc = true ∧
      (DPL.PrecMono o → equivB o r b = true ∧ equals o r b = true) :=
  RTL.patch_text_readback_of_paths L F nc o ho hm a b ha ha3 ha5 hb hb3 la lb hN H Z hp

/-! Non-vacuity: the pair of the C09 section; then the text it produces is an instance of
    `text_never_more_permissive`'s hypothesis `hread`. -/

example (L : FloatLaws) (F : FloatEq0) :
    ∃ text d' r,
      renderPatchM NativeRT.exCodec (diffM [] PRC.Example.exA PRC.Example.exB) = .ok (some text) ∧
      readPatchM NativeRT.exCodec text = .ok d' ∧ patchM PRC.Example.exA d' = .ok r ∧
      specEq r PRC.Example.exB = true ∧ equals [] r PRC.Example.exB = true := by
  obtain ⟨_, _, h3, _, _, _, h7, _, h9, h10, h11, h12, h13, h14, h15, _⟩ := PRC.Example.hyps L
  obtain ⟨text, d', r, c1, c2, c3, c4, _, _, c7⟩ :=
    own_patch_text_reproduces_target L F _ [] rfl rfl _ _ C09Text.ex_LT.1 h3
      Own.Example.exA_elemsRaw C09Text.ex_LT.2 h7 h9 h10 h11 h12 h13 h14 h15
  exact ⟨text, d', r, c1, c2, c3, c4, (c7 (DPL.PrecMono.of_noPrecision rfl)).2⟩

end Jd.Props.C10Text

/-! # C11 — RFC 7386 output, text level -/

namespace Jd.Props.C11Text
open Jd Jd.Spec Jd.Merge

/-- **C11 at the text level** (MERGE, list reading, no Precision). Hypotheses of
    `C11.rendered_merge_patch_yields_target` (`a`: unique sorted keys, plain arrays, may contain nulls;
    `b`: the same, null-free, finite numbers; `Equals` tells them apart) with `objVoidFree b`
    strengthened to `Yaml.voidFree b` (no void node at all: void has no JSON text) and
    `JText.NumOK nc b` (codec-correct numbers; only `b`: the merge document is made of parts of `b`).
    Then `RenderMerge()` returns a text, the text parses to a document `p` that is neither void nor
    `null`, and RFC 7386 `MergePatch(a, p)` is `b` (up to the advertised equivalence, which in the
    list reading ignores only the Go type of array nodes). -/
theorem rendered_merge_text_yields_target (L : FloatLaws) (nc : NumCodec) (o : Opts)
    (hm : isMerge o = true) (ho : dispatchTag o = .list) (hprec : precOf o = 0) (a b : Json)
    (haw : a.wf = true) (har : a.rawDoc = true)
    (hbw : b.wf = true) (hbr : b.rawDoc = true) (hbn : b.nullFree = true)
    (hbf : b.finiteNums = true) (hbv : Yaml.voidFree b = true) (hbN : JText.NumOK nc b = true)
    (hne : equals o a b = false) :
    ∃ text p, renderMergeM nc (diffM o a b) = .ok (some text) ∧ parseJson nc text = some p ∧
      p.isVoid = false ∧ p.isNull = false ∧
      equivB o (mergePatch a p) b = true ∧ specEq (mergePatch a p) b = true :=
  RTL.merge_text_rfc L nc o hm ho hprec a b haw har hbw hbr hbn hbf hbv hbN hne

/-- without "that differ" when the first document is an object (equal documents: the text is `{}`) -/
theorem rendered_merge_text_yields_target_object (L : FloatLaws) (nc : NumCodec) (o : Opts)
    (hm : isMerge o = true) (ho : dispatchTag o = .list) (hprec : precOf o = 0) (a b : Json)
    (haw : a.wf = true) (har : a.rawDoc = true)
    (hbw : b.wf = true) (hbr : b.rawDoc = true) (hbn : b.nullFree = true)
    (hbf : b.finiteNums = true) (hbv : Yaml.voidFree b = true) (hbN : JText.NumOK nc b = true)
    (hobj : a.isObj = true) :
    ∃ text p, renderMergeM nc (diffM o a b) = .ok (some text) ∧ parseJson nc text = some p ∧
      p.isVoid = false ∧ p.isNull = false ∧
      equivB o (mergePatch a p) b = true ∧ specEq (mergePatch a p) b = true :=
  RTL.merge_text_rfc_obj L nc o hm ho hprec a b haw har hbw hbr hbn hbf hbv hbN hobj

/-- `JText.NumOK nc b` cannot be dropped (a remark on the MODEL's codec parameter, not on Go): for
    `null → 10^15` and the codec that knows no token every other hypothesis holds, the text
    `1000000000000000` is produced and the model's parser does not read it back -/
theorem numOK_is_needed :
    RTL.MergeWitness.big.wf = true ∧ RTL.MergeWitness.big.rawDoc = true ∧
    RTL.MergeWitness.big.nullFree = true ∧ RTL.MergeWitness.big.finiteNums = true ∧
    Yaml.voidFree RTL.MergeWitness.big = true ∧ equals [.merge] .null RTL.MergeWitness.big = false ∧
    JText.NumOK NativeRT.exCodec RTL.MergeWitness.big = false ∧
    renderMergeM NativeRT.exCodec (diffM [.merge] .null RTL.MergeWitness.big)
      = .ok (some "1000000000000000") ∧
    parseJson NativeRT.exCodec "1000000000000000" = none ∧
    readMergeM NativeRT.exCodec "1000000000000000" = .err :=
  RTL.MergeWitness.numOK_needed_merge

/-! Non-vacuity: `V1M.Example.exA = {"a":{"b":"x","c":null},"d":["p"],"f":[{"g":1}]}` →
    `exB = {"a":{"b":"y"},"e":{"h":{}},"f":[{"g":1}]}`, codec that knows no token. -/

example : equals [.merge] V1M.Example.exA V1M.Example.exB = false ∧
    Yaml.voidFree V1M.Example.exB = true ∧ JText.NumOK NativeRT.exCodec V1M.Example.exB = true := by
  refine ⟨?_, V1T.Example.merge_hyps.1, V1T.Example.merge_hyps.2⟩
  simp [V1M.Example.exA, V1M.Example.exB, equals, equalsKvs, alookup]

example (L : FloatLaws) :
    ∃ text p, renderMergeM NativeRT.exCodec (diffM [.merge] V1M.Example.exA V1M.Example.exB)
        = .ok (some text) ∧ parseJson NativeRT.exCodec text = some p ∧
      specEq (mergePatch V1M.Example.exA p) V1M.Example.exB = true := by
  obtain ⟨_, h1, h2, h3, h4, h5, _, h7, _, _⟩ := V1M.Example.hyps
  obtain ⟨text, p, c1, c2, _, _, _, c6⟩ :=
    rendered_merge_text_yields_target_object L NativeRT.exCodec [.merge] rfl rfl rfl _ _ h1 h2 h3 h4
      h5 h7 V1T.Example.merge_hyps.1 V1T.Example.merge_hyps.2 rfl
  exact ⟨text, p, c1, c2, c6⟩

end Jd.Props.C11Text

/-! # C12 — RFC 7386 input, text level -/

namespace Jd.Props.C12Text
open Jd Jd.Spec Jd.Merge

/-- **C12 at the text level, sharp form.** For EVERY text `s` that is valid JSON (`hs`: it parses to
    `p`) and every target `t` with unique sorted keys: `ReadMergeString(s)` succeeds, and `t.Patch` of
    what it read is EXACTLY RFC 7386 `MergePatch(t, p)` if and only if the pair is outside the three
    known classes (`Clean t p`, decidable: patch `{}` on a non-object target; `{}` over a non-empty
    object member; patch `null` at the root). The hypotheses `p.wf`, `objVoidFree p` of
    `C12.read_apply_is_mergePatch_iff_clean` are theorems about the parser. -/
theorem read_text_apply_is_mergePatch_iff_clean (nc : NumCodec) (t : Json) (s : String) (p : Json)
    (ht : t.wf = true) (hs : parseJson nc s = some p) :
    ∃ d, readMergeM nc s = .ok d ∧
      (patchAll true t d = .ok (mergePatch t p) ↔ Clean t p = true) :=
  RTL.merge_text_read_apply_iff nc t s p ht hs

/-- the direction used as the property; also with the entry point `patchM`, up to array tags -/
theorem read_text_apply_is_mergePatch (nc : NumCodec) (t : Json) (s : String) (p : Json)
    (ht : t.wf = true) (hs : parseJson nc s = some p) (hc : Clean t p = true) :
    ∃ d r, readMergeM nc s = .ok d ∧ patchAll true t d = .ok (mergePatch t p) ∧
      patchM t d = .ok r ∧ untag r = untag (mergePatch t p) :=
  RTL.merge_text_read_apply nc t s p ht hs hc

/-- a text that is not JSON and not blank is rejected -/
theorem invalid_text_rejected (nc : NumCodec) (s : String) (hs : parseJson nc s = none)
    (hb : (trimGoSpace s).isEmpty = false) : readMergeM nc s = .err :=
  RTL.merge_text_invalid nc s hs hb

/-- OBSERVATION (outside RFC 7386, which speaks of JSON texts only): a BLANK text is accepted by
    `ReadMergeString` and read as the empty diff; applying it is a no-op -/
theorem blank_text_is_the_empty_diff (nc : NumCodec) (s : String)
    (hb : (trimGoSpace s).isEmpty = true) (t : Json) :
    readMergeM nc s = .ok [] ∧ patchAll true t [] = .ok t :=
  RTL.merge_text_blank nc s hb t

/-! Non-vacuity: the text `{"a":{"b":null,"e":{}},"d":["w"]}` on the target
    `{"a":{"b":"x","c":"y"},"d":"z"}` (the pair of JdProps/C12.lean): it parses, the pair is `Clean`. -/

private def exT : Json := .obj [("a", .obj [("b", .str "x"), ("c", .str "y")]), ("d", .str "z")]
private def exP : Json := .obj [("a", .obj [("b", .null), ("e", .obj [])]), ("d", .arr .raw [.str "w"])]
private def exS : String := "{\"a\":{\"b\":null,\"e\":{}},\"d\":[\"w\"]}"

private theorem ex_parse (nc : NumCodec) : parseJson nc exS = some exP := by
  simp [exS, exP, parseJson, parseValue, skipWs, isJsonWs, parseElems, parseMembers, lexString, ainsert]

example (nc : NumCodec) : ∃ d, readMergeM nc exS = .ok d ∧
    patchAll true exT d = .ok (mergePatch exT exP) := by
  obtain ⟨d, r, h1, h2, _⟩ := read_text_apply_is_mergePatch nc exT exS exP (by decide) (ex_parse nc)
    (by decide)
  exact ⟨d, h1, h2⟩

end Jd.Props.C12Text
