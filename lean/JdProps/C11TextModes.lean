/-
  JdProps.C11TextModes — property C11 (RFC 7386 output, v2) at the level of the JSON TEXT for the option
  combinations beyond the list reading: SET+MERGE, MULTISET+MERGE, SetKeys+MERGE (without a clash),
  MULTISET+SetKeys+MERGE, MERGE with a non-negative Precision. Proofs: JdProofs/MergeTextSetModes.lean
  (namespace `Jd.MTS`). The list reading without Precision is `JdProps/C09Text.lean`
  (`C11Text.rendered_merge_text_yields_target`).

  Common reading of every theorem: `renderMergeM nc d` is the TEXT `d.RenderMerge()` returns;
  `parseJson nc` is `json.Unmarshal` into a document; `mergePatch` is the RFC 7386 pseudocode;
  "is `b`" means: for the library's `Equals` under the options AND for the advertised equivalence
  `equivB` — under SET / MULTISET that is the set / bag reading of arrays, and it cannot be the list
  reading (`set_text_is_not_the_document`).
-/
import JdProofs.MergeTextSetModes

namespace Jd.Props.C11TextModes
open Jd Jd.Spec Jd.Merge

/-- **C11 at the text level, SET+MERGE and MULTISET+MERGE.**
    Claim: `RenderMerge()` returns a text; the text parses to a document `p` that is neither void nor
    `null`; RFC 7386 `MergePatch(a, p)` is `b` under the set (bag) reading.
    Hypotheses: `hmg`, `hm`, `hk`, `hp` — the reading (MERGE with SET or MULTISET, no SetKeys, no
    Precision); `ha`, `hb` — both documents as read from JSON text (plain arrays, unique sorted keys,
    finite numbers, no `-0`); `hbn` — `b` has no `null` (a `null` would mean "delete" to RFC 7386: the
    domain of C11); `hbv`, `hbN` — `b` has no void node and its numbers are printed and read back by
    the number codec (void has no JSON text; `strconv` is a parameter of the model; only `b` because
    the patch consists of parts of `b`); `F`, `L` — the IEEE-754 laws of `numWithin`; `HF` — among the
    sub-terms of `a` and `b`, equal hash codes only for equivalent nodes (needed: a collision makes
    `RenderMerge` fail, `MSet.render_err_of_collision_set`; at the text level it is used once more,
    for the member `raw()` keeps in place of the ones it drops); `hne` — the documents differ. -/
theorem rendered_merge_text_yields_target_setmodes (F : FloatEq0) (L : FloatLaws) (nc : NumCodec)
    (o : Opts) (hmg : isMerge o = true) (hm : dispatchTag o = .set ∨ dispatchTag o = .mset)
    (hk : keysOf o = none) (hp : precOf o = 0) (a b : Json)
    (ha : a.setDoc = true) (hb : b.setDoc = true) (hbn : b.nullFree = true)
    (hbv : Yaml.voidFree b = true) (hbN : JText.NumOK nc b = true)
    (HF : HashFaithful o (subterms a ++ subterms b)) (hne : equals o a b = false) :
    ∃ text p, renderMergeM nc (diffM o a b) = .ok (some text) ∧ parseJson nc text = some p ∧
      p.isVoid = false ∧ p.isNull = false ∧
      equals o (mergePatch a p) b = true ∧ equivB o (mergePatch a p) b = true :=
  MTS.merge_text_rfc_setmodes F L nc o hmg hm hk hp a b ha hb hbn hbv hbN HF hne

/-- the same without "that differ" when the first document is an object (`hobj`): for equal
    documents the text is `{}`, the identity on objects -/
theorem rendered_merge_text_yields_target_setmodes_object (F : FloatEq0) (L : FloatLaws)
    (nc : NumCodec) (o : Opts) (hmg : isMerge o = true)
    (hm : dispatchTag o = .set ∨ dispatchTag o = .mset) (hk : keysOf o = none) (hp : precOf o = 0)
    (a b : Json) (ha : a.setDoc = true) (hb : b.setDoc = true) (hbn : b.nullFree = true)
    (hbv : Yaml.voidFree b = true) (hbN : JText.NumOK nc b = true)
    (HF : HashFaithful o (subterms a ++ subterms b)) (hobj : a.isObj = true) :
    ∃ text p, renderMergeM nc (diffM o a b) = .ok (some text) ∧ parseJson nc text = some p ∧
      p.isVoid = false ∧ p.isNull = false ∧
      equals o (mergePatch a p) b = true ∧ equivB o (mergePatch a p) b = true :=
  MTS.merge_text_rfc_setmodes_obj F L nc o hmg hm hk hp a b ha hb hbn hbv hbN HF hobj

/-- **C11 at the text level, SetKeys+MERGE.** Same claim and hypotheses as
    `rendered_merge_text_yields_target_setmodes` (with `hd`: the arrays are read as sets, `keysOf o`
    arbitrary), plus `hc : KM.clash o a b = false` — decidable; a clash needs, in one array of `a` and
    in the matching array of `b`, two object members with the same identity and different contents
    whose last bearers differ. It is the EXACT class on which `RenderMerge` fails
    (`no_text_with_a_clash`), so it cannot be weakened. -/
theorem rendered_merge_text_yields_target_setkeys (F : FloatEq0) (L : FloatLaws) (nc : NumCodec)
    (o : Opts) (hmg : isMerge o = true) (hd : dispatchTag o = .set) (hp : precOf o = 0) (a b : Json)
    (ha : a.setDoc = true) (hb : b.setDoc = true) (hbn : b.nullFree = true)
    (hbv : Yaml.voidFree b = true) (hbN : JText.NumOK nc b = true)
    (HF : HashFaithful o (subterms a ++ subterms b)) (hc : KM.clash o a b = false)
    (hne : equals o a b = false) :
    ∃ text p, renderMergeM nc (diffM o a b) = .ok (some text) ∧ parseJson nc text = some p ∧
      p.isVoid = false ∧ p.isNull = false ∧
      equals o (mergePatch a p) b = true ∧ equivB o (mergePatch a p) b = true :=
  MTS.merge_text_rfc_setkeys_noclash F L nc o hmg hd hp a b ha hb hbn hbv hbN HF hc hne

/-- SetKeys+MERGE, first document an object, without "that differ" -/
theorem rendered_merge_text_yields_target_setkeys_object (F : FloatEq0) (L : FloatLaws)
    (nc : NumCodec) (o : Opts) (hmg : isMerge o = true) (hd : dispatchTag o = .set)
    (hp : precOf o = 0) (a b : Json) (ha : a.setDoc = true) (hb : b.setDoc = true)
    (hbn : b.nullFree = true) (hbv : Yaml.voidFree b = true) (hbN : JText.NumOK nc b = true)
    (HF : HashFaithful o (subterms a ++ subterms b)) (hc : KM.clash o a b = false)
    (hobj : a.isObj = true) :
    ∃ text p, renderMergeM nc (diffM o a b) = .ok (some text) ∧ parseJson nc text = some p ∧
      p.isVoid = false ∧ p.isNull = false ∧
      equals o (mergePatch a p) b = true ∧ equivB o (mergePatch a p) b = true :=
  MTS.merge_text_rfc_setkeys_noclash_obj F L nc o hmg hd hp a b ha hb hbn hbv hbN HF hc hobj

/-- with a clash `RenderMerge()` returns an error: there is no text (a FALSE instance of C11, the
    same as at the document level; Go: "merge patch path must be composed of only strings") -/
theorem no_text_with_a_clash (F : FloatEq0) (nc : NumCodec) (o : Opts)
    (hmg : isMerge o = true) (hd : dispatchTag o = .set) (hp : precOf o = 0) (a b : Json)
    (ha : a.setDoc = true) (hb : b.setDoc = true)
    (HF : HashFaithful o (subterms a ++ subterms b)) (hc : KM.clash o a b = true) :
    renderMergeM nc (diffM o a b) = .err :=
  MTS.merge_text_err_of_clash F nc o hmg hd hp a b ha hb HF hc

/-- **C11 at the text level, MULTISET+SetKeys+MERGE** (`jd -mset -setkeys K -f merge`): the keys play
    no role under the bag reading; `hne`: the documents differ, or the first one is an object -/
theorem rendered_merge_text_yields_target_mset_keys (F : FloatEq0) (L : FloatLaws) (nc : NumCodec)
    (o : Opts) (hmg : isMerge o = true) (hd : dispatchTag o = .mset) (hp : precOf o = 0) (a b : Json)
    (ha : a.setDoc = true) (hb : b.setDoc = true) (hbn : b.nullFree = true)
    (hbv : Yaml.voidFree b = true) (hbN : JText.NumOK nc b = true)
    (HF : HashFaithful o (subterms a ++ subterms b))
    (hne : equals o a b = false ∨ a.isObj = true) :
    ∃ text p, renderMergeM nc (diffM o a b) = .ok (some text) ∧ parseJson nc text = some p ∧
      p.isVoid = false ∧ p.isNull = false ∧
      equals o (mergePatch a p) b = true ∧ equivB o (mergePatch a p) b = true :=
  MTS.merge_text_rfc_mset_keys F L nc o hmg hd hp a b ha hb hbn hbv hbN HF hne

/-- **C11 at the text level, MERGE with a Precision** (list reading; `jd -f merge -precision eps`).
    Hypotheses: `hp` — the precision is a finite number ≥ +0 (needed: for a negative precision no
    number `Equals` itself, `MP.Witness.negative_precision_breaks`); `M : PrecMono o` — the IEEE fact
    `|u − v| ≤ 0 → |u − v| ≤ eps` (used: `MP.Witness.precMono_used`); `haw`, `har`, `hbw`, `hbr` —
    documents as read from text; `hbn`, `hbf` — `b` null-free with finite numbers; `hbv`, `hbN` — the
    codec domain, on `b` only; `hne` — `Equals` under the options, precision included, tells the
    documents apart. "Is `b`" is under the options: an array within `eps` of `b`'s is kept. -/
theorem rendered_merge_text_yields_target_precision (L : FloatLaws) (nc : NumCodec) (o : Opts)
    (hm : isMerge o = true) (ho : dispatchTag o = .list) (hp : nonnegBits (precOf o) = true)
    (M : DPL.PrecMono o) (a b : Json) (haw : a.wf = true) (har : a.rawDoc = true)
    (hbw : b.wf = true) (hbr : b.rawDoc = true) (hbn : b.nullFree = true)
    (hbf : b.finiteNums = true) (hbv : Yaml.voidFree b = true) (hbN : JText.NumOK nc b = true)
    (hne : equals o a b = false) :
    ∃ text p, renderMergeM nc (diffM o a b) = .ok (some text) ∧ parseJson nc text = some p ∧
      p.isVoid = false ∧ p.isNull = false ∧
      equals o (mergePatch a p) b = true ∧ equivB o (mergePatch a p) b = true :=
  MTS.merge_text_rfc_precision L nc o hm ho hp M a b haw har hbw hbr hbn hbf hbv hbN hne

/-- the general form under a Precision: whenever the DIFF is not empty (weaker than "the documents
    differ under the options": `1` vs `1.00001`), or the first document is an object -/
theorem rendered_merge_text_yields_target_precision_nonempty (L : FloatLaws) (nc : NumCodec)
    (o : Opts) (hm : isMerge o = true) (ho : dispatchTag o = .list)
    (hp : nonnegBits (precOf o) = true) (M : DPL.PrecMono o) (a b : Json)
    (haw : a.wf = true) (har : a.rawDoc = true)
    (hbw : b.wf = true) (hbr : b.rawDoc = true) (hbn : b.nullFree = true)
    (hbf : b.finiteNums = true) (hbv : Yaml.voidFree b = true) (hbN : JText.NumOK nc b = true)
    (hne : diffM o a b ≠ [] ∨ a.isObj = true) :
    ∃ text p, renderMergeM nc (diffM o a b) = .ok (some text) ∧ parseJson nc text = some p ∧
      p.isVoid = false ∧ p.isNull = false ∧
      equals o (mergePatch a p) b = true ∧ equivB o (mergePatch a p) b = true :=
  MTS.merge_text_rfc_precision_gen L nc o hm ho hp M a b haw har hbw hbr hbn hbf hbv hbN hne

/-- **what is new at the text level** (witness; the same text comes out of the Go library):
    `{"s":["x","y"],"v":["x"]}` → `{"s":["y","x"],"v":["z","x","z"]}` under `[SET, MERGE]`. The text
    is `{"v":["x","z"]}`: `b`'s array in hash order, the duplicate dropped (`jsonSet.raw()`), although
    the rendered DOCUMENT holds `["z","x","z"]`. RFC 7386 gives `{"s":["x","y"],"v":["x","z"]}`, which
    is `b` for `Equals` and `equivB` under SET and is NOT `b` in the list reading nor in the bag reading:
    the conclusion of the theorems above cannot be strengthened to `specEq`. -/
theorem set_text_is_not_the_document (F : FloatEq0) :
    renderMergeM NativeRT.exCodec (diffM [.set, .merge] MTS.Witness.wA MTS.Witness.wB)
      = .ok (some "{\"v\":[\"x\",\"z\"]}") ∧
    parseJson NativeRT.exCodec "{\"v\":[\"x\",\"z\"]}"
      = some (.obj [("v", .arr .raw [.str "x", .str "z"])]) ∧
    mergePatch MTS.Witness.wA (.obj [("v", .arr .raw [.str "x", .str "z"])])
      = .obj [("s", .arr .raw [.str "x", .str "y"]), ("v", .arr .raw [.str "x", .str "z"])] ∧
    equals [.set, .merge]
      (.obj [("s", .arr .raw [.str "x", .str "y"]), ("v", .arr .raw [.str "x", .str "z"])])
      MTS.Witness.wB = true ∧
    equivB [.set, .merge]
      (.obj [("s", .arr .raw [.str "x", .str "y"]), ("v", .arr .raw [.str "x", .str "z"])])
      MTS.Witness.wB = true ∧
    specEq (.obj [("s", .arr .raw [.str "x", .str "y"]), ("v", .arr .raw [.str "x", .str "z"])])
      MTS.Witness.wB = false ∧
    equivB [.mset, .merge]
      (.obj [("s", .arr .raw [.str "x", .str "y"]), ("v", .arr .raw [.str "x", .str "z"])])
      MTS.Witness.wB = false :=
  MTS.Witness.set_text_reorders_and_dedups F

/-! ## Non-vacuity: the hypotheses hold on concrete, non-trivial pairs (codec that knows no token) -/

/-- SET+MERGE on the witness pair (a set re-ordered, a set replaced by one with a duplicate) -/
example (F : FloatEq0) (L : FloatLaws) :
    ∃ text p, renderMergeM NativeRT.exCodec (diffM [.set, .merge] MTS.Witness.wA MTS.Witness.wB)
        = .ok (some text) ∧ parseJson NativeRT.exCodec text = some p ∧
      equals [.set, .merge] (mergePatch MTS.Witness.wA p) MTS.Witness.wB = true := by
  obtain ⟨h1, h2, h3, h4, h5⟩ := MTS.Witness.w_docs
  obtain ⟨text, p, c1, c2, _, _, c5, _⟩ :=
    rendered_merge_text_yields_target_setmodes F L NativeRT.exCodec [.set, .merge] rfl (Or.inl rfl)
      rfl rfl _ _ h1 h2 h3 h4 h5 MTS.Witness.w_hf MTS.Witness.w_ne
  exact ⟨text, p, c1, c2, c5⟩

/-- MULTISET+MERGE on the pair of JdProofs/MergeSetModes.lean:
    `{"s":["x","y"],"u":"x","v":["x"]}` → `{"s":["y","x"],"t":[true],"v":["x","z"]}` -/
example (F : FloatEq0) (L : FloatLaws) :
    ∃ text p, renderMergeM NativeRT.exCodec (diffM [.mset, .merge] MSet.Example.exA MSet.Example.exB)
        = .ok (some text) ∧ parseJson NativeRT.exCodec text = some p ∧
      equivB [.mset, .merge] (mergePatch MSet.Example.exA p) MSet.Example.exB = true := by
  obtain ⟨h1, h2, h3, _⟩ := MSet.Example.ex_docs
  obtain ⟨text, p, c1, c2, _, _, _, c6⟩ :=
    rendered_merge_text_yields_target_setmodes F L NativeRT.exCodec [.mset, .merge] rfl (Or.inr rfl)
      rfl rfl _ _ h1 h2 h3 (by decide) (by decide) MSet.Example.ex_hashFaithful_mset
      MSet.Example.ex_ne.2
  exact ⟨text, p, c1, c2, c6⟩

/-- SetKeys(id)+MERGE on the pair of JdProofs/KeysMerge.lean (keyed members in another order, a set
    replaced, a member deleted, a member added); no clash because the identities of `b` are distinct -/
example (F : FloatEq0) (L : FloatLaws) :
    ∃ text p, renderMergeM NativeRT.exCodec (diffM KM.Example.o1 KM.Example.exA KM.Example.exB)
        = .ok (some text) ∧ parseJson NativeRT.exCodec text = some p ∧
      equals KM.Example.o1 (mergePatch KM.Example.exA p) KM.Example.exB = true := by
  obtain ⟨h1, h2, h3, h4⟩ := KM.Example.ex_docs
  have hc := KM.noclash_of_identInj F KM.Example.o1 rfl rfl rfl _ _ h1 h2 KM.Example.ex_hf h4
    KM.Example.ex_ib
  obtain ⟨text, p, c1, c2, _, _, c5, _⟩ :=
    rendered_merge_text_yields_target_setkeys F L NativeRT.exCodec KM.Example.o1 rfl rfl rfl _ _
      h1 h2 h3 (by decide) (by decide) KM.Example.ex_hf hc KM.Example.ex_ne
  exact ⟨text, p, c1, c2, c5⟩

/-- … and a pair WITH a clash (JdProofs/KeysMergeB.lean, `Witness.wa` → `Witness.wb`): no text -/
example (F : FloatEq0) :
    renderMergeM NativeRT.exCodec (diffM KM.Witness.o1 KM.Witness.wa KM.Witness.wb) = .err :=
  no_text_with_a_clash F NativeRT.exCodec KM.Witness.o1 rfl rfl rfl _ _ KM.Witness.w_docs.1
    KM.Witness.w_docs.2.1 KM.Witness.w_hf KM.Witness.w_clash

/-- `{"a":1,"b":[1,2],"c":{"d":"x","n":null},"p":1,"z":true}` -/
def pA : Json :=
  .obj [("a", .num MP.Example.one), ("b", .arr .raw [.num MP.Example.one, .num MP.Example.two]),
    ("c", .obj [("d", .str "x"), ("n", .null)]), ("p", .num MP.Example.one), ("z", .bool true)]
/-- `{"a":2,"b":[1,3],"c":{"e":[true]},"p":1,"y":{"k":"v"}}` -/
def pB : Json :=
  .obj [("a", .num MP.Example.two), ("b", .arr .raw [.num MP.Example.one, .num 0x4008000000000000]),
    ("c", .obj [("e", .arr .raw [.bool true])]), ("p", .num MP.Example.one),
    ("y", .obj [("k", .str "v")])]

theorem p_docs : pA.wf = true ∧ pA.rawDoc = true ∧ pB.wf = true ∧ pB.rawDoc = true ∧
    pB.nullFree = true ∧ pB.finiteNums = true ∧ Yaml.voidFree pB = true ∧
    pA.isObj = true ∧ nonnegBits MP.Example.eps = true := by decide

theorem p_numOK : JText.NumOK NativeRT.exCodec pB = true := by decide +kernel

/-- MERGE with Precision(0.01) (the CLI's option list for `jd -f merge -precision 0.01`) -/
example (L : FloatLaws) (M : DPL.PrecMono [.merge, .prec MP.Example.eps]) :
    ∃ text p, renderMergeM NativeRT.exCodec (diffM [.merge, .prec MP.Example.eps] pA pB)
        = .ok (some text) ∧ parseJson NativeRT.exCodec text = some p ∧
      equals [.merge, .prec MP.Example.eps] (mergePatch pA p) pB = true := by
  obtain ⟨h1, h2, h3, h4, h5, h6, h7, h8, h9⟩ := p_docs
  obtain ⟨text, p, c1, c2, _, _, c5, _⟩ :=
    rendered_merge_text_yields_target_precision_nonempty L NativeRT.exCodec
      [.merge, .prec MP.Example.eps] rfl rfl h9 M pA pB h1 h2 h3 h4 h5 h6 h7 p_numOK (Or.inr h8)
  exact ⟨text, p, c1, c2, c5⟩

end Jd.Props.C11TextModes
