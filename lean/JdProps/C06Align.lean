/-
  Property C06 — list diffs are minimal (LCS), recurse into same-position containers, and carry
  adjacent context. ADDITIONAL statement file (proofs in JdProofs/ListAlignCount.lean, namespace
  `Jd.Align`, built on the alignment `Script` of JdProofs/RealDiffList.lean, namespace `Jd.RealL`).
  It closes three limits listed at the end of JdProps/C06.lean:

    1. with containers the count was an UPPER BOUND  →  here an EQUALITY (section 1);
    2. the recursion clause was stated along `Rec.Reach` (the cursor walk of the code)  →  here a
       STATIC, DECIDABLE criterion on the inputs, and it is EXACT (if and only if) (sections 2–3);
    3. the static context clause was stated for the top-level array only  →  here at every depth
       (section 4).

  Reading (as in JdProps/C06.lean, Part 3): `diffM o a b` = `a.Diff(b)` with `dispatchTag o = .list`
  (list reading) and `isMerge o = false` (strict strategy); `diffNode o false x y p` the recursive
  call on two nodes at path `p` (the SUB-DIFF). `ht`, `ht'`, `htt`: both arrays are plain `jsonArray`s
  or `jsonList`s in a combination the dispatcher sends to the list diff (`t = t' = .raw` for documents
  read from text). `listDocList xs`: no set / multiset typed node inside the elements (what the
  readers produce in list mode). `Rec.isTop [] h`: `h` is an ARRAY-LEVEL hunk of the top-level array
  (path of length one, with context); `Rec.removedTop [] D` / `Rec.addedTop [] D`: everything the
  array-level hunks of `D` remove / add, in hunk order.

  THE ALIGNMENT. `Align.alignment o xs ys : RealL.Script` is an EXECUTABLE function of the two arrays:
  `Align.walk` repeats the five decisions of `jsonList.diffRest` (both cursors at the next common
  element → keep; one of them → add / remove; neither → same-kind containers: recurse, else
  replace) on the common sequence `lcsValues (hashList o xs) (hashList o ys)` golcs returns, and
  records `keep x y` / `sub x y` / `edit R A` steps only (no hunks, paths, context, sub-diffs).
  `Align.keeps`, `Align.subs`: number of `keep` / `sub` steps; `Align.removedOf`, `Align.addedOf`: what the
  `edit` steps remove / add.

  THE CRITERION. The walk stops each cursor at the FIRST remaining element whose hash code is the
  next common element, so the common sequence is embedded LEFTMOST in each array; call the
  embedded elements ANCHORS and the runs between consecutive anchors GAPS. Inside a gap the code
  pairs the elements of the two arrays positionally. `Align.locate o xs c i 0 0` computes, from ONE
  array and the common sequence, `none` if `xs[i]` is an anchor and otherwise `some (gap number,
  offset in the gap)`. `Align.pairedAt o xs ys i j : Bool` says that `xs[i]` and `ys[j]` are not anchors
  and get the same answer. It is a function of the two hash lists; the diff is not run.

  NOT PROVED / LIMITS
    * what the sub-diffs remove / add INSIDE the recursed containers is not counted against any
      optimum (the count is about array-level elements, as the property says);
    * the criterion refers to the particular common sequence golcs returns (`lcsValues`) — among
      several longest common subsequences the anchors depend on that choice; two special cases
      are given in which it can be evaluated without computing it (single gap; `Diagonal` arrays);
    * "same length and same kind position by position" alone does NOT imply recursion: witness
      `same_kind_position_by_position_is_not_enough`;
    * list documents holding a typed `jsonList` element against a plain `jsonArray` element
      (`mixedPair`): as in JdProps/C06.lean, excluded where the sub-diff is spoken of literally;
    * set / multiset readings, merge strategy, Precision (section 4 asks `precOf o = 0`): out of
      scope of C06.
-/
import JdProofs.ListAlignCount

set_option autoImplicit false

namespace Jd.Props.C06Align
open Jd Jd.Spec Jd.DPL Jd.Rec Jd.RealL Jd.Align

/-! ## 1. exact counts with containers -/

/-- the alignment consumes exactly the first array and produces exactly the second, and its kept
    pairs are as many as a LONGEST common subsequence of the two hash lists (`lcsLenSpec`: the
    textbook recurrence; `Jd.lcsValues_length_spec`: the length of what golcs returns). No
    hypothesis. -/
theorem alignment_keeps_a_longest_common_subsequence (o : Opts) (xs ys : List Json) :
    src (alignment o xs ys) = xs ∧ tgt (alignment o xs ys) = ys ∧
    keeps (alignment o xs ys) = lcsLenSpec (hashList o xs) (hashList o ys) :=
  ⟨alignment_src o xs ys, alignment_tgt o xs ys, alignment_keeps o xs ys⟩

/-- what the array-level hunks of `a.Diff(b)` remove (add), as a LIST in hunk order, is what the
    `edit` steps of the alignment remove (add). Hypothesis: list documents (needed so that no hunk
    of a sub-diff is mistaken for an array-level hunk). -/
theorem array_level_hunks_are_the_edit_steps {o : Opts} (ho : dispatchTag o = .list)
    (hm : isMerge o = false) {t t' : Tag} (xs ys : List Json)
    (ht : (t == .raw || t == .list) = true) (ht' : (t' == .raw || t' == .list) = true)
    (htt : t = .raw ∨ t' = .list)
    (hla : listDocList xs = true) (hlb : listDocList ys = true) :
    removedTop [] (diffM o (.arr t xs) (.arr t' ys)) = removedOf (alignment o xs ys) ∧
    addedTop [] (diffM o (.arr t xs) (.arr t' ys)) = addedOf (alignment o xs ys) :=
  diffM_top_eq ho hm xs ys ht ht' htt hla hlb

/-- **EXACT COUNT, containers allowed** (equalities between natural numbers, no subtraction): every
    element of the first array is removed by an array-level hunk, or kept (LCS many), or recursed
    into (`subs` many) — exactly one of the three; every element of the second array is added, kept
    or recursed into. Only hypothesis on the elements: list documents. -/
theorem array_level_counts_exact {o : Opts} (ho : dispatchTag o = .list) (hm : isMerge o = false)
    {t t' : Tag} (xs ys : List Json)
    (ht : (t == .raw || t == .list) = true) (ht' : (t' == .raw || t' == .list) = true)
    (htt : t = .raw ∨ t' = .list)
    (hla : listDocList xs = true) (hlb : listDocList ys = true) :
    (removedTop [] (diffM o (.arr t xs) (.arr t' ys))).length +
        lcsLenSpec (hashList o xs) (hashList o ys) + subs (alignment o xs ys) = xs.length ∧
    (addedTop [] (diffM o (.arr t xs) (.arr t' ys))).length +
        lcsLenSpec (hashList o xs) (hashList o ys) + subs (alignment o xs ys) = ys.length :=
  diffM_counts_exact ho hm xs ys ht ht' htt hla hlb

/-- the same in the form "removes = |xs| − LCS − #sub, adds = |ys| − LCS − #sub" -/
theorem array_level_counts_exact_minus {o : Opts} (ho : dispatchTag o = .list)
    (hm : isMerge o = false) {t t' : Tag} (xs ys : List Json)
    (ht : (t == .raw || t == .list) = true) (ht' : (t' == .raw || t' == .list) = true)
    (htt : t = .raw ∨ t' = .list)
    (hla : listDocList xs = true) (hlb : listDocList ys = true) :
    (removedTop [] (diffM o (.arr t xs) (.arr t' ys))).length =
        xs.length - lcsLenSpec (hashList o xs) (hashList o ys) - subs (alignment o xs ys) ∧
    (addedTop [] (diffM o (.arr t xs) (.arr t' ys))).length =
        ys.length - lcsLenSpec (hashList o xs) (hashList o ys) - subs (alignment o xs ys) :=
  diffM_counts_exact_sub ho hm xs ys ht ht' htt hla hlb

/-- **no more than an optimal LCS edit script**: for ANY common subsequence `c'` of the two hash
    lists (any matching of equal-hash elements an edit script could keep), the array-level hunks
    remove at most `|xs| − |c'|` and add at most `|ys| − |c'|` elements; each pair recursed into
    saves one removal and one addition more -/
theorem no_more_than_an_optimal_lcs_edit_script {o : Opts} (ho : dispatchTag o = .list)
    (hm : isMerge o = false) {t t' : Tag} (xs ys : List Json)
    (ht : (t == .raw || t == .list) = true) (ht' : (t' == .raw || t' == .list) = true)
    (htt : t = .raw ∨ t' = .list)
    (hla : listDocList xs = true) (hlb : listDocList ys = true)
    (c' : List UInt64) (h1 : c'.Sublist (hashList o xs)) (h2 : c'.Sublist (hashList o ys)) :
    (removedTop [] (diffM o (.arr t xs) (.arr t' ys))).length + subs (alignment o xs ys) ≤
        xs.length - c'.length ∧
    (addedTop [] (diffM o (.arr t xs) (.arr t' ys))).length + subs (alignment o xs ys) ≤
        ys.length - c'.length := by
  have hc := lcsLenSpec_upper (hashList o xs) (hashList o ys) c' h1 h2
  have := diffM_counts_exact ho hm xs ys ht ht' htt hla hlb
  omega

/-- arrays of scalars (first array): nothing is recursed into, and the count of
    `Props.C06.scalar_array_diff_counts` is recovered: exactly `|xs| − LCS` removed, `|ys| − LCS`
    added -/
theorem scalar_arrays_exactly_len_minus_lcs {o : Opts} (ho : dispatchTag o = .list)
    (hm : isMerge o = false) {t t' : Tag} (xs ys : List Json)
    (ht : (t == .raw || t == .list) = true) (ht' : (t' == .raw || t' == .list) = true)
    (htt : t = .raw ∨ t' = .list)
    (hla : listDocList xs = true) (hlb : listDocList ys = true)
    (scalars : ∀ x ∈ xs, isScalar x = true) :
    subs (alignment o xs ys) = 0 ∧
    (removedTop [] (diffM o (.arr t xs) (.arr t' ys))).length =
        xs.length - lcsLenSpec (hashList o xs) (hashList o ys) ∧
    (addedTop [] (diffM o (.arr t xs) (.arr t' ys))).length =
        ys.length - lcsLenSpec (hashList o xs) (hashList o ys) := by
  have h0 : subs (alignment o xs ys) = 0 := subs_walk_zero_of_scalars o xs ys _ [] [] scalars
  have := diffM_counts_exact ho hm xs ys ht ht' htt hla hlb
  omega

/-- **the diff IS the rendering of the alignment** (`RealL.hunks`: a `keep` step emits nothing, a
    `sub x y` step emits the sub-diff of `x`, `y` at the index of `y`, an `edit R A` step emits one
    array-level hunk removing `R`, adding `A`, with the neighbours as context), and every step is
    `ok`: kept pairs have ONE hash code, recursed pairs are same-kind containers with DIFFERENT
    hash codes, edits are non-empty and position-wise hash-apart. Hypotheses of
    `Props.C07List.array_diff_is_alignment`, which only asserts that SOME alignment exists:
    elements `GoodL` (list documents, sorted unique keys, finite numbers, no void member),
    `NumHashOK` (numbers equal as floats hash alike), no typed list against a plain array. -/
theorem diff_is_the_rendering_of_the_alignment {o : Opts} (ho : dispatchTag o = .list)
    (hm : isMerge o = false) {t t' : Tag} (xs ys : List Json)
    (ht : (t == .raw || t == .list) = true) (ht' : (t' == .raw || t' == .list) = true)
    (htt : t = .raw ∨ t' = .list) (gx : GoodL xs) (gy : GoodL ys)
    (Z : NumHashOK o (subtermsList xs) (subtermsList ys))
    (nomix : ∀ x ∈ xs, ∀ y ∈ ys, mixedPair x y = false) :
    diffM o (.arr t xs) (.arr t' ys) = hunks o [] 0 .void (alignment o xs ys) ∧
    (∀ st ∈ alignment o xs ys, st.ok o) := by
  have al := diffNode_aligned_walk ho xs ys ht ht' htt gx gy Z nomix
  exact ⟨by rw [diffM, hm]; exact al.diff_eq [], al.ok⟩

/-! ## 2. recursion: a static criterion, and it is exact -/

/-- **the criterion is EXACT.** The alignment recurses into the pair (`xs[i]`, `ys[j]`) — it has the
    step `sub x y` after steps consuming `i` elements of `xs` and producing `j` elements of `ys` — IF
    AND ONLY IF `x = xs[i]` and `y = ys[j]` are containers of the same kind standing in the same gap
    at the same offset (`pairedAt`). No hypothesis. -/
theorem recursed_iff_same_gap_same_offset {o : Opts} {xs ys : List Json} {i j : Nat} {x y : Json} :
    (∃ S1 S2, alignment o xs ys = S1 ++ .sub x y :: S2 ∧ (src S1).length = i ∧
      (tgt S1).length = j) ↔
    (pairedAt o xs ys i j = true ∧ xs[i]? = some x ∧ ys[j]? = some y ∧
      sameContainerType o x y = true) :=
  alignment_sub_iff

/-- **"recurses into same-position containers of the same kind instead of replacing them", static
    form.** If `x = xs[i]` and `y = ys[j]` are same-kind containers, `pairedAt o xs ys i j` (same gap,
    same offset), the elements are list documents and the pair is not a typed `jsonList` against a
    plain `jsonArray` (`mixedPair`, never in documents read from text), then
    `a.Diff(b) = D1 ++ (sub-diff of x and y at [j]) ++ D2`; no hunk of the sub-diff is an array-level
    hunk; the array-level hunks of `D1` only remove elements of `xs` standing before `i` and add
    elements of `ys` standing before `j`, those of `D2` only elements standing after them. So no
    array-level hunk removes `x` or adds `y`: the pair is recursed into, not replaced. -/
theorem same_gap_same_offset_containers_are_recursed_into {o : Opts} (ho : dispatchTag o = .list)
    (hm : isMerge o = false) {t t' : Tag} (xs ys : List Json)
    (ht : (t == .raw || t == .list) = true) (ht' : (t' == .raw || t' == .list) = true)
    (htt : t = .raw ∨ t' = .list)
    (hla : listDocList xs = true) (hlb : listDocList ys = true)
    {i j : Nat} {x y : Json}
    (hp : pairedAt o xs ys i j = true) (hx : xs[i]? = some x) (hy : ys[j]? = some y)
    (hs : sameContainerType o x y = true) (hnm : mixedPair x y = false) :
    ∃ (D1 D2 : Diff),
      diffM o (.arr t xs) (.arr t' ys) = D1 ++ diffNode o false x y [.idx (j : Int)] ++ D2 ∧
      (∀ h ∈ diffNode o false x y [.idx (j : Int)], isTop [] h = false) ∧
      (removedTop [] D1).Sublist (xs.take i) ∧ (addedTop [] D1).Sublist (ys.take j) ∧
      (removedTop [] D2).Sublist (xs.drop (i + 1)) ∧ (addedTop [] D2).Sublist (ys.drop (j + 1)) :=
  diffM_recurses_static ho hm xs ys ht ht' htt hla hlb hp hx hy hs hnm

/-- the same about the whole diff (no `mixedPair` hypothesis): all array-level hunks together
    remove a sublist of `xs` with position `i` taken out and add a sublist of `ys` with position `j`
    taken out -/
theorem array_level_hunks_spare_the_paired_positions {o : Opts} (ho : dispatchTag o = .list)
    (hm : isMerge o = false) {t t' : Tag} (xs ys : List Json)
    (ht : (t == .raw || t == .list) = true) (ht' : (t' == .raw || t' == .list) = true)
    (htt : t = .raw ∨ t' = .list)
    (hla : listDocList xs = true) (hlb : listDocList ys = true)
    {i j : Nat} {x y : Json}
    (hp : pairedAt o xs ys i j = true) (hx : xs[i]? = some x) (hy : ys[j]? = some y)
    (hs : sameContainerType o x y = true) :
    (removedTop [] (diffM o (.arr t xs) (.arr t' ys))).Sublist (xs.take i ++ xs.drop (i + 1)) ∧
    (addedTop [] (diffM o (.arr t xs) (.arr t' ys))).Sublist (ys.take j ++ ys.drop (j + 1)) :=
  diffM_recurses_static_whole ho hm xs ys ht ht' htt hla hlb hp hx hy hs

/-- the criterion in terms of the cursor walk of JdProps/C06.lean: it implies `Rec.Reach` to the
    position with both cursor elements off the common sequence, i.e. the hypotheses of
    `Props.C06.recursion_at_reached_position` -/
theorem criterion_implies_reached {o : Opts} {xs ys : List Json} {i j : Nat} {x y : Json}
    (hp : pairedAt o xs ys i j = true) (hx : xs[i]? = some x) (hy : ys[j]? = some y)
    (hs : sameContainerType o x y = true) :
    ∃ c', Reach o xs ys (lcsValues (hashList o xs) (hashList o ys))
        (x :: xs.drop (i + 1)) (y :: ys.drop (j + 1)) c' ∧
      atC o x c' = false ∧ atC o y c' = false := by
  obtain ⟨r, e1, e2⟩ := pairedAt_iff.1 hp
  exact (walk_sub_of_locate o xs ys _ xs ys _ [] [] Reach.start i j 0 0 0 r x y e1 e2 (by simp)
    (by simp) hx hy hs).2

/-! ## 3. the criterion without computing the common sequence -/

/-- **single gap**: no element of `xs` has the hash code of an element of `ys` (the common sequence is
    empty, the arrays are one gap): `pairedAt` holds exactly between equal indices. Generalises
    `Props.C06.same_kind_containers_are_recursed_into` (no assumption on the lengths, nor that EVERY
    position holds same-kind containers). -/
theorem single_gap_pairs_equal_indices {o : Opts} {xs ys : List Json}
    (apart : ∀ x ∈ xs, ∀ y ∈ ys, hashCode o x ≠ hashCode o y) {i j : Nat}
    (hi : i < xs.length) (hj : j < ys.length) : pairedAt o xs ys i j = true ↔ i = j := by
  constructor
  · intro h
    apply Classical.byContradiction
    intro hne
    rw [not_pairedAt_of_apart apart hi hj hne] at h
    cases h
  · rintro rfl
    exact pairedAt_of_apart apart hi hj

/-- **position-wise arrays** (`Diagonal o xs ys`: a hash code of `xs` occurs in `ys` at the SAME index
    only — decidable: `Align.diagonalB`): every index whose two elements have different hash
    codes is paired with itself. Together with the theorem above: such arrays are diffed position
    by position — equal hash codes: kept; same-kind containers: recursed into; anything else:
    replaced. -/
theorem diagonal_arrays_pair_equal_indices {o : Opts} {xs ys : List Json} (hD : Diagonal o xs ys)
    {i : Nat} {x y : Json} (hx : xs[i]? = some x) (hy : ys[i]? = some y)
    (hne : hashCode o x ≠ hashCode o y) : pairedAt o xs ys i i = true :=
  pairedAt_of_diagonal hD hx hy hne

/-- the two together, for `a.Diff(b)`: in `Diagonal` arrays of list documents, two same-kind
    containers with different hash codes standing at the same index `i` are recursed into -/
theorem positionwise_containers_are_recursed_into {o : Opts} (ho : dispatchTag o = .list)
    (hm : isMerge o = false) {t t' : Tag} (xs ys : List Json)
    (ht : (t == .raw || t == .list) = true) (ht' : (t' == .raw || t' == .list) = true)
    (htt : t = .raw ∨ t' = .list)
    (hla : listDocList xs = true) (hlb : listDocList ys = true) (hD : Diagonal o xs ys)
    {i : Nat} {x y : Json} (hx : xs[i]? = some x) (hy : ys[i]? = some y)
    (hne : hashCode o x ≠ hashCode o y)
    (hs : sameContainerType o x y = true) (hnm : mixedPair x y = false) :
    ∃ (D1 D2 : Diff),
      diffM o (.arr t xs) (.arr t' ys) = D1 ++ diffNode o false x y [.idx (i : Int)] ++ D2 ∧
      (∀ h ∈ diffNode o false x y [.idx (i : Int)], isTop [] h = false) ∧
      (removedTop [] D1).Sublist (xs.take i) ∧ (addedTop [] D1).Sublist (ys.take i) ∧
      (removedTop [] D2).Sublist (xs.drop (i + 1)) ∧ (addedTop [] D2).Sublist (ys.drop (i + 1)) :=
  diffM_recurses_static ho hm xs ys ht ht' htt hla hlb (pairedAt_of_diagonal hD hx hy hne) hx hy hs
    hnm

/-- `Diagonal` from its decidable form -/
theorem diagonal_is_decidable {o : Opts} {xs ys : List Json} (h : diagonalB o xs ys = true) :
    Diagonal o xs ys :=
  diagonal_of_diagonalB h

/-! ## 4. context lines at every depth, statically -/

/-- **"every hunk that edits an array position carries exactly one line of before-context and one of
    after-context, equal to the neighbouring elements or the array boundary" — at every depth, with
    LITERAL equality, no hash-collision hypothesis.** `a` as read from text (`rawDoc`), `a`, `b` `Good`
    (list documents, sorted unique keys, finite numbers, no void member), `NumHashOK` (numbers equal
    as floats hash alike; true of all finite doubles, a hypothesis because the kernel cannot
    evaluate `Float`), no Precision. For every hunk `h` of `a.Diff(b)` whose path ends with a list
    index, `h.path = q ++ [i]`: `i = n ≥ 0`; `b` holds an array `ys` at `q` (the path read literally,
    `Real.getAt`); `a` holds an array `xs` at a path `qa` with the same keys and list levels
    (`sameShape`; the indices are shifted by the edits that precede); and `LocatedAt q xs ys h n m`
    (spelled out in `located_at_unfolded`). -/
theorem context_lines_are_the_neighbours_at_every_depth {o : Opts} (ho : dispatchTag o = .list)
    (hp : precOf o = 0) (hm : isMerge o = false) {a b : Json} (hr : a.rawDoc = true) (ha : Good a)
    (hb : Good b) (N : NumHashOK o (subterms a) (subterms b)) :
    ∀ h ∈ diffM o a b, ∀ (q : Path) (i : Int), h.path = q ++ [.idx i] →
      ∃ (qa : Path) (t : Tag) (xs : List Json) (t' : Tag) (ys : List Json) (n m : Nat),
        i = (n : Int) ∧ Real.getAt a qa = some (.arr t xs) ∧ Real.getAt b q = some (.arr t' ys) ∧
        sameShape qa q ∧ LocatedAt q xs ys h n m :=
  diffM_context_static_all_levels ho hp hm hr ha hb N

/-- what `LocatedAt p X Y h n m` says, field by field: `h` is addressed to index `n`; it removes the run
    of `X` standing at index `m` and adds the run of `Y` standing at index `n`; it has exactly one
    before-context line `prev` and one after-context line `next`; `prev` is the boundary marker when
    `n = 0` and otherwise IS `Y[n-1]`; `next` IS the element of `X` following the removed run, or the
    boundary marker when the run ends `X` -/
theorem located_at_unfolded {p : Path} {X Y : List Json} {h : Hunk} {n m : Nat}
    (L : LocatedAt p X Y h n m) :
    h.path = p ++ [PathElem.idx (n : Int)] ∧
    h.remove = (X.drop m).take h.remove.length ∧ h.add = (Y.drop n).take h.add.length ∧
    m + h.remove.length ≤ X.length ∧ n + h.add.length ≤ Y.length ∧
    ∃ prev next, h.before = [prev] ∧ h.after = [next] ∧
      (n = 0 → prev = .void) ∧ (∀ k, n = k + 1 → Y[k]? = some prev) ∧
      (match X[m + h.remove.length]? with
       | some z => next = z
       | none => next = .void) :=
  ⟨L.path_eq, L.remove_eq, L.add_eq, L.remove_fits, L.add_fits, L.ctx⟩

/-! ## 5. witnesses -/

/-- **WITNESS: same gap, DIFFERENT offsets — replaced, not recursed.** `[{"a":"u"}]` against
    `["s", {"a":"v"}]`: the two objects are same-kind containers with different hash codes, both in
    the only gap, at offsets 0 and 1: `pairedAt … 0 1 = false`, and `a.Diff(b)` is ONE array-level hunk
    that removes the object and adds `"s"` and the other object. With the target `[{"a":"v"}, "s"]`
    (offsets 0 and 0) the criterion holds. -/
theorem different_offsets_are_replaced_not_recursed :
    sameContainerType [] Align.Example.oA Align.Example.oB = true ∧
    pairedAt [] [Align.Example.oA] [.str "s", Align.Example.oB] 0 1 = false ∧
    diffM [] (.arr .raw [Align.Example.oA]) (.arr .raw [.str "s", Align.Example.oB]) =
      [{ path := [.idx 0], before := [.void], remove := [Align.Example.oA],
         add := [.str "s", Align.Example.oB], after := [.void] }] ∧
    pairedAt [] [Align.Example.oA] [Align.Example.oB, .str "s"] 0 0 = true :=
  ⟨by decide +kernel, Align.Example.different_offsets_not_paired,
    Align.Example.different_offsets_replaced, Align.Example.same_offset_paired⟩

/-- **WITNESS: "same length, same kind position by position" is not enough.** `[A, B]` against `[C, A]`,
    three objects with different hash codes: at both positions the elements are same-kind
    containers (`Rec.sameKinds`), but `A` is the common sequence; the alignment is "add `C`, keep
    `A`, remove `B`": nothing is recursed into. The arrays are not `Diagonal`. -/
theorem same_kind_position_by_position_is_not_enough :
    sameKinds [] [Align.Example.oA, Align.Example.oB] [Align.Example.oC, Align.Example.oA] = true ∧
    alignment [] [Align.Example.oA, Align.Example.oB] [Align.Example.oC, Align.Example.oA] =
      [.edit [] [Align.Example.oC], .keep Align.Example.oA Align.Example.oA,
       .edit [Align.Example.oB] []] ∧
    subs (alignment [] [Align.Example.oA, Align.Example.oB]
      [Align.Example.oC, Align.Example.oA]) = 0 :=
  ⟨Align.Example.shifted_alignment.1, Align.Example.shifted_alignment.2,
    Align.Example.shifted_nothing_recursed⟩

/-! ## 6. non-vacuity

  `xsM = ["k", {"a":"u"}, "s", ["p"]]`, `ysM = ["k", {"a":"v"}, "t", ["p","q"]]` (no options): one kept pair
  (`"k"`), two pairs recursed into (index 1: objects, index 3: arrays), one scalar replaced
  (index 2). `a.Diff(b)` = `@ [1,"a"] - "u" + "v"`, `@ [2] {"a":"v"} - "s" + "t" ["p"]`, `@ [3,1] "p" + "q" ]`. -/

/-- hypotheses of section 1 (list documents) and the count: 1 removed + LCS 1 + 2 recursed = 4 -/
example : listDocList Align.Example.xsM = true ∧ listDocList Align.Example.ysM = true ∧
    (removedTop [] (diffM [] (.arr .raw Align.Example.xsM) (.arr .raw Align.Example.ysM))).length +
      lcsLenSpec (hashList [] Align.Example.xsM) (hashList [] Align.Example.ysM) +
      subs (alignment [] Align.Example.xsM Align.Example.ysM) = 4 :=
  ⟨Align.Example.listDocM.1, Align.Example.listDocM.2,
    (array_level_counts_exact rfl rfl _ _ rfl rfl (.inl rfl) Align.Example.listDocM.1
      Align.Example.listDocM.2).1⟩

/-- hypotheses of `diff_is_the_rendering_of_the_alignment` -/
example : diffM [] (.arr .raw Align.Example.xsM) (.arr .raw Align.Example.ysM) =
    hunks [] [] 0 .void (alignment [] Align.Example.xsM Align.Example.ysM) :=
  (diff_is_the_rendering_of_the_alignment rfl rfl _ _ rfl rfl (.inl rfl) Align.Example.goodXM
    Align.Example.goodYM Align.Example.numM Align.Example.nomixM).1

/-- hypotheses of section 2 / 3: the arrays are `Diagonal`, index 1 (two objects) and index 3 (two
    arrays) satisfy the criterion, and the objects at index 1 are recursed into -/
example : ∃ (D1 D2 : Diff),
    diffM [] (.arr .raw Align.Example.xsM) (.arr .raw Align.Example.ysM) =
      D1 ++ diffNode [] false Align.Example.oA Align.Example.oB [.idx 1] ++ D2 ∧
    (removedTop [] D1).Sublist (Align.Example.xsM.take 1) ∧
    (removedTop [] D2).Sublist (Align.Example.xsM.drop 2) := by
  obtain ⟨D1, D2, e, _, h1, _, h3, _⟩ :=
    same_gap_same_offset_containers_are_recursed_into (o := []) rfl rfl (t := .raw) (t' := .raw)
      Align.Example.xsM Align.Example.ysM rfl rfl (.inl rfl) Align.Example.listDocM.1
      Align.Example.listDocM.2 Align.Example.paired1 (x := Align.Example.oA) (y := Align.Example.oB)
      rfl rfl (by decide +kernel) (by decide +kernel)
  exact ⟨D1, D2, e, h1, h3⟩

example : pairedAt [] Align.Example.xsM Align.Example.ysM 3 3 = true := Align.Example.paired3

/-- hypotheses of section 4 -/
example : ∀ h ∈ diffM [] (.arr .raw Align.Example.xsM) (.arr .raw Align.Example.ysM),
    ∀ (q : Path) (i : Int), h.path = q ++ [.idx i] →
      ∃ (qa : Path) (t : Tag) (xs : List Json) (t' : Tag) (ys : List Json) (n m : Nat),
        i = (n : Int) ∧ Real.getAt (.arr .raw Align.Example.xsM) qa = some (.arr t xs) ∧
        Real.getAt (.arr .raw Align.Example.ysM) q = some (.arr t' ys) ∧
        sameShape qa q ∧ LocatedAt q xs ys h n m :=
  context_lines_are_the_neighbours_at_every_depth rfl rfl rfl Align.Example.rawM
    Align.Example.goodAM Align.Example.goodBM Align.Example.numM'

end Jd.Props.C06Align
