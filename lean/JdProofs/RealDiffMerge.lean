/-
  JdProofs.RealDiffMerge — property C07 ("a diff reports only real differences: no no-op, no
  redundant hunk"), the two readings JdProofs.RealDiff / RealDiffSet leave open:
    PART 1  the MERGE strategy (list reading of arrays, and SET+MERGE / MULTISET+MERGE): all clauses;
    PART 2  the LIST reading, strict strategy, clause "no hunk is redundant" in the GENERAL case
            (objects, arrays in arrays, containers as list elements at any depth).
  Everything lives in the namespace `Jd.RealM`. All main theorems are about the library functions of
  the model: `diffM` (`a.Diff(b, options...)`), `patchAll sw` / `patchM` (`a.Patch(d)` on the diff value;
  `sw = true` is the code), `equals` (`Equals`); the reference meaning of strict hunks is
  `Jd.Spec.applyStrictAll`, structural equality is `specEq`.
  STAGE REACHED: all stages of both parts (full statements, no `_partial` theorem).

  ───────────────────────────── PART 1 — MERGE strategy ─────────────────────────────
  Vocabulary: `Real.getAt a q` what `a` holds at the key path `q` (`none`: nothing there);
  `Real.keysOnly q` the path consists of object keys; `asList v` (= `Real.asList`) `v` with the Go
  dynamic type of its TOP array node forgotten (a replaced array is reported as the typed node —
  `jsonList`, `jsonSet`, `jsonMultiset` — it was dispatched to).
  MAIN THEOREMS (list reading: `isMerge o`, `dispatchTag o = .list`, `precOf o = 0`, e.g. `o = [.merge]`)
    * `merge_hunk_real_list`: every hunk `h` of `a.Diff(b, MERGE)` is `MergeHunkReal o a b h`:
        `merge`      it is a merge hunk; `keys` its path is a key path; `noRemove`, `noContext`: it
                     removes nothing and has no context lines;
        `one`        `h.add = [v]` for one value `v`; if `b` holds `w` at the path, `v` is `w` (up to
                     `asList`); if `b` holds nothing there, `v` is void (a DELETION) and `a` does hold
                     something there; what `a` holds there (if anything) is NOT `Equals` to `v`;
        `wholesale`  `a` and `b` do not both hold an object there (objects are recursed into,
                     everything else is replaced as a whole);
        `parents`    the parent location holds an object on both sides.
    * `merge_equal_subdoc_not_mentioned_list`: if `a` and `b` hold `Equals` values at a key path `q`
        (any depth; `q = []` is the whole document), no hunk has a path at or below `q`.
        No hash and no float hypothesis (the merge strategy decides by `Equals` itself).
    * `merge_no_redundant_hunk_list`: `diffM o a b = d1 ++ h :: d2 →
          ∃ r, patchAll sw a (d1 ++ d2) = .ok r ∧ equals o r b = false`
        (the remaining hunks always apply — a merge hunk cannot fail — and never give `b`).
    * `merge_hunk_real_setmodes`, `merge_equal_subdoc_not_mentioned_setmodes`,
      `merge_no_redundant_hunk_setmodes`: the same three for SET+MERGE and MULTISET+MERGE
      (`dispatchTag o = .set ∨ .mset`, `keysOf o = none`, `precOf o = 0`).
  HYPOTHESES and why (all decidable on the inputs except the two about hashes / floats)
    `a.wf`, `b.wf`       unique sorted keys (what a Go map guarantees; the model keeps them sorted).
    `a.rawDoc`, `b.rawDoc`  documents as read from JSON / YAML text (every array a plain `jsonArray`).
    `objVoidFree a`, `objVoidFree b`  no void root, no void object member: void is the library's "absent"
                         value, no reader produces it. For `b` it is the hypothesis of
                         `Merge.diffNode_eq_dl`; for `a` it is NEEDED for clause `one` (model only):
                         `Witness.merge_void_member`.
    NOT a hypothesis: `b.nullFree`. In memory a merge hunk `add = [null]` stores `null` (only the
                         RENDERED patch reads null as "delete", C11), so Part 1 holds for documents
                         with nulls too; no `FloatLaws`, no `finiteNums`.
    set readings only: `a.setDoc`, `b.setDoc` (plain arrays, sorted keys, finite numbers, no `-0`),
                         `HashFaithful o (subterms a ++ subterms b)`, `FloatEq0`: exactly the
                         hypotheses under which the merge diff in the set readings IS a list of merge
                         hunks (`MSet.diffNode_eq_ds`: arrays that `Equals` identifies are handed to
                         the strict set diff, which must be empty).
  METHOD. The merge diff is the pure function `Merge.dl` / `MSet.ds` (relative key paths, bare values)
    and `patchAll` applies such hunks as `Merge.mapply` (JdProofs.MergeProofs, MergeSetModes,
    DiffPatchKeys). `PureDiff` abstracts the two; `noRed_generic`, `entryReal_generic`,
    `D_nil_of_equals`, `mem_below` are proved once. "No redundant hunk": the hunks of two objects
    fall into groups under pairwise different keys, which act independently (`Merge.mapply_groups`);
    dropping a hunk drops an entry of ONE group (`flatMap_split`); by induction that member is not
    `Equals` to the target's, and `Equals` on objects with sorted keys is member-wise
    (`equals_obj_false`, from `equals_obj_iff`).

  ───────────── PART 2 — LIST reading, strict strategy, "no hunk is redundant" in general ─────────────
  MAIN THEOREMS (`dispatchTag o = .list`, `isMerge o = false`)
    * `no_redundant_hunk_list`: for `a` as read from text, `b` a list document, both in the domain of
        the C01 list theorem:  `diffM o a b = d1 ++ h :: d2 → applyStrictAll a (d1 ++ d2) = some r →
        specEq r b = false` — leave ANY single hunk out (array-level hunk, hunk inside a container
        standing in a list, member hunk of an object, at any depth): if the rest applies at all under
        the documented meaning of hunks, the result is not structurally equal to `b`.
    * `no_redundant_hunk_list_patch` (`precOf o = 0`): the same about the LIBRARY's `Patch`:
        `patchAll sw a (d1 ++ d2) = .ok r → specEq r b = false ∧ equals o r b = false`
        (through C03, `strictAll_result`; `diff_strictOK`: every hunk of a strict list diff is in the
        domain of C03, no extra hypothesis).
    * `noRed_strict`: the induction (nodes / member loop / list walk; `DPL.listDiff_induct`).
  HYPOTHESES and why: those of C01 `DPL.diffM_list_correct`, with `a.rawDoc` instead of `a.listDoc`
    `a.rawDoc`         documents as read from text. NEEDED beyond `listDoc`: a typed `jsonList` against a
                       plain `jsonArray` with the same elements gives ONE hunk replacing the whole
                       value, and it is redundant: `Witness.typed_list_redundant` (not reachable
                       through the public API; the known boundary of C05 / C07).
    `b.listDoc`, `wf`, `finiteNums`, `DPL.memOK` (no void member), both sides: the domain `DPL.Good` of
                       C01 (`HashOK`, `ZeroOK` below are `DPL.HashOK`, `DPL.ZeroOK`, over `DPL.subterms`).
    `HashOK o a b`     no FNV collision between a sub-term of `a` and one of `b` (list elements are
                       matched by hash code; with a collision the diff is not even correct, C01).
    `ZeroOK a b`       no `0` / `-0` pair between the numbers of `a` and `b` (as in C01; here it also
                       gives "structurally equal ⇒ same hash code", `hash_of_specEq`, without `FloatEq0`).
    `FloatLaws`        reflexivity / symmetry of the opaque float comparison (as in C01).
  METHOD. One induction along the diff, carrying next to the C01 invariant (`DPL.diff_correct`, used as
    a black box for every complete run of a prefix):
      - `AccInv`: about the hunk the walk is accumulating (`R` removed, `A` added so far): the FIRST
        removed and the FIRST added value have different hash codes (the common sequence is a
        longest one), and when more was added than removed the walk is waiting at a common element;
      - `first_dropped`: the accumulated hunk is left out. Later hunks are addressed at or below
        indices beyond what it adds (`diffRest_idx_ge`), they change the length by the same amount
        whatever array they are applied to (`applyStrictAll_len_shift`) and leave earlier positions
        alone (`applyStrictAll_idx_ge`): so either the length is wrong (`|R| ≠ |A|`), or position
        `s` still holds `R`'s first element, which is not structurally equal to `A`'s first;
      - a hunk of a sub-diff below index `k` (or key `k`) is left out: the converse frame lemmas
        `applyStrictAll_idx_frame_conv`, `applyStrictAll_key_frame_conv` turn the run into a
        leave-one-out run on the element (member), the induction hypothesis says its result is not the
        target's, later hunks do not touch it (`applyStrictAll_idx_ge`, `applyStrictAll_key_other`);
      - objects: `specEq_obj_false` (structural equality of objects with sorted keys is member-wise).
  NOT PROVED / LIMITS
    * Part 2 is about `specEq` (and `Equals` without Precision); with a Precision option C07 inherits
      the known finding KF-C05-precision.
    * No statement of the task was found false inside the stated domains; the two witnesses are
      outside them (typed `jsonList` node; void object member).
  NON-VACUITY: `Example.mA` / `mB` (merge: four hunks — nested member, array replaced, deletion,
    addition; `m_diff` computes the diff), `MSet.Example.exA` / `exB` (set readings), `Example.pA` / `pB`
    (`{"l":["a",{"k":"u"},"c"],"m":"x"}` → `{"l":["b",{"k":"v"},"c"],"n":"y"}`: a list hunk, a hunk
    inside the object standing in the list, a removed and an added member; `p_docs`, `p_hash`,
    `p_diff_ne`; the `#eval`s show that every leave-one-out sub-diff applies and misses the target).
-/
import JdProofs.MergeProofs
import JdProofs.MergeSetModes
import JdProofs.DiffPatchKeys
import JdProofs.DiffEmpty
import JdProofs.RealDiff
import JdProofs.DiffPatchList
import JdProofs.ListRecursion

set_option autoImplicit false

namespace Jd.RealM
open Jd Jd.Spec Jd.Merge

/-! ## A. the pure merge diff, generically

  `D` is the pure merge diff on documents (`Merge.dl o` in the list reading, `MSet.ds o` in the set
  readings), `DK` its companion on member lists. `PureDiff` collects what the two have in common. -/

/-- the added members: keys of the second object that the first lacks -/
def additions (kvs kvs' : List (String × Json)) : List (List String × Json) :=
  (kvs'.filter (fun kv => (alookup kv.1 kvs).isNone)).map (fun kv => ([kv.1], kv.2))

/-- forget the Go dynamic type of the top array node (`Real.asList`) -/
abbrev asList := Real.asList

structure PureDiff (o : Opts) (D : Json → Json → List (List String × Json))
    (DK : List (String × Json) → List (String × Json) → List (List String × Json)) : Prop where
  obj_obj : ∀ kvs kvs', D (.obj kvs) (.obj kvs') = DK kvs' kvs ++ additions kvs kvs'
  nil : ∀ kvs', DK kvs' [] = []
  cons : ∀ kvs' k v r, DK kvs' ((k, v) :: r) =
      (match alookup k kvs' with
       | some v' => (D v v').map (consE k)
       | none => [([k], .void)]) ++ DK kvs' r
  /-- everything but a pair of objects is kept (nothing emitted) or replaced wholesale -/
  leaf : ∀ a b, a.rawDoc = true → b.rawDoc = true → (a.isObj && b.isObj) = false →
      D a b = [] ∨ ∃ v, D a b = [([], v)] ∧ asList v = asList b ∧ equals o a b = false ∧
        equals o a v = false

theorem flatMap_split {α β} (f : α → List β) : ∀ (L : List α) (l1 : List β) (e : β) (l2 : List β),
    L.flatMap f = l1 ++ e :: l2 →
    ∃ L1 x L2 m1 m2, L = L1 ++ x :: L2 ∧ f x = m1 ++ e :: m2 ∧ l1 = L1.flatMap f ++ m1 ∧
      l2 = m2 ++ L2.flatMap f
  | [], l1, e, l2, h => by simp at h
  | x :: L, l1, e, l2, h => by
    rw [List.flatMap_cons, List.append_eq_append_iff] at h
    rcases h with ⟨a', h1, h2⟩ | ⟨c', h1, h2⟩
    · obtain ⟨L1, y, L2, m1, m2, e1, e2, e3, e4⟩ := flatMap_split f L a' e l2 h2
      refine ⟨x :: L1, y, L2, m1, m2, by rw [e1]; rfl, e2, ?_, e4⟩
      rw [h1, e3, List.flatMap_cons, List.append_assoc]
    · cases c' with
      | nil =>
        simp only [List.nil_append] at h2
        obtain ⟨L1, y, L2, m1, m2, e1, e2, e3, e4⟩ := flatMap_split f L [] e l2 h2.symm
        refine ⟨x :: L1, y, L2, m1, m2, by rw [e1]; rfl, e2, ?_, e4⟩
        have : l1 = f x := by simpa using h1.symm
        rw [this, List.flatMap_cons, List.append_assoc, ← e3, List.append_nil]
      | cons c0 c'' =>
        simp only [List.cons_append, List.cons.injEq] at h2
        obtain ⟨rfl, rfl⟩ := h2
        exact ⟨[], x, L, l1, c'', rfl, h1, by simp, rfl⟩

/-- "dropping any single entry of `l`, the rest applied in memory to `a` is not `Equals` to `b`" -/
def NoRedAt (o : Opts) (l : List (List String × Json)) (a b : Json) : Prop :=
  ∀ l1 e l2, l = l1 ++ e :: l2 → equals o (mapply (l1 ++ l2) a) b = false

theorem noRedAt_nil (o : Opts) (a b : Json) : NoRedAt o [] a b := by
  intro l1 e l2 h
  simp at h

theorem single_split {α} {x e : α} {l1 l2 : List α} (h : [x] = l1 ++ e :: l2) :
    l1 = [] ∧ l2 = [] ∧ e = x := by
  cases l1 with
  | nil =>
    simp only [List.nil_append, List.cons.injEq] at h
    exact ⟨rfl, h.2.symm, h.1.symm⟩
  | cons y l1' =>
    have := congrArg List.length h
    simp at this

theorem noRedAt_single (o : Opts) {a b : Json} (x : List String × Json)
    (h : equals o a b = false) : NoRedAt o [x] a b := by
  intro l1 e l2 hl
  obtain ⟨rfl, rfl, _⟩ := single_split hl
  simpa [mapply] using h

/-- the members two objects hold at one key tell them apart -/
def LookNe (o : Opts) : Option Json → Option Json → Prop
  | some x, some y => equals o x y = false
  | none, none => False
  | _, _ => True

/-- two objects with sorted keys that disagree at some key are not `Equals` -/
theorem equals_obj_false (o : Opts) {R Y : List (String × Json)} (hs : keysSorted R = true)
    (hs' : keysSorted Y = true) (k : String) (h : LookNe o (alookup k R) (alookup k Y)) :
    equals o (.obj R) (.obj Y) = false := by
  cases he : equals o (.obj R) (.obj Y) with
  | false => rfl
  | true =>
    exfalso
    obtain ⟨h1, h2⟩ := (equals_obj_iff o hs hs').1 he
    cases hr : alookup k R with
    | some x =>
      obtain ⟨v', hl, hq⟩ := h1 k x (mem_of_alookup hr)
      rw [hr, hl] at h
      simp only [LookNe] at h
      rw [h] at hq
      cases hq
    | none =>
      cases hy : alookup k Y with
      | none => rw [hr, hy] at h; exact h
      | some y =>
        have := h2 k y (mem_of_alookup hy)
        rw [hr] at this
        cases this

theorem alookup_mid {β} (k : String) (x : β) :
    ∀ (G1 G2 : List (String × β)), k ∉ G1.map Prod.fst → alookup k (G1 ++ (k, x) :: G2) = some x
  | [], _, _ => by simp [alookup]
  | (k0, v0) :: G1, G2, h => by
    simp only [List.map_cons, List.mem_cons, not_or] at h
    simp only [List.cons_append, alookup, h.1, if_false]
    exact alookup_mid k x G1 G2 h.2

theorem void_not_member {kvs : List (String × Json)} (hv : objVoidFreeKvs kvs = true) (k : String) :
    alookup k kvs ≠ some .void := by
  intro h
  have := alookup_objVoidFree h hv
  simp [objVoidFree] at this

theorem toOpt_of_not_void {v : Json} (h : objVoidFree v = true) : toOpt v = some v := by
  cases v <;> simp_all [toOpt, Json.isVoid, objVoidFree]

/-- **object step of "no redundant hunk"**, generic in the pure diff -/
theorem obj_noRed (o : Opts) (D : Json → Json → List (List String × Json))
    (DK : List (String × Json) → List (String × Json) → List (List String × Json))
    (P : PureDiff o D DK) (kvs kvs' : List (String × Json))
    (hs : keysSorted kvs = true) (hs' : keysSorted kvs' = true)
    (hvA : objVoidFreeKvs kvs = true)
    (hboth : ∀ j v v', alookup j kvs = some v → alookup j kvs' = some v' →
      NoRedAt o (D v v') v v') :
    NoRedAt o (D (.obj kvs) (.obj kvs')) (.obj kvs) (.obj kvs') := by
  intro l1 e l2 hl
  rw [P.obj_obj, DPK.DK_groups D DK kvs' (P.nil kvs') (P.cons kvs') kvs, additions,
    DPK.additionsM_groups kvs kvs', ← flatG_append] at hl
  obtain ⟨G1, ⟨k, g⟩, G2, m1, m2, hG, hg, rfl, rfl⟩ := flatMap_split _ _ l1 e l2 hl
  simp only at hg
  obtain ⟨g1, gr, rfl, hm1, hgr⟩ := List.map_eq_append_iff.1 hg
  obtain ⟨e', g2, rfl, he', hm2⟩ := List.map_eq_cons_iff.1 hgr
  subst hm1; subst hm2
  have hflat : (List.flatMap (fun kg => List.map (consE kg.1) kg.2) G1 ++ List.map (consE k) g1) ++
      (List.map (consE k) g2 ++ List.flatMap (fun kg => List.map (consE kg.1) kg.2) G2)
      = flatG (G1 ++ (k, g1 ++ g2) :: G2) := by
    simp [flatG]
  rw [hflat]
  have hnd := DPK.groupsM_nodup D o hs hs'
  rw [hG] at hnd
  have hnd' : ((G1 ++ (k, g1 ++ g2) :: G2).map Prod.fst).Nodup := by
    simpa using hnd
  obtain ⟨acc', hacc, hsa, hlk⟩ := mapply_groups (G1 ++ (k, g1 ++ g2) :: G2) kvs
    (fun kg _ _ => void_not_member hvA kg.1) hnd' hs
  rw [hacc]
  have hk1 : k ∉ G1.map Prod.fst := by
    intro hm
    rw [List.map_append, List.map_cons] at hnd
    have := (List.nodup_append.1 hnd).2.2 k hm k (by simp)
    exact this rfl
  have hgk : alookup k (DPK.groupsM D kvs' kvs ++ groupsB kvs kvs') = some (g1 ++ e' :: g2) := by
    rw [hG]; exact alookup_mid k _ G1 G2 hk1
  rw [DPK.groupsM_lookup] at hgk
  have hrk := hlk k
  rw [alookup_mid k _ G1 G2 hk1] at hrk
  simp only at hrk
  refine equals_obj_false o hsa hs' k ?_
  rw [hrk]
  cases hja : alookup k kvs with
  | some v =>
    rw [hja] at hgk
    simp only [Option.some.injEq, DPK.grpM] at hgk
    simp only [getK, hja, Option.getD_some]
    cases hjb : alookup k kvs' with
    | some v' =>
      rw [hjb] at hgk
      simp only at hgk
      have hN := hboth k v v' hja hjb g1 e' g2 hgk
      unfold toOpt
      split
      · trivial
      · exact hN
    | none =>
      rw [hjb] at hgk
      simp only at hgk
      obtain ⟨rfl, rfl, _⟩ := single_split hgk
      simp only [List.append_nil, mapply, List.foldl_nil]
      rw [toOpt_of_not_void (alookup_objVoidFree hja hvA)]
      trivial
  | none =>
    rw [hja] at hgk
    simp only at hgk
    cases hjb : alookup k kvs' with
    | none => rw [hjb] at hgk; simp at hgk
    | some v' =>
      rw [hjb] at hgk
      simp only [Option.map_some, Option.some.injEq] at hgk
      obtain ⟨rfl, rfl, _⟩ := single_split hgk
      simp [getK, hja, mapply, toOpt, Json.isVoid, LookNe]

/-- **no redundant entry**, every pair of documents as read from text -/
theorem noRed_generic (o : Opts) (D : Json → Json → List (List String × Json))
    (DK : List (String × Json) → List (String × Json) → List (List String × Json))
    (P : PureDiff o D DK) :
    ∀ a : Json, a.wf = true → a.rawDoc = true → objVoidFree a = true →
      ∀ b : Json, b.wf = true → b.rawDoc = true → NoRedAt o (D a b) a b := by
  have leafCase : ∀ a b : Json, a.rawDoc = true → b.rawDoc = true →
      (a.isObj && b.isObj) = false → NoRedAt o (D a b) a b := by
    intro a b ha hb hn
    rcases P.leaf a b ha hb hn with h | ⟨v, h, _, he, _⟩
    · rw [h]; exact noRedAt_nil o a b
    · rw [h]; exact noRedAt_single o _ he
  intro a
  induction a using jsonInd with
  | void => intro _ hr _ b _ hb; exact leafCase _ b hr hb rfl
  | null => intro _ hr _ b _ hb; exact leafCase _ b hr hb rfl
  | bool x => intro _ hr _ b _ hb; exact leafCase _ b hr hb rfl
  | num x => intro _ hr _ b _ hb; exact leafCase _ b hr hb rfl
  | str x => intro _ hr _ b _ hb; exact leafCase _ b hr hb rfl
  | arr t xs _ => intro _ hr _ b _ hb; exact leafCase _ b hr hb rfl
  | obj kvs ih =>
    intro hw hr hv b hbw hbr
    cases b with
    | obj kvs' =>
      simp only [Json.wf, Bool.and_eq_true] at hw hbw
      simp only [Json.rawDoc] at hr hbr
      simp only [objVoidFree] at hv
      refine obj_noRed o D DK P kvs kvs' hw.1 hbw.1 hv ?_
      intro j v v' hja hjb
      exact ih j v (mem_of_alookup hja) (alookup_wf hja hw.2) (alookup_rawDoc hja hr)
        (alookup_objVoidFree hja hv) v' (alookup_wf hjb hbw.2) (alookup_rawDoc hjb hbr)
    | _ => exact leafCase _ _ hr hbr rfl

/-! ## B. the two instances: `Merge.dl` (list reading) and `MSet.ds` (set / multiset reading) -/

theorem equals_obj_other (o : Opts) (kvs : List (String × Json)) {b : Json} (hb : b.isObj = false) :
    equals o (.obj kvs) b = false := by
  cases b <;> simp_all [equals, Json.isObj]

theorem equals_arr_other (o : Opts) (t : Tag) (xs : List Json) {b : Json}
    (hb : Merge.isArr b = false) : equals o (.arr t xs) b = false := by
  refine equals_kind_ne o _ _ ?_
  cases b <;> simp_all [Json.kind, Merge.isArr]

theorem pureDiff_dl {o : Opts} (ho : dispatchTag o = .list) (hp : precOf o = 0) :
    PureDiff o (dl o) (dlKvs o) where
  obj_obj := fun kvs kvs' => dl_obj_obj o kvs kvs'
  nil := DPK.dlKvs_nil o
  cons := DPK.dlKvs_cons o
  leaf := by
    have scalar : ∀ a b : Json, a.isObj = false → Merge.isArr a = false →
        dl o a b = [] ∨ ∃ v, dl o a b = [([], v)] ∧ asList v = asList b ∧ equals o a b = false ∧
          equals o a v = false := by
      intro a b h1 h2
      rw [dl_scalar o h1 h2]
      have e := equals_scalar_noopts hp a b
        (fun t xs e => by subst e; simp [Merge.isArr] at h2)
        (fun kvs e => by subst e; simp [Json.isObj] at h1)
      cases he : equals [] a b with
      | true => exact .inl (by simp)
      | false => exact .inr ⟨b, by simp, rfl, by rw [← e, he], by rw [← e, he]⟩
    intro a b ha hb hn
    cases a with
    | obj kvs =>
      have hb' : b.isObj = false := by simpa [Json.isObj] using hn
      rw [dl_obj_other o kvs hb']
      exact .inr ⟨b, rfl, rfl, equals_obj_other o kvs hb', equals_obj_other o kvs hb'⟩
    | arr t xs =>
      simp only [Json.rawDoc, Bool.and_eq_true, beq_iff_eq] at ha
      obtain ⟨rfl, _⟩ := ha
      cases b with
      | arr t' ys =>
        simp only [Json.rawDoc, Bool.and_eq_true, beq_iff_eq] at hb
        obtain ⟨rfl, _⟩ := hb
        rw [dl_arr_arr]
        cases he : equals o (.arr .list xs) (.arr .list ys) with
        | true => exact .inl (by simp)
        | false =>
          refine .inr ⟨.arr .list ys, by simp, rfl, ?_, ?_⟩
          · rw [equals_arr_list ho xs ys rfl rfl] at he
            rw [equals_arr_list ho xs ys rfl rfl]; exact he
          · rw [equals_arr_list ho xs ys rfl rfl] at he
            rw [equals_arr_list ho xs ys rfl rfl]; exact he
      | _ =>
        rw [dl_arr_other o _ xs rfl]
        exact .inr ⟨_, rfl, rfl, equals_arr_other o _ xs rfl, equals_arr_other o _ xs rfl⟩
    | void => exact scalar _ b rfl rfl
    | null => exact scalar _ b rfl rfl
    | bool x => exact scalar _ b rfl rfl
    | num x => exact scalar _ b rfl rfl
    | str x => exact scalar _ b rfl rfl

theorem equals_raw_typed {o : Opts} (hm : dispatchTag o = .set ∨ dispatchTag o = .mset)
    (xs ys : List Json) :
    equals o (.arr .raw xs) (.arr (dispatchTag o) ys) = equals o (.arr .raw xs) (.arr .raw ys) := by
  rcases hm with hd | hd <;> simp [equals, effTag, Json.dispatch, hd]

theorem pureDiff_ds {o : Opts} (hm : dispatchTag o = .set ∨ dispatchTag o = .mset)
    (hp : precOf o = 0) : PureDiff o (MSet.ds o) (MSet.dsKvs o) where
  obj_obj := fun kvs kvs' => MSet.ds_obj_obj o kvs kvs'
  nil := MSet.dsKvs_nil o
  cons := MSet.dsKvs_cons o
  leaf := by
    have scalar : ∀ a b : Json, a.isObj = false → Merge.isArr a = false →
        MSet.ds o a b = [] ∨ ∃ v, MSet.ds o a b = [([], v)] ∧ asList v = asList b ∧
          equals o a b = false ∧ equals o a v = false := by
      intro a b h1 h2
      rw [MSet.ds_scalar o h1 h2]
      have e := equals_scalar_noopts hp a b
        (fun t xs e => by subst e; simp [Merge.isArr] at h2)
        (fun kvs e => by subst e; simp [Json.isObj] at h1)
      cases he : equals [] a b with
      | true => exact .inl (by simp)
      | false => exact .inr ⟨b, by simp, rfl, by rw [← e, he], by rw [← e, he]⟩
    intro a b ha hb hn
    cases a with
    | obj kvs =>
      have hb' : b.isObj = false := by simpa [Json.isObj] using hn
      rw [MSet.ds_obj_other o kvs hb']
      exact .inr ⟨b, rfl, rfl, equals_obj_other o kvs hb', equals_obj_other o kvs hb'⟩
    | arr t xs =>
      simp only [Json.rawDoc, Bool.and_eq_true, beq_iff_eq] at ha
      obtain ⟨rfl, _⟩ := ha
      cases b with
      | arr t' ys =>
        simp only [Json.rawDoc, Bool.and_eq_true, beq_iff_eq] at hb
        obtain ⟨rfl, _⟩ := hb
        rw [MSet.ds_arr_arr]
        cases he : equals o (.arr .raw xs) (.arr .raw ys) with
        | true => exact .inl (by simp)
        | false =>
          exact .inr ⟨.arr (dispatchTag o) ys, by simp, rfl, rfl,
            by rw [equals_raw_typed hm]; exact he⟩
      | _ =>
        rw [MSet.ds_arr_other o _ xs rfl]
        exact .inr ⟨_, rfl, rfl, equals_arr_other o _ xs rfl, equals_arr_other o _ xs rfl⟩
    | void => exact scalar _ b rfl rfl
    | null => exact scalar _ b rfl rfl
    | bool x => exact scalar _ b rfl rfl
    | num x => exact scalar _ b rfl rfl
    | str x => exact scalar _ b rfl rfl

/-! ## C. MERGE: no hunk is redundant (the library's `Patch` on the diff value) -/

/-- dropping one hunk of a mapped list of merge hunks is dropping one entry of the list -/
theorem map_mh_split {l : List (List String × Json)} {d1 d2 : Diff} {h : Hunk}
    (hd : l.map (fun e => mh e.1 e.2) = d1 ++ h :: d2) :
    ∃ l1 e l2, l = l1 ++ e :: l2 ∧ d1 ++ d2 = (l1 ++ l2).map (fun e => mh e.1 e.2) ∧
      h = mh e.1 e.2 := by
  obtain ⟨l1, lr, rfl, h1, hr⟩ := List.map_eq_append_iff.1 hd
  obtain ⟨e, l2, rfl, he, h2⟩ := List.map_eq_cons_iff.1 hr
  exact ⟨l1, e, l2, rfl, by rw [List.map_append, h1, h2], he.symm⟩

/-- the library's merge diff in the list reading, as a list of merge hunks -/
theorem diffM_eq_dl (o : Opts) (ho : dispatchTag o = .list) (hm : isMerge o = true) (a b : Json)
    (ha : a.rawDoc = true) (hb : b.rawDoc = true) (hv : objVoidFree b = true) :
    diffM o a b = (dl o a b).map (fun e => mh e.1 e.2) := by
  have hd := diffNode_eq_dl o ho a b [] ha hb hv
  simp only [List.map_nil, List.nil_append] at hd
  unfold diffM
  rw [hm, hd]

/-- **C07, clause "no hunk is redundant", MERGE strategy, list reading of arrays.**
    Leave any single hunk out of `a.Diff(b, MERGE)`: what the library's `Patch` makes of `a` with the
    remaining hunks is not `Equals` to `b`. -/
theorem merge_no_redundant_hunk_list (sw : Bool) (o : Opts) (hm : isMerge o = true)
    (ho : dispatchTag o = .list) (hprec : precOf o = 0) (a b : Json)
    (haw : a.wf = true) (har : a.rawDoc = true) (hav : objVoidFree a = true)
    (hbw : b.wf = true) (hbr : b.rawDoc = true) (hbv : objVoidFree b = true)
    (d1 d2 : Diff) (h : Hunk) (hd : diffM o a b = d1 ++ h :: d2) :
    ∃ r, patchAll sw a (d1 ++ d2) = .ok r ∧ equals o r b = false := by
  rw [diffM_eq_dl o ho hm a b har hbr hbv] at hd
  obtain ⟨l1, e, l2, hl, hdd, _⟩ := map_mh_split hd
  refine ⟨mapply (l1 ++ l2) a, by rw [hdd, patchAll_mh], ?_⟩
  exact noRed_generic o (dl o) (dlKvs o) (pureDiff_dl ho hprec) a haw har hav b hbw hbr l1 e l2 hl

/-- the library's merge diff in the set readings, as a list of merge hunks -/
theorem diffM_eq_ds (F : FloatEq0) (o : Opts) (hmg : isMerge o = true)
    (hm : dispatchTag o = .set ∨ dispatchTag o = .mset) (hk : keysOf o = none) (hp : precOf o = 0)
    (a b : Json) (ha : a.setDoc = true) (hb : b.setDoc = true) (hbv : objVoidFree b = true)
    (HF : HashFaithful o (subterms a ++ subterms b)) :
    diffM o a b = (MSet.ds o a b).map (fun e => mh e.1 e.2) := by
  have hd := MSet.diffNode_eq_ds F hm hk hp HF a b (docOk_of_setDoc ha) (docOk_of_setDoc hb)
    (fun z hz => List.mem_append.2 (Or.inl hz)) (fun z hz => List.mem_append.2 (Or.inr hz)) hbv []
  simp only [List.map_nil, List.nil_append] at hd
  unfold diffM
  rw [hmg, hd]

theorem setDoc_wf_raw {a : Json} (h : a.setDoc = true) : a.wf = true ∧ a.rawDoc = true := by
  simp only [Json.setDoc, Bool.and_eq_true] at h
  exact ⟨h.1.1.2, h.1.1.1⟩

/-- **C07, "no hunk is redundant", SET+MERGE and MULTISET+MERGE.** -/
theorem merge_no_redundant_hunk_setmodes (F : FloatEq0) (sw : Bool) (o : Opts)
    (hmg : isMerge o = true) (hm : dispatchTag o = .set ∨ dispatchTag o = .mset)
    (hk : keysOf o = none) (hp : precOf o = 0) (a b : Json)
    (ha : a.setDoc = true) (hav : objVoidFree a = true)
    (hb : b.setDoc = true) (hbv : objVoidFree b = true)
    (HF : HashFaithful o (subterms a ++ subterms b))
    (d1 d2 : Diff) (h : Hunk) (hd : diffM o a b = d1 ++ h :: d2) :
    ∃ r, patchAll sw a (d1 ++ d2) = .ok r ∧ equals o r b = false := by
  rw [diffM_eq_ds F o hmg hm hk hp a b ha hb hbv HF] at hd
  obtain ⟨l1, e, l2, hl, hdd, _⟩ := map_mh_split hd
  refine ⟨mapply (l1 ++ l2) a, by rw [hdd, patchAll_mh], ?_⟩
  exact noRed_generic o (MSet.ds o) (MSet.dsKvs o) (pureDiff_ds hm hp) a (setDoc_wf_raw ha).1
    (setDoc_wf_raw ha).2 hav b (setDoc_wf_raw hb).1 (setDoc_wf_raw hb).2 l1 e l2 hl

/-! ## D. every merge hunk describes a real difference -/

/-- a key path as a `Path` -/
abbrev kp (ks : List String) : Path := ks.map PathElem.key

/-- the entry `(ks, v)` of a pure merge diff of `a` and `b` describes a real difference:
    `value`: `v` is what `b` holds at `ks` (up to the dynamic type of a top array node: a replaced array
      is reported as the typed node it was dispatched to);
    `deletion`: when `b` holds nothing there, `v` is void and `a` does hold something there;
    `differs`: what `a` holds there (if anything) is not `Equals` to `v`;
    `wholesale`: the two documents do not both hold an object there (objects are recursed into);
    `parents`: the parent location holds an object on both sides. -/
structure EntryReal (o : Opts) (a b : Json) (ks : List String) (v : Json) : Prop where
  value : ∀ w, Real.getAt b (kp ks) = some w → asList v = asList w
  deletion : Real.getAt b (kp ks) = none → v = .void ∧ ∃ u, Real.getAt a (kp ks) = some u
  differs : ∀ u, Real.getAt a (kp ks) = some u → equals o u v = false
  wholesale : ¬ ∃ kvs kvs', Real.getAt a (kp ks) = some (.obj kvs) ∧
    Real.getAt b (kp ks) = some (.obj kvs')
  parents : ∀ q k, ks = q ++ [k] → ∃ kvs kvs', Real.getAt a (kp q) = some (.obj kvs) ∧
    Real.getAt b (kp q) = some (.obj kvs')

theorem getAt_obj_key {kvs : List (String × Json)} {k : String} {v : Json}
    (h : alookup k kvs = some v) (r : Path) :
    Real.getAt (.obj kvs) (PathElem.key k :: r) = Real.getAt v r := by
  simp [Real.getAt, h]

theorem getAt_obj_key_none {kvs : List (String × Json)} {k : String}
    (h : alookup k kvs = none) (r : Path) :
    Real.getAt (.obj kvs) (PathElem.key k :: r) = none := by
  simp [Real.getAt, h]

theorem getAt_root (n : Json) : Real.getAt n [] = some n := by
  cases n <;> simp [Real.getAt]

theorem EntryReal.lift {o : Opts} {v v' : Json} {ks : List String} {x : Json}
    (E : EntryReal o v v' ks x) {kvs kvs' : List (String × Json)} {k : String}
    (h : alookup k kvs = some v) (h' : alookup k kvs' = some v') :
    EntryReal o (.obj kvs) (.obj kvs') (k :: ks) x where
  value := by
    intro w hw
    rw [kp, List.map_cons, getAt_obj_key h'] at hw
    exact E.value w hw
  deletion := by
    intro hn
    rw [kp, List.map_cons, getAt_obj_key h'] at hn
    rw [kp, List.map_cons, getAt_obj_key h]
    exact E.deletion hn
  differs := by
    intro u hu
    rw [kp, List.map_cons, getAt_obj_key h] at hu
    exact E.differs u hu
  wholesale := by
    rintro ⟨c, c', h1, h2⟩
    rw [kp, List.map_cons, getAt_obj_key h] at h1
    rw [kp, List.map_cons, getAt_obj_key h'] at h2
    exact E.wholesale ⟨c, c', h1, h2⟩
  parents := by
    intro q k0 hq
    cases q with
    | nil => exact ⟨kvs, kvs', getAt_root _, getAt_root _⟩
    | cons k1 q' =>
      simp only [List.cons_append, List.cons.injEq] at hq
      obtain ⟨rfl, hq⟩ := hq
      obtain ⟨c, c', h1, h2⟩ := E.parents q' k0 hq
      refine ⟨c, c', ?_, ?_⟩
      · rw [kp, List.map_cons, getAt_obj_key h]; exact h1
      · rw [kp, List.map_cons, getAt_obj_key h']; exact h2

theorem equals_void_right (o : Opts) {v : Json} (h : objVoidFree v = true) :
    equals o v .void = false := by
  refine equals_kind_ne o _ _ ?_
  cases v <;> simp_all [Json.kind, objVoidFree]

/-- where the entries of the member loop come from -/
theorem mem_DK {o : Opts} {D : Json → Json → List (List String × Json)}
    {DK : List (String × Json) → List (String × Json) → List (List String × Json)}
    (P : PureDiff o D DK) (kvs' : List (String × Json)) :
    ∀ (kvs : List (String × Json)) (e : List String × Json), e ∈ DK kvs' kvs →
      ∃ k v, (k, v) ∈ kvs ∧
        ((∃ v' e', alookup k kvs' = some v' ∧ e' ∈ D v v' ∧ e = consE k e') ∨
          (alookup k kvs' = none ∧ e = ([k], .void)))
  | [], e, h => by rw [P.nil] at h; cases h
  | (k, v) :: r, e, h => by
    rw [P.cons] at h
    rcases List.mem_append.1 h with h | h
    · refine ⟨k, v, List.mem_cons_self, ?_⟩
      cases hl : alookup k kvs' with
      | none =>
        rw [hl] at h
        simp only [List.mem_singleton] at h
        exact .inr ⟨rfl, h⟩
      | some v' =>
        rw [hl] at h
        simp only [List.mem_map] at h
        obtain ⟨e', he', rfl⟩ := h
        exact .inl ⟨v', e', rfl, he', rfl⟩
    · obtain ⟨k0, v0, hm, hh⟩ := mem_DK P kvs' r e h
      exact ⟨k0, v0, List.mem_cons_of_mem _ hm, hh⟩

/-- **every entry of the pure merge diff is real**, generic -/
theorem entryReal_generic (o : Opts) (D : Json → Json → List (List String × Json))
    (DK : List (String × Json) → List (String × Json) → List (List String × Json))
    (P : PureDiff o D DK) :
    ∀ a : Json, a.wf = true → a.rawDoc = true → objVoidFree a = true →
      ∀ b : Json, b.wf = true → b.rawDoc = true → ∀ e ∈ D a b, EntryReal o a b e.1 e.2 := by
  have leafCase : ∀ a b : Json, a.rawDoc = true → b.rawDoc = true →
      (a.isObj && b.isObj) = false → ∀ e ∈ D a b, EntryReal o a b e.1 e.2 := by
    intro a b ha hb hn e he
    rcases P.leaf a b ha hb hn with h | ⟨v, h, hv, _, hne⟩
    · rw [h] at he; cases he
    · rw [h] at he
      simp only [List.mem_singleton] at he
      subst he
      refine ⟨?_, ?_, ?_, ?_, ?_⟩
      · intro w hw
        rw [kp, List.map_nil, getAt_root] at hw
        cases hw; exact hv
      · intro hn'
        rw [kp, List.map_nil, getAt_root] at hn'
        cases hn'
      · intro u hu
        rw [kp, List.map_nil, getAt_root] at hu
        cases hu; exact hne
      · rintro ⟨c, c', h1, h2⟩
        rw [kp, List.map_nil, getAt_root] at h1 h2
        cases h1; cases h2
        simp [Json.isObj] at hn
      · intro q k hq
        simp at hq
  intro a
  induction a using jsonInd with
  | void => intro _ hr _ b _ hb; exact leafCase _ b hr hb rfl
  | null => intro _ hr _ b _ hb; exact leafCase _ b hr hb rfl
  | bool x => intro _ hr _ b _ hb; exact leafCase _ b hr hb rfl
  | num x => intro _ hr _ b _ hb; exact leafCase _ b hr hb rfl
  | str x => intro _ hr _ b _ hb; exact leafCase _ b hr hb rfl
  | arr t xs _ => intro _ hr _ b _ hb; exact leafCase _ b hr hb rfl
  | obj kvs ih =>
    intro hw hr hv b hbw hbr
    cases b with
    | obj kvs' =>
      simp only [Json.wf, Bool.and_eq_true] at hw hbw
      simp only [Json.rawDoc] at hr hbr
      simp only [objVoidFree] at hv
      intro e he
      rw [P.obj_obj] at he
      rcases List.mem_append.1 he with he | he
      · obtain ⟨k, v, hm, hh⟩ := mem_DK P kvs' kvs e he
        have hja := alookup_of_mem hw.1 hm
        rcases hh with ⟨v', e', hjb, he', rfl⟩ | ⟨hjb, rfl⟩
        · exact (ih k v hm (alookup_wf hja hw.2) (alookup_rawDoc hja hr)
            (alookup_objVoidFree hja hv) v' (alookup_wf hjb hbw.2) (alookup_rawDoc hjb hbr)
            e' he').lift hja hjb
        · refine ⟨?_, ?_, ?_, ?_, ?_⟩
          · intro w hw'
            rw [kp, List.map_cons, getAt_obj_key_none hjb] at hw'
            cases hw'
          · intro _
            exact ⟨rfl, v, by rw [kp, List.map_cons, getAt_obj_key hja]; exact getAt_root v⟩
          · intro u hu
            rw [kp, List.map_cons, getAt_obj_key hja, List.map_nil, getAt_root] at hu
            cases hu
            exact equals_void_right o (alookup_objVoidFree hja hv)
          · rintro ⟨c, c', _, h2⟩
            rw [kp, List.map_cons, getAt_obj_key_none hjb] at h2
            cases h2
          · intro q k0 hq
            cases q with
            | nil => exact ⟨kvs, kvs', getAt_root _, getAt_root _⟩
            | cons k1 q' =>
              have := congrArg List.length hq
              simp at this
      · simp only [additions, List.mem_map, List.mem_filter] at he
        obtain ⟨⟨k, v'⟩, ⟨hm', hnone⟩, rfl⟩ := he
        simp only [Option.isNone_iff_eq_none] at hnone
        have hjb := alookup_of_mem hbw.1 hm'
        refine ⟨?_, ?_, ?_, ?_, ?_⟩
        · intro w hw'
          rw [kp, List.map_cons, getAt_obj_key hjb, List.map_nil, getAt_root] at hw'
          cases hw'; rfl
        · intro hn
          rw [kp, List.map_cons, getAt_obj_key hjb, List.map_nil, getAt_root] at hn
          cases hn
        · intro u hu
          rw [kp, List.map_cons, getAt_obj_key_none hnone] at hu
          cases hu
        · rintro ⟨c, c', h1, _⟩
          rw [kp, List.map_cons, getAt_obj_key_none hnone] at h1
          cases h1
        · intro q k0 hq
          cases q with
          | nil => exact ⟨kvs, kvs', getAt_root _, getAt_root _⟩
          | cons k1 q' =>
            have := congrArg List.length hq
            simp at this
    | _ => exact leafCase _ _ hr hbr rfl

/-! ## E. equal sub-documents are never mentioned -/

theorem DK_nil_of {o : Opts} {D : Json → Json → List (List String × Json)}
    {DK : List (String × Json) → List (String × Json) → List (List String × Json)}
    (P : PureDiff o D DK) (kvs' : List (String × Json)) :
    ∀ r : List (String × Json),
      (∀ k v, (k, v) ∈ r → ∃ v', alookup k kvs' = some v' ∧ D v v' = []) → DK kvs' r = []
  | [], _ => P.nil kvs'
  | (k, v) :: r, h => by
    obtain ⟨v', hl, hd⟩ := h k v List.mem_cons_self
    rw [P.cons, hl, DK_nil_of P kvs' r (fun k0 v0 hm => h k0 v0 (List.mem_cons_of_mem _ hm))]
    simp [hd]

/-- `Equals` documents have an empty pure merge diff (no hash, no float hypothesis: the merge
    strategy decides by `Equals` itself) -/
theorem D_nil_of_equals (o : Opts) (D : Json → Json → List (List String × Json))
    (DK : List (String × Json) → List (String × Json) → List (List String × Json))
    (P : PureDiff o D DK) :
    ∀ a : Json, a.wf = true → a.rawDoc = true → ∀ b : Json, b.wf = true → b.rawDoc = true →
      equals o a b = true → D a b = [] := by
  have leafCase : ∀ a b : Json, a.rawDoc = true → b.rawDoc = true →
      (a.isObj && b.isObj) = false → equals o a b = true → D a b = [] := by
    intro a b ha hb hn he
    rcases P.leaf a b ha hb hn with h | ⟨v, _, _, hne, _⟩
    · exact h
    · rw [he] at hne; cases hne
  intro a
  induction a using jsonInd with
  | void => intro _ hr b _ hb he; exact leafCase _ b hr hb rfl he
  | null => intro _ hr b _ hb he; exact leafCase _ b hr hb rfl he
  | bool x => intro _ hr b _ hb he; exact leafCase _ b hr hb rfl he
  | num x => intro _ hr b _ hb he; exact leafCase _ b hr hb rfl he
  | str x => intro _ hr b _ hb he; exact leafCase _ b hr hb rfl he
  | arr t xs _ => intro _ hr b _ hb he; exact leafCase _ b hr hb rfl he
  | obj kvs ih =>
    intro hw hr b hbw hbr he
    cases b with
    | obj kvs' =>
      simp only [Json.wf, Bool.and_eq_true] at hw hbw
      simp only [Json.rawDoc] at hr hbr
      obtain ⟨h1, h2⟩ := (equals_obj_iff o hw.1 hbw.1).1 he
      rw [P.obj_obj, additions, filter_added_nil h2, List.map_nil, List.append_nil]
      refine DK_nil_of P kvs' kvs (fun k v hm => ?_)
      obtain ⟨v', hl, hq⟩ := h1 k v hm
      have hja := alookup_of_mem hw.1 hm
      exact ⟨v', hl, ih k v hm (alookup_wf hja hw.2) (alookup_rawDoc hja hr) v'
        (alookup_wf hl hbw.2) (alookup_rawDoc hl hbr) hq⟩
    | _ => exact leafCase _ _ hr hbr rfl he

theorem getAt_key_some {n : Json} {k : String} {r : Path} {u : Json}
    (h : Real.getAt n (PathElem.key k :: r) = some u) :
    ∃ kvs v, n = .obj kvs ∧ alookup k kvs = some v ∧ Real.getAt v r = some u := by
  cases n with
  | obj kvs =>
    cases hl : alookup k kvs with
    | none => rw [getAt_obj_key_none hl] at h; cases h
    | some v => rw [getAt_obj_key hl] at h; exact ⟨kvs, v, rfl, hl, h⟩
  | _ => simp [Real.getAt] at h

/-- the entries at or below a key path are entries of the pure diff of what the documents hold there -/
theorem mem_below {o : Opts} {D : Json → Json → List (List String × Json)}
    {DK : List (String × Json) → List (String × Json) → List (List String × Json)}
    (P : PureDiff o D DK) :
    ∀ (q : List String) (a b : Json), a.wf = true → a.rawDoc = true → b.wf = true →
      b.rawDoc = true → ∀ (ks : List String) (v : Json), (ks, v) ∈ D a b → q <+: ks →
      ∀ u u', Real.getAt a (kp q) = some u → Real.getAt b (kp q) = some u' →
        ∃ ks', ks = q ++ ks' ∧ (ks', v) ∈ D u u' ∧ u.wf = true ∧ u.rawDoc = true ∧
          u'.wf = true ∧ u'.rawDoc = true
  | [], a, b, haw, har, hbw, hbr, ks, v, hm, _, u, u', hu, hu' => by
    rw [kp, List.map_nil, getAt_root] at hu hu'
    cases hu; cases hu'
    exact ⟨ks, rfl, hm, haw, har, hbw, hbr⟩
  | k :: q', a, b, haw, har, hbw, hbr, ks, v, hm, hpre, u, u', hu, hu' => by
    rw [kp, List.map_cons] at hu hu'
    obtain ⟨kvs, v1, rfl, hja, hu⟩ := getAt_key_some hu
    obtain ⟨kvs', v1', rfl, hjb, hu'⟩ := getAt_key_some hu'
    simp only [Json.wf, Bool.and_eq_true] at haw hbw
    simp only [Json.rawDoc] at har hbr
    obtain ⟨ks1, rfl⟩ : ∃ ks1, ks = k :: ks1 := by
      obtain ⟨t, ht⟩ := hpre
      exact ⟨q' ++ t, by rw [← ht]; rfl⟩
    have hpre' : q' <+: ks1 := (List.cons_prefix_cons.1 hpre).2
    rw [P.obj_obj] at hm
    rcases List.mem_append.1 hm with hm | hm
    · obtain ⟨k0, v0, hm0, hh⟩ := mem_DK P kvs' kvs _ hm
      rcases hh with ⟨v', e', hl', he', heq⟩ | ⟨hl', heq⟩
      · simp only [consE, Prod.mk.injEq, List.cons.injEq] at heq
        obtain ⟨⟨rfl, rfl⟩, rfl⟩ := heq
        have h0 := alookup_of_mem haw.1 hm0
        rw [hja] at h0; cases h0
        rw [hjb] at hl'; cases hl'
        obtain ⟨ks', e1, e2, e3⟩ := mem_below P q' v1 v1' (alookup_wf hja haw.2)
          (alookup_rawDoc hja har) (alookup_wf hjb hbw.2) (alookup_rawDoc hjb hbr) e'.1 e'.2 he' hpre'
          u u' hu hu'
        exact ⟨ks', by rw [e1]; rfl, e2, e3⟩
      · simp only [Prod.mk.injEq, List.cons.injEq] at heq
        obtain ⟨⟨rfl, _⟩, _⟩ := heq
        rw [hjb] at hl'; cases hl'
    · simp only [additions, List.mem_map, List.mem_filter] at hm
      obtain ⟨⟨k0, v0⟩, ⟨_, hnone⟩, heq⟩ := hm
      simp only [Prod.mk.injEq, List.cons.injEq] at heq
      obtain ⟨⟨rfl, _⟩, _⟩ := heq
      simp only [Option.isNone_iff_eq_none] at hnone
      rw [hja] at hnone; cases hnone

theorem keysOnly_eq_kp : ∀ (q : Path), Real.keysOnly q = true → ∃ qs : List String, q = kp qs
  | [], _ => ⟨[], rfl⟩
  | .key k :: r, h => by
    simp only [Real.keysOnly] at h
    obtain ⟨qs, rfl⟩ := keysOnly_eq_kp r h
    exact ⟨k :: qs, rfl⟩
  | .idx _ :: _, h => by simp [Real.keysOnly] at h
  | .set :: _, h => by simp [Real.keysOnly] at h
  | .mset :: _, h => by simp [Real.keysOnly] at h
  | .setKeys _ :: _, h => by simp [Real.keysOnly] at h
  | .msetKeys _ :: _, h => by simp [Real.keysOnly] at h

theorem keysOnly_kp : ∀ ks : List String, Real.keysOnly (kp ks) = true
  | [] => rfl
  | k :: r => by simpa [kp, Real.keysOnly] using keysOnly_kp r

theorem kp_prefix : ∀ {qs ks : List String}, kp qs <+: kp ks → qs <+: ks
  | [], _, _ => List.nil_prefix
  | q :: qs, [], h => by
    obtain ⟨t, ht⟩ := h
    simp [kp] at ht
  | q :: qs, k :: ks, h => by
    simp only [kp, List.map_cons] at h
    obtain ⟨e, h'⟩ := List.cons_prefix_cons.1 h
    cases e
    exact List.cons_prefix_cons.2 ⟨rfl, kp_prefix h'⟩

/-- generic form of "equal sub-documents are never mentioned" -/
theorem not_mentioned_generic {o : Opts} {D : Json → Json → List (List String × Json)}
    {DK : List (String × Json) → List (String × Json) → List (List String × Json)}
    (P : PureDiff o D DK) {a b : Json} (haw : a.wf = true) (har : a.rawDoc = true)
    (hbw : b.wf = true) (hbr : b.rawDoc = true) {q : Path} (hq : Real.keysOnly q = true)
    {v v' : Json} (hv : Real.getAt a q = some v) (hv' : Real.getAt b q = some v')
    (he : equals o v v' = true) :
    ∀ e ∈ D a b, ¬ q <+: kp e.1 := by
  intro e hm hpre
  obtain ⟨qs, rfl⟩ := keysOnly_eq_kp q hq
  obtain ⟨ks', _, hmem, h1, h2, h3, h4⟩ := mem_below P qs a b haw har hbw hbr e.1 e.2 hm
    (kp_prefix hpre) v v' hv hv'
  rw [D_nil_of_equals o D DK P v h1 h2 v' h3 h4 he] at hmem
  cases hmem

/-! ## F. the statements about the library's `Diff` in the MERGE strategy -/

/-- what is said of every hunk `h` of a merge diff of `a` and `b` (written out in the header) -/
structure MergeHunkReal (o : Opts) (a b : Json) (h : Hunk) : Prop where
  merge : h.merge = true
  keys : Real.keysOnly h.path = true
  noRemove : h.remove = []
  noContext : h.before = [] ∧ h.after = []
  one : ∃ v, h.add = [v] ∧
    (∀ w, Real.getAt b h.path = some w → asList v = asList w) ∧
    (Real.getAt b h.path = none → v = .void ∧ ∃ u, Real.getAt a h.path = some u) ∧
    (∀ u, Real.getAt a h.path = some u → equals o u v = false)
  wholesale : ¬ ∃ kvs kvs', Real.getAt a h.path = some (.obj kvs) ∧
    Real.getAt b h.path = some (.obj kvs')
  parents : ∀ q e, h.path = q ++ [e] → ∃ kvs kvs', Real.getAt a q = some (.obj kvs) ∧
    Real.getAt b q = some (.obj kvs')

theorem mergeHunkReal_of_entry {o : Opts} {a b : Json} {ks : List String} {v : Json}
    (E : EntryReal o a b ks v) : MergeHunkReal o a b (mh ks v) where
  merge := rfl
  keys := keysOnly_kp ks
  noRemove := rfl
  noContext := ⟨rfl, rfl⟩
  one := ⟨v, rfl, E.value, E.deletion, E.differs⟩
  wholesale := E.wholesale
  parents := by
    intro q e hq
    simp only [mh] at hq
    obtain ⟨qs, r, hks, rfl, hr⟩ := List.map_eq_append_iff.1 hq
    obtain ⟨k, r', rfl, rfl, hr'⟩ := List.map_eq_cons_iff.1 hr
    simp only [List.map_eq_nil_iff] at hr'
    subst hr'
    exact E.parents qs k hks

/-- **C07, clauses "every hunk describes a real difference" for the MERGE strategy, list reading.** -/
theorem merge_hunk_real_list (o : Opts) (hm : isMerge o = true) (ho : dispatchTag o = .list)
    (hprec : precOf o = 0) (a b : Json)
    (haw : a.wf = true) (har : a.rawDoc = true) (hav : objVoidFree a = true)
    (hbw : b.wf = true) (hbr : b.rawDoc = true) (hbv : objVoidFree b = true) :
    ∀ h ∈ diffM o a b, MergeHunkReal o a b h := by
  intro h hh
  rw [diffM_eq_dl o ho hm a b har hbr hbv] at hh
  obtain ⟨e, he, rfl⟩ := List.mem_map.1 hh
  exact mergeHunkReal_of_entry
    (entryReal_generic o (dl o) (dlKvs o) (pureDiff_dl ho hprec) a haw har hav b hbw hbr e he)

/-- **C07, "equal sub-documents are never mentioned", MERGE strategy, list reading.** -/
theorem merge_equal_subdoc_not_mentioned_list (o : Opts) (hm : isMerge o = true)
    (ho : dispatchTag o = .list) (hprec : precOf o = 0) (a b : Json)
    (haw : a.wf = true) (har : a.rawDoc = true)
    (hbw : b.wf = true) (hbr : b.rawDoc = true) (hbv : objVoidFree b = true)
    {q : Path} (hq : Real.keysOnly q = true) {v v' : Json} (hv : Real.getAt a q = some v)
    (hv' : Real.getAt b q = some v') (he : equals o v v' = true) :
    ∀ h ∈ diffM o a b, ¬ q <+: h.path := by
  intro h hh
  rw [diffM_eq_dl o ho hm a b har hbr hbv] at hh
  obtain ⟨e, hm', rfl⟩ := List.mem_map.1 hh
  exact not_mentioned_generic (pureDiff_dl ho hprec) haw har hbw hbr hq hv hv' he e hm'

/-- the same two clauses in the SET+MERGE / MULTISET+MERGE readings -/
theorem merge_hunk_real_setmodes (F : FloatEq0) (o : Opts) (hmg : isMerge o = true)
    (hm : dispatchTag o = .set ∨ dispatchTag o = .mset) (hk : keysOf o = none) (hp : precOf o = 0)
    (a b : Json) (ha : a.setDoc = true) (hav : objVoidFree a = true)
    (hb : b.setDoc = true) (hbv : objVoidFree b = true)
    (HF : HashFaithful o (subterms a ++ subterms b)) :
    ∀ h ∈ diffM o a b, MergeHunkReal o a b h := by
  intro h hh
  rw [diffM_eq_ds F o hmg hm hk hp a b ha hb hbv HF] at hh
  obtain ⟨e, he, rfl⟩ := List.mem_map.1 hh
  exact mergeHunkReal_of_entry
    (entryReal_generic o (MSet.ds o) (MSet.dsKvs o) (pureDiff_ds hm hp) a (setDoc_wf_raw ha).1
      (setDoc_wf_raw ha).2 hav b (setDoc_wf_raw hb).1 (setDoc_wf_raw hb).2 e he)

theorem merge_equal_subdoc_not_mentioned_setmodes (F : FloatEq0) (o : Opts) (hmg : isMerge o = true)
    (hm : dispatchTag o = .set ∨ dispatchTag o = .mset) (hk : keysOf o = none) (hp : precOf o = 0)
    (a b : Json) (ha : a.setDoc = true) (hb : b.setDoc = true) (hbv : objVoidFree b = true)
    (HF : HashFaithful o (subterms a ++ subterms b))
    {q : Path} (hq : Real.keysOnly q = true) {v v' : Json} (hv : Real.getAt a q = some v)
    (hv' : Real.getAt b q = some v') (he : equals o v v' = true) :
    ∀ h ∈ diffM o a b, ¬ q <+: h.path := by
  intro h hh
  rw [diffM_eq_ds F o hmg hm hk hp a b ha hb hbv HF] at hh
  obtain ⟨e, hm', rfl⟩ := List.mem_map.1 hh
  exact not_mentioned_generic (pureDiff_ds hm hp) (setDoc_wf_raw ha).1 (setDoc_wf_raw ha).2
    (setDoc_wf_raw hb).1 (setDoc_wf_raw hb).2 hq hv hv' he e hm'

/-! # PART 2. list reading, strict strategy: no hunk is redundant, containers and objects included

  ## G. hunks addressed below list indices / object keys, applied by the reference interpreter -/

section Part2
open Jd.DPL

/-- one strict hunk addressed at or below the list index `i` of an array -/
theorem applyStrict_idx_cases (t : Tag) (l : List Json) (i : Nat) (q : Path) (h : Hunk) (r : Json)
    (hr : applyStrict (.arr t l) (.idx (i : Int) :: q) h = some r) :
    (q = [] ∧ ∃ l', splice l (i : Int) h = some l' ∧ r = .arr .raw l') ∨
    (q ≠ [] ∧ ∃ x v, l[i]? = some x ∧ applyStrict x q h = some v ∧ r = .arr .raw (l.set i v)) := by
  cases q with
  | nil =>
    left
    simp only [applyStrict] at hr
    cases hs : splice l (i : Int) h with
    | none => rw [hs] at hr; cases hr
    | some l' =>
      rw [hs] at hr
      simp only [Option.map_some, Option.some.injEq] at hr
      exact ⟨rfl, l', rfl, hr.symm⟩
  | cons e q' =>
    right
    refine ⟨by simp, ?_⟩
    rw [applyStrict] at hr
    · simp only [show ¬ ((i : Int) < 0) by omega, if_false, Int.toNat_natCast] at hr
      cases hx : l[i]? with
      | none => rw [hx] at hr; cases hr
      | some x =>
        rw [hx] at hr
        simp only at hr
        cases hv : applyStrict x (e :: q') h with
        | none => rw [hv] at hr; cases hr
        | some v =>
          rw [hv] at hr
          simp only [Option.map_some, Option.some.injEq] at hr
          exact ⟨x, v, rfl, hv, hr.symm⟩
    · intro e'; cases e'

/-- hunks addressed at or below indices `≥ n` leave the first `n` elements alone -/
theorem applyStrictAll_idx_ge (n : Nat) : ∀ (d : Diff) (t : Tag) (l : List Json) (r : Json),
    (∀ h ∈ d, ∃ (i : Nat) (q : Path), h.path = .idx (i : Int) :: q ∧ n ≤ i) →
    applyStrictAll (.arr t l) d = some r →
    ∃ t' l', r = .arr t' l' ∧ l'.take n = l.take n
  | [], t, l, r, _, hr => by
    simp only [applyStrictAll, Option.some.injEq] at hr
    exact ⟨t, l, hr.symm, rfl⟩
  | h :: d, t, l, r, hp, hr => by
    obtain ⟨i, q, hi, hni⟩ := hp h List.mem_cons_self
    simp only [applyStrictAll, hi] at hr
    cases h1 : applyStrict (.arr t l) (.idx (i : Int) :: q) h with
    | none => rw [h1] at hr; cases hr
    | some m =>
      rw [h1] at hr
      simp only [Option.bind_some] at hr
      rcases applyStrict_idx_cases t l i q h m h1 with ⟨_, l', hs, rfl⟩ | ⟨_, x, v, _, _, rfl⟩
      · obtain ⟨t', l'', e, htake⟩ := applyStrictAll_idx_ge n d .raw l' r
          (fun h' hm => hp h' (List.mem_cons_of_mem _ hm)) hr
        exact ⟨t', l'', e, htake.trans (Real.splice_take hs hni)⟩
      · obtain ⟨t', l'', e, htake⟩ := applyStrictAll_idx_ge n d .raw (l.set i v) r
          (fun h' hm => hp h' (List.mem_cons_of_mem _ hm)) hr
        exact ⟨t', l'', e, htake.trans (List.take_set_of_le hni)⟩

/-- the same hunks (addressed at or below list indices) applied to two arrays change their lengths
    by the same amount -/
theorem applyStrictAll_len_shift : ∀ (d : Diff) (t1 t2 : Tag) (l1 l2 : List Json) (r1 r2 : Json),
    (∀ h ∈ d, ∃ (i : Nat) (q : Path), h.path = .idx (i : Int) :: q) →
    applyStrictAll (.arr t1 l1) d = some r1 → applyStrictAll (.arr t2 l2) d = some r2 →
    ∃ t1' z1 t2' z2, r1 = .arr t1' z1 ∧ r2 = .arr t2' z2 ∧
      z1.length + l2.length = z2.length + l1.length
  | [], t1, t2, l1, l2, r1, r2, _, h1, h2 => by
    simp only [applyStrictAll, Option.some.injEq] at h1 h2
    exact ⟨t1, l1, t2, l2, h1.symm, h2.symm, Nat.add_comm _ _⟩
  | h :: d, t1, t2, l1, l2, r1, r2, hp, h1, h2 => by
    obtain ⟨i, q, hi⟩ := hp h List.mem_cons_self
    simp only [applyStrictAll, hi] at h1 h2
    cases e1 : applyStrict (.arr t1 l1) (.idx (i : Int) :: q) h with
    | none => rw [e1] at h1; cases h1
    | some m1 =>
      cases e2 : applyStrict (.arr t2 l2) (.idx (i : Int) :: q) h with
      | none => rw [e2] at h2; cases h2
      | some m2 =>
        rw [e1] at h1; rw [e2] at h2
        simp only [Option.bind_some] at h1 h2
        rcases applyStrict_idx_cases t1 l1 i q h m1 e1 with ⟨hq, l1', hs1, rfl⟩ | ⟨hq, x1, v1, _, _, rfl⟩
        · rcases applyStrict_idx_cases t2 l2 i q h m2 e2 with ⟨_, l2', hs2, rfl⟩ | ⟨hq', _⟩
          · obtain ⟨a1, z1, a2, z2, f1, f2, hl⟩ := applyStrictAll_len_shift d .raw .raw l1' l2' r1 r2
              (fun h' hm => hp h' (List.mem_cons_of_mem _ hm)) h1 h2
            have g1 := Real.splice_length hs1
            have g2 := Real.splice_length hs2
            exact ⟨a1, z1, a2, z2, f1, f2, by omega⟩
          · exact absurd hq hq'
        · rcases applyStrict_idx_cases t2 l2 i q h m2 e2 with ⟨hq', _⟩ | ⟨_, x2, v2, _, _, rfl⟩
          · exact absurd hq' hq
          · obtain ⟨a1, z1, a2, z2, f1, f2, hl⟩ := applyStrictAll_len_shift d .raw .raw
              (l1.set i v1) (l2.set i v2) r1 r2
              (fun h' hm => hp h' (List.mem_cons_of_mem _ hm)) h1 h2
            simp only [List.length_set] at hl
            exact ⟨a1, z1, a2, z2, f1, f2, hl⟩

/-- converse of the index frame lemma: if the hunks of a sub-diff moved below the index `k` apply
    to the array, they apply to the element, and the array is the old one with that element patched -/
theorem applyStrictAll_idx_frame_conv : ∀ (D : Diff), (∀ h ∈ D, frameOK h) →
    ∀ (t : Tag) (l : List Json) (k : Nat) (x : Json), l[k]? = some x →
      ∀ res, applyStrictAll (.arr t l) (D.map (shiftHunk [.idx (k : Int)])) = some res →
      ∃ r t', applyStrictAll x D = some r ∧ res = .arr t' (l.set k r)
  | [], _, t, l, k, x, hx, res, hr => by
    simp only [List.map_nil, applyStrictAll, Option.some.injEq] at hr
    refine ⟨x, t, rfl, ?_⟩
    have hk : k < l.length := by
      rcases Nat.lt_or_ge k l.length with h | h
      · exact h
      · rw [List.getElem?_eq_none h] at hx; cases hx
    rw [List.getElem?_eq_getElem hk] at hx
    cases hx
    rw [← hr, List.set_getElem_self]
  | h :: D, hD, t, l, k, x, hx, res, hr => by
    simp only [List.map_cons, applyStrictAll, shiftHunk, List.cons_append, List.nil_append] at hr
    have e : applyStrict (.arr t l) (.idx (k : Int) :: h.path)
        { h with path := .idx (k : Int) :: h.path } =
        applyStrict (.arr t l) (.idx (k : Int) :: h.path) h :=
      applyStrict_path_irrel _ _ _ _
    rw [e, applyStrict_idx_frame t l k x hx h (hD h List.mem_cons_self)] at hr
    have hk : k < l.length := by
      rcases Nat.lt_or_ge k l.length with h | h
      · exact h
      · rw [List.getElem?_eq_none h] at hx; cases hx
    cases hv : applyStrict x h.path h with
    | none => rw [hv] at hr; cases hr
    | some v =>
      rw [hv] at hr
      simp only [Option.map_some, Option.bind_some] at hr
      obtain ⟨r, t', h1, h2⟩ := applyStrictAll_idx_frame_conv D
        (fun h' hm => hD h' (List.mem_cons_of_mem _ hm)) .raw (l.set k v) k v
        (List.getElem?_set_self hk) res hr
      refine ⟨r, t', by simp [applyStrictAll, hv, h1], ?_⟩
      rw [h2, List.set_set]

/-- converse of the key frame lemma -/
theorem applyStrictAll_key_frame_conv (k : String) : ∀ (D : Diff)
    (cur : List (String × Json)), keysSorted cur = true →
      ∀ res, applyStrictAll (.obj cur) (D.map (shiftHunk [.key k])) = some res →
      ∃ r cur', applyStrictAll ((alookup k cur).getD .void) D = some r ∧ res = .obj cur' ∧
        keysSorted cur' = true ∧ (∀ k0, k0 ≠ k → alookup k0 cur' = alookup k0 cur) ∧
        (alookup k cur').getD .void = r ∧ (D = [] → cur' = cur)
  | [], cur, hs, res, hr => by
    simp only [List.map_nil, applyStrictAll, Option.some.injEq] at hr
    exact ⟨_, cur, rfl, hr.symm, hs, fun _ _ => rfl, rfl, fun _ => rfl⟩
  | h :: D, cur, hs, res, hr => by
    simp only [List.map_cons, applyStrictAll, shiftHunk, List.cons_append, List.nil_append] at hr
    rw [applyStrict_path_irrel, applyStrict_key] at hr
    cases hv : applyStrict ((alookup k cur).getD .void) h.path h with
    | none => rw [hv] at hr; cases hr
    | some v =>
      rw [hv] at hr
      simp only [Option.map_some, Option.bind_some] at hr
      have hs1 := keysSorted_aput k v cur hs
      obtain ⟨r, cur', h1, h2, h3, h4, h5, _⟩ := applyStrictAll_key_frame_conv k D (aput k v cur) hs1 res hr
      rw [alookup_aput_self k v cur hs] at h1
      refine ⟨r, cur', by simp [applyStrictAll, hv, h1], h2, h3,
        fun k0 hne => by rw [h4 k0 hne, alookup_aput_ne hne], h5, fun e => by cases e⟩

/-- hunks addressed at or below OTHER keys leave the member at `k` alone -/
theorem applyStrictAll_key_other (k : String) : ∀ (D : Diff) (cur : List (String × Json)),
    keysSorted cur = true →
    (∀ h ∈ D, ∃ (k' : String) (q : Path), h.path = .key k' :: q ∧ k' ≠ k) →
    ∀ res, applyStrictAll (.obj cur) D = some res →
      ∃ cur', res = .obj cur' ∧ keysSorted cur' = true ∧ alookup k cur' = alookup k cur
  | [], cur, hs, _, res, hr => by
    simp only [applyStrictAll, Option.some.injEq] at hr
    exact ⟨cur, hr.symm, hs, rfl⟩
  | h :: D, cur, hs, hp, res, hr => by
    obtain ⟨k', q, hq, hne⟩ := hp h List.mem_cons_self
    simp only [applyStrictAll, hq] at hr
    rw [applyStrict_key] at hr
    cases hv : applyStrict ((alookup k' cur).getD .void) q h with
    | none => rw [hv] at hr; cases hr
    | some v =>
      rw [hv] at hr
      simp only [Option.map_some, Option.bind_some] at hr
      obtain ⟨cur', h1, h2, h3⟩ := applyStrictAll_key_other k D (aput k' v cur)
        (keysSorted_aput k' v cur hs) (fun h' hm => hp h' (List.mem_cons_of_mem _ hm)) res hr
      exact ⟨cur', h1, h2, by rw [h3, alookup_aput_ne (Ne.symm hne)]⟩

/-! ## H. structural equality: objects member by member; equal documents have equal hash codes -/

theorem equivKvs_allLook (o : Opts) (kvs' : List (String × Json)) :
    ∀ kvs : List (String × Json), equivKvs o kvs kvs' = true → AllLook (equivB o) kvs kvs'
  | [], _ => by intro k v hm; cases hm
  | (k, v) :: r, h => by
    rw [equivKvs, Bool.and_eq_true] at h
    intro k0 v0 hm
    rcases List.mem_cons.1 hm with e | hm
    · cases e
      cases hl : alookup k kvs' with
      | none => simp [hl] at h
      | some v' => exact ⟨v', rfl, by simpa [hl] using h.1⟩
    · exact equivKvs_allLook o kvs' r h.2 k0 v0 hm

/-- the members two objects hold at one key tell them apart (structural equality) -/
def MemNe : Option Json → Option Json → Prop
  | some z, some v' => specEq z v' = false
  | none, none => False
  | _, _ => True

theorem specEq_obj_false {R Y : List (String × Json)} (hs : keysSorted R = true)
    (hs' : keysSorted Y = true) (k : String) (h : MemNe (alookup k R) (alookup k Y)) :
    specEq (.obj R) (.obj Y) = false := by
  cases he : specEq (.obj R) (.obj Y) with
  | false => rfl
  | true =>
    exfalso
    simp only [specEq, equivB, Bool.and_eq_true, beq_iff_eq] at he
    obtain ⟨hlen, hk⟩ := he
    have h1 := equivKvs_allLook [] Y R hk
    have h2 := AllLook.flip hs hs' hlen h1
    cases hr : alookup k R with
    | some x =>
      obtain ⟨v', hl, hq⟩ := h1 k x (mem_of_alookup hr)
      rw [hr, hl] at h
      simp only [MemNe, specEq] at h
      rw [h] at hq
      cases hq
    | none =>
      cases hy : alookup k Y with
      | none => rw [hr, hy] at h; exact h
      | some y =>
        obtain ⟨x, hx, _⟩ := h2 k y (mem_of_alookup hy)
        rw [hr] at hx
        cases hx

/-- **structurally equal documents have the same hash code** (list reading; `Z`: no `0` / `-0` pair
    between the two sides — the `ZeroOK` of C01; no other hypothesis on hashes or floats) -/
theorem hash_of_equals_nil {o : Opts} (ho : dispatchTag o = .list) {S T : List Json}
    (Z : ∀ u v, Json.num u ∈ S → Json.num v ∈ T → numWithin 0 u v = true → u = v) :
    ∀ x : Json, x.listDoc = true → x.wf = true → Sub (DPL.subterms x) S →
      ∀ y : Json, y.listDoc = true → y.wf = true → Sub (DPL.subterms y) T →
        equals [] x y = true → hashCode o x = hashCode o y := by
  intro x
  induction x using jsonInd with
  | void => intro _ _ _ y _ _ _ he; cases y <;> simp_all [equals, Json.isVoid]
  | null => intro _ _ _ y _ _ _ he; cases y <;> simp_all [equals, Json.isNull]
  | bool b => intro _ _ _ y _ _ _ he; cases y <;> simp_all [equals]
  | str b => intro _ _ _ y _ _ _ he; cases y <;> simp_all [equals]
  | num u =>
    intro _ _ hS y _ _ hT he
    cases y with
    | num v =>
      have : numWithin 0 u v = true := by simpa [equals, precOf] using he
      rw [Z u v (hS _ (self_mem_subterms _)) (hT _ (self_mem_subterms _)) this]
    | _ => simp [equals] at he
  | arr t xs ih =>
    intro hl hw hS y hl' hw' hT he
    cases y with
    | arr t' ys =>
      simp only [Json.listDoc, Bool.and_eq_true] at hl hl'
      simp only [Json.wf] at hw hw'
      rw [equals_arr_list (o := []) rfl xs ys hl.1 hl'.1] at he
      rw [hashCode_arr_list ho xs hl.1, hashCode_arr_list ho ys hl'.1]
      have key : ∀ (xs ys : List Json), (∀ x ∈ xs, x.listDoc = true → x.wf = true →
            Sub (DPL.subterms x) S → ∀ y : Json, y.listDoc = true → y.wf = true → Sub (DPL.subterms y) T →
            equals [] x y = true → hashCode o x = hashCode o y) →
          listDocList xs = true → wfList xs = true → Sub (DPL.subtermsList xs) S →
          listDocList ys = true → wfList ys = true → Sub (DPL.subtermsList ys) T →
          equalsList [] xs ys = true → hashList o xs = hashList o ys := by
        intro xs
        induction xs with
        | nil => intro ys _ _ _ _ _ _ _ he; cases ys <;> simp_all [equalsList, hashList]
        | cons x xr ihx =>
          intro ys ih hl hw hS hl' hw' hT he
          cases ys with
          | nil => simp [equalsList] at he
          | cons y yr =>
            simp only [equalsList, Bool.and_eq_true] at he
            simp only [listDocList, wfList, Bool.and_eq_true] at hl hw hl' hw'
            simp only [hashList]
            rw [ih x List.mem_cons_self hl.1 hw.1 (sub_cons hS).1 y hl'.1 hw'.1 (sub_cons hT).1 he.1,
              ihx yr (fun x' hx' => ih x' (List.mem_cons_of_mem _ hx')) hl.2 hw.2 (sub_cons hS).2
                hl'.2 hw'.2 (sub_cons hT).2 he.2]
      rw [key xs ys ih hl.2 hw (sub_arr hS) hl'.2 hw' (sub_arr hT) he]
    | _ => exact absurd (equals_kind [] _ _ he) (by simp [Json.kind])
  | obj kvs ih =>
    intro hl hw hS y hl' hw' hT he
    cases y with
    | obj kvs' =>
      simp only [Json.listDoc] at hl hl'
      simp only [Json.wf, Bool.and_eq_true] at hw hw'
      obtain ⟨h1, h2⟩ := (equals_obj_iff [] hw.1 hw'.1).1 he
      simp only [hashCode]
      rw [hashKvs_eq_of o kvs kvs' hw.1 hw'.1 (fun k v hm => by
        obtain ⟨v', hlk, hq⟩ := h1 k v hm
        have hja := alookup_of_mem hw.1 hm
        exact ⟨v', hlk, ih k v hm (alookup_listDoc hja hl) (alookup_wf hja hw.2) (sub_lookup (sub_obj hS) hja)
          v' (alookup_listDoc hlk hl') (alookup_wf hlk hw'.2) (sub_lookup (sub_obj hT) hlk) hq⟩) h2]
    | _ => simp [equals] at he

theorem hash_of_specEq {o : Opts} (ho : dispatchTag o = .list) {S T : List Json}
    (Z : ∀ u v, Json.num u ∈ S → Json.num v ∈ T → numWithin 0 u v = true → u = v)
    {x y : Json} (hx : Good x) (hy : Good y) (hS : Sub (DPL.subterms x) S) (hT : Sub (DPL.subterms y) T)
    (h : specEq x y = true) : hashCode o x = hashCode o y := by
  rw [specEq_eq_equals hx.listDoc hy.listDoc] at h
  exact hash_of_equals_nil ho Z x hx.listDoc hx.wf hS y hy.listDoc hy.wf hT h

/-! ## I. the hunks of a list walk are addressed at or below indices `≥ s` -/

theorem diffRest_idx_ge (o : Opts) : ∀ (n : Nat) (a b : List Json), a.length + b.length = n →
    ∀ (k s : Nat) (prev : Json) (c : List UInt64) (R A : List Json), s ≤ k →
      ∀ h ∈ diffRest o [] k s prev a b c R A,
        ∃ (i : Nat) (q : Path), h.path = .idx (i : Int) :: q ∧ s ≤ i := by
  intro n
  induction n using Nat.strongRecOn with
  | _ n ih =>
    intro a b hn k s prev c R A hsk h hm
    have acc : ∀ {R A : List Json} {after : Json}, h ∈ accHunk [] s prev R A after →
        ∃ (i : Nat) (q : Path), h.path = .idx (i : Int) :: q ∧ s ≤ i := by
      intro R A after hm'
      exact ⟨s, [], by simpa using (Real.accHunk_path hm').1, Nat.le_refl _⟩
    cases a with
    | nil => rw [diffRest_nilA] at hm; exact acc hm
    | cons x a' =>
      cases b with
      | nil => rw [diffRest_nilB _ _ _ _ _ _ _ _ _ (by simp)] at hm; exact acc hm
      | cons y b' =>
        simp only [List.length_cons] at hn
        rw [diffRest_cons] at hm
        split at hm
        · rcases List.mem_append.1 hm with hm | hm
          · exact acc hm
          · obtain ⟨i, q, hp, hi⟩ := ih (a'.length + b'.length) (by omega) a' b' rfl (k + 1) (k + 1) y
              c.tail [] [] (Nat.le_refl _) h hm
            exact ⟨i, q, hp, by omega⟩
        · split at hm
          · exact ih ((x :: a').length + b'.length) (by simp; omega) (x :: a') b' rfl (k + 1) s prev c
              R (A ++ [y]) (by omega) h hm
          · split at hm
            · exact ih (a'.length + (y :: b').length) (by simp; omega) a' (y :: b') rfl k s prev c
                (R ++ [x]) A hsk h hm
            · split at hm
              · rcases List.mem_append.1 hm with hm | hm
                · rcases List.mem_append.1 hm with hm | hm
                  · exact acc hm
                  · obtain ⟨h0, hm0, hp0, _⟩ := mem_subAfter' hm
                    obtain ⟨t, ht⟩ := Real.diff_paths_extend_general o false x y _ h0 hm0
                    exact ⟨k, t, by rw [hp0, ← ht]; rfl, hsk⟩
                · obtain ⟨i, q, hp, hi⟩ := ih (a'.length + b'.length) (by omega) a' b' rfl (k + 1)
                    (k + 1) y c [] [] (Nat.le_refl _) h hm
                  exact ⟨i, q, hp, by omega⟩
              · exact ih (a'.length + b'.length) (by omega) a' b' rfl (k + 1) s prev c (R ++ [x])
                  (A ++ [y]) (by omega) h hm

/-! ## J. the accumulator of the list walk; dropping the first hunk -/

/-- what the walk knows about the hunk it is accumulating (`R` removed so far, `A` added so far):
    the first removed and the first added value have different hash codes; when more has been added
    than removed, the walk is waiting at a common element of the first list (and symmetrically) -/
structure AccInv (o : Opts) (a b : List Json) (c : List UInt64) (R A : List Json) : Prop where
  heads : ∀ r0 a0, R.head? = some r0 → A.head? = some a0 → hashCode o r0 ≠ hashCode o a0
  moreA : R.length < A.length → ∀ x, a.head? = some x → atC o x c = true
  moreR : A.length < R.length → ∀ y, b.head? = some y → atC o y c = true

theorem AccInv.init (o : Opts) (a b : List Json) (c : List UInt64) : AccInv o a b c [] [] where
  heads := by intro _ _ h; cases h
  moreA := by intro h; simp at h
  moreR := by intro h; simp at h

theorem head?_snoc_of_ne_nil {α} {l : List α} (x : α) (h : l ≠ []) : (l ++ [x]).head? = l.head? := by
  cases l with
  | nil => exact absurd rfl h
  | cons y r => rfl

theorem AccInv.stepA {o : Opts} {x y : Json} {a' b' : List Json} {c : List UInt64} {R A : List Json}
    (inv : AccInv o (x :: a') (y :: b') c R A) (hA : atC o x c = true) (hB : atC o y c = false) :
    AccInv o (x :: a') b' c R (A ++ [y]) where
  heads := by
    intro r0 a0 hr ha
    cases A with
    | nil =>
      have hlt : ([] : List Json).length < R.length := by
        cases R with
        | nil => cases hr
        | cons _ _ => simp
      have := inv.moreR hlt y rfl
      rw [hB] at this; cases this
    | cons a1 A' => exact inv.heads r0 a0 hr (by simpa using ha)
  moreA := by
    intro _ x' hx'
    simp only [List.head?_cons, Option.some.injEq] at hx'
    subst hx'; exact hA
  moreR := by
    intro hlt
    have : A.length < R.length := by simp at hlt; omega
    have := inv.moreR this y rfl
    rw [hB] at this; cases this

theorem AccInv.stepB {o : Opts} {x y : Json} {a' b' : List Json} {c : List UInt64} {R A : List Json}
    (inv : AccInv o (x :: a') (y :: b') c R A) (hA : atC o x c = false) (hB : atC o y c = true) :
    AccInv o a' (y :: b') c (R ++ [x]) A where
  heads := by
    intro r0 a0 hr ha
    cases R with
    | nil =>
      have hlt : ([] : List Json).length < A.length := by
        cases A with
        | nil => cases ha
        | cons _ _ => simp
      have := inv.moreA hlt x rfl
      rw [hA] at this; cases this
    | cons r1 R' => exact inv.heads r0 a0 (by simpa using hr) ha
  moreA := by
    intro hlt
    have : R.length < A.length := by simp at hlt; omega
    have := inv.moreA this x rfl
    rw [hA] at this; cases this
  moreR := by
    intro _ y' hy'
    simp only [List.head?_cons, Option.some.injEq] at hy'
    subst hy'; exact hB

theorem AccInv.stepD {o : Opts} {x y : Json} {a' b' : List Json} {c : List UInt64} {R A : List Json}
    (inv : AccInv o (x :: a') (y :: b') c R A) (hA : atC o x c = false) (hB : atC o y c = false)
    (hopt : LOpt c (hashCode o x :: hashList o a') (hashCode o y :: hashList o b')) :
    AccInv o a' b' c (R ++ [x]) (A ++ [y]) := by
  have hlen : R.length = A.length := by
    rcases Nat.lt_trichotomy R.length A.length with h | h | h
    · have := inv.moreA h x rfl; rw [hA] at this; cases this
    · exact h
    · have := inv.moreR h y rfl; rw [hB] at this; cases this
  refine ⟨?_, fun h => by simp at h; omega, fun h => by simp at h; omega⟩
  intro r0 a0 hr ha
  cases R with
  | nil =>
    have hA' : A = [] := List.eq_nil_of_length_eq_zero (by simpa using hlen.symm)
    subst hA'
    simp only [List.nil_append, List.head?_cons, Option.some.injEq] at hr ha
    subst hr; subst ha
    intro e
    rw [← e] at hopt
    exact hopt.heads_ne (atC_false hA)
  | cons r1 R' =>
    cases A with
    | nil => simp at hlen
    | cons a1 A' => exact inv.heads r0 a0 (by simpa using hr) (by simpa using ha)

theorem split_append {α} {X Y d1 d2 : List α} {h : α} (e : X ++ Y = d1 ++ h :: d2) :
    (∃ x1 x2, X = x1 ++ h :: x2 ∧ d1 = x1 ∧ d2 = x2 ++ Y) ∨
    (∃ y1 y2, Y = y1 ++ h :: y2 ∧ d1 = X ++ y1 ∧ d2 = y2) := by
  rcases List.append_eq_append_iff.1 e with ⟨a', h1, h2⟩ | ⟨c', h1, h2⟩
  · exact .inr ⟨a', d2, h2, h1, rfl⟩
  · cases c' with
    | nil =>
      simp only [List.nil_append] at h2
      simp only [List.append_nil] at h1
      exact .inr ⟨[], d2, h2.symm, by simp [h1], rfl⟩
    | cons c0 c'' =>
      simp only [List.cons_append, List.cons.injEq] at h2
      obtain ⟨rfl, rfl⟩ := h2
      exact .inl ⟨d1, c'', h1, rfl, rfl⟩

theorem accHunk_split {p : Path} {s : Nat} {prev : Json} {R A : List Json} {after : Json}
    {x1 x2 : Diff} {h : Hunk} (e : accHunk p s prev R A after = x1 ++ h :: x2) :
    x1 = [] ∧ x2 = [] ∧ ¬ (R = [] ∧ A = []) ∧ accHunk p s prev R A after = [h] := by
  unfold accHunk at e ⊢
  split at e
  · simp at e
  · next hne =>
    obtain ⟨rfl, rfl, rfl⟩ := single_split e
    refine ⟨rfl, rfl, ?_, ?_⟩
    · rintro ⟨rfl, rfl⟩; simp at hne
    · rw [if_neg hne]

theorem map_shift_split {α} {f : α → Hunk} {D0 : List α} {x1 x2 : Diff} {h : Hunk}
    (e : D0.map f = x1 ++ h :: x2) :
    ∃ s1 h0 s2, D0 = s1 ++ h0 :: s2 ∧ x1 = s1.map f ∧ h = f h0 ∧ x2 = s2.map f := by
  obtain ⟨s1, sr, rfl, h1, hr⟩ := List.map_eq_append_iff.1 e
  obtain ⟨h0, s2, rfl, he, h2⟩ := List.map_eq_cons_iff.1 hr
  exact ⟨s1, h0, s2, rfl, h1.symm, he.symm, h2.symm⟩

theorem relL_length_eq {zs ys : List Json} (h : RelL zs ys) : zs.length = ys.length :=
  Real.equivList_length [] zs ys (equivList_of_relL h).1

/-- **dropping the first hunk of a walk.** The accumulated hunk (`R` removed, `A` added, at index
    `|pre|`) is left out and the later hunks `D'` — all addressed at or below indices beyond what it
    adds — are applied to the array that still holds `R`: if the complete run reaches a list as long
    as the target, the run without the hunk does not reach the target. Either the length is wrong
    (`|R| ≠ |A|`) or the element at `|pre|` is `R`'s first, which is not the target's (`A`'s first). -/
theorem first_dropped (pre Y R A post rest' : List Json) (t t1 : Tag) (D' : Diff)
    (hY : Y.length = pre.length) (hne : ¬ (R = [] ∧ A = []))
    (hheads : ∀ r0 a0, R.head? = some r0 → A.head? = some a0 → specEq r0 a0 = false)
    (hidx : ∀ h ∈ D', ∃ (i : Nat) (q : Path), h.path = .idx (i : Int) :: q ∧
      pre.length + A.length ≤ i)
    (tf : Tag) (zf : List Json)
    (hfull : applyStrictAll (.arr t1 (pre ++ A ++ post)) D' = some (.arr tf zf))
    (hfullLen : zf.length = (Y ++ A ++ rest').length)
    (r : Json) (hr : applyStrictAll (.arr t (pre ++ R ++ post)) D' = some r) :
    ∀ t'', specEq r (.arr t'' (Y ++ A ++ rest')) = false := by
  intro t''
  cases hq : specEq r (.arr t'' (Y ++ A ++ rest')) with
  | false => rfl
  | true =>
    exfalso
    obtain ⟨tr, zr, rfl, htake⟩ := applyStrictAll_idx_ge (pre.length + A.length) D' t
      (pre ++ R ++ post) r hidx hr
    obtain ⟨_, z1, _, z2, e1, e2, hlen⟩ := applyStrictAll_len_shift D' t t1 (pre ++ R ++ post)
      (pre ++ A ++ post) _ _ (fun h hm => by
        obtain ⟨i, q, hp, _⟩ := hidx h hm; exact ⟨i, q, hp⟩) hr hfull
    cases e1; cases e2
    simp only [specEq, equivB, dispatchTag] at hq
    have hl := Real.equivList_length [] _ _ hq
    simp only [List.length_append] at hlen hl hfullLen
    have hRA : R.length = A.length := by omega
    cases R with
    | nil =>
      have : A = [] := List.eq_nil_of_length_eq_zero (by simpa using hRA.symm)
      exact hne ⟨rfl, this⟩
    | cons r0 R' =>
      cases A with
      | nil => simp at hRA
      | cons a0 A' =>
        have h1 : zr[pre.length]? = some r0 := by
          have := congrArg (fun l => l[pre.length]?) htake
          simp only [List.length_cons] at this
          rw [List.getElem?_take_of_lt (by omega), List.getElem?_take_of_lt (by omega)] at this
          rw [this]
          simp [List.append_assoc]
        have h2 : (Y ++ a0 :: A' ++ rest')[pre.length]? = some a0 := by
          rw [← hY]; simp [List.append_assoc]
        have := Real.equivList_getElem [] _ _ _ _ _ hq h1 h2
        have hh := hheads r0 a0 rfl rfl
        simp only [specEq] at hh
        rw [hh] at this
        cases this

/-! ## K. the main induction -/

theorem heads_specEq {o : Opts} (ho : dispatchTag o = .list) {S T : List Json}
    (N : NoCollision o S T) {R A : List Json} (gR : GoodL R) (gA : GoodL A)
    (sR : Sub (DPL.subtermsList R) S) (sA : Sub (DPL.subtermsList A) T)
    (hh : ∀ r0 a0, R.head? = some r0 → A.head? = some a0 → hashCode o r0 ≠ hashCode o a0) :
    ∀ r0 a0, R.head? = some r0 → A.head? = some a0 → specEq r0 a0 = false := by
  intro r0 a0 hr ha
  have hr' : r0 ∈ R := List.mem_of_mem_head? hr
  have ha' : a0 ∈ A := List.mem_of_mem_head? ha
  cases hq : specEq r0 a0 with
  | false => rfl
  | true =>
    exact absurd (hash_of_specEq ho N.zero (gR.of_mem hr') (gA.of_mem ha')
      (fun z hz => sR z (Rec.subterms_sub_of_mem hr' z hz))
      (fun z hz => sA z (Rec.subterms_sub_of_mem ha' z hz)) hq) (hh r0 a0 hr ha)

theorem sub_nil (S : List Json) : Sub (DPL.subtermsList []) S := by
  intro z hz; simp [DPL.subtermsList] at hz

theorem sub_snoc {l : List Json} {x : Json} {S : List Json} (h1 : Sub (DPL.subtermsList l) S)
    (h2 : Sub (DPL.subterms x) S) : Sub (DPL.subtermsList (l ++ [x])) S := by
  induction l with
  | nil => intro z hz; simp [DPL.subtermsList] at hz; exact h2 z hz
  | cons y r ih =>
    intro z hz
    simp only [List.cons_append, DPL.subtermsList, List.mem_append] at hz
    rcases hz with hz | hz
    · exact h1 z (by simp [DPL.subtermsList, hz])
    · exact ih (fun z hz => h1 z (by simp [DPL.subtermsList, hz])) z hz

theorem sub_append {l l' : List Json} {S : List Json} (h1 : Sub (DPL.subtermsList l) S)
    (h2 : Sub (DPL.subtermsList l') S) : Sub (DPL.subtermsList (l ++ l')) S := by
  induction l with
  | nil => simpa using h2
  | cons y r ih =>
    intro z hz
    simp only [List.cons_append, DPL.subtermsList, List.mem_append] at hz
    rcases hz with hz | hz
    · exact h1 z (by simp [DPL.subtermsList, hz])
    · exact ih (fun z hz => h1 z (by simp [DPL.subtermsList, hz])) z hz

theorem goodL_single {x : Json} (h : Good x) : GoodL [x] := goodL_cons.2 ⟨h, GoodL.nil⟩

/-- the three statements proved together: nodes, the member loop, the list walk -/
theorem noRed_strict (L : FloatLaws) (o : Opts) (ho : dispatchTag o = .list) {S T : List Json}
    (N : NoCollision o S T) :
    (∀ a b, a.listDoc = true → b.listDoc = true → a.rawDoc = true →
      Sub (DPL.subterms a) S → Sub (DPL.subterms b) T → Good a → Good b →
      ∀ d1 h d2, diffNode o false a b [] = d1 ++ h :: d2 →
      ∀ r, applyStrictAll a (d1 ++ d2) = some r → specEq r b = false) ∧
    (∀ kvs' kvs, listDocKvs kvs' = true → listDocKvs kvs = true → rawDocKvs kvs = true →
      Sub (DPL.subtermsKvs kvs) S → Sub (DPL.subtermsKvs kvs') T → GoodK kvs → GoodK kvs' →
      keysSorted kvs = true → ∀ cur, keysSorted cur = true →
      (∀ k v, (k, v) ∈ kvs → alookup k cur = some v) →
      ∀ d1 h d2, diffKvs o false [] kvs' kvs = d1 ++ h :: d2 →
      ∀ r, applyStrictAll (.obj cur) (d1 ++ d2) = some r →
        ∃ cur', r = .obj cur' ∧ keysSorted cur' = true ∧
          ∃ k v, (k, v) ∈ kvs ∧ MemNe (alookup k cur') (alookup k kvs')) ∧
    (∀ k s prev a b c R A, listDocList a = true → listDocList b = true → rawDocList a = true →
      ∀ (t : Tag) (pre : List Json), pre.length = s → k = s + A.length → PrevOK pre prev →
        GoodL R → GoodL A → GoodL a → GoodL b →
        Sub (DPL.subtermsList R) S → Sub (DPL.subtermsList A) T →
        Sub (DPL.subtermsList a) S → Sub (DPL.subtermsList b) T →
        LOpt c (hashList o a) (hashList o b) → AccInv o a b c R A →
        ∀ d1 h d2, diffRest o [] k s prev a b c R A = d1 ++ h :: d2 →
        ∀ r, applyStrictAll (.arr t (pre ++ R ++ a)) (d1 ++ d2) = some r →
        ∀ t'' Y, Y.length = s → specEq r (.arr t'' (Y ++ A ++ b)) = false) := by
  have C := diff_correct L o ho N
  apply listDiff_induct o ho
    (mN := fun a b => a.rawDoc = true →
      Sub (DPL.subterms a) S → Sub (DPL.subterms b) T → Good a → Good b →
      ∀ d1 h d2, diffNode o false a b [] = d1 ++ h :: d2 →
      ∀ r, applyStrictAll a (d1 ++ d2) = some r → specEq r b = false)
    (mK := fun kvs' kvs => rawDocKvs kvs = true →
      Sub (DPL.subtermsKvs kvs) S → Sub (DPL.subtermsKvs kvs') T → GoodK kvs → GoodK kvs' →
      keysSorted kvs = true → ∀ cur, keysSorted cur = true →
      (∀ k v, (k, v) ∈ kvs → alookup k cur = some v) →
      ∀ d1 h d2, diffKvs o false [] kvs' kvs = d1 ++ h :: d2 →
      ∀ r, applyStrictAll (.obj cur) (d1 ++ d2) = some r →
        ∃ cur', r = .obj cur' ∧ keysSorted cur' = true ∧
          ∃ k v, (k, v) ∈ kvs ∧ MemNe (alookup k cur') (alookup k kvs'))
    (mR := fun k s prev a b c R A => rawDocList a = true →
      ∀ (t : Tag) (pre : List Json), pre.length = s → k = s + A.length → PrevOK pre prev →
        GoodL R → GoodL A → GoodL a → GoodL b →
        Sub (DPL.subtermsList R) S → Sub (DPL.subtermsList A) T →
        Sub (DPL.subtermsList a) S → Sub (DPL.subtermsList b) T →
        LOpt c (hashList o a) (hashList o b) → AccInv o a b c R A →
        ∀ d1 h d2, diffRest o [] k s prev a b c R A = d1 ++ h :: d2 →
        ∀ r, applyStrictAll (.arr t (pre ++ R ++ a)) (d1 ++ d2) = some r →
        ∀ t'' Y, Y.length = s → specEq r (.arr t'' (Y ++ A ++ b)) = false)
  · -- list against list
    intro t t' xs ys ht ht' htt hlx hly ih hraw hS hT ga gb d1 h d2 hd r hr
    simp only [Json.rawDoc, Bool.and_eq_true] at hraw
    rw [diffNode_arr_arr ho xs ys ht ht' htt] at hd
    have := ih hraw.2 t [] rfl rfl (by simp [PrevOK, Json.isVoid]) GoodL.nil GoodL.nil
      (good_arr.1 ga).2 (good_arr.1 gb).2 (sub_nil S) (sub_nil T) (sub_arr hS) (sub_arr hT)
      (LOpt.lcs _ _) (AccInv.init o _ _ _) d1 h d2 hd r (by simpa using hr) t' [] rfl
    simpa using this
  · -- list against something else
    intro t xs b ht _ hlb hb' hraw _ _ ga gb d1 h d2 hd r hr
    simp only [Json.rawDoc, Bool.and_eq_true, beq_iff_eq] at hraw
    rw [diffNode_arr_other ho xs b ht hb'] at hd
    obtain ⟨rfl, rfl, _⟩ := single_split hd
    simp only [List.append_nil, applyStrictAll, Option.some.injEq] at hr
    subst hr
    rcases hb' with hb' | ⟨e, _⟩
    · cases b <;> simp_all [specEq, equivB]
    · rw [hraw.1] at e; cases e
  · -- object against object
    intro kvs kvs' hlk hlk' ih hraw hS hT ga gb d1 h d2 hd r hr
    have ga' := good_obj.1 ga
    have gb' := good_obj.1 gb
    simp only [Json.rawDoc] at hraw
    rw [diffNode_obj_obj] at hd
    rcases split_append hd with ⟨x1, x2, hx, e1, e2⟩ | ⟨y1, y2, hy, e1, e2⟩
    · -- a hunk of a member present on both sides, or a removal, is dropped
      rw [e1, e2, ← List.append_assoc, applyStrictAll_append] at hr
      cases hmid : applyStrictAll (.obj kvs) (x1 ++ x2) with
      | none => rw [hmid] at hr; cases hr
      | some mid =>
        rw [hmid] at hr
        simp only [Option.bind_some] at hr
        obtain ⟨cur', rfl, hs', k, v, hm, hne⟩ := ih hraw (sub_obj hS) (sub_obj hT) ga'.2 gb'.2 ga'.1
          kvs ga'.1 (fun k v hm => alookup_of_mem ga'.1 hm) x1 h x2 hx mid hmid
        have hja := alookup_of_mem ga'.1 hm
        obtain ⟨cur'', rfl, hs'', hk''⟩ := applyStrictAll_key_other k _ cur' hs' (by
          intro h' hm'
          obtain ⟨kv, hkv, rfl⟩ := List.mem_map.1 hm'
          simp only [List.mem_filter, Option.isNone_iff_eq_none] at hkv
          exact ⟨kv.1, [], rfl, fun e => by rw [e, hja] at hkv; cases hkv.2⟩) r hr
        exact specEq_obj_false hs'' gb'.1 k (by rw [hk'']; exact hne)
    · -- the hunk adding a member is dropped
      obtain ⟨f1, kv, f2, hF, g1, _, g3⟩ := map_shift_split hy
      have hkvm : kv ∈ kvs'.filter (fun kv => (alookup kv.1 kvs).isNone) := by rw [hF]; simp
      simp only [List.mem_filter, Option.isNone_iff_eq_none] at hkvm
      have hnd : ((kvs'.filter (fun kv => (alookup kv.1 kvs).isNone)).map Prod.fst).Nodup :=
        (List.filter_sublist.map Prod.fst).nodup (keysSorted_nodup gb'.1)
      rw [hF, List.map_append, List.map_cons] at hnd
      have hnd' := List.nodup_append.1 hnd
      have hne1 : ∀ kv' ∈ f1, kv'.1 ≠ kv.1 := fun kv' hm' =>
        hnd'.2.2 kv'.1 (List.mem_map.2 ⟨kv', hm', rfl⟩) kv.1 List.mem_cons_self
      have hne2 : ∀ kv' ∈ f2, kv'.1 ≠ kv.1 := fun kv' hm' e =>
        (List.nodup_cons.1 hnd'.2.1).1 (e ▸ List.mem_map.2 ⟨kv', hm', rfl⟩)
      rw [e1, e2, g1, g3] at hr
      obtain ⟨cur', rfl, hs', hk'⟩ := applyStrictAll_key_other kv.1 _ kvs ga'.1 (by
        intro h' hm'
        rcases List.mem_append.1 hm' with hm' | hm'
        · rcases List.mem_append.1 hm' with hm' | hm'
          · obtain ⟨k0, v0, hm0, t0, ht0⟩ :=
              (Real.diff_paths_extend_all o ho).2.1 kvs' kvs hlk' hlk [] h' hm'
            exact ⟨k0, t0, by rw [← ht0]; rfl, fun e => by
              rw [← e, alookup_of_mem ga'.1 hm0] at hkvm; cases hkvm.2⟩
          · obtain ⟨kv', hkv', rfl⟩ := List.mem_map.1 hm'
            exact ⟨kv'.1, [], rfl, hne1 kv' hkv'⟩
        · obtain ⟨kv', hkv', rfl⟩ := List.mem_map.1 hm'
          exact ⟨kv'.1, [], rfl, hne2 kv' hkv'⟩) r hr
      refine specEq_obj_false hs' gb'.1 kv.1 ?_
      rw [hk', hkvm.2, alookup_of_mem gb'.1 (show (kv.1, kv.2) ∈ kvs' from hkvm.1)]
      trivial
  · -- object against something else
    intro kvs b _ _ hb' _ _ _ _ _ d1 h d2 hd r hr
    rw [diffNode_obj_other o kvs b hb'] at hd
    obtain ⟨rfl, rfl, _⟩ := single_split hd
    simp only [List.append_nil, applyStrictAll, Option.some.injEq] at hr
    subst hr
    cases b <;> simp_all [specEq, equivB]
  · -- scalars
    intro a b h1 h2 hlb _ _ _ ga gb d1 h d2 hd r hr
    rw [diffNode_scalar o a b h1 h2] at hd
    unfold diffCommon at hd
    split at hd
    · simp at hd
    · next hne =>
      simp only [Bool.false_eq_true, if_false] at hd
      obtain ⟨rfl, rfl, _⟩ := single_split hd
      simp only [List.append_nil, applyStrictAll, Option.some.injEq] at hr
      subst hr
      rw [specEq_eq_equals ga.listDoc gb.listDoc]
      simpa using hne
  · -- no member left
    intro kvs' _ _ _ _ _ _ cur _ _ d1 h d2 hd
    simp [diffKvs_nil] at hd
  · -- one member of the source
    intro kvs' k v r hl' hv hlr ihN ihK hraw hS hT ga gb hsk cur hs hcur d1 h d2 hd res hres
    have ga' := goodK_cons.1 ga
    have hS' := sub_kvs_cons hS
    have hsk' := DPL.keysSorted_cons_iff.1 hsk
    simp only [rawDocKvs, Bool.and_eq_true] at hraw
    have hcurk : alookup k cur = some v := hcur k v List.mem_cons_self
    have hx : alookup k cur = (if v.isVoid then none else some v) := by rw [hcurk, ga'.1.2]; rfl
    have hpaths : ∀ h' ∈ diffKvs o false [] kvs' r,
        ∃ (k' : String) (q : Path), h'.path = .key k' :: q ∧ k' ≠ k := by
      intro h' hm'
      obtain ⟨k0, v0, hm0, t0, ht0⟩ := (Real.diff_paths_extend_all o ho).2.1 kvs' r hl' hlr [] h' hm'
      exact ⟨k0, t0, by rw [← ht0]; rfl, fun e => String.lt_irrefl k (e ▸ hsk'.1 k0 v0 hm0)⟩
    have hcur' : ∀ cur1 : List (String × Json), (∀ k0, k0 ≠ k → alookup k0 cur1 = alookup k0 cur) →
        ∀ k1 v1, (k1, v1) ∈ r → alookup k1 cur1 = some v1 := by
      intro cur1 g3 k1 v1 hm
      have hne : k1 ≠ k := fun e => String.lt_irrefl k (e ▸ hsk'.1 k1 v1 hm)
      rw [g3 k1 hne]; exact hcur k1 v1 (List.mem_cons_of_mem _ hm)
    rw [diffKvs_cons] at hd
    -- the hunks of this member are a diff `G0` on the member, moved below the key
    have key : ∀ (G0 : Diff) (r0 : Json), applyStrictAll v G0 = some r0 →
        (∀ s1 h0 s2, G0 = s1 ++ h0 :: s2 → ∀ x', applyStrictAll v (s1 ++ s2) = some x' →
          ∀ ck : Option Json, ck.getD .void = x' → MemNe ck (alookup k kvs')) →
        G0.map (shiftHunk [.key k]) ++ diffKvs o false [] kvs' r = d1 ++ h :: d2 →
        ∃ cur', res = .obj cur' ∧ keysSorted cur' = true ∧
          ∃ k_1 v_1, (k_1, v_1) ∈ (k, v) :: r ∧ MemNe (alookup k_1 cur') (alookup k_1 kvs') := by
      intro G0 r0 hfull hdrop hd
      rcases split_append hd with ⟨x1, x2, hx1, e1, e2⟩ | ⟨y1, y2, hy, e1, e2⟩
      · obtain ⟨s1, h0, s2, hG, g1, _, g3⟩ := map_shift_split hx1
        rw [e1, e2, g1, g3] at hres
        have e : List.map (shiftHunk [PathElem.key k]) s1 ++
            (List.map (shiftHunk [PathElem.key k]) s2 ++ diffKvs o false [] kvs' r) =
            List.map (shiftHunk [PathElem.key k]) (s1 ++ s2) ++ diffKvs o false [] kvs' r := by
          simp [List.append_assoc]
        rw [e, applyStrictAll_append] at hres
        cases hmid : applyStrictAll (.obj cur) (List.map (shiftHunk [PathElem.key k]) (s1 ++ s2)) with
        | none => rw [hmid] at hres; cases hres
        | some mid =>
          rw [hmid] at hres
          simp only [Option.bind_some] at hres
          obtain ⟨x', cur1, hx', rfl, hs1, hoth, hself, _⟩ :=
            applyStrictAll_key_frame_conv k (s1 ++ s2) cur hs mid hmid
          rw [hcurk] at hx'
          simp only [Option.getD_some] at hx'
          obtain ⟨cur', rfl, hs', hk'⟩ := applyStrictAll_key_other k _ cur1 hs1 hpaths res hres
          refine ⟨cur', rfl, hs', k, v, List.mem_cons_self, ?_⟩
          rw [hk']
          exact hdrop s1 h0 s2 hG x' hx' _ hself
      · rw [e1, e2] at hres
        obtain ⟨cur1, g1, g2, g3, g4⟩ := applyStrictAll_key_frame' G0 k cur v hs hx r0 hfull
        rw [List.append_assoc, applyStrictAll_append, g1] at hres
        simp only [Option.bind_some] at hres
        obtain ⟨cur', e', hs', k1, v1, hm1, hne1⟩ := ihK hraw.2 hS'.2 hT ga'.2 gb hsk'.2 cur1 g2
          (hcur' cur1 g3) y1 h y2 hy res hres
        exact ⟨cur', e', hs', k1, v1, List.mem_cons_of_mem _ hm1, hne1⟩
    cases hlk : alookup k kvs' with
    | some v' =>
      simp only [hlk] at hd
      rw [diffNode_at o ho v v' hv (alookup_listDoc hlk hl')] at hd
      obtain ⟨r0, h1, _, _⟩ := C.1 v v' hv (alookup_listDoc hlk hl') hS'.1 (sub_lookup hT hlk)
        ga'.1.1 (gb.lookup hlk).1
      refine key _ r0 h1 ?_ hd
      intro s1 h0 s2 hG x' hx' ck hck
      rw [hlk]
      have hne := ihN v' (alookup_listDoc hlk hl') hraw.1 hS'.1 (sub_lookup hT hlk) ga'.1.1
        (gb.lookup hlk).1 s1 h0 s2 hG x' hx'
      cases ck with
      | none => trivial
      | some z =>
        simp only [Option.getD_some] at hck
        subst hck
        exact hne
    | none =>
      simp only [hlk] at hd
      have h1 : applyStrictAll v [{ path := [], remove := v.nodeList }] = some .void := by
        have := apply_root v v.nodeList [] (by simp only [Json.nodeList]; split <;> simp)
          (by simp) (by rw [single_nodeList]; exact specEq_refl L ga'.1.1)
        simpa [single, Json.singleValue] using this
      have e : [({ path := [] ++ [PathElem.key k], remove := v.nodeList } : Hunk)] =
          List.map (shiftHunk [PathElem.key k]) [{ path := [], remove := v.nodeList }] := by
        simp [shiftHunk]
      rw [e] at hd
      refine key _ .void h1 ?_ hd
      intro s1 h0 s2 hG x' hx' ck hck
      obtain ⟨rfl, rfl, _⟩ := single_split hG
      simp only [List.append_nil, applyStrictAll, Option.some.injEq] at hx'
      subst hx'
      rw [hlk]
      cases ck with
      | none =>
        simp only [Option.getD_none] at hck
        have := ga'.1.2
        rw [← hck] at this
        simp [Json.isVoid] at this
      | some z => trivial
  · -- end of a
    intro k s prev c R A b hlb hraw t pre hlen hk hp gR gA ga gb sR sA sa sb hopt inv d1 h d2 hd r hr
      t'' Y hY
    subst hlen
    rw [diffRest_nilA] at hd
    obtain ⟨rfl, rfl, hne, _⟩ := accHunk_split hd
    simp only [List.nil_append] at hr
    have hc : c = [] := Real.lopt_nil_left (by simpa [hashList] using hopt)
    have hheads : ∀ r0 a0, R.head? = some r0 → (A ++ b).head? = some a0 →
        hashCode o r0 ≠ hashCode o a0 := by
      intro r0 a0 hr0 ha0
      cases A with
      | nil =>
        have hlt : ([] : List Json).length < R.length := by
          cases R with
          | nil => cases hr0
          | cons _ _ => simp
        have := inv.moreR hlt a0 (by simpa using ha0)
        rw [hc] at this; simp [atC] at this
      | cons a1 A' => exact inv.heads r0 a0 hr0 (by simpa using ha0)
    have := first_dropped pre Y R (A ++ b) [] [] t t [] hY hne
      (heads_specEq ho N gR (gA.append gb) sR (sub_append sA sb) hheads)
      (fun h hm => by cases hm) t (pre ++ (A ++ b) ++ []) (by simp [applyStrictAll])
      (by simp [hY]) r hr t''
    simpa [List.append_assoc] using this
  · -- end of b
    intro k s prev c R A a hne0 hla hraw t pre hlen hk hp gR gA ga gb sR sA sa sb hopt inv d1 h d2 hd
      r hr t'' Y hY
    subst hlen
    rw [diffRest_nilB _ _ _ _ _ _ _ _ _ hne0] at hd
    obtain ⟨rfl, rfl, hne, _⟩ := accHunk_split hd
    simp only [List.nil_append] at hr
    have hc : c = [] := Real.lopt_nil_right (by simpa [hashList] using hopt)
    have hheads : ∀ r0 a0, (R ++ a).head? = some r0 → A.head? = some a0 →
        hashCode o r0 ≠ hashCode o a0 := by
      intro r0 a0 hr0 ha0
      cases R with
      | nil =>
        have hlt : ([] : List Json).length < A.length := by
          cases A with
          | nil => cases ha0
          | cons _ _ => simp
        have := inv.moreA hlt r0 (by simpa using hr0)
        rw [hc] at this; simp [atC] at this
      | cons r1 R' => exact inv.heads r0 a0 (by simpa using hr0) ha0
    exact first_dropped pre Y (R ++ a) A [] [] t t [] hY hne
      (heads_specEq ho N (gR.append ga) gA (sub_append sR sa) sA hheads)
      (fun h hm => by cases hm) t (pre ++ A ++ []) (by simp [applyStrictAll])
      (by simp [hY]) r (by simpa [List.append_assoc] using hr) t''
  · -- both cursors at the next common element
    intro k s prev c R A x a' y b' hl hl' hA hB ih hraw t pre hlen hk hp gR gA ga gb sR sA sa sb hopt
      inv d1 h d2 hd r hr t'' Y hY
    subst hlen
    have ga' := goodL_cons.1 ga
    have gb' := goodL_cons.1 gb
    simp only [rawDocList, Bool.and_eq_true] at hraw
    have hh := atC_both_hash hA hB
    have hxy : Rel x y := N.hash x ((sub_cons sa).1 x (self_mem_subterms x)) y
      ((sub_cons sb).1 y (self_mem_subterms y)) hh
    have hopt' : LOpt c.tail (hashList o a') (hashList o b') := by
      have := hopt
      rw [hashList_cons, hashList_cons, ← hh, atC_true hA] at this
      exact this.both
    obtain ⟨t1, ht1, h1⟩ := apply_accHunk L t pre R A (x :: a') prev x gR hp
      (AfterOK.cons x a' x (specEq_refl L ga'.1))
    obtain ⟨tf, zs, _, hfull, hrel, _⟩ := C.2.2 k pre.length prev (x :: a') (y :: b') c R A hl hl' t
      pre rfl hk hp gR ga gb sa sb hopt
    rw [diffRest_cons] at hd hfull
    simp only [hA, hB, Bool.and_self, if_true] at hd hfull
    rw [applyStrictAll_append, h1] at hfull
    simp only [Option.bind_some] at hfull
    rcases split_append hd with ⟨x1, x2, hx, rfl, rfl⟩ | ⟨y1, y2, hy, rfl, rfl⟩
    · obtain ⟨rfl, rfl, hne, _⟩ := accHunk_split hx
      simp only [List.nil_append] at hr
      refine first_dropped pre Y R A (x :: a') (y :: b') t t1 _ hY hne
        (heads_specEq ho N gR gA sR sA inv.heads) ?_ tf (pre ++ A ++ zs) hfull ?_ r hr t''
      · intro h' hm'
        obtain ⟨i, q, hp', hi⟩ := diffRest_idx_ge o _ a' b' rfl (k + 1) (k + 1) y c.tail [] []
          (Nat.le_refl _) h' hm'
        exact ⟨i, q, hp', by omega⟩
      · simp only [List.length_append, hY, relL_length_eq hrel]
    · rw [List.append_assoc (accHunk [] pre.length prev R A x), applyStrictAll_append, h1] at hr
      simp only [Option.bind_some] at hr
      have := ih hraw.2 t1 (pre ++ A ++ [x]) (by simp; omega) rfl (PrevOK.concat _ x y hxy.2)
        GoodL.nil GoodL.nil ga'.2 gb'.2 (sub_nil S) (sub_nil T) (sub_cons sa).2 (sub_cons sb).2 hopt'
        (AccInv.init o _ _ _) y1 h d2 hy r (by simpa [List.append_assoc] using hr) t''
        (Y ++ A ++ [y]) (by simp; omega)
      simpa [List.append_assoc] using this
  · -- a at the common element: add from b
    intro k s prev c R A x a' y b' hl hl' hA hB ih hraw t pre hlen hk hp gR gA ga gb sR sA sa sb hopt
      inv d1 h d2 hd r hr t'' Y hY
    have gb' := goodL_cons.1 gb
    rw [diffRest_cons] at hd
    simp only [hA, hB, Bool.and_false, Bool.false_eq_true, if_false, if_true] at hd
    rw [hashList_cons o y] at hopt
    have := ih hraw t pre hlen (by simp; omega) hp gR (gA.append (goodL_single gb'.1)) ga gb'.2 sR
      (sub_snoc sA (sub_cons sb).1) sa (sub_cons sb).2 (hopt.skipB (atC_false hB))
      (inv.stepA hA hB) d1 h d2 hd r hr t'' Y hY
    simpa [List.append_assoc] using this
  · -- b at the common element: remove from a
    intro k s prev c R A x a' y b' hl hl' hA hB ih hraw t pre hlen hk hp gR gA ga gb sR sA sa sb hopt
      inv d1 h d2 hd r hr t'' Y hY
    have ga' := goodL_cons.1 ga
    simp only [rawDocList, Bool.and_eq_true] at hraw
    rw [diffRest_cons] at hd
    simp only [hA, hB, Bool.false_and, Bool.false_eq_true, if_false, if_true] at hd
    rw [hashList_cons o x] at hopt
    exact ih hraw.2 t pre hlen hk hp (gR.append (goodL_single ga'.1)) gA ga'.2 gb
      (sub_snoc sR (sub_cons sa).1) sA (sub_cons sa).2 sb (hopt.skipA (atC_false hA))
      (inv.stepB hA hB) d1 h d2 hd r (by simpa [List.append_assoc] using hr) t'' Y hY
  · -- compatible containers: the accumulated hunk, the sub-diff below the index, the rest
    intro k s prev c R A x a' y b' hl hl' hA hB hs ihN ihR hraw t pre hlen hk hp gR gA ga gb sR sA sa sb
      hopt inv d1 h d2 hd r hr t'' Y hY
    subst hlen
    have ga' := goodL_cons.1 ga
    have gb' := goodL_cons.1 gb
    have hlx := hl
    have hly := hl'
    simp only [listDocList, Bool.and_eq_true] at hlx hly
    simp only [rawDocList, Bool.and_eq_true] at hraw
    have hS' := sub_cons sa
    have hT' := sub_cons sb
    have hopt2 := hopt
    rw [hashList_cons o x, hashList_cons o y] at hopt2
    have hne : hashCode o x ≠ hashCode o y := by
      intro e
      rw [← e] at hopt2
      exact hopt2.heads_ne (atC_false hA)
    have hD0 : diffNode o false x y [] ≠ [] := fun e =>
      hne ((diff_empty_hash o ho N).1 x y hlx.1 hly.1 hS'.1 hT'.1 ga'.1 gb'.1 [] e)
    obtain ⟨r0, hr0, hrel0, hldr⟩ := C.1 x y hlx.1 hly.1 hS'.1 hT'.1 ga'.1 gb'.1
    have hnv := sameContainerType_notVoid hs
    have hframe := (diff_frameOK o ho).1 x y hlx.1 hly.1 hnv.1 hnv.2
    have hemp : (List.map (shiftHunk [PathElem.idx (k : Int)]) (diffNode o false x y [])).isEmpty
        = false := by
      rw [List.isEmpty_map]
      cases hd0 : diffNode o false x y [] with
      | nil => exact absurd hd0 hD0
      | cons _ _ => rfl
    obtain ⟨t1, ht1, h1⟩ := apply_accHunk L t pre R A (x :: a') prev x gR hp
      (AfterOK.cons x a' x (specEq_refl L ga'.1))
    obtain ⟨tf, zs, _, hfull, hrel, _⟩ := C.2.2 k pre.length prev (x :: a') (y :: b') c R A hl hl' t
      pre rfl hk hp gR ga gb sa sb hopt
    rw [diffRest_cons] at hd hfull
    simp only [hA, hB, hs, Bool.false_and, Bool.false_eq_true, if_false, if_true] at hd hfull
    -- `x` is a plain `jsonArray` or an object (`rawDoc`): `subAfter` does not touch the sub-diff
    rw [Real.subAfter_diffNode_of_not_mixed o hs (mixedPair_of_rawDoc_left y hraw.1)] at hd hfull
    rw [diffNode_at o ho x y hlx.1 hly.1] at hd hfull
    simp only [hemp, Bool.false_eq_true, if_false] at hd hfull
    rw [List.append_assoc (accHunk [] pre.length prev R A x)] at hd hfull
    rw [applyStrictAll_append, h1] at hfull
    simp only [Option.bind_some] at hfull
    have hxk : (pre ++ A ++ x :: a')[k]? = some x := by
      rw [hk, ← List.length_append]; exact getElem?_mid _ _ _
    have hidxTail : ∀ h' ∈ diffRest o [] (k + 1) (k + 1) y a' b' c [] [],
        ∃ (i : Nat) (q : Path), h'.path = .idx (i : Int) :: q ∧ k + 1 ≤ i :=
      diffRest_idx_ge o _ a' b' rfl (k + 1) (k + 1) y c [] [] (Nat.le_refl _)
    rcases split_append hd with ⟨x1, x2, hx, e1, e2⟩ | ⟨y1, y2, hy, e1, e2⟩
    · -- the accumulated hunk is dropped
      obtain ⟨rfl, rfl, hne', _⟩ := accHunk_split hx
      rw [e1, e2] at hr
      simp only [List.nil_append] at hr
      refine first_dropped pre Y R A (x :: a') (y :: b') t t1 _ hY hne'
        (heads_specEq ho N gR gA sR sA inv.heads) ?_ tf (pre ++ A ++ zs) hfull ?_ r hr t''
      · intro h' hm'
        rcases List.mem_append.1 hm' with hm' | hm'
        · obtain ⟨h0, _, rfl⟩ := List.mem_map.1 hm'
          exact ⟨k, h0.path, rfl, by omega⟩
        · obtain ⟨i, q, hp', hi⟩ := hidxTail h' hm'
          exact ⟨i, q, hp', by omega⟩
      · simp only [List.length_append, hY, relL_length_eq hrel]
    · rcases split_append hy with ⟨s1', s2', hsub, f1, f2⟩ | ⟨z1, z2, htail, f1, f2⟩
      · -- a hunk of the sub-diff is dropped
        obtain ⟨s1, h0, s2, hsub0, g1, g2, g3⟩ := map_shift_split hsub
        rw [e1, e2, f1, f2, g1, g3] at hr
        have e : accHunk [] pre.length prev R A x ++
              List.map (shiftHunk [PathElem.idx (k : Int)]) s1 ++
            (List.map (shiftHunk [PathElem.idx (k : Int)]) s2 ++
              diffRest o [] (k + 1) (k + 1) y a' b' c [] []) =
            accHunk [] pre.length prev R A x ++
              (List.map (shiftHunk [PathElem.idx (k : Int)]) (s1 ++ s2) ++
                diffRest o [] (k + 1) (k + 1) y a' b' c [] []) := by
          simp [List.append_assoc]
        rw [e, applyStrictAll_append, h1] at hr
        simp only [Option.bind_some] at hr
        rw [applyStrictAll_append] at hr
        cases hmid : applyStrictAll (.arr t1 (pre ++ A ++ x :: a'))
            (List.map (shiftHunk [PathElem.idx (k : Int)]) (s1 ++ s2)) with
        | none => rw [hmid] at hr; cases hr
        | some mid =>
          rw [hmid] at hr
          simp only [Option.bind_some] at hr
          obtain ⟨x', t2, hx', rfl⟩ := applyStrictAll_idx_frame_conv (s1 ++ s2)
            (fun h' hm' => hframe h' (by
              rw [hsub0]
              rcases List.mem_append.1 hm' with hm' | hm'
              · exact List.mem_append_left _ hm'
              · exact List.mem_append_right _ (List.mem_cons_of_mem _ hm')))
            t1 _ k x hxk mid hmid
          have hset : (pre ++ A ++ x :: a').set k x' = pre ++ A ++ x' :: a' := by
            rw [hk, ← List.length_append]; exact set_mid _ _ _ _
          rw [hset] at hr
          have hne2 := ihN hraw.1 hS'.1 hT'.1 ga'.1 gb'.1 s1 h0 s2 hsub0 x' hx'
          obtain ⟨tr, zr, rfl, htake⟩ := applyStrictAll_idx_ge (k + 1) _ t2 _ r hidxTail hr
          cases hq : specEq (.arr tr zr) (.arr t'' (Y ++ A ++ y :: b')) with
          | false => rfl
          | true =>
            exfalso
            simp only [specEq, equivB, dispatchTag] at hq
            have h1' : zr[k]? = some x' := by
              have : (zr.take (k + 1))[k]? = ((pre ++ A ++ x' :: a').take (k + 1))[k]? := by
                rw [htake]
              rw [List.getElem?_take_of_lt (by omega), List.getElem?_take_of_lt (by omega)] at this
              rw [this, hk, ← List.length_append]; exact getElem?_mid _ _ _
            have h2' : (Y ++ A ++ y :: b')[k]? = some y := by
              rw [hk, ← hY, ← List.length_append]; exact getElem?_mid _ _ _
            have := Real.equivList_getElem [] _ _ _ _ _ hq h1' h2'
            simp only [specEq] at hne2
            rw [hne2] at this; cases this
      · -- a later hunk is dropped
        rw [e1, e2, f1, f2] at hr
        have e : accHunk [] pre.length prev R A x ++
              (List.map (shiftHunk [PathElem.idx (k : Int)]) (diffNode o false x y []) ++ z1) ++ z2 =
            accHunk [] pre.length prev R A x ++
              (List.map (shiftHunk [PathElem.idx (k : Int)]) (diffNode o false x y []) ++
                (z1 ++ z2)) := by
          simp [List.append_assoc]
        rw [e, applyStrictAll_append, h1] at hr
        simp only [Option.bind_some] at hr
        rw [applyStrictAll_append] at hr
        obtain ⟨t2, ht2, h2⟩ := applyStrictAll_idx_frame _ hframe t1 (pre ++ A ++ x :: a') k x hxk r0 hr0
        have hset : (pre ++ A ++ x :: a').set k r0 = pre ++ A ++ r0 :: a' := by
          rw [hk, ← List.length_append]; exact set_mid _ _ _ _
        rw [hset] at h2
        rw [h2] at hr
        simp only [Option.bind_some] at hr
        have := ihR hraw.2 t2 (pre ++ A ++ [r0]) (by simp; omega) rfl (PrevOK.concat _ r0 y hrel0.2)
          GoodL.nil GoodL.nil ga'.2 gb'.2 (sub_nil S) (sub_nil T) hS'.2 hT'.2
          ((hopt2.skipA (atC_false hA)).skipB (atC_false hB)) (AccInv.init o _ _ _) z1 h z2 htail r
          (by simpa [List.append_assoc] using hr) t'' (Y ++ A ++ [y]) (by simp; omega)
        simpa [List.append_assoc] using this
  · -- different elements
    intro k s prev c R A x a' y b' hl hl' hA hB hs ih hraw t pre hlen hk hp gR gA ga gb sR sA sa sb
      hopt inv d1 h d2 hd r hr t'' Y hY
    have ga' := goodL_cons.1 ga
    have gb' := goodL_cons.1 gb
    simp only [rawDocList, Bool.and_eq_true] at hraw
    rw [diffRest_cons] at hd
    simp only [hA, hB, hs, Bool.false_and, Bool.false_eq_true, if_false] at hd
    rw [hashList_cons o x, hashList_cons o y] at hopt
    have := ih hraw.2 t pre hlen (by simp; omega) hp (gR.append (goodL_single ga'.1))
      (gA.append (goodL_single gb'.1)) ga'.2 gb'.2 (sub_snoc sR (sub_cons sa).1)
      (sub_snoc sA (sub_cons sb).1) (sub_cons sa).2 (sub_cons sb).2
      ((hopt.skipA (atC_false hA)).skipB (atC_false hB)) (inv.stepD hA hB hopt) d1 h d2 hd r
      (by simpa [List.append_assoc] using hr) t'' Y hY
    simpa [List.append_assoc] using this

/-! ## L. the hunks of a strict list diff are in the domain of C03 (`Patch` = reference interpreter) -/

/-- strict, addressed through keys and indices, list-document payloads: the domain of
    `patchAll_strict_eq_ref` -/
def StrictOK (h : Hunk) : Prop :=
  h.merge = false ∧ strictPath h.path = true ∧ hunkListDoc h = true

theorem StrictOK.toBool {h : Hunk} (s : StrictOK h) :
    (!h.merge && strictPath h.path && hunkListDoc h) = true := by
  simp [s.1, s.2.1, s.2.2]

theorem StrictOK.shift {h : Hunk} (s : StrictOK h) {e : PathElem}
    (he : strictPath [e] = true) : StrictOK (shiftHunk [e] h) := by
  refine ⟨s.1, ?_, s.2.2⟩
  simp only [shiftHunk, List.cons_append, List.nil_append]
  cases e <;> simp_all [strictPath]
  · exact s.2.1
  · exact s.2.1

theorem nodeList_listDoc {v : Json} (h : v.listDoc = true) : listDocList v.nodeList = true := by
  unfold Json.nodeList
  split <;> simp [listDocList, h]

theorem accHunk_strictOK {s : Nat} {prev after : Json} {R A : List Json} (hp : prev.listDoc = true)
    (ha : after.listDoc = true) (hR : listDocList R = true) (hA : listDocList A = true) :
    ∀ h ∈ accHunk [] s prev R A after, StrictOK h := by
  intro h hm
  unfold accHunk at hm
  split at hm
  · cases hm
  · simp only [List.mem_singleton] at hm
    subst hm
    exact ⟨rfl, by simp [strictPath], by simp [hunkListDoc, listDocList, hp, ha, hR, hA]⟩

theorem listDocKvs_mem {kvs : List (String × Json)} (h : listDocKvs kvs = true) :
    ∀ kv ∈ kvs, kv.2.listDoc = true := by
  induction kvs with
  | nil => intro kv hm; cases hm
  | cons kv0 r ih =>
    simp only [listDocKvs, Bool.and_eq_true] at h
    intro kv hm
    rcases List.mem_cons.1 hm with rfl | hm
    · exact h.1
    · exact ih h.2 kv hm

theorem diff_strictOK (o : Opts) (ho : dispatchTag o = .list) :
    (∀ a b, a.listDoc = true → b.listDoc = true → ∀ h ∈ diffNode o false a b [], StrictOK h) ∧
    (∀ kvs' kvs, listDocKvs kvs' = true → listDocKvs kvs = true →
      ∀ h ∈ diffKvs o false [] kvs' kvs, StrictOK h) ∧
    (∀ k s prev a b c R A, listDocList a = true → listDocList b = true →
      prev.listDoc = true → listDocList R = true → listDocList A = true →
      ∀ h ∈ diffRest o [] k s prev a b c R A, StrictOK h) := by
  apply listDiff_induct o ho
    (mN := fun a b => ∀ h ∈ diffNode o false a b [], StrictOK h)
    (mK := fun kvs' kvs => ∀ h ∈ diffKvs o false [] kvs' kvs, StrictOK h)
    (mR := fun k s prev a b c R A => prev.listDoc = true → listDocList R = true →
      listDocList A = true → ∀ h ∈ diffRest o [] k s prev a b c R A, StrictOK h)
  · intro t t' xs ys ht ht' htt _ _ ih h hm
    rw [diffNode_arr_arr ho xs ys ht ht' htt] at hm
    exact ih rfl rfl rfl h hm
  · intro t xs b ht hlx hlb hb h hm
    rw [diffNode_arr_other ho xs b ht hb] at hm
    simp only [List.mem_singleton] at hm
    subst hm
    exact ⟨rfl, rfl, by simp [hunkListDoc, listDocList, Json.listDoc, hlx, nodeList_listDoc hlb]⟩
  · intro kvs kvs' hl hl' ih h hm
    rw [diffNode_obj_obj] at hm
    rcases List.mem_append.1 hm with hm | hm
    · exact ih h hm
    · obtain ⟨kv, hkv, rfl⟩ := List.mem_map.1 hm
      exact ⟨rfl, by simp [strictPath], by
        simp [hunkListDoc, listDocList,
          nodeList_listDoc (listDocKvs_mem hl' kv (List.mem_filter.1 hkv).1)]⟩
  · intro kvs b hl hlb hb h hm
    rw [diffNode_obj_other o kvs b hb] at hm
    simp only [List.mem_singleton] at hm
    subst hm
    exact ⟨rfl, rfl, by simp [hunkListDoc, listDocList, Json.listDoc, hl, hlb]⟩
  · intro a b h1 h2 hlb h hm
    rw [diffNode_scalar o a b h1 h2] at hm
    unfold diffCommon at hm
    have hla : a.listDoc = true := by
      cases a with
      | arr t xs => exact absurd rfl (h1 t xs)
      | obj kvs => exact absurd rfl (h2 kvs)
      | _ => rfl
    split at hm
    · cases hm
    · simp only [Bool.false_eq_true, if_false, List.mem_singleton] at hm
      subst hm
      exact ⟨rfl, rfl, by simp [hunkListDoc, listDocList, nodeList_listDoc hla, nodeList_listDoc hlb]⟩
  · intro kvs' h hm
    simp [diffKvs_nil] at hm
  · intro kvs' k v r hl' hv _ ihN ihK h hm
    rw [diffKvs_cons] at hm
    rcases List.mem_append.1 hm with hm | hm
    · cases hlk : alookup k kvs' with
      | some v' =>
        simp only [hlk] at hm
        rw [diffNode_at o ho v v' hv (alookup_listDoc hlk hl')] at hm
        obtain ⟨h0, hh0, rfl⟩ := List.mem_map.1 hm
        exact (ihN v' (alookup_listDoc hlk hl') h0 hh0).shift (by simp [strictPath])
      | none =>
        simp only [hlk, List.mem_singleton] at hm
        subst hm
        exact ⟨rfl, by simp [strictPath], by simp [hunkListDoc, listDocList, nodeList_listDoc hv]⟩
    · exact ihK h hm
  · intro k s prev c R A b hlb hp hR hA h hm
    rw [diffRest_nilA] at hm
    exact accHunk_strictOK hp rfl hR (Rec.listDocList_append.2 ⟨hA, hlb⟩) h hm
  · intro k s prev c R A a hne hla hp hR hA h hm
    rw [diffRest_nilB _ _ _ _ _ _ _ _ _ hne] at hm
    exact accHunk_strictOK hp rfl (Rec.listDocList_append.2 ⟨hR, hla⟩) hA h hm
  · intro k s prev c R A x a' y b' hl hl' hA hB ih hp hR hA' h hm
    simp only [listDocList, Bool.and_eq_true] at hl hl'
    rw [diffRest_cons] at hm
    simp only [hA, hB, Bool.and_self, if_true] at hm
    rcases List.mem_append.1 hm with hm | hm
    · exact accHunk_strictOK hp hl.1 hR hA' h hm
    · exact ih hl'.1 rfl rfl h hm
  · intro k s prev c R A x a' y b' hl hl' hA hB ih hp hR hA' h hm
    simp only [listDocList, Bool.and_eq_true] at hl'
    rw [diffRest_cons] at hm
    simp only [hA, hB, Bool.and_false, Bool.false_eq_true, if_false, if_true] at hm
    exact ih hp hR (Rec.listDocList_append.2 ⟨hA', by simp [listDocList, hl'.1]⟩) h hm
  · intro k s prev c R A x a' y b' hl hl' hA hB ih hp hR hA' h hm
    simp only [listDocList, Bool.and_eq_true] at hl
    rw [diffRest_cons] at hm
    simp only [hA, hB, Bool.false_and, Bool.false_eq_true, if_false, if_true] at hm
    exact ih hp (Rec.listDocList_append.2 ⟨hR, by simp [listDocList, hl.1]⟩) hA' h hm
  · intro k s prev c R A x a' y b' hl hl' hA hB hs ihN ihR hp hR hA' h hm
    simp only [listDocList, Bool.and_eq_true] at hl hl'
    rw [diffRest_cons] at hm
    simp only [hA, hB, hs, Bool.false_and, Bool.false_eq_true, if_false, if_true] at hm
    rcases List.mem_append.1 hm with hm | hm
    · rcases List.mem_append.1 hm with hm | hm
      · refine accHunk_strictOK hp ?_ hR hA' h hm
        split
        · cases a' with
          | nil => rfl
          | cons z _ =>
            simp only [listDocList, Bool.and_eq_true] at hl
            exact hl.2.1
        · exact hl.1
      · rw [diffNode_at o ho x y hl.1 hl'.1] at hm
        -- through `subAfter`: only the after-context may have become the next element of the source
        obtain ⟨h1, hm1, e1, e2, e3, e4, e5, ha⟩ := mem_subAfter' hm
        obtain ⟨h0, hh0, rfl⟩ := List.mem_map.1 hm1
        have g := (ihN h0 hh0).shift (e := PathElem.idx (k : Int)) (by simp [strictPath])
        have hnx : (a'.headD Json.void).listDoc = true := by
          cases a' with
          | nil => rfl
          | cons z _ =>
            simp only [listDocList, Bool.and_eq_true] at hl
            exact hl.2.1
        refine ⟨by rw [e5]; exact g.1, by rw [e1]; exact g.2.1, ?_⟩
        have g3 := g.2.2
        simp only [hunkListDoc, Bool.and_eq_true] at g3 ⊢
        rw [e2, e3, e4]
        rcases ha with ha | ha
        · rw [ha]; exact g3
        · rw [ha]
          exact ⟨g3.1, by simp only [listDocList, Bool.and_true]; exact hnx⟩
    · exact ihR hl'.1 rfl rfl h hm
  · intro k s prev c R A x a' y b' hl hl' hA hB hs ih hp hR hA' h hm
    simp only [listDocList, Bool.and_eq_true] at hl hl'
    rw [diffRest_cons] at hm
    simp only [hA, hB, hs, Bool.false_and, Bool.false_eq_true, if_false] at hm
    exact ih hp (Rec.listDocList_append.2 ⟨hR, by simp [listDocList, hl.1]⟩)
      (Rec.listDocList_append.2 ⟨hA', by simp [listDocList, hl'.1]⟩) h hm

/-- strict key / index hunks with list-document payloads keep list documents list documents -/
theorem patchAll_listDoc' (sw : Bool) (d : Diff) :
    ∀ (n : Json), d.all (fun h => !h.merge && strictPath h.path && hunkListDoc h) = true →
      n.listDoc = true → ∀ r, patchAll sw n d = .ok r → r.listDoc = true := by
  induction d with
  | nil => intro n _ hn r he; simp only [patchAll, Outcome.ok.injEq] at he; rw [← he]; exact hn
  | cons h d ih =>
    intro n hd hn r he
    simp only [List.all_cons, Bool.and_eq_true, Bool.not_eq_true'] at hd
    obtain ⟨⟨⟨hm, hp⟩, hh⟩, hd⟩ := hd
    simp only [patchAll, hm] at he
    cases hP : patchNode sw false n h.path h.before h.remove h.add h.after with
    | ok n1 =>
      rw [hP] at he
      exact ih n1 hd (patchNode_strict_listDoc sw n h h.path hp hn hh n1 hP) r he
    | err => rw [hP] at he; cases he
    | panic => rw [hP] at he; cases he

/-! ## M. C07, "no hunk is redundant", LIST reading, strict strategy, the general case -/

/-- **No hunk of `a.Diff(b)` is redundant** (list reading, strict strategy; objects, arrays in arrays,
    containers as list elements: every document as read from text). Leave any single hunk out: if the
    remaining hunks apply at all under the documented meaning of hunks (`applyStrictAll`), the result
    is not structurally equal to `b`. -/
theorem no_redundant_hunk_list (L : FloatLaws) (o : Opts) (ho : dispatchTag o = .list)
    (hm : isMerge o = false) (a b : Json)
    (ha1 : a.rawDoc = true) (ha2 : a.wf = true) (ha3 : a.finiteNums = true) (ha4 : memOK a = true)
    (hb1 : b.listDoc = true) (hb2 : b.wf = true) (hb3 : b.finiteNums = true) (hb4 : memOK b = true)
    (H : HashOK o a b) (Z : ZeroOK a b)
    (d1 d2 : Diff) (h : Hunk) (hd : diffM o a b = d1 ++ h :: d2) (r : Json)
    (hr : applyStrictAll a (d1 ++ d2) = some r) : specEq r b = false := by
  have hal := rawDoc_listDoc a ha1
  have ha : Good a := ⟨hal, ha2, ha3, ha4⟩
  have hb : Good b := ⟨hb1, hb2, hb3, hb4⟩
  have N : NoCollision o (DPL.subterms a) (DPL.subterms b) :=
    ⟨fun x hx y hy h => by
      have e := H x hx y hy h
      exact ⟨e, by rw [specEq_symm L (good_subterms b hb y hy) (good_subterms a ha x hx)]; exact e⟩,
     Z⟩
  unfold diffM at hd
  rw [hm] at hd
  exact (noRed_strict L o ho N).1 a b hal hb1 ha1 (fun _ h => h) (fun _ h => h) ha hb d1 h d2 hd r hr

/-- the same about the LIBRARY's `Patch` (`patchAll sw`, either variant): whatever it makes of `a` with
    the remaining hunks is not structurally equal to `b`, and not `Equals` to it -/
theorem no_redundant_hunk_list_patch (L : FloatLaws) (o : Opts) (ho : dispatchTag o = .list)
    (hm : isMerge o = false) (hp : precOf o = 0) (a b : Json)
    (ha1 : a.rawDoc = true) (ha2 : a.wf = true) (ha3 : a.finiteNums = true) (ha4 : memOK a = true)
    (hb1 : b.listDoc = true) (hb2 : b.wf = true) (hb3 : b.finiteNums = true) (hb4 : memOK b = true)
    (H : HashOK o a b) (Z : ZeroOK a b)
    (d1 d2 : Diff) (h : Hunk) (hd : diffM o a b = d1 ++ h :: d2) (sw : Bool) (r : Json)
    (hr : patchAll sw a (d1 ++ d2) = .ok r) : specEq r b = false ∧ equals o r b = false := by
  have hal := rawDoc_listDoc a ha1
  have hall : (d1 ++ d2).all (fun h => !h.merge && strictPath h.path && hunkListDoc h) = true := by
    rw [List.all_eq_true]
    intro h' hm'
    refine ((diff_strictOK o ho).1 a b hal hb1 h' ?_).toBool
    have : h' ∈ diffM o a b := by
      rw [hd]
      rcases List.mem_append.1 hm' with hm' | hm'
      · exact List.mem_append_left _ hm'
      · exact List.mem_append_right _ (List.mem_cons_of_mem _ hm')
    simpa [diffM, hm] using this
  obtain ⟨m, hm1, hm2⟩ := strictAll_result sw a (d1 ++ d2) hall hal r hr
  have hne := no_redundant_hunk_list L o ho hm a b ha1 ha2 ha3 ha4 hb1 hb2 hb3 hb4 H Z d1 d2 h hd m hm1
  have hne' : specEq r b = false := by
    rw [← specEq_untag_left, hm2, specEq_untag_left]; exact hne
  refine ⟨hne', ?_⟩
  have hrl : r.listDoc = true := patchAll_listDoc' sw (d1 ++ d2) a hall hal r hr
  rw [equals_eq_equivB_list o ho r b hrl hb1, DPL.equivB_congr o [] ho rfl (by simpa [precOf] using hp)]
  exact hne'

end Part2

/-! ## N. boundary witness, non-vacuity -/

namespace Witness

/-- OUTSIDE the domain (`a.rawDoc` fails: a typed `jsonList` node, which no reader produces, against a
    plain `jsonArray`): the diff of the EMPTY typed list and the EMPTY plain array is one hunk
    replacing the whole value, and it IS redundant — leaving it out, nothing is applied and the
    document is already structurally equal to the target. (The known boundary
    `diff_list_vs_array_nonempty` of C05, read for C07.) This is why `no_redundant_hunk_list` asks
    `a.rawDoc` and not only `a.listDoc`. -/
theorem typed_list_redundant :
    diffM [] (.arr .list []) (.arr .raw []) =
      [] ++ ({ path := [], remove := [.arr .list []], add := [.arr .raw []] } : Hunk) :: [] ∧
    applyStrictAll (.arr .list []) ([] ++ []) = some (.arr .list []) ∧
    specEq (.arr .list []) (.arr .raw []) = true := by
  refine ⟨?_, rfl, by simp [specEq, equivB, dispatchTag, equivList]⟩
  unfold diffM
  rw [show isMerge [] = false from rfl,
    DPL.diffNode_arr_other (o := []) rfl [] (.arr .raw []) rfl (.inr ⟨rfl, [], rfl⟩)]
  simp [Json.nodeList, Json.isVoid]

/-- model only: why `objVoidFree a` in `merge_hunk_real_list` — a void member of the first object
    that the second lacks is "deleted" by a hunk although `a` holds nothing real there -/
theorem merge_void_member (o : Opts) (ho : dispatchTag o = .list) (hm : isMerge o = true) :
    diffM o (.obj [("k", .void)]) (.obj []) = [mh ["k"] .void] ∧
    equals o .void .void = true := by
  refine ⟨?_, by simp [equals, Json.isVoid]⟩
  rw [diffM_eq_dl o ho hm _ _ (by decide) (by decide) (by decide)]
  simp [dl, dlKvs, alookup]

end Witness

namespace Example

/-- `{"a":{"x":"1","y":"2"},"k":["p"],"r":"gone","t":"u"}` -/
def mA : Json :=
  .obj [("a", .obj [("x", .str "1"), ("y", .str "2")]), ("k", .arr .raw [.str "p"]),
    ("r", .str "gone"), ("t", .str "u")]
/-- `{"a":{"x":"1","y":"3"},"k":["q"],"n":"new","t":"u"}` -/
def mB : Json :=
  .obj [("a", .obj [("x", .str "1"), ("y", .str "3")]), ("k", .arr .raw [.str "q"]),
    ("n", .str "new"), ("t", .str "u")]

theorem m_docs : mA.wf = true ∧ mA.rawDoc = true ∧ objVoidFree mA = true ∧
    mB.wf = true ∧ mB.rawDoc = true ∧ objVoidFree mB = true := by decide

/-- the merge diff of the pair: a member two keys deep replaced, an array replaced wholesale (as a
    typed list), a member deleted, a member added; the equal member `t` is not mentioned -/
theorem m_diff : diffM [.merge] mA mB =
    [mh ["a", "y"] (.str "3"), mh ["k"] (.arr .list [.str "q"]), mh ["r"] .void,
      mh ["n"] (.str "new")] := by
  rw [diffM_eq_dl [.merge] rfl rfl mA mB m_docs.2.1 m_docs.2.2.2.2.1 m_docs.2.2.2.2.2]
  simp [mA, mB, dl, dlKvs, alookup, consE, equals, equalsList, effTag, Json.dispatch]

/-- every hunk of the example diff is real (`merge_hunk_real_list`) -/
example : ∀ h ∈ diffM [.merge] mA mB, MergeHunkReal [.merge] mA mB h :=
  merge_hunk_real_list [.merge] rfl rfl rfl mA mB m_docs.1 m_docs.2.1 m_docs.2.2.1 m_docs.2.2.2.1
    m_docs.2.2.2.2.1 m_docs.2.2.2.2.2

/-- the equal member `t` is not mentioned (`merge_equal_subdoc_not_mentioned_list`) -/
example : ∀ h ∈ diffM [.merge] mA mB, ¬ [PathElem.key "t"] <+: h.path :=
  merge_equal_subdoc_not_mentioned_list [.merge] rfl rfl rfl mA mB m_docs.1 m_docs.2.1
    m_docs.2.2.2.1 m_docs.2.2.2.2.1 m_docs.2.2.2.2.2 (q := [.key "t"]) rfl (v := .str "u")
    (v' := .str "u") (by simp [Real.getAt, mA, alookup]) (by simp [Real.getAt, mB, alookup])
    (by simp [equals])

/-- whatever hunk is left out, the library's `Patch` with the rest does not give the target -/
example (d1 d2 : Diff) (h : Hunk) (hd : diffM [.merge] mA mB = d1 ++ h :: d2) :
    ∃ r, patchM mA (d1 ++ d2) = .ok r ∧ equals [.merge] r mB = false :=
  merge_no_redundant_hunk_list true [.merge] rfl rfl rfl mA mB m_docs.1 m_docs.2.1 m_docs.2.2.1
    m_docs.2.2.2.1 m_docs.2.2.2.2.1 m_docs.2.2.2.2.2 d1 d2 h hd

/-- SET+MERGE and MULTISET+MERGE: the pair of JdProofs.MergeSetModes
    (`{"s":["x","y"],"u":"x","v":["x"]}` → `{"s":["y","x"],"t":[true],"v":["x","z"]}`) satisfies
    every hypothesis of the three theorems (given `FloatEq0`) -/
example (F : FloatEq0) (d1 d2 : Diff) (h : Hunk)
    (hd : diffM [.set, .merge] MSet.Example.exA MSet.Example.exB = d1 ++ h :: d2) :
    (∀ h ∈ diffM [.set, .merge] MSet.Example.exA MSet.Example.exB,
      MergeHunkReal [.set, .merge] MSet.Example.exA MSet.Example.exB h) ∧
    ∃ r, patchM MSet.Example.exA (d1 ++ d2) = .ok r ∧
      equals [.set, .merge] r MSet.Example.exB = false :=
  ⟨merge_hunk_real_setmodes F [.set, .merge] rfl (.inl rfl) rfl rfl _ _ MSet.Example.ex_docs.1
      (by decide) MSet.Example.ex_docs.2.1 MSet.Example.ex_docs.2.2.2 MSet.Example.ex_hashFaithful_set,
    merge_no_redundant_hunk_setmodes F true [.set, .merge] rfl (.inl rfl) rfl rfl _ _
      MSet.Example.ex_docs.1 (by decide) MSet.Example.ex_docs.2.1 MSet.Example.ex_docs.2.2.2
      MSet.Example.ex_hashFaithful_set d1 d2 h hd⟩

example (F : FloatEq0) (d1 d2 : Diff) (h : Hunk)
    (hd : diffM [.mset, .merge] MSet.Example.exA MSet.Example.exB = d1 ++ h :: d2) :
    ∃ r, patchM MSet.Example.exA (d1 ++ d2) = .ok r ∧
      equals [.mset, .merge] r MSet.Example.exB = false :=
  merge_no_redundant_hunk_setmodes F true [.mset, .merge] rfl (.inr rfl) rfl rfl _ _
    MSet.Example.ex_docs.1 (by decide) MSet.Example.ex_docs.2.1 MSet.Example.ex_docs.2.2.2
    MSet.Example.ex_hashFaithful_mset d1 d2 h hd

/-- `{"l":["a",{"k":"u"},"c"],"m":"x"}` -/
def pA : Json :=
  .obj [("l", .arr .raw [.str "a", .obj [("k", .str "u")], .str "c"]), ("m", .str "x")]
/-- `{"l":["b",{"k":"v"},"c"],"n":"y"}` -/
def pB : Json :=
  .obj [("l", .arr .raw [.str "b", .obj [("k", .str "v")], .str "c"]), ("n", .str "y")]

theorem p_docs : pA.rawDoc = true ∧ pA.wf = true ∧ pA.finiteNums = true ∧ DPL.memOK pA = true ∧
    pB.listDoc = true ∧ pB.wf = true ∧ pB.finiteNums = true ∧ DPL.memOK pB = true := by decide

set_option maxRecDepth 8000 in
/-- no hash collision and no signed-zero pair between the sub-terms (7 × 7 pairs) -/
theorem p_hash (L : FloatLaws) : DPL.HashOK [] pA pB ∧ DPL.ZeroOK pA pB := by
  refine ⟨?_, ?_⟩
  · intro x hx y hy h
    simp only [pA, pB, DPL.subterms, DPL.subtermsList, DPL.subtermsKvs, List.cons_append,
      List.nil_append, List.append_nil, List.mem_cons, List.not_mem_nil, or_false] at hx hy
    have g1 : DPL.Good (Json.str "c") := ⟨by decide, by decide, by decide, by decide⟩
    rcases hx with rfl | rfl | rfl | rfl | rfl | rfl | rfl <;>
      rcases hy with rfl | rfl | rfl | rfl | rfl | rfl | rfl <;>
      first
        | exact DPL.specEq_refl L g1
        | exact absurd h (by decide +kernel)
  · intro u v hu hv _
    simp [pA, DPL.subterms, DPL.subtermsList, DPL.subtermsKvs] at hu

-- four hunks: a list hunk at `l[0]` (after-context: the object), one INSIDE the object standing at
-- `l[1]`, the removed member `m`, the added member `n`
#eval (diffM [] pA pB).map (fun h => (h.path, h.remove, h.add))
-- every leave-one-out sub-diff applies (so the hypothesis `hr` of the theorem is satisfiable) …
#eval (List.range 4).map (fun i =>
  (applyStrictAll pA ((diffM [] pA pB).eraseIdx i)).isSome)
-- … and none of the results is structurally equal to the target
#eval (List.range 4).map (fun i =>
  (applyStrictAll pA ((diffM [] pA pB).eraseIdx i)).map (fun r => specEq r pB))

/-- the diff of the pair is not empty -/
theorem p_diff_ne (L : FloatLaws) : diffM [] pA pB ≠ [] := by
  intro e
  obtain ⟨a1, a2, a3, a4, b1, b2, b3, b4⟩ := p_docs
  obtain ⟨H, Z⟩ := p_hash L
  obtain ⟨r, h1, h2, _⟩ := DPL.diffM_list_correct L [] rfl rfl pA pB (rawDoc_listDoc _ a1) a2 a3 a4
    b1 b2 b3 b4 H Z
  rw [e] at h1
  simp only [applyStrictAll, Option.some.injEq] at h1
  subst h1
  simp [specEq, equivB, pA, pB, equivKvs, alookup] at h2

/-- whatever hunk of the example diff is left out: the reference interpreter and the library's
    `Patch` do not reach the target with the rest -/
example (L : FloatLaws) (d1 d2 : Diff) (h : Hunk) (hd : diffM [] pA pB = d1 ++ h :: d2) :
    (∀ r, applyStrictAll pA (d1 ++ d2) = some r → specEq r pB = false) ∧
    (∀ r, patchM pA (d1 ++ d2) = .ok r → specEq r pB = false ∧ equals [] r pB = false) := by
  obtain ⟨a1, a2, a3, a4, b1, b2, b3, b4⟩ := p_docs
  obtain ⟨H, Z⟩ := p_hash L
  exact ⟨fun r hr => no_redundant_hunk_list L [] rfl rfl pA pB a1 a2 a3 a4 b1 b2 b3 b4 H Z d1 d2 h
      hd r hr,
    fun r hr => no_redundant_hunk_list_patch L [] rfl rfl rfl pA pB a1 a2 a3 a4 b1 b2 b3 b4 H Z d1
      d2 h hd true r hr⟩

end Example

end Jd.RealM

#print axioms Jd.RealM.merge_hunk_real_list
#print axioms Jd.RealM.merge_equal_subdoc_not_mentioned_list
#print axioms Jd.RealM.merge_no_redundant_hunk_list
#print axioms Jd.RealM.merge_hunk_real_setmodes
#print axioms Jd.RealM.merge_equal_subdoc_not_mentioned_setmodes
#print axioms Jd.RealM.merge_no_redundant_hunk_setmodes
#print axioms Jd.RealM.no_redundant_hunk_list
#print axioms Jd.RealM.no_redundant_hunk_list_patch
