/-
  JdProofs.KeysMerge — properties C01 ("diff-then-patch reproduces the target") and C11 ("the
  rendered RFC 7386 patch means the same as the merge diff") of the v2 library for the option
  combination SetKeys together with MERGE (`a.Diff(b, SetKeys(ks...), MERGE)`, CLI
  `jd -setkeys id -f merge`), which JdProofs/DiffPatchKeys.lean and MergeSetModes.lean left open
  ("Not proved: SetKeys with MERGE"). Namespace `Jd.KM`. Continued in JdProofs/KeysMergeB.lean (the
  EXACT domain, the proof that the property is false outside it, witnesses).

  WHAT THE CODE DOES (set.go `jsonSet.diff`, patch_common.go `patch`). Under the merge strategy two
  arrays that are not `Equals` (as sets of member hash codes) are replaced wholesale by ONE merge hunk.
  Two arrays that ARE `Equals` are not left alone: the strict set diff runs on them, identity by
  identity, and for every identity borne by an object on both sides it sub-diffs the LAST bearer
  in the first array against the LAST bearer in the second, with the merge strategy, below a
  `PathSetKeys` element. If that sub-diff is not empty its hunks are merge hunks whose path holds a
  `PathSetKeys` element, and `Patch` (and `RenderMerge`, which patches an empty document) rejects
  every such hunk: "merge patch path must be composed of only strings". With SET alone the
  identity of an object is its hash code, so the sub-diff of two `Equals` arrays is always empty
  (JdProofs/MergeSetModes.lean); with SetKeys it is empty iff the two last bearers have the same
  hash code.

  MAIN THEOREMS (all about the library functions `diffM`, `patchAll sw` / `patchM`, `equals`,
  `renderMergeDoc` of the model, and the specs `equivB`, `Spec.mergePatch`)
    * `merge_diff_then_patch_setkeys` (target 1): for options `o` with `isMerge o = true`,
      `dispatchTag o = .set`, `precOf o = 0` — `keysOf o` ARBITRARY, so `keysOf o = some ks` is the
      case asked for and `keysOf o = none` gives back `DPK.merge_diff_then_patch_setmodes` for SET;
      also `[SET, SetKeys, MERGE, Precision(0)]` as the CLI builds it — documents `a b` with
      `setDoc`, `b.nullFree`, `objVoidFree b`, `HashFaithful o (subterms a ++ subterms b)`,
      `DES.IdentInj o (subterms b)`; either variant `sw` of the patch code:
        ∃ r, patchAll sw a (diffM o a b) = .ok r ∧ equals o r b = true ∧ equivB o r b = true.
    * `patchM_diffM_SetKeys_MERGE` (target 2): the same for the call
      `a.Patch(a.Diff(b, SetKeys(ks...), MERGE))`, `o = [.setKeys ks, .merge]`.
    * `merge_render_correct_setkeys` (target 3, C11; `…_SetKeys_MERGE` for the literal option list;
      `…_obj` without `a ≠ b` when `a` is an object; `merge_render_doc_setkeys`: the rendered document
      is neither void nor null): under the same hypotheses and `equals o a b = false`,
        ∃ m, renderMergeDoc (diffM o a b) = .ok m ∧
             equals o (mergePatch a m) b = true ∧ equivB o (mergePatch a m) b = true.
    * `diffNode_eq_ds_keys`, `patchAll_diffM_keys`, `renderMergeDoc_diffM_keys`: under these hypotheses
      the SetKeys+MERGE diff is the pure function `MSet.ds` of JdProofs/MergeSetModes.lean hunk by
      hunk (key paths only, `Equals` arrays produce nothing), `Patch` applies it as `Merge.mapply` and
      `RenderMerge` renders it as for SET+MERGE. The inductions `DPK.memSound_set` and `MSet.sound`
      are reused as they are (they never used `keysOf o = none`); the one new ingredient is
      `DES.diffNode_nil_of_equals_keys` (C05 with SetKeys, either strategy) in place of
      `MSet.diffNode_merge_nil_of_equivB`.
    * `patchNode_merge_bad`, `patchAll_bad_not_ok`, `patchAll_bad_err`, `renderMergeDoc_bad_err`
      (general, NO hypothesis on the documents): a merge hunk whose path leaves the object keys
      before its last element (`badPath`) is rejected by `patchNode` on EVERY document; a diff that
      contains one is rejected as a whole by `Patch` (outcome `.err`, using C13 `patchAll_ne_panic`)
      and by `RenderMerge`.
  HYPOTHESES and why
    `isMerge o`, `dispatchTag o = .set`, `precOf o = 0`: the reading (no Precision: hash codes ignore it).
    `a.setDoc`, `b.setDoc`, `b.nullFree`, `objVoidFree b`: exactly those of the SET+MERGE theorems
      (documents as read from JSON text; `null` in `b` would mean "delete"; void is not a value).
    `HashFaithful o (subterms a ++ subterms b)`: equal hash codes only for equivalent nodes, exactly as
      for SET+MERGE (needed there against FNV collisions for the `equals` form and against the
      aliases of KF-C04-alias for the `equivB` form: `MSet.Example.alias_needs_hashFaithful`). I did not
      look for a separate SetKeys witness.
    `DES.IdentInj o (subterms b)`: in every array of the TARGET document two members with the same
      identity have the same hash code (duplicated elements are allowed). This is the only part of
      `DPK.KeysHyp` that is needed (`hf` and `ib`; NOT `kd`, `ksep`, `pf`, `kt`). It is implied by the
      SetKeys precondition "identities pairwise distinct within every array of `b`"
      (`KM.identInj_of_keyedDistinct`, `KM.merge_diff_then_patch_setkeys_distinct`, file B).
      NEEDED: without it the statement is FALSE on the model and on the Go code:
      `KM.Witness.setkeys_merge_breaks` (file B) — every other hypothesis holds, `Patch` AND
      `RenderMerge` return an error. It is not the weakest possible hypothesis: file B replaces it
      by the exact condition `clash o a b = false` and proves the equivalence.
  NON-VACUITY: `Example.ex_run`, `Example.ex_render` (a set of keyed members listed in another
    order — nothing emitted —, another one replaced wholesale, a deleted key holding `null` in `a`,
    an added key; `HashFaithful` checked on the 22 sub-terms).
  NOT PROVED: SetKeys+MERGE together with a Precision option.
-/
import JdModel
import JdSpec
import JdProofs.Common
import JdProofs.DiffEmptySet
import JdProofs.MergeProofs
import JdProofs.MergeSetModes
import JdProofs.DiffPatchKeys
import JdProofs.NoPanic

namespace Jd.KM
open Jd Jd.Spec Jd.Merge Jd.SetDP
open Jd.MSet (ds dsKvs GoodS Rel)
open Jd.DES (DiffFaithful KindSepH IdentInj)

/-! ## 1. the merge diff under SetKeys is the pure function `MSet.ds` -/

/-- the library's merge diff under SetKeys is `MSet.ds`, hunk by hunk (the SetKeys version of
    `MSet.diffNode_eq_ds`): arrays that are `Equals` produce nothing -/
theorem diffNode_eq_ds_keys (F : FloatEq0) {o : Opts} (hd : dispatchTag o = .set)
    (hp : precOf o = 0) {SA SB : List Json} (FH : DiffFaithful o SA SB) (KH : KindSepH o SA SB)
    (IB : IdentInj o SB) :
    ∀ a b, DocOk a → DocOk b → Within SA a → Within SB b → objVoidFree b = true →
      ∀ q : List String,
        diffNode o true a b (q.map .key) = (ds o a b).map (fun e => mh (q ++ e.1) e.2) := by
  have hm : dispatchTag o = .set ∨ dispatchTag o = .mset := .inl hd
  have scalar : ∀ a b : Json, a.isObj = false → Merge.isArr a = false → ∀ q : List String,
      diffNode o true a b (q.map .key) = (ds o a b).map (fun e => mh (q ++ e.1) e.2) := by
    intro a b h1 h2 q
    rw [Merge.diffNode_scalar o h1 h2, MSet.ds_scalar o h1 h2, diffCommon]
    split <;> simp [mh]
  intro a
  induction a using jsonInd with
  | void => intro b _ _ _ _ _ q; exact scalar _ b rfl rfl q
  | null => intro b _ _ _ _ _ q; exact scalar _ b rfl rfl q
  | bool x => intro b _ _ _ _ _ q; exact scalar _ b rfl rfl q
  | num x => intro b _ _ _ _ _ q; exact scalar _ b rfl rfl q
  | str x => intro b _ _ _ _ _ q; exact scalar _ b rfl rfl q
  | arr t xs _ =>
    intro b ha hb wa wb hv q
    have ht := ha.raw
    subst ht
    cases b with
    | arr t' ys =>
      have ht' := hb.raw
      subst ht'
      rw [MSet.ds_arr_arr]
      cases he : equals o (.arr .raw xs) (.arr .raw ys) with
      | true =>
        rw [DES.diffNode_nil_of_equals_keys F hd hp true FH KH IB _ ha wa _ hb wb he]
        simp
      | false =>
        rw [MSet.diffNode_merge_arr_ne hm xs ys _ he]
        simp [mh]
    | _ => rw [MSet.diffNode_merge_arr_other hm xs _ rfl, MSet.ds_arr_other o _ xs rfl]; simp [mh]
  | obj kvs ih =>
    intro b ha hb wa wb hv q
    cases b with
    | obj kvs' =>
      simp only [objVoidFree] at hv
      have hkv : ∀ r : List (String × Json), (∀ kv ∈ r, kv ∈ kvs) →
          diffKvs o true (q.map .key) kvs' r
            = (dsKvs o kvs' r).map (fun e => mh (q ++ e.1) e.2) := by
        intro r
        induction r with
        | nil => intro _; rw [DE.diffKvs_nil, MSet.dsKvs_nil]; rfl
        | cons kv r ihr =>
          intro hsub
          obtain ⟨k, v⟩ := kv
          have hm1 : (k, v) ∈ kvs := hsub _ List.mem_cons_self
          rw [DE.diffKvs_cons, MSet.dsKvs_cons, List.map_append,
            ihr (fun kv hh => hsub kv (List.mem_cons_of_mem _ hh))]
          congr 1
          cases hl : alookup k kvs' with
          | none => simp [mh]
          | some v' =>
            have hm2 := mem_of_alookup hl
            have := ih k v hm1 v' (ha.val hm1) (hb.val hm2) (wa.val hm1) (wb.val hm2)
              (alookup_objVoidFree hl hv) (q ++ [k])
            simp only [List.map_append, List.map_cons, List.map_nil] at this
            simp only [this]
            simp [consE, Function.comp_def]
      rw [DE.diffNode_obj_obj, MSet.ds_obj_obj, List.map_append, hkv kvs (fun _ hh => hh),
        additions_eq q kvs kvs' hv]
    | _ =>
      rw [diffNode.eq_def, MSet.ds_obj_other o kvs rfl]; simp [mh]

/-- `HashFaithful` separates objects from non-objects -/
theorem kindSepH_of_hashFaithful {o : Opts} {SA SB : List Json}
    (HF : HashFaithful o (SA ++ SB)) : KindSepH o SA SB := by
  intro x hx y hy e
  have h := HF x (List.mem_append.2 (.inl hx)) y (List.mem_append.2 (.inr hy)) e
  cases x <;> cases y <;> first | rfl | (simp [equivB] at h)

/-! ## 2. C01: diff, then patch in memory -/

theorem patchAll_diffM_keys (F : FloatEq0) (sw : Bool) (o : Opts) (hmg : isMerge o = true)
    (hd : dispatchTag o = .set) (hp : precOf o = 0)
    (a b : Json) (ha : a.setDoc = true) (hb : b.setDoc = true) (hbv : objVoidFree b = true)
    (HF : HashFaithful o (subterms a ++ subterms b)) (IB : IdentInj o (subterms b)) :
    patchAll sw a (diffM o a b) = .ok (mapply (ds o a b) a) := by
  have FH := DES.diffFaithful_of_hashFaithful F (.inl hd) hp (docOk_of_setDoc ha)
    (docOk_of_setDoc hb) HF
  have h := diffNode_eq_ds_keys F hd hp FH (kindSepH_of_hashFaithful HF) IB a b
    (docOk_of_setDoc ha) (docOk_of_setDoc hb) (DES.within_subterms a) (DES.within_subterms b) hbv []
  simp only [List.map_nil, List.nil_append] at h
  unfold diffM
  rw [hmg, h, patchAll_mh]

/-- **C01, SetKeys together with MERGE, in memory** (any options reading arrays as sets and
    selecting the merge strategy, no Precision; `keysOf o` arbitrary, in particular
    `keysOf o = some ks`; either variant `sw` of the patch code) -/
theorem merge_diff_then_patch_setkeys (F : FloatEq0) (L : FloatLaws) (sw : Bool) (o : Opts)
    (hmg : isMerge o = true) (hd : dispatchTag o = .set) (hp : precOf o = 0) (a b : Json)
    (ha : a.setDoc = true) (hb : b.setDoc = true) (hbn : b.nullFree = true)
    (hbv : objVoidFree b = true) (HF : HashFaithful o (subterms a ++ subterms b))
    (IB : IdentInj o (subterms b)) :
    ∃ r, patchAll sw a (diffM o a b) = .ok r ∧ equals o r b = true ∧ equivB o r b = true := by
  have G : GoodS (subterms a ++ subterms b) b := MSet.goodS_of_setDoc hb hbn hbv
  have Sd := DPK.memSound_set F L (.inl hd) hp HF a (docOk_of_setDoc ha)
    (fun z hz => List.mem_append.2 (Or.inl hz)) b G
  exact ⟨_, patchAll_diffM_keys F sw o hmg hd hp a b ha hb hbv HF IB, Sd.1, Sd.2⟩

/-- the library call `a.Patch(a.Diff(b, SetKeys(ks...), MERGE))` -/
theorem patchM_diffM_SetKeys_MERGE (F : FloatEq0) (L : FloatLaws) (ks : List String) (a b : Json)
    (ha : a.setDoc = true) (hb : b.setDoc = true) (hbn : b.nullFree = true)
    (hbv : objVoidFree b = true)
    (HF : HashFaithful [.setKeys ks, .merge] (subterms a ++ subterms b))
    (IB : IdentInj [.setKeys ks, .merge] (subterms b)) :
    ∃ r, patchM a (diffM [.setKeys ks, .merge] a b) = .ok r ∧
      equals [.setKeys ks, .merge] r b = true ∧ equivB [.setKeys ks, .merge] r b = true :=
  merge_diff_then_patch_setkeys F L true [.setKeys ks, .merge] rfl rfl rfl a b ha hb hbn hbv HF IB

/-! ## 3. C11: the rendered RFC 7386 patch, applied by the reference algorithm -/

/-- what `RenderMerge` returns on the SetKeys+MERGE diff of two documents of the domain -/
theorem renderMergeDoc_diffM_keys (F : FloatEq0) (o : Opts) (hmg : isMerge o = true)
    (hd : dispatchTag o = .set) (hp : precOf o = 0)
    (a b : Json) (ha : a.setDoc = true) (hb : b.setDoc = true) (hbv : objVoidFree b = true)
    (HF : HashFaithful o (subterms a ++ subterms b)) (IB : IdentInj o (subterms b)) :
    renderMergeDoc (diffM o a b)
      = .ok (if ds o a b = [] then .obj [] else mapply (MSet.rs o a b) .void) := by
  have FH := DES.diffFaithful_of_hashFaithful F (.inl hd) hp (docOk_of_setDoc ha)
    (docOk_of_setDoc hb) HF
  have h := diffNode_eq_ds_keys F hd hp FH (kindSepH_of_hashFaithful HF) IB a b
    (docOk_of_setDoc ha) (docOk_of_setDoc hb) (DES.within_subterms a) (DES.within_subterms b) hbv []
  simp only [List.map_nil, List.nil_append] at h
  unfold diffM
  rw [hmg, h, MSet.renderMergeDoc_mh]
  rfl

/-- **C11, SetKeys together with MERGE.** For documents as read from JSON text, `b` null-free, that
    `Equals` (under the options) tells apart, the merge diff renders to a JSON Merge Patch document
    `m`, and RFC 7386 `MergePatch(a, m)` is `b` under the set reading: for the library's `Equals`
    AND for the advertised equivalence `equivB`. -/
theorem merge_render_correct_setkeys (F : FloatEq0) (L : FloatLaws) (o : Opts)
    (hmg : isMerge o = true) (hd : dispatchTag o = .set) (hp : precOf o = 0) (a b : Json)
    (ha : a.setDoc = true) (hb : b.setDoc = true) (hbn : b.nullFree = true)
    (hbv : objVoidFree b = true) (HF : HashFaithful o (subterms a ++ subterms b))
    (IB : IdentInj o (subterms b)) (hne : equals o a b = false) :
    ∃ m, renderMergeDoc (diffM o a b) = .ok m ∧
      equals o (mergePatch a m) b = true ∧ equivB o (mergePatch a m) b = true := by
  have G : GoodS (subterms a ++ subterms b) b := MSet.goodS_of_setDoc hb hbn hbv
  have Sd := MSet.sound F L (.inl hd) hp HF a (docOk_of_setDoc ha)
    (fun z hz => List.mem_append.2 (Or.inl hz)) b G
  rw [renderMergeDoc_diffM_keys F o hmg hd hp a b ha hb hbv HF IB]
  by_cases hds : ds o a b = []
  · have := (Sd.1 hds).1
    rw [hne] at this
    cases this
  · rw [if_neg hds]
    exact ⟨_, rfl, (Sd.2 hds).2.2.1, (Sd.2 hds).2.2.2⟩

/-- the same without `a ≠ b` when the first document is an object (empty diff → `{}`) -/
theorem merge_render_correct_setkeys_obj (F : FloatEq0) (L : FloatLaws) (o : Opts)
    (hmg : isMerge o = true) (hd : dispatchTag o = .set) (hp : precOf o = 0) (a b : Json)
    (ha : a.setDoc = true) (hb : b.setDoc = true) (hbn : b.nullFree = true)
    (hbv : objVoidFree b = true) (HF : HashFaithful o (subterms a ++ subterms b))
    (IB : IdentInj o (subterms b)) (hobj : a.isObj = true) :
    ∃ m, renderMergeDoc (diffM o a b) = .ok m ∧
      equals o (mergePatch a m) b = true ∧ equivB o (mergePatch a m) b = true := by
  have G : GoodS (subterms a ++ subterms b) b := MSet.goodS_of_setDoc hb hbn hbv
  have Sd := MSet.sound F L (.inl hd) hp HF a (docOk_of_setDoc ha)
    (fun z hz => List.mem_append.2 (Or.inl hz)) b G
  rw [renderMergeDoc_diffM_keys F o hmg hd hp a b ha hb hbv HF IB]
  by_cases hds : ds o a b = []
  · rw [if_pos hds]
    refine ⟨_, rfl, ?_⟩
    have : mergePatch a (.obj []) = a := by
      cases a <;> simp_all [Json.isObj, mergePatch, mergeMembers]
    rw [this]; exact Sd.1 hds
  · rw [if_neg hds]
    exact ⟨_, rfl, (Sd.2 hds).2.2.1, (Sd.2 hds).2.2.2⟩

/-- the rendered patch is a proper merge patch document: never void, and `null` never at the root -/
theorem merge_render_doc_setkeys (F : FloatEq0) (L : FloatLaws) (o : Opts)
    (hmg : isMerge o = true) (hd : dispatchTag o = .set) (hp : precOf o = 0) (a b : Json)
    (ha : a.setDoc = true) (hb : b.setDoc = true) (hbn : b.nullFree = true)
    (hbv : objVoidFree b = true) (HF : HashFaithful o (subterms a ++ subterms b))
    (IB : IdentInj o (subterms b)) :
    ∃ m, renderMergeDoc (diffM o a b) = .ok m ∧ m.isVoid = false ∧ m.isNull = false := by
  have G : GoodS (subterms a ++ subterms b) b := MSet.goodS_of_setDoc hb hbn hbv
  have Sd := MSet.sound F L (.inl hd) hp HF a (docOk_of_setDoc ha)
    (fun z hz => List.mem_append.2 (Or.inl hz)) b G
  rw [renderMergeDoc_diffM_keys F o hmg hd hp a b ha hb hbv HF IB]
  by_cases hds : ds o a b = []
  · rw [if_pos hds]; exact ⟨_, rfl, rfl, rfl⟩
  · rw [if_neg hds]; exact ⟨_, rfl, (Sd.2 hds).1, (Sd.2 hds).2.1⟩

/-- C11 for the option list `[SetKeys(ks), MERGE]` itself -/
theorem merge_render_correct_SetKeys_MERGE (F : FloatEq0) (L : FloatLaws) (ks : List String)
    (a b : Json) (ha : a.setDoc = true) (hb : b.setDoc = true) (hbn : b.nullFree = true)
    (hbv : objVoidFree b = true)
    (HF : HashFaithful [.setKeys ks, .merge] (subterms a ++ subterms b))
    (IB : IdentInj [.setKeys ks, .merge] (subterms b))
    (hne : equals [.setKeys ks, .merge] a b = false) :
    ∃ m, renderMergeDoc (diffM [.setKeys ks, .merge] a b) = .ok m ∧
      equals [.setKeys ks, .merge] (mergePatch a m) b = true ∧
      equivB [.setKeys ks, .merge] (mergePatch a m) b = true :=
  merge_render_correct_setkeys F L [.setKeys ks, .merge] rfl rfl rfl a b ha hb hbn hbv HF IB hne

/-! ## 4. a merge hunk addressed through a set element can never be applied -/

/-- keys only up to a non-key element that is not the last one: the shape of the path of a merge
    hunk that `jsonSet.diff` produces below a `PathSetKeys` element (`[k₁,…,{"id":…},"v",…]`) -/
def badPath : Path → Bool
  | [] => false
  | .key _ :: r => badPath r
  | _ :: r => !r.isEmpty

theorem patchFresh_bad (n : Json) (before remove add after : List Json) :
    ∀ pa : Path, badPath pa = true → patchFresh true n pa before remove add after = .err
  | [], h => by simp [badPath] at h
  | .key k :: r, h => by
    have ih := patchFresh_bad n before remove add after r (by simpa [badPath] using h)
    rw [patchFresh]
    simp [Path.isLeaf, ih]
  | .idx i :: r, h => by
    cases r with
    | nil => simp [badPath] at h
    | cons e r' => simp [patchFresh, Path.isLeaf]
  | .set :: r, h => by
    cases r with
    | nil => simp [badPath] at h
    | cons e r' => simp [patchFresh, Path.isLeaf]
  | .mset :: r, h => by
    cases r with
    | nil => simp [badPath] at h
    | cons e r' => simp [patchFresh, Path.isLeaf]
  | .setKeys po :: r, h => by
    cases r with
    | nil => simp [badPath] at h
    | cons e r' => simp [patchFresh, Path.isLeaf]
  | .msetKeys po :: r, h => by
    cases r with
    | nil => simp [badPath] at h
    | cons e r' => simp [patchFresh, Path.isLeaf]

theorem patchNew_bad (before remove add after : List Json) :
    ∀ (pa : Path) (isObj : Bool), badPath pa = true →
      patchNew true isObj pa before remove add after = .err
  | pa, false, h => by rw [patchNew]; exact patchFresh_bad _ _ _ _ _ pa h
  | [], true, h => by simp [badPath] at h
  | .key k :: r, true, h => by
    have ih := patchNew_bad before remove add after r (true && !r.isEmpty)
      (by simpa [badPath] using h)
    rw [patchNew, ih]
  | .idx i :: r, true, h => by simp [patchNew]
  | .set :: r, true, h => by simp [patchNew]
  | .mset :: r, true, h => by simp [patchNew]
  | .setKeys po :: r, true, h => by simp [patchNew]
  | .msetKeys po :: r, true, h => by simp [patchNew]

theorem patchObjChild_err (sw : Bool) (k : String) (rest : Path)
    (before remove add after : List Json) :
    ∀ kvs : List (String × Json), (alookup k kvs).isSome = true →
      (∀ k' v, (k', v) ∈ kvs → patchNode sw true v rest before remove add after = .err) →
      patchObjChild sw true kvs k rest before remove add after = .err
  | [], h, _ => by simp [alookup] at h
  | (k', v) :: r, h, H => by
    rw [patchObjChild]
    by_cases e : k = k'
    · rw [if_pos e]; exact H k' v List.mem_cons_self
    · rw [if_neg e]
      refine patchObjChild_err sw k rest before remove add after r ?_
        (fun k'' v' hm => H k'' v' (List.mem_cons_of_mem _ hm))
      simpa [alookup, e] using h

/-- **a merge hunk whose path leaves the object keys before its last element is rejected by
    `Patch` on EVERY document** (patch_common.go: "merge patch path must be composed of only
    strings"), either variant `sw` -/
theorem patchNode_merge_bad (sw : Bool) (before remove add after : List Json) :
    ∀ (n : Json) (pa : Path), badPath pa = true →
      patchNode sw true n pa before remove add after = .err := by
  intro n
  induction n using jsonInd with
  | void => intro pa h; rw [patchNode.eq_def]; exact patchFresh_bad _ _ _ _ _ pa h
  | null => intro pa h; rw [patchNode.eq_def]; exact patchFresh_bad _ _ _ _ _ pa h
  | bool x => intro pa h; rw [patchNode.eq_def]; exact patchFresh_bad _ _ _ _ _ pa h
  | num x => intro pa h; rw [patchNode.eq_def]; exact patchFresh_bad _ _ _ _ _ pa h
  | str x => intro pa h; rw [patchNode.eq_def]; exact patchFresh_bad _ _ _ _ _ pa h
  | arr t xs _ =>
    intro pa h
    rw [patchNode.eq_def]
    simp only
    split <;> simp only [if_true] <;> exact patchFresh_bad _ _ _ _ _ pa h
  | obj kvs ih =>
    intro pa h
    rw [patchNode.eq_def]
    cases pa with
    | nil => simp [badPath] at h
    | cons e rest =>
      cases e with
      | key k =>
        have hr : badPath rest = true := by simpa [badPath] using h
        simp only
        cases hl : alookup k kvs with
        | some v0 =>
          simp only
          rw [patchObjChild_err sw k rest before remove add after kvs (by simp [hl])
            (fun k' v hm => ih k' v hm rest hr)]
          rfl
        | none =>
          simp only
          rw [patchNew_bad before remove add after rest _ hr]
          rfl
      | _ => rfl

/-- a diff that contains such a hunk is rejected as a whole (if no earlier hunk panics: see
    `patchAll_bad_not_ok` for the unconditional form) -/
theorem patchAll_bad_not_ok (sw : Bool) :
    ∀ (d : Diff) (n : Json), (d.any fun h => h.merge && badPath h.path) = true →
      ∀ r, patchAll sw n d ≠ .ok r
  | [], _, h => by simp at h
  | h0 :: d, n, h => by
    intro r
    rw [patchAll]
    by_cases hb : (h0.merge && badPath h0.path) = true
    · simp only [Bool.and_eq_true] at hb
      have := patchNode_merge_bad sw h0.before h0.remove h0.add h0.after n h0.path hb.2
      rw [hb.1, this]
      simp
    · have hd : (d.any fun h => h.merge && badPath h.path) = true := by
        simpa [List.any_cons, hb] using h
      cases hn : patchNode sw h0.merge n h0.path h0.before h0.remove h0.add h0.after with
      | ok n' => simpa using patchAll_bad_not_ok sw d n' hd r
      | err => simp
      | panic => simp

/-- … and the outcome is an ERROR (C13: `Patch` never panics) -/
theorem patchAll_bad_err (sw : Bool) (d : Diff) (n : Json)
    (h : (d.any fun h => h.merge && badPath h.path) = true) : patchAll sw n d = .err := by
  cases e : patchAll sw n d with
  | ok r => exact absurd e (patchAll_bad_not_ok sw d n h r)
  | err => rfl
  | panic => exact absurd e (patchAll_ne_panic sw n d)

/-- `RenderMerge` fails on such a diff as well (it applies the hunks to an empty document) -/
theorem renderMergeDoc_bad_err (d : Diff)
    (h : (d.any fun h => h.merge && badPath h.path) = true) : renderMergeDoc d = .err := by
  unfold renderMergeDoc
  have hne : d.isEmpty = false := by cases d <;> simp_all
  rw [hne]
  simp only [Bool.false_eq_true, if_false]
  split
  · rfl
  · apply patchAll_bad_err
    rw [List.any_map]
    exact h

/-! ## 5. non-vacuity -/

namespace Example

def o1 : Opts := [.setKeys ["id"], .merge]

/-- `{"s":[{"id":"1","v":"x"},{"id":"2"}],"t":[{"id":"1"}],"z":null}` -/
def exA : Json := .obj [
  ("s", .arr .raw [.obj [("id", .str "1"), ("v", .str "x")], .obj [("id", .str "2")]]),
  ("t", .arr .raw [.obj [("id", .str "1")]]), ("z", .null)]
/-- `{"s":[{"id":"2"},{"id":"1","v":"x"}],"t":[{"id":"3"}],"w":true}`: `s` is the same set of keyed
    members in another order (nothing is emitted for it, the sub-diffs of the members with equal
    identities are empty), `t` is another set (replaced wholesale), `z` is deleted, `w` is added -/
def exB : Json := .obj [
  ("s", .arr .raw [.obj [("id", .str "2")], .obj [("id", .str "1"), ("v", .str "x")]]),
  ("t", .arr .raw [.obj [("id", .str "3")]]), ("w", .bool true)]

theorem ex_docs : exA.setDoc = true ∧ exB.setDoc = true ∧ exB.nullFree = true ∧
    objVoidFree exB = true := by decide

theorem ex_ib : IdentInj o1 (subterms exB) := DES.Example.identInj_of_check (by decide +kernel)

theorem ex_ne : equals o1 exA exB = false := by decide +kernel

theorem ex_hf : HashFaithful o1 (subterms exA ++ subterms exB) := by
  intro x hx y hy
  simp only [exA, exB, subterms, subtermsList, subtermsKvs, List.cons_append, List.nil_append,
    List.append_nil, List.mem_cons, List.not_mem_nil, or_false] at hx hy
  rcases hx with rfl | rfl | rfl | rfl | rfl | rfl | rfl | rfl | rfl | rfl | rfl | rfl | rfl | rfl | rfl | rfl | rfl | rfl | rfl | rfl | rfl | rfl <;>
  rcases hy with rfl | rfl | rfl | rfl | rfl | rfl | rfl | rfl | rfl | rfl | rfl | rfl | rfl | rfl | rfl | rfl | rfl | rfl | rfl | rfl | rfl | rfl <;>
  first
  | (intro e; exact absurd e (by decide +kernel))
  | (intro _; simp [equivB, dispatchTag, o1, allIn, allCovered, anyEquiv, equivKvs, alookup]; done)

/-- the pair satisfies every hypothesis of the C01 theorem (only the IEEE-754 laws are assumed) -/
theorem ex_run (F : FloatEq0) (L : FloatLaws) :
    ∃ r, patchM exA (diffM o1 exA exB) = .ok r ∧ equals o1 r exB = true ∧
      equivB o1 r exB = true :=
  patchM_diffM_SetKeys_MERGE F L ["id"] exA exB ex_docs.1 ex_docs.2.1 ex_docs.2.2.1 ex_docs.2.2.2
    ex_hf ex_ib

/-- … and of the C11 theorem -/
theorem ex_render (F : FloatEq0) (L : FloatLaws) :
    ∃ m, renderMergeDoc (diffM o1 exA exB) = .ok m ∧
      equals o1 (mergePatch exA m) exB = true ∧ equivB o1 (mergePatch exA m) exB = true :=
  merge_render_correct_SetKeys_MERGE F L ["id"] exA exB ex_docs.1 ex_docs.2.1 ex_docs.2.2.1
    ex_docs.2.2.2 ex_hf ex_ib ex_ne

end Example

end Jd.KM
