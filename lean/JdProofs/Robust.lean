/-
  JdProofs.Robust — GROUP 2 of two groups of theorems (namespace `Jd.Robust`); GROUP 1 now lives in
  JdProofs.RobustReaders (imported here), so that C13 does not rest on the native round-trip proofs.

  GROUP 1 (property C13: reading arbitrary text and applying any successfully read diff never
  panics). For ALL inputs, none of the following is `.panic`:
    `readJsonM_ne_panic`, `newPathM_ne_panic`, `readMetadataM_ne_panic`, `readLine_ne_panic`,
    `readLines_ne_panic`, `readDiffM_ne_panic`, `readPointer_ne_panic`, `patchOpsOfJson_ne_panic`,
    `lastIdxOfPointer_ne_panic`, `setPatchCtx_ne_panic`, `readPatchHunk_ne_panic`,
    `readPatchLoop_ne_panic`, `readPatchDoc_ne_panic`, `readPatchM_ne_panic`, `readMergeM_ne_panic`,
    `writePointer_ne_panic`, `writePointerPath_ne_panic`, `renderPatchHunk_ne_panic`,
    `renderPatchOps_ne_panic`, `renderPatchM_ne_panic`, `renderMergeDoc_ne_panic`,
    `renderMergeM_ne_panic`;
  the clause itself: `patch_readDiff_ne_panic`, `patch_readPatch_ne_panic`,
    `patch_readMerge_ne_panic`, and the whole pipeline `read_then_patch_ne_panic`.

  GROUP 2 (property C02: the diff read back has the identical effect on every document).
  `NativeRT.read_render` says the reader returns `normDiff d`. What `normHunk` changes, and when
  it is harmless:
   (a) payload values and path key objects are `untag`ged. For tag-free hunks (`rawHunk`: what all
       text readers produce) this is the identity. With tags, the STRICT strategy is invariant only on
       list-mode documents / key-index paths / `jsonList` tags (`patch_normHunk_list`), and it is
       false otherwise (`ceTag_facts`); the MERGE strategy never compares values, so it is
       invariant up to the tags of the result on EVERY document and path (`patchNode_merge_untag`).
   (b) void entries of `remove` (and of a strict `add`) are dropped. `[void]` is treated like `[]`
       exactly where the values are used through `len > 1` and `singleValue` only:
       `patchNode_strict_VE` (strict, `valuePath`), `patchNode_merge_VE` (merge, every path).
       It is NOT so for: an append `-1` (`ceAppend_facts`), a list leaf (`ceAddVoid_facts`),
       a set / multiset leaf (`ceSetVoid_facts`), a void entry next to another entry
       (`ceLen_facts`, `ceLenMerge_facts`). All counterexamples satisfy `wfHunk`. → hypothesis `voidOK`.
   (c) `.setKeys []` ↦ `.set`: different in the strict strategy (`ceKeys_facts`,
       `noEmptySetKeys_needed`), irrelevant in the merge strategy. → hypothesis `setKeysOK`
       (implied by `noEmptySetKeys d`).
  Main theorems
    `patch_normHunk_raw`, `patchAll_normDiff_raw`, `patchAll_normDiff_of_noEmptySetKeys`:
        tag-free hunks — EXACT equality of outcomes on EVERY document, any mix of strategies;
    `read_render_same_effect`: … composed with `read_render`, on the text;
    `patch_normHunk_merge`, `patchAll_normDiff_merge(_gen)`: merge hunks with any tags, EVERY
        document, up to `untag` of the result;
    `patch_normHunk_list`, `patchAll_normDiff_list(_gen)`, `patchAll_normDiff_listMixed_gen`,
    `read_render_same_effect_list`: list-mode documents, strict key / index hunks with `jsonList`
        tags followed by merge hunks, up to `untag` of the result.
  NOT covered: strict hunks with set / multiset typed payload nodes or on set / multiset paths when the
  payload carries tags (false in general, see (a)).
-/
import JdModel
import JdSpec
import JdProofs.EqualsList
import JdProofs.NoPanic
import JdProofs.StrictPatch
import JdProofs.SetPatch
import JdProofs.Common
import JdProofs.PatchRender
import JdProofs.NativeRoundTrip
import JdProofs.PatchParseBack
import JdProofs.RobustReaders

set_option linter.unusedVariables false

namespace Jd.Robust
open Jd Jd.Spec Jd.NativeRT

/-! ## GROUP 2 — C02: the diff the native reader gives back has the identical effect -/

/-! ### 2.0 definitions -/

/-- no path element `.setKeys []` (it is written `{}` and read back as `.set`) -/
def noEmptySetKeysP (p : Path) : Bool :=
  p.all (fun e => match e with | .setKeys o => !o.isEmpty | _ => true)

def noEmptySetKeys (d : Diff) : Bool := d.all (fun h => noEmptySetKeysP h.path)

/-- the key objects of the path are documents as read from text -/
def rawDocPath (p : Path) : Bool :=
  p.all (fun e => match e with | .setKeys o => rawDocKvs o | .msetKeys o => rawDocKvs o | _ => true)

/-- payload values and path key objects carry no Go type tags (what every text reader produces) -/
def rawHunk (h : Hunk) : Bool :=
  rawDocList h.before && rawDocList h.remove && rawDocList h.add && rawDocList h.after &&
    rawDocPath h.path

def noVoid (l : List Json) : Bool := l.all (fun v => !v.isVoid)

/-- a void entry, if any, is the only entry of the list -/
def voidAlone (l : List Json) : Bool := noVoid l || decide (l.length ≤ 1)

/-- paths along which removed / added values are used only through `len > 1` and `singleValue`
    in the strict strategy: no set / multiset element, and the last element is not a list index -/
def valuePath : Path → Bool
  | [] => true
  | .key _ :: r => valuePath r
  | .idx _ :: r => !r.isEmpty && valuePath r
  | .setKeys _ :: r => valuePath r
  | .msetKeys _ :: r => valuePath r
  | .set :: _ => false
  | .mset :: _ => false

/-- the void entries that `normHunk` drops are harmless -/
def voidOK (h : Hunk) : Bool :=
  if h.merge then voidAlone h.remove
  else (noVoid h.remove && noVoid h.add) ||
       (valuePath h.path && voidAlone h.remove && voidAlone h.add)

/-- two lists of removed (added) values that the value-replacing code paths cannot tell apart -/
def VE (l l' : List Json) : Prop :=
  (decide (l.length > 1) = decide (l'.length > 1)) ∧ Json.singleValue l = Json.singleValue l'

theorem VE.refl (l : List Json) : VE l l := ⟨rfl, rfl⟩

theorem filter_noVoid {l : List Json} (h : noVoid l = true) : l.filter (fun v => !v.isVoid) = l := by
  unfold noVoid at h
  exact List.filter_eq_self.2 (by simpa using h)

theorem VE_filter {l : List Json} (h : voidAlone l = true) : VE (l.filter (fun v => !v.isVoid)) l := by
  unfold voidAlone at h
  rcases (by simpa using h : noVoid l = true ∨ l.length ≤ 1) with h | h
  · rw [filter_noVoid h]; exact VE.refl l
  · match l, h with
    | [], _ => exact VE.refl _
    | [x], _ =>
      cases hx : x.isVoid
      · simp [hx, VE]
      · cases x <;> simp [Json.isVoid] at hx
        simp [VE, Json.isVoid, Json.singleValue]

mutual
theorem untag_rawDoc : ∀ a : Json, a.rawDoc = true → untag a = a
  | .void, _ => by simp [untag]
  | .null, _ => by simp [untag]
  | .bool _, _ => by simp [untag]
  | .num _, _ => by simp [untag]
  | .str _, _ => by simp [untag]
  | .arr t xs, h => by
    simp only [Json.rawDoc, Bool.and_eq_true, beq_iff_eq] at h
    simp [untag, h.1, untagList_rawDoc xs h.2]
  | .obj kvs, h => by
    simp only [Json.rawDoc] at h
    simp [untag, untagKvs_rawDoc kvs h]
theorem untagList_rawDoc : ∀ xs : List Json, rawDocList xs = true → untagList xs = xs
  | [], _ => by simp [untagList]
  | x :: r, h => by
    simp only [rawDocList, Bool.and_eq_true] at h
    simp [untagList, untag_rawDoc x h.1, untagList_rawDoc r h.2]
theorem untagKvs_rawDoc : ∀ kvs : List (String × Json), rawDocKvs kvs = true → untagKvs kvs = kvs
  | [], _ => by simp [untagKvs]
  | (k, v) :: r, h => by
    simp only [rawDocKvs, Bool.and_eq_true] at h
    simp [untagKvs, untag_rawDoc v h.1, untagKvs_rawDoc r h.2]
end

theorem map_untag_rawDoc {l : List Json} (h : rawDocList l = true) : l.map untag = l := by
  rw [← untagList_eq_map]; exact untagList_rawDoc l h

theorem rawDocList_filter {l : List Json} (p : Json → Bool) (h : rawDocList l = true) :
    rawDocList (l.filter p) = true := by
  induction l with
  | nil => simp [rawDocList]
  | cons x r ih =>
    simp only [rawDocList, Bool.and_eq_true] at h
    simp only [List.filter]
    split
    · simp [rawDocList, h.1, ih h.2]
    · exact ih h.2

/-- on tag-free paths without `{}`-keyed elements the reader's path normalisation is the identity -/
theorem normPath_raw : ∀ p : Path, rawDocPath p = true → noEmptySetKeysP p = true → normPath p = p
  | [], _, _ => rfl
  | e :: r, h1, h2 => by
    simp only [rawDocPath, noEmptySetKeysP, List.all_cons, Bool.and_eq_true] at h1 h2
    have ih := normPath_raw r (by simpa [rawDocPath] using h1.2) (by simpa [noEmptySetKeysP] using h2.2)
    simp only [normPath, List.map_cons] at ih ⊢
    rw [ih]
    cases e <;> simp [normElem] at h1 h2 ⊢
    · simp [h2.1, untagKvs_rawDoc _ h1.1]
    · simp [untagKvs_rawDoc _ h1.1]


theorem VE_cases {l l' : List Json} (h : VE l l') :
    (∃ x y t y' t', l = x :: y :: t ∧ l' = x :: y' :: t') ∨
    ((l = [] ∨ l = [.void]) ∧ (l' = [] ∨ l' = [.void])) ∨
    (∃ x, l = [x] ∧ l' = [x]) := by
  obtain ⟨h1, h2⟩ := h
  match l, l', h1, h2 with
  | [], [], _, _ => simp
  | [], [y], _, h2 => simp [Json.singleValue] at h2; simp [← h2]
  | [], _ :: _ :: _, h1, _ => simp at h1
  | [x], [], _, h2 => simp [Json.singleValue] at h2; simp [h2]
  | [x], [y], _, h2 => simp [Json.singleValue] at h2; simp [h2]
  | [x], _ :: _ :: _, h1, _ => simp at h1
  | _ :: _ :: _, [], h1, _ => simp at h1
  | _ :: _ :: _, [_], h1, _ => simp at h1
  | x :: y :: t, x' :: y' :: t', _, h2 => simp [Json.singleValue] at h2; simp [h2]

theorem equals_arr_void (o : Opts) (t : Tag) (xs : List Json) : equals o (.arr t xs) .void = false := by
  unfold equals
  cases h : effTag o t <;> simp [Json.dispatch]

theorem patchFresh_strict_VE (n : Json) (pa : Path) (b r a af b' r' a' af' : List Json)
    (hr : VE r r') (ha : VE a a') :
    patchFresh false n pa b r a af = patchFresh false n pa b' r' a' af' := by
  unfold patchFresh
  simp only [hr.1, hr.2, ha.1, ha.2]
  simp

theorem patchNew_strict_VE (isObj : Bool) (pa : Path) (b r a af b' r' a' af' : List Json)
    (hr : VE r r') (ha : VE a a') :
    patchNew false isObj pa b r a af = patchNew false isObj pa b' r' a' af' := by
  induction pa generalizing isObj with
  | nil =>
    cases isObj
    · simp only [patchNew]; exact patchFresh_strict_VE _ _ _ _ _ _ _ _ _ _ hr ha
    · simp only [patchNew, hr.1, hr.2, ha.1, ha.2]
  | cons e rest ih =>
    cases isObj
    · simp only [patchNew]; exact patchFresh_strict_VE _ _ _ _ _ _ _ _ _ _ hr ha
    · cases e <;> simp only [patchNew]
      rw [ih]

theorem patchNode_strict_VE_nil (sw : Bool) (n : Json) (b r a af b' r' a' af' : List Json)
    (hr : VE r r') (ha : VE a a') :
    patchNode sw false n [] b r a af = patchNode sw false n [] b' r' a' af' := by
  rw [patchNode.eq_def sw false n [] b r a af, patchNode.eq_def sw false n [] b' r' a' af']
  cases n with
  | obj kvs => simp only [hr.1, hr.2, ha.1, ha.2]
  | arr t xs =>
    simp only [hr.1, hr.2, ha.1, ha.2]
    cases t <;> simp only [pathMeta, effTag, dispatchTag, Bool.false_eq_true, if_false]
    all_goals
      rcases VE_cases hr with ⟨x, y, t, y', t', rfl, rfl⟩ | ⟨h1 | h1, h2 | h2⟩ | ⟨x, rfl, rfl⟩ <;>
      rcases VE_cases ha with ⟨x, y, t, y', t', rfl, rfl⟩ | ⟨h3 | h3, h4 | h4⟩ | ⟨x, rfl, rfl⟩ <;>
      subst_vars <;> simp [equals_arr_void]
  | _ => exact patchFresh_strict_VE _ _ _ _ _ _ _ _ _ _ hr ha


/-- the keyed-member search, given the invariance for the rest of the path -/
theorem patchKeyed_congr (sw tol : Bool) (lf : UInt64) (po : List (String × Json)) (rest : Path)
    (b r a af b' r' a' af' : List Json)
    (ih : ∀ n, patchNode sw false n rest b r a af = patchNode sw false n rest b' r' a' af') :
    ∀ (xs pre : List Json), patchKeyed sw tol lf po rest b r a af pre xs
      = patchKeyed sw tol lf po rest b' r' a' af' pre xs
  | [], pre => by rw [patchKeyed.eq_def, patchKeyed.eq_def sw tol lf po rest b' r' a' af']
  | x :: xs, pre => by
    rw [patchKeyed.eq_def sw tol lf po rest b r a af, patchKeyed.eq_def sw tol lf po rest b' r' a' af']
    cases x <;> simp only [patchKeyed_congr sw tol lf po rest b r a af b' r' a' af' ih xs]
    rw [ih]

/-- (b) strict strategy, ANY document: along a value path `patchNode` sees the removed / added
    values only through `len > 1` and `singleValue`, and does not look at the context lines -/
theorem patchNode_strict_VE (sw : Bool) (b r a af b' r' a' af' : List Json)
    (hr : VE r r') (ha : VE a a') :
    ∀ (pa : Path) (n : Json), valuePath pa = true →
      patchNode sw false n pa b r a af = patchNode sw false n pa b' r' a' af'
  | [], n, _ => patchNode_strict_VE_nil sw n b r a af b' r' a' af' hr ha
  | e :: rest, n, hv => by
    have ih := patchNode_strict_VE sw b r a af b' r' a' af' hr ha rest
    rw [patchNode.eq_def sw false n (e :: rest) b r a af,
      patchNode.eq_def sw false n (e :: rest) b' r' a' af']
    cases e with
    | key k =>
      simp only [valuePath] at hv
      cases n with
      | obj kvs =>
        simp only
        cases hl : alookup k kvs with
        | some v =>
          simp only [patchObjChild_eq sw false k rest _ _ _ _ kvs v hl, ih v hv]
        | none =>
          simp only [patchNew_strict_VE _ rest b r a af b' r' a' af' hr ha]
      | arr t xs =>
        cases t <;> simp [pathMeta, effTag, dispatchTag]
      | _ => exact patchFresh_strict_VE _ _ _ _ _ _ _ _ _ _ hr ha
    | idx i =>
      simp only [valuePath, Bool.and_eq_true, Bool.not_eq_true'] at hv
      cases n with
      | obj kvs => simp
      | arr t xs =>
        have hre : rest.isEmpty = false := hv.1
        cases t <;> simp only [pathMeta, effTag, dispatchTag, Bool.false_eq_true, if_false, hre]
        all_goals
          split
          · rfl
          · rename_i hb
            have h0 : 0 ≤ i := by simp at hb; omega
            have h1 : i.toNat < xs.length := by simp at hb; omega
            have hx := List.getElem?_eq_getElem h1
            simp only [patchListChild_eq sw rest _ _ _ _ xs i.toNat _ hx, ih _ hv.2]
      | _ => exact patchFresh_strict_VE _ _ _ _ _ _ _ _ _ _ hr ha
    | set => simp [valuePath] at hv
    | mset => simp [valuePath] at hv
    | setKeys po =>
      simp only [valuePath] at hv
      cases n with
      | obj kvs => simp
      | arr t xs =>
        have hk := patchKeyed_congr sw (keyedTol po xs) (identObj [.set] po) po rest b r a af b' r' a' af'
          (fun n => ih n hv) xs []
        cases t <;> simp only [pathMeta, effTag, dispatchTag, Bool.false_eq_true, if_false, hk]
      | _ => exact patchFresh_strict_VE _ _ _ _ _ _ _ _ _ _ hr ha
    | msetKeys po =>
      cases n with
      | obj kvs => simp
      | arr t xs =>
        cases t <;> simp only [pathMeta, effTag, dispatchTag, Bool.false_eq_true, if_false]
      | _ => exact patchFresh_strict_VE _ _ _ _ _ _ _ _ _ _ hr ha


/-! ### 2.3 the merge strategy -/

theorem normPath_cons (e : PathElem) (r : Path) : normPath (e :: r) = normElem e :: normPath r := rfl

theorem normPath_isEmpty (p : Path) : (normPath p).isEmpty = p.isEmpty := by
  cases p <;> rfl

theorem normElem_setKeys_cases (o : List (String × Json)) :
    (o = [] ∧ normElem (.setKeys o) = .set) ∨ normElem (.setKeys o) = .setKeys (untagKvs o) := by
  cases o
  · left; exact ⟨rfl, rfl⟩
  · right; rfl

theorem isLeaf_normPath (p : Path) : (normPath p).isLeaf = p.isLeaf := by
  match p with
  | [] => rfl
  | [e] =>
    cases e <;> try rfl
    rename_i o; cases o <;> rfl
  | e :: e' :: r =>
    cases e <;> try rfl
    rename_i o; cases o <;> rfl

theorem pathMeta_normPath (p : Path) : pathMeta (normPath p) = pathMeta p := by
  match p with
  | [] => rfl
  | e :: r =>
    cases e <;> try rfl
    rename_i o; cases o <;> rfl

/-- in the merge strategy `patchFresh` ignores the node, the context, and sees the path only through
    its keys and `isLeaf` -/
theorem patchFresh_merge_VE (b r a af b' r' a' af' : List Json) (hr : VE r r') (ha : VE a a') :
    ∀ (pa : Path) (n n' : Json),
      patchFresh true n (normPath pa) b r a af = patchFresh true n' pa b' r' a' af'
  | [], n, n' => by
    unfold patchFresh
    simp [normPath, Path.isLeaf, hr.1, hr.2, ha.1, ha.2]
  | e :: rest, n, n' => by
    have ih := patchFresh_merge_VE b r a af b' r' a' af' hr ha rest n n'
    rw [patchFresh.eq_def true n (normPath (e :: rest)), patchFresh.eq_def true n' (e :: rest)]
    simp only [isLeaf_normPath, normPath_isEmpty, hr.1, hr.2, ha.1, ha.2]
    cases e with
    | setKeys o =>
      rcases normElem_setKeys_cases o with ⟨_, h⟩ | h <;> simp only [normPath_cons, h] <;> simp
    | _ => simp only [normPath_cons, normElem, ih, normPath_isEmpty]; simp

theorem patchNew_merge_VE (b r a af b' r' a' af' : List Json) (hr : VE r r') (ha : VE a a') :
    ∀ (pa : Path) (isObj : Bool),
      patchNew true isObj (normPath pa) b r a af = patchNew true isObj pa b' r' a' af'
  | pa, false => by
    simp only [patchNew]; exact patchFresh_merge_VE b r a af b' r' a' af' hr ha pa _ _
  | [], true => by
    simp [normPath, patchNew, hr.1, ha.1, ha.2]
  | e :: rest, true => by
    have ih := patchNew_merge_VE b r a af b' r' a' af' hr ha rest
    cases e with
    | setKeys o =>
      rcases normElem_setKeys_cases o with ⟨_, h⟩ | h <;> simp only [normPath_cons, h, patchNew]
    | _ => simp only [normPath_cons, normElem, patchNew, ih, normPath_isEmpty]

/-- merge strategy, ANY document, ANY path: the removed / added values are used only through
    `len > 1` and `singleValue`; the context and the kind of the non-key path elements
    (`{}` read as a set element, key objects untagged) are not looked at -/
theorem patchNode_merge_VE (sw : Bool) (b r a af b' r' a' af' : List Json)
    (hr : VE r r') (ha : VE a a') :
    ∀ (pa : Path) (n : Json),
      patchNode sw true n (normPath pa) b r a af = patchNode sw true n pa b' r' a' af'
  | pa, .arr t xs => by
    rw [patchNode.eq_def sw true _ (normPath pa), patchNode.eq_def sw true _ pa]
    simp only [pathMeta_normPath, if_true]
    split <;> exact patchFresh_merge_VE b r a af b' r' a' af' hr ha pa _ _
  | [], .obj kvs => by
    rw [patchNode.eq_def sw true _ (normPath []), patchNode.eq_def sw true _ []]
    simp [normPath, hr.1, ha.1, ha.2]
  | e :: rest, .obj kvs => by
    have ih := patchNode_merge_VE sw b r a af b' r' a' af' hr ha rest
    rw [patchNode.eq_def sw true _ (normPath (e :: rest)), patchNode.eq_def sw true _ (e :: rest)]
    cases e with
    | key k =>
      simp only [normPath_cons, normElem]
      cases hl : alookup k kvs with
      | some v => simp only [patchObjChild_eq sw true k _ _ _ _ _ kvs v hl, ih v]
      | none =>
        simp only [normPath_isEmpty, patchNew_merge_VE b r a af b' r' a' af' hr ha rest]
    | setKeys o =>
      rcases normElem_setKeys_cases o with ⟨_, h⟩ | h <;> simp only [normPath_cons, h]
    | _ => simp only [normPath_cons, normElem]
  | pa, .void => by
    rw [patchNode.eq_def sw true _ (normPath pa), patchNode.eq_def sw true _ pa]
    exact patchFresh_merge_VE b r a af b' r' a' af' hr ha pa _ _
  | pa, .null => by
    rw [patchNode.eq_def sw true _ (normPath pa), patchNode.eq_def sw true _ pa]
    exact patchFresh_merge_VE b r a af b' r' a' af' hr ha pa _ _
  | pa, .bool _ => by
    rw [patchNode.eq_def sw true _ (normPath pa), patchNode.eq_def sw true _ pa]
    exact patchFresh_merge_VE b r a af b' r' a' af' hr ha pa _ _
  | pa, .num _ => by
    rw [patchNode.eq_def sw true _ (normPath pa), patchNode.eq_def sw true _ pa]
    exact patchFresh_merge_VE b r a af b' r' a' af' hr ha pa _ _
  | pa, .str _ => by
    rw [patchNode.eq_def sw true _ (normPath pa), patchNode.eq_def sw true _ pa]
    exact patchFresh_merge_VE b r a af b' r' a' af' hr ha pa _ _
termination_by pa _ => pa.length


/-! ### 2.4 one hunk, tag-free payloads: EXACT equality on EVERY document -/

/-- `.setKeys []` matters only in the strict strategy -/
def setKeysOK (h : Hunk) : Bool := h.merge || noEmptySetKeysP h.path

theorem setKeysOK_of_noEmptySetKeys {d : Diff} (hd : noEmptySetKeys d = true) :
    d.all setKeysOK = true := by
  simp only [noEmptySetKeys, List.all_eq_true] at hd ⊢
  intro h hh; simp [setKeysOK, hd h hh]

/-- C02, one hunk. Payload values and path key objects without Go type tags (`rawHunk`: what the text
    readers and `Diff` on documents read from text produce); no `{}`-keyed path element in a strict
    hunk; void entries harmless (`voidOK`). Then the hunk the native reader gives back has exactly
    the same effect on EVERY document (any array tags, any strategy of the caller). -/
theorem patch_normHunk_raw (sw : Bool) (c : Json) (h : Hunk)
    (hraw : rawHunk h = true) (hk : setKeysOK h = true) (hv : voidOK h = true) :
    patchNode sw (normHunk h).merge c (normHunk h).path (normHunk h).before (normHunk h).remove
        (normHunk h).add (normHunk h).after
      = patchNode sw h.merge c h.path h.before h.remove h.add h.after := by
  simp only [rawHunk, Bool.and_eq_true] at hraw
  obtain ⟨⟨⟨⟨hb, hr⟩, ha⟩, haf⟩, hp⟩ := hraw
  have hrl : rawDocList (remLines h) = true := rawDocList_filter _ hr
  have hal : rawDocList (addLines h) = true := by
    unfold addLines; split
    · exact ha
    · exact rawDocList_filter _ ha
  simp only [normHunk, map_untag_rawDoc hb, map_untag_rawDoc haf, map_untag_rawDoc hrl,
    map_untag_rawDoc hal]
  cases hm : h.merge with
  | true =>
    simp only [voidOK, hm, if_true] at hv
    simp only [addLines, hm, if_true, remLines]
    exact patchNode_merge_VE sw _ _ _ _ _ _ _ _ (VE_filter hv) (VE.refl _) h.path c
  | false =>
    simp only [setKeysOK, hm, Bool.false_or] at hk
    simp only [voidOK, hm, Bool.false_eq_true, if_false, Bool.or_eq_true, Bool.and_eq_true] at hv
    simp only [addLines, hm, Bool.false_eq_true, if_false, remLines, normPath_raw h.path hp hk]
    rcases hv with ⟨h1, h2⟩ | ⟨⟨h0, h1⟩, h2⟩
    · rw [filter_noVoid h1, filter_noVoid h2]
    · exact patchNode_strict_VE sw _ _ _ _ _ _ _ _ (VE_filter h1) (VE_filter h2) h.path c h0

/-- under the same hypotheses with no void entry to drop, reading back gives the very same hunk -/
theorem normHunk_eq_self (h : Hunk) (hraw : rawHunk h = true)
    (hk : noEmptySetKeysP h.path = true) (h1 : noVoid h.remove = true)
    (h2 : (h.merge || noVoid h.add) = true) : normHunk h = h := by
  simp only [rawHunk, Bool.and_eq_true] at hraw
  obtain ⟨⟨⟨⟨hb, hr⟩, ha⟩, haf⟩, hp⟩ := hraw
  have hal : addLines h = h.add := by
    unfold addLines; split
    · rfl
    · rename_i hm; simp only [hm, Bool.false_or] at h2; exact filter_noVoid h2
  simp only [normHunk, remLines, filter_noVoid h1, hal, map_untag_rawDoc hb, map_untag_rawDoc hr,
    map_untag_rawDoc ha, map_untag_rawDoc haf, normPath_raw h.path hp hk]

/-! ### 2.5 sequences -/

/-- C02, the diff: EXACT equality of the outcome on EVERY document -/
theorem patchAll_normDiff_raw (sw : Bool) (d : Diff)
    (hd : d.all (fun h => rawHunk h && setKeysOK h && voidOK h) = true) :
    ∀ c : Json, patchAll sw c (normDiff d) = patchAll sw c d := by
  induction d with
  | nil => intro c; rfl
  | cons h d ih =>
    intro c
    simp only [List.all_cons, Bool.and_eq_true] at hd
    obtain ⟨⟨⟨h1, h2⟩, h3⟩, hd⟩ := hd
    simp only [normDiff, List.map_cons, patchAll]
    rw [patch_normHunk_raw sw c h h1 h2 h3]
    split
    · exact ih hd _
    · rfl
    · rfl

theorem patchM_normDiff_raw (d : Diff)
    (hd : d.all (fun h => rawHunk h && setKeysOK h && voidOK h) = true) (c : Json) :
    patchM c (normDiff d) = patchM c d := patchAll_normDiff_raw true d hd c

/-- C02 on the text (with `NativeRT.read_render`): the rendered diff is read back as a diff with
    the identical effect on every document -/
theorem read_render_same_effect (nc : NumCodec) (d : Diff) (text : String)
    (hw : wfDiff d = true) (hc : CodecOK nc d) (hr : renderM nc [] d = some text)
    (hd : d.all (fun h => rawHunk h && setKeysOK h && voidOK h) = true) :
    ∃ d', readDiffM nc text = .ok d' ∧ ∀ c : Json, patchM c d' = patchM c d :=
  ⟨normDiff d, read_render nc d text hw hc hr, patchM_normDiff_raw d hd⟩


/-! ### 2.6 payloads WITH tags: list-mode documents, strict hunks on key / index paths -/

/-- the hunk with its payload values untagged -/
def untagHunk (h : Hunk) : Hunk :=
  { h with before := h.before.map untag, remove := h.remove.map untag, add := h.add.map untag,
           after := h.after.map untag }

theorem listDocList_map_untag (l : List Json) : listDocList (l.map untag) = true := by
  rw [← untagList_eq_map]; exact untagList_listDoc l

theorem hunkListDoc_untagHunk (h : Hunk) : hunkListDoc (untagHunk h) = true := by
  simp [hunkListDoc, untagHunk, listDocList_map_untag]

theorem single_map_untag (l : List Json) : single (l.map untag) = untag (single l) := by
  cases l <;> simp [single, Json.singleValue, untag]

theorem prefixEq_untag_hunk : ∀ rs l : List Json, prefixEq (rs.map untag) l = prefixEq rs l
  | [], _ => by simp [prefixEq]
  | _ :: _, [] => by simp [prefixEq]
  | r :: rs, x :: xs => by
    simp [prefixEq, specEq_untag_right, prefixEq_untag_hunk rs xs]

theorem beforeOk_untag_hunk (l : List Json) (i : Int) (n : Nat) :
    ∀ (j : Nat) (bs : List Json), beforeOk l i n j (bs.map untag) = beforeOk l i n j bs
  | _, [] => by simp [beforeOk]
  | j, b :: r => by
    simp only [List.map_cons, beforeOk, beforeOk_untag_hunk l i n (j + 1) r, untag_isVoid]
    cases l[(i - ((n : Int) - (j : Int))).toNat]? <;> simp [specEq_untag_left]

theorem afterOk_untag_hunk (post : List Json) :
    ∀ (j : Nat) (as : List Json), afterOk post j (as.map untag) = afterOk post j as
  | _, [] => by simp [afterOk]
  | j, a :: r => by
    simp only [List.map_cons, afterOk, afterOk_untag_hunk post (j + 1) r, untag_isVoid]
    cases post[j]? <;> simp [specEq_untag_left]

theorem splice_untagHunk (l : List Json) (i : Int) (h : Hunk) :
    (splice l i (untagHunk h)).map (List.map untag) = (splice l i h).map (List.map untag) := by
  unfold splice
  simp only [untagHunk, List.length_map, prefixEq_untag_hunk, beforeOk_untag_hunk,
    afterOk_untag_hunk, List.isEmpty_map]
  split
  · split <;> simp [untag_comp_untag]
  · split
    · rfl
    · split <;> simp [untag_comp_untag]

/-- the reference interpreter does not look at the tags of the payload values -/
theorem applyStrict_untagHunk (p : Path) (h : Hunk) : ∀ n : Json,
    (applyStrict n p (untagHunk h)).map untag = (applyStrict n p h).map untag := by
  induction p with
  | nil =>
    intro n
    simp only [applyStrict]
    rw [show (untagHunk h).remove = h.remove.map untag from rfl,
      show (untagHunk h).add = h.add.map untag from rfl]
    simp only [List.length_map, single_map_untag, specEq_untag_right]
    split
    · rfl
    · split <;> simp [untag_idem]
  | cons e rest ih =>
    intro n
    cases e with
    | key k =>
      cases n with
      | obj kvs =>
        have := ih ((alookup k kvs).getD .void)
        simp only [applyStrict]
        revert this
        generalize applyStrict ((alookup k kvs).getD .void) rest (untagHunk h) = S
        generalize applyStrict ((alookup k kvs).getD .void) rest h = S'
        intro this
        cases S <;> cases S' <;> simp at this ⊢
        exact untag_objUpdate k kvs this
      | _ => simp [applyStrict]
    | idx i =>
      cases rest with
      | nil =>
        cases n with
        | arr t xs =>
          have := splice_untagHunk xs i h
          simp only [applyStrict, Option.map_map]
          revert this
          generalize splice xs i (untagHunk h) = S
          generalize splice xs i h = S'
          intro this
          cases S <;> cases S' <;> simp at this ⊢
          simpa [untag, untagList_eq_map] using this
        | _ => simp [applyStrict]
      | cons e' rest' =>
        cases n with
        | arr t xs =>
          simp only [applyStrict]
          split
          · rfl
          · cases hx : xs[i.toNat]? with
            | none => simp
            | some x =>
              have := ih x
              dsimp only
              revert this
              generalize applyStrict x (e' :: rest') (untagHunk h) = S
              generalize applyStrict x (e' :: rest') h = S'
              intro this
              cases S <;> cases S' <;> simp at this ⊢
              exact untag_arrSet .raw .raw xs i.toNat this
        | _ => simp [applyStrict]
    | _ => intros; simp [applyStrict]

theorem normPath_strict : ∀ p : Path, strictPath p = true → normPath p = p
  | [], _ => rfl
  | e :: r, h => by
    cases e <;> simp only [strictPath] at h <;> try cases h
    all_goals simp only [normPath_cons, normElem, normPath_strict r h]

theorem VE_map_untag {l l' : List Json} (h : VE l l') : VE (l.map untag) (l'.map untag) := by
  obtain ⟨h1, h2⟩ := h
  refine ⟨by simpa using h1, ?_⟩
  have := single_map_untag l
  have := single_map_untag l'
  simp only [single] at *
  simp [*]

/-- a strict hunk on a key / index path, list-mode document, payloads with `jsonList` tags allowed:
    its payload-untagged form (with the harmless void entries dropped) has the same effect up to
    the tags of the result -/
theorem patch_normHunk_list (sw : Bool) (c : Json) (h : Hunk)
    (hc : c.listDoc = true) (hm : h.merge = false) (hp : strictPath h.path = true)
    (hh : hunkListDoc h = true) (hv : voidOK h = true) :
    Outcome.mapO untag (patchNode sw (normHunk h).merge c (normHunk h).path (normHunk h).before
        (normHunk h).remove (normHunk h).add (normHunk h).after)
      = Outcome.mapO untag (patchNode sw h.merge c h.path h.before h.remove h.add h.after) := by
  have e1 : patchNode sw (normHunk h).merge c (normHunk h).path (normHunk h).before
        (normHunk h).remove (normHunk h).add (normHunk h).after
      = patchNode sw false c h.path (untagHunk h).before (untagHunk h).remove (untagHunk h).add
          (untagHunk h).after := by
    simp only [voidOK, hm, Bool.false_eq_true, if_false, Bool.or_eq_true, Bool.and_eq_true] at hv
    simp only [normHunk, untagHunk, addLines, hm, Bool.false_eq_true, if_false, remLines,
      normPath_strict h.path hp]
    rcases hv with ⟨h1, h2⟩ | ⟨⟨h0, h1⟩, h2⟩
    · rw [filter_noVoid h1, filter_noVoid h2]
    · exact patchNode_strict_VE sw _ _ _ _ _ _ _ _ (VE_map_untag (VE_filter h1))
        (VE_map_untag (VE_filter h2)) h.path c h0
  rw [e1, hm, patchNode_strict_eq_ref sw c (untagHunk h) h.path hp hc (hunkListDoc_untagHunk h),
    patchNode_strict_eq_ref sw c h h.path hp hc hh]
  have := applyStrict_untagHunk h.path h c
  revert this
  generalize applyStrict c h.path (untagHunk h) = S
  generalize applyStrict c h.path h = S'
  intro this
  cases S <;> cases S' <;> simp [optToOutcome, Outcome.mapO] at this ⊢
  exact this


theorem hunkListDoc_normHunk (h : Hunk) : hunkListDoc (normHunk h) = true := by
  simp [hunkListDoc, normHunk, listDocList_map_untag]

/-- the strict strategy on list-mode documents does not look at the tags of the document -/
theorem patchNode_strict_untag_congr (sw : Bool) {n n' : Json} (e : untag n = untag n')
    (hn : n.listDoc = true) (hn' : n'.listDoc = true) (h : Hunk)
    (hp : strictPath h.path = true) (hh : hunkListDoc h = true) :
    Outcome.mapO untag (patchNode sw false n h.path h.before h.remove h.add h.after)
      = Outcome.mapO untag (patchNode sw false n' h.path h.before h.remove h.add h.after) := by
  rw [patchNode_strict_eq_ref sw n h h.path hp hn hh, patchNode_strict_eq_ref sw n' h h.path hp hn' hh]
  have := applyStrict_untag_congr e h.path h
  revert this
  generalize applyStrict n h.path h = S
  generalize applyStrict n' h.path h = S'
  intro this
  cases S <;> cases S' <;> simp [optToOutcome, Outcome.mapO] at this ⊢
  exact this

/-- C02, sequences of strict key / index hunks with tagged payloads, on list-mode documents
    (generalised to two starting documents equal up to tags, as needed after the first hunk) -/
theorem patchAll_normDiff_list_gen (sw : Bool) (d : Diff)
    (hd : d.all (fun h => !h.merge && strictPath h.path && hunkListDoc h && voidOK h) = true) :
    ∀ n n' : Json, untag n = untag n' → n.listDoc = true → n'.listDoc = true →
      Outcome.mapO untag (patchAll sw n (normDiff d)) = Outcome.mapO untag (patchAll sw n' d) := by
  induction d with
  | nil => intro n n' e _ _; simp [normDiff, patchAll, Outcome.mapO, e]
  | cons h d ih =>
    intro n n' e hn hn'
    simp only [List.all_cons, Bool.and_eq_true, Bool.not_eq_true'] at hd
    obtain ⟨⟨⟨⟨hm, hp⟩, hh⟩, hv⟩, hd⟩ := hd
    have s1 := patch_normHunk_list sw n h hn hm hp hh hv
    have s2 := patchNode_strict_untag_congr sw e hn hn' h hp hh
    have hp' : strictPath (normHunk h).path = true := by
      show strictPath (normPath h.path) = true
      rw [normPath_strict h.path hp]; exact hp
    have l1 := patchNode_strict_listDoc sw n (normHunk h) (normHunk h).path hp' hn
      (hunkListDoc_normHunk h)
    have l2 := patchNode_strict_listDoc sw n' h h.path hp hn' hh
    have hm' : (normHunk h).merge = false := hm
    rw [hm'] at s1
    rw [hm] at s1
    simp only [normDiff, List.map_cons, patchAll, hm, hm']
    rw [s2] at s1
    revert s1 l1 l2
    generalize patchNode sw false n (normHunk h).path (normHunk h).before (normHunk h).remove
      (normHunk h).add (normHunk h).after = P
    generalize patchNode sw false n' h.path h.before h.remove h.add h.after = P'
    intro s1 l1 l2
    cases P <;> cases P' <;> simp [Outcome.mapO] at s1 ⊢
    exact ih hd _ _ s1 (l1 _ rfl) (l2 _ rfl)

theorem patchAll_normDiff_list (sw : Bool) (c : Json) (d : Diff) (hc : c.listDoc = true)
    (hd : d.all (fun h => !h.merge && strictPath h.path && hunkListDoc h && voidOK h) = true) :
    Outcome.mapO untag (patchAll sw c (normDiff d)) = Outcome.mapO untag (patchAll sw c d) :=
  patchAll_normDiff_list_gen sw d hd c c rfl hc hc


/-! ### 2.7 the merge strategy with tagged payloads: EVERY document, EVERY path, up to tags -/

/-- indistinguishable for the value-replacing code paths up to array tags -/
def VEu (l l' : List Json) : Prop :=
  (decide (l.length > 1) = decide (l'.length > 1)) ∧
    untag (Json.singleValue l) = untag (Json.singleValue l')

theorem VEu_isVoid {l l' : List Json} (h : VEu l l') :
    (Json.singleValue l).isVoid = (Json.singleValue l').isVoid := by
  rw [← untag_isVoid, h.2, untag_isVoid]

theorem VEu_of_VE_map {l l' : List Json} (h : VE l l') : VEu (l.map untag) l' := by
  obtain ⟨h1, h2⟩ := h
  refine ⟨by simpa using h1, ?_⟩
  have := single_map_untag l
  simp only [single] at this
  rw [this, untag_idem, h2]

theorem untag_objUpdate2 (k : String) {kvs kvs' : List (String × Json)} {v v' : Json}
    (hk : untagKvs kvs = untagKvs kvs') (h : untag v = untag v') :
    untag (if v.isVoid then Json.obj (aerase k kvs) else Json.obj (ainsert k v kvs))
      = untag (if v'.isVoid then Json.obj (aerase k kvs') else Json.obj (ainsert k v' kvs')) := by
  have hv : v.isVoid = v'.isVoid := by rw [← untag_isVoid v, h, untag_isVoid]
  rw [hv]
  cases v'.isVoid
  · simp [untag, untagKvs_ainsert, h, hk]
  · simp [untag, untagKvs_aerase, hk]

theorem patchFresh_merge_VEu (b r a af b' r' a' af' : List Json) (hr : VEu r r') (ha : VEu a a') :
    ∀ (pa : Path) (n n' : Json),
      Outcome.mapO untag (patchFresh true n (normPath pa) b r a af)
        = Outcome.mapO untag (patchFresh true n' pa b' r' a' af')
  | [], n, n' => by
    unfold patchFresh
    simp only [normPath, List.map_nil, Path.isLeaf, if_true, hr.1, ha.1, VEu_isVoid hr]
    simp only [List.isEmpty_nil, Bool.not_true, Bool.false_and, Bool.false_eq_true, if_false]
    split
    · rfl
    · split
      · simp [Outcome.mapO, ha.2]
      · rfl
  | e :: rest, n, n' => by
    have ih := patchFresh_merge_VEu b r a af b' r' a' af' hr ha rest n n'
    rw [patchFresh.eq_def true n (normPath (e :: rest)), patchFresh.eq_def true n' (e :: rest)]
    simp only [isLeaf_normPath, normPath_isEmpty, hr.1, ha.1, VEu_isVoid hr]
    have hleaf : ∀ X Y : Outcome Json, Outcome.mapO untag X = Outcome.mapO untag Y →
        Outcome.mapO untag
          (if Path.isLeaf (e :: rest) = true then
            if (!(e :: rest).isEmpty && !true) = true then Outcome.err
            else if (decide (r'.length > 1) || decide (a'.length > 1)) = true then Outcome.err
            else if true = true then
              if (Json.singleValue r').isVoid = true then Outcome.ok (Json.singleValue a) else Outcome.err
            else if equals [] n (Json.singleValue r) = true then Outcome.ok (Json.singleValue a) else Outcome.err
          else if (!true) = true then Outcome.err else X) =
        Outcome.mapO untag
          (if Path.isLeaf (e :: rest) = true then
            if (!(e :: rest).isEmpty && !true) = true then Outcome.err
            else if (decide (r'.length > 1) || decide (a'.length > 1)) = true then Outcome.err
            else if true = true then
              if (Json.singleValue r').isVoid = true then Outcome.ok (Json.singleValue a') else Outcome.err
            else if equals [] n' (Json.singleValue r') = true then Outcome.ok (Json.singleValue a') else Outcome.err
          else if (!true) = true then Outcome.err else Y) := by
      intro X Y hXY
      split
      · simp only [List.isEmpty_cons, Bool.not_false, Bool.not_true, Bool.and_false,
          Bool.false_eq_true, if_false, if_true]
        split
        · rfl
        · split
          · simp [Outcome.mapO, ha.2]
          · rfl
      · simpa using hXY
    cases e with
    | key k =>
      simp only [normPath_cons, normElem, normPath_isEmpty]
      apply hleaf
      revert ih
      generalize patchFresh true n (normPath rest) b r a af = P
      generalize patchFresh true n' rest b' r' a' af' = P'
      intro ih
      cases P <;> cases P' <;> simp [Outcome.mapO] at ih ⊢
      rename_i v v'
      have hv : v.isVoid = v'.isVoid := by rw [← untag_isVoid v, ih, untag_isVoid]
      rw [hv]
      by_cases hc : v'.isVoid = false ∨ ¬rest = [] <;> simp [hc, untag, untagKvs, ih]
    | setKeys o =>
      rcases normElem_setKeys_cases o with ⟨_, h⟩ | h <;> simp only [normPath_cons, h] <;>
        exact hleaf _ _ rfl
    | _ => simp only [normPath_cons, normElem]; exact hleaf _ _ rfl


theorem patchNew_merge_VEu (b r a af b' r' a' af' : List Json) (hr : VEu r r') (ha : VEu a a') :
    ∀ (pa : Path) (isObj : Bool),
      Outcome.mapO untag (patchNew true isObj (normPath pa) b r a af)
        = Outcome.mapO untag (patchNew true isObj pa b' r' a' af')
  | pa, false => by
    simp only [patchNew]; exact patchFresh_merge_VEu b r a af b' r' a' af' hr ha pa _ _
  | [], true => by
    simp only [normPath, List.map_nil, patchNew, hr.1, ha.1, if_true]
    split
    · rfl
    · simp [Outcome.mapO, ha.2]
  | e :: rest, true => by
    have ih := patchNew_merge_VEu b r a af b' r' a' af' hr ha rest (true && !rest.isEmpty)
    cases e with
    | key k =>
      simp only [normPath_cons, normElem, patchNew, normPath_isEmpty]
      revert ih
      generalize patchNew true (true && !rest.isEmpty) (normPath rest) b r a af = P
      generalize patchNew true (true && !rest.isEmpty) rest b' r' a' af' = P'
      intro ih
      cases P <;> cases P' <;> simp [Outcome.mapO] at ih ⊢
      rename_i v v'
      have hv : v.isVoid = v'.isVoid := by rw [← untag_isVoid v, ih, untag_isVoid]
      rw [hv]
      cases v'.isVoid <;> simp [untag, untagKvs, ih]
    | setKeys o =>
      rcases normElem_setKeys_cases o with ⟨_, h⟩ | h <;> simp only [normPath_cons, h, patchNew]
    | _ => simp only [normPath_cons, normElem, patchNew]

/-- merge strategy, tagged payloads: EVERY document (two documents equal up to tags), EVERY path -/
theorem patchNode_merge_untag (sw : Bool) (b r a af b' r' a' af' : List Json)
    (hr : VEu r r') (ha : VEu a a') :
    ∀ (pa : Path) (n n' : Json), untag n = untag n' →
      Outcome.mapO untag (patchNode sw true n (normPath pa) b r a af)
        = Outcome.mapO untag (patchNode sw true n' pa b' r' a' af')
  | pa, .arr t xs, .arr t' xs', _ => by
    rw [patchNode.eq_def sw true _ (normPath pa), patchNode.eq_def sw true _ pa]
    simp only [pathMeta_normPath, if_true]
    split <;> split <;> exact patchFresh_merge_VEu b r a af b' r' a' af' hr ha pa _ _
  | [], .obj kvs, .obj kvs', _ => by
    rw [patchNode.eq_def sw true _ (normPath []), patchNode.eq_def sw true _ []]
    simp only [normPath, List.map_nil, hr.1, ha.1, if_true]
    split
    · rfl
    · simp [Outcome.mapO, ha.2]
  | e :: rest, .obj kvs, .obj kvs', he => by
    have ih := patchNode_merge_untag sw b r a af b' r' a' af' hr ha rest
    have hk : untagKvs kvs = untagKvs kvs' := by simpa [untag] using he
    rw [patchNode.eq_def sw true _ (normPath (e :: rest)), patchNode.eq_def sw true _ (e :: rest)]
    cases e with
    | key k =>
      simp only [normPath_cons, normElem]
      have hlk : (alookup k kvs).map untag = (alookup k kvs').map untag := by
        rw [← alookup_untagKvs, ← alookup_untagKvs, hk]
      have fin : ∀ P P' : Outcome Json, Outcome.mapO untag P = Outcome.mapO untag P' →
          Outcome.mapO untag (P >>= fun v =>
            if v.isVoid then pure (.obj (aerase k kvs)) else pure (.obj (ainsert k v kvs)))
          = Outcome.mapO untag (P' >>= fun v =>
            if v.isVoid then pure (.obj (aerase k kvs')) else pure (.obj (ainsert k v kvs'))) := by
        intro P P' hPP
        cases P <;> cases P' <;> simp [Outcome.mapO] at hPP ⊢
        rename_i v v'
        have := untag_objUpdate2 k hk hPP
        have hv : v.isVoid = v'.isVoid := by rw [← untag_isVoid v, hPP, untag_isVoid]
        rw [hv] at this ⊢
        cases hvv : v'.isVoid <;> rw [hvv] at this <;> simpa [pure] using this
      cases hl : alookup k kvs with
      | some v =>
        cases hl' : alookup k kvs' with
        | some v' =>
          rw [hl, hl'] at hlk
          simp only [Option.map_some, Option.some.injEq] at hlk
          simp only [patchObjChild_eq sw true k _ _ _ _ _ kvs v hl,
            patchObjChild_eq sw true k _ _ _ _ _ kvs' v' hl']
          exact fin _ _ (ih v v' hlk)
        | none => rw [hl, hl'] at hlk; simp at hlk
      | none =>
        cases hl' : alookup k kvs' with
        | some v' => rw [hl, hl'] at hlk; simp at hlk
        | none =>
          simp only [normPath_isEmpty]
          exact fin _ _ (patchNew_merge_VEu b r a af b' r' a' af' hr ha rest _)
    | setKeys o =>
      rcases normElem_setKeys_cases o with ⟨_, h⟩ | h <;> simp only [normPath_cons, h]
    | _ => simp only [normPath_cons, normElem]
  | pa, .void, .void, _ => by
    rw [patchNode.eq_def sw true _ (normPath pa), patchNode.eq_def sw true _ pa]
    exact patchFresh_merge_VEu b r a af b' r' a' af' hr ha pa _ _
  | pa, .null, .null, _ => by
    rw [patchNode.eq_def sw true _ (normPath pa), patchNode.eq_def sw true _ pa]
    exact patchFresh_merge_VEu b r a af b' r' a' af' hr ha pa _ _
  | pa, .bool _, .bool _, _ => by
    rw [patchNode.eq_def sw true _ (normPath pa), patchNode.eq_def sw true _ pa]
    exact patchFresh_merge_VEu b r a af b' r' a' af' hr ha pa _ _
  | pa, .num _, .num _, _ => by
    rw [patchNode.eq_def sw true _ (normPath pa), patchNode.eq_def sw true _ pa]
    exact patchFresh_merge_VEu b r a af b' r' a' af' hr ha pa _ _
  | pa, .str _, .str _, _ => by
    rw [patchNode.eq_def sw true _ (normPath pa), patchNode.eq_def sw true _ pa]
    exact patchFresh_merge_VEu b r a af b' r' a' af' hr ha pa _ _
  | _, .void, .null, he | _, .void, .bool _, he | _, .void, .num _, he | _, .void, .str _, he
  | _, .void, .arr _ _, he | _, .void, .obj _, he => by simp [untag] at he
  | _, .null, .void, he | _, .null, .bool _, he | _, .null, .num _, he | _, .null, .str _, he
  | _, .null, .arr _ _, he | _, .null, .obj _, he => by simp [untag] at he
  | _, .bool _, .void, he | _, .bool _, .null, he | _, .bool _, .num _, he | _, .bool _, .str _, he
  | _, .bool _, .arr _ _, he | _, .bool _, .obj _, he => by simp [untag] at he
  | _, .num _, .void, he | _, .num _, .null, he | _, .num _, .bool _, he | _, .num _, .str _, he
  | _, .num _, .arr _ _, he | _, .num _, .obj _, he => by simp [untag] at he
  | _, .str _, .void, he | _, .str _, .null, he | _, .str _, .bool _, he | _, .str _, .num _, he
  | _, .str _, .arr _ _, he | _, .str _, .obj _, he => by simp [untag] at he
  | _, .arr _ _, .void, he | _, .arr _ _, .null, he | _, .arr _ _, .bool _, he
  | _, .arr _ _, .num _, he | _, .arr _ _, .str _, he | _, .arr _ _, .obj _, he => by
    simp [untag] at he
  | _, .obj _, .void, he | _, .obj _, .null, he | _, .obj _, .bool _, he
  | _, .obj _, .num _, he | _, .obj _, .str _, he | _, .obj _, .arr _ _, he => by
    simp [untag] at he
termination_by pa _ _ _ => pa.length


/-- C02, one MERGE hunk, tagged payloads, EVERY document (two documents equal up to tags), EVERY
    path (`{}`-keyed elements included): same effect up to the tags of the result. The only
    hypothesis: a void entry of `remove` is alone in the list. -/
theorem patch_normHunk_merge (sw : Bool) (c c' : Json) (h : Hunk) (e : untag c = untag c')
    (hm : h.merge = true) (hv : voidOK h = true) :
    Outcome.mapO untag (patchNode sw (normHunk h).merge c (normHunk h).path (normHunk h).before
        (normHunk h).remove (normHunk h).add (normHunk h).after)
      = Outcome.mapO untag (patchNode sw h.merge c' h.path h.before h.remove h.add h.after) := by
  simp only [voidOK, hm, if_true] at hv
  simp only [normHunk, addLines, hm, if_true, remLines]
  exact patchNode_merge_untag sw _ _ _ _ _ _ _ _ (VEu_of_VE_map (VE_filter hv))
    (VEu_of_VE_map (VE.refl _)) h.path c c' e

/-- C02, a diff of merge hunks, tagged payloads, EVERY document -/
theorem patchAll_normDiff_merge_gen (sw : Bool) (d : Diff)
    (hd : d.all (fun h => h.merge && voidOK h) = true) :
    ∀ n n' : Json, untag n = untag n' →
      Outcome.mapO untag (patchAll sw n (normDiff d)) = Outcome.mapO untag (patchAll sw n' d) := by
  induction d with
  | nil => intro n n' e; simp [normDiff, patchAll, Outcome.mapO, e]
  | cons h d ih =>
    intro n n' e
    simp only [List.all_cons, Bool.and_eq_true] at hd
    obtain ⟨⟨hm, hv⟩, hd⟩ := hd
    have s1 := patch_normHunk_merge sw n n' h e hm hv
    simp only [normDiff, List.map_cons, patchAll]
    revert s1
    generalize patchNode sw (normHunk h).merge n (normHunk h).path (normHunk h).before
      (normHunk h).remove (normHunk h).add (normHunk h).after = P
    generalize patchNode sw h.merge n' h.path h.before h.remove h.add h.after = P'
    intro s1
    cases P <;> cases P' <;> simp [Outcome.mapO] at s1 ⊢
    exact ih hd _ _ s1

theorem patchAll_normDiff_merge (sw : Bool) (c : Json) (d : Diff)
    (hd : d.all (fun h => h.merge && voidOK h) = true) :
    Outcome.mapO untag (patchAll sw c (normDiff d)) = Outcome.mapO untag (patchAll sw c d) :=
  patchAll_normDiff_merge_gen sw d hd c c rfl

/-! ### 2.8 the hypotheses are needed: counterexamples (all inside `wfHunk`, the domain of
    `NativeRT.read_render`) -/

/-- (c) `{}` as a keyed element vs as the set element -/
def ceKeys : Hunk := { path := [.setKeys [], .key "x"], add := [.null] }

theorem ceKeys_facts (sw : Bool) :
    wfHunk ceKeys = true ∧ rawHunk ceKeys = true ∧ voidOK ceKeys = true ∧
    noEmptySetKeysP ceKeys.path = false ∧
    patchNode sw false (.arr .raw []) ceKeys.path ceKeys.before ceKeys.remove ceKeys.add ceKeys.after
      = .err ∧
    patchNode sw false (.arr .raw []) (normHunk ceKeys).path (normHunk ceKeys).before
      (normHunk ceKeys).remove (normHunk ceKeys).add (normHunk ceKeys).after
      = .ok (.arr .set [.null]) := by
  refine ⟨by decide, by decide, by decide, by decide, ?_, ?_⟩
  · rw [patchNode.eq_def]; simp [ceKeys, pathMeta, effTag, dispatchTag, patchKeyed]
  · have : normHunk ceKeys = { path := [.set, .key "x"], add := [.null] } := by
      simp [normHunk, ceKeys, normPath, normElem, remLines, addLines, untag, Json.isVoid]
    rw [this, patchNode.eq_def]
    simp [pathMeta, effTag, dispatchTag, patchSetLeaf, setRemoveLoop, hmapSet, ksort, kinsert, pure]


theorem wfHunk_of_idx {h : Hunk} (hi : ∀ i, PathElem.idx i ∈ h.path → i.natAbs < 2 ^ 53)
    (hrest : ((h.before.drop 1).all (fun v => !v.isVoid)
      && (!(remLines h).isEmpty || !(addLines h).isEmpty)
      && ((decide ((addLines h).length ≤ 1) && decide ((remLines h).length ≤ 1)) || multiLast h.path))
      = true) : wfHunk h = true := by
  unfold wfHunk
  rw [idxOK_of_bound h.path hi]
  simpa using hrest

/-- (b) an append (`-1`) refuses any `remove` entry, the void one included -/
def ceAppend : Hunk := { path := [.idx (-1)], remove := [.void], add := [.null] }

theorem ceAppend_facts (sw : Bool) :
    wfHunk ceAppend = true ∧ rawHunk ceAppend = true ∧ voidAlone ceAppend.remove = true ∧
    patchNode sw false (.arr .raw []) ceAppend.path ceAppend.before ceAppend.remove ceAppend.add
      ceAppend.after = .err ∧
    patchNode sw false (.arr .raw []) (normHunk ceAppend).path (normHunk ceAppend).before
      (normHunk ceAppend).remove (normHunk ceAppend).add (normHunk ceAppend).after
      = .ok (.arr .list [.null]) := by
  refine ⟨wfHunk_of_idx (by intro i hi; simp [ceAppend] at hi; subst hi; decide) (by decide),
    by decide, by decide, ?_, ?_⟩
  · rw [patchNode.eq_def]; simp [ceAppend, pathMeta, effTag, dispatchTag, patchListLeaf]
  · have : normHunk ceAppend = { path := [.idx (-1)], add := [.null] } := by
      simp [normHunk, ceAppend, normPath, normElem, remLines, addLines, untag, Json.isVoid]
    rw [this, patchNode.eq_def]
    simp [pathMeta, effTag, dispatchTag, patchListLeaf]

/-- (b) `len(remove) > 1` counts the void entry: strict root replacement -/
def ceLen : Hunk := { path := [], remove := [.void, .obj []] }

theorem ceLen_facts (sw : Bool) :
    wfHunk ceLen = true ∧ rawHunk ceLen = true ∧ valuePath ceLen.path = true ∧
    voidAlone ceLen.remove = false ∧
    patchNode sw false (.obj []) ceLen.path ceLen.before ceLen.remove ceLen.add ceLen.after = .err ∧
    patchNode sw false (.obj []) (normHunk ceLen).path (normHunk ceLen).before
      (normHunk ceLen).remove (normHunk ceLen).add (normHunk ceLen).after = .ok .void := by
  refine ⟨by decide, by decide, by decide, by decide, ?_, ?_⟩
  · rw [patchNode.eq_def]; simp [ceLen]
  · have : normHunk ceLen = { path := [], remove := [.obj []] } := by
      simp [normHunk, ceLen, normPath, remLines, addLines, untag, untagKvs, Json.isVoid]
    rw [this, patchNode.eq_def]
    simp [equals, equalsKvs, Json.singleValue]

/-- (b) the same in the merge strategy (an object at the root is replaced without looking at
    `remove`, but its length is checked) -/
def ceLenMerge : Hunk := { merge := true, path := [], remove := [.void, .null], add := [.null] }

theorem ceLenMerge_facts (sw : Bool) :
    wfHunk ceLenMerge = true ∧ rawHunk ceLenMerge = true ∧ voidOK ceLenMerge = false ∧
    patchNode sw true (.obj []) ceLenMerge.path ceLenMerge.before ceLenMerge.remove ceLenMerge.add
      ceLenMerge.after = .err ∧
    patchNode sw true (.obj []) (normHunk ceLenMerge).path (normHunk ceLenMerge).before
      (normHunk ceLenMerge).remove (normHunk ceLenMerge).add (normHunk ceLenMerge).after
      = .ok .null := by
  refine ⟨by decide, by decide, by decide, ?_, ?_⟩
  · rw [patchNode.eq_def]; simp [ceLenMerge]
  · have : normHunk ceLenMerge = { merge := true, path := [], remove := [.null], add := [.null] } := by
      simp [normHunk, ceLenMerge, normPath, remLines, addLines, untag, Json.isVoid]
    rw [this, patchNode.eq_def]
    simp [Json.singleValue]

/-- (b) a strict list hunk stores a void `add` entry in the array -/
def ceAddVoid : Hunk := { path := [.idx 0], add := [.void, .null] }

theorem ceAddVoid_facts (sw : Bool) :
    wfHunk ceAddVoid = true ∧ rawHunk ceAddVoid = true ∧
    patchNode sw false (.arr .raw []) ceAddVoid.path ceAddVoid.before ceAddVoid.remove ceAddVoid.add
      ceAddVoid.after = .ok (.arr .list [.void, .null]) ∧
    patchNode sw false (.arr .raw []) (normHunk ceAddVoid).path (normHunk ceAddVoid).before
      (normHunk ceAddVoid).remove (normHunk ceAddVoid).add (normHunk ceAddVoid).after
      = .ok (.arr .list [.null]) := by
  refine ⟨wfHunk_of_idx (by intro i hi; simp [ceAddVoid] at hi; subst hi; decide) (by decide),
    by decide, ?_, ?_⟩
  · rw [patchNode.eq_def]
    simp [ceAddVoid, pathMeta, effTag, dispatchTag, patchListLeaf, checkBefore, removeLoop, spliceP,
      checkAfter, pure]
  · have : normHunk ceAddVoid = { path := [.idx 0], add := [.null] } := by
      simp [normHunk, ceAddVoid, normPath, normElem, remLines, addLines, untag, Json.isVoid]
    rw [this, patchNode.eq_def]
    simp [pathMeta, effTag, dispatchTag, patchListLeaf, checkBefore, removeLoop, spliceP,
      checkAfter, pure]

/-- (b) a set hunk looks the void `remove` entry up in the set -/
def ceSetVoid : Hunk := { path := [.set], remove := [.void], add := [.null] }

theorem ceSetVoid_facts (sw : Bool) :
    wfHunk ceSetVoid = true ∧ rawHunk ceSetVoid = true ∧ voidAlone ceSetVoid.remove = true ∧
    patchNode sw false (.arr .raw []) ceSetVoid.path ceSetVoid.before ceSetVoid.remove ceSetVoid.add
      ceSetVoid.after = .err ∧
    patchNode sw false (.arr .raw []) (normHunk ceSetVoid).path (normHunk ceSetVoid).before
      (normHunk ceSetVoid).remove (normHunk ceSetVoid).add (normHunk ceSetVoid).after
      = .ok (.arr .set [.null]) := by
  refine ⟨by decide, by decide, by decide, ?_, ?_⟩
  · rw [patchNode.eq_def]
    simp [ceSetVoid, pathMeta, effTag, dispatchTag, patchSetLeaf, setRemoveLoop, hmapGet]
  · have : normHunk ceSetVoid = { path := [.set], add := [.null] } := by
      simp [normHunk, ceSetVoid, normPath, normElem, remLines, addLines, untag, Json.isVoid]
    rw [this, patchNode.eq_def]
    simp [pathMeta, effTag, dispatchTag, patchSetLeaf, setRemoveLoop, hmapSet, ksort, kinsert, pure]

/-- (a) the tags of payload values matter to the strict strategy outside list-mode: a `jsonSet`
    typed `remove` value never equals the `jsonArray` it is compared with under no options -/
def ceTag : Hunk := { path := [], remove := [.arr .set []] }

theorem ceTag_facts (sw : Bool) :
    wfHunk ceTag = true ∧ voidOK ceTag = true ∧ hunkListDoc ceTag = false ∧
    patchNode sw false (.arr .raw []) ceTag.path ceTag.before ceTag.remove ceTag.add ceTag.after
      = .err ∧
    patchNode sw false (.arr .raw []) (normHunk ceTag).path (normHunk ceTag).before
      (normHunk ceTag).remove (normHunk ceTag).add (normHunk ceTag).after = .ok .void := by
  refine ⟨by decide, by decide, by decide, ?_, ?_⟩
  · rw [patchNode.eq_def]; simp [ceTag, pathMeta, effTag, dispatchTag, equals, Json.dispatch]
  · have : normHunk ceTag = { path := [], remove := [.arr .raw []] } := by
      simp [normHunk, ceTag, normPath, remLines, addLines, untag, untagList, Json.isVoid]
    rw [this, patchNode.eq_def]
    simp [pathMeta, effTag, dispatchTag, equals, Json.dispatch, equalsList]


/-! ### 2.9 corollaries in the requested shapes -/

theorem VE_void_nil : VE [Json.void] [] := ⟨by decide, rfl⟩

/-- where `[void]` is treated like `[]`: the strict strategy along a value path … -/
theorem patchNode_strict_void_nil (sw : Bool) (n : Json) (pa : Path) (b a af : List Json)
    (hv : valuePath pa = true) :
    patchNode sw false n pa b [.void] a af = patchNode sw false n pa b [] a af ∧
    patchNode sw false n pa b a [.void] af = patchNode sw false n pa b a [] af :=
  ⟨patchNode_strict_VE sw _ _ _ _ _ _ _ _ VE_void_nil (VE.refl _) pa n hv,
   patchNode_strict_VE sw _ _ _ _ _ _ _ _ (VE.refl _) VE_void_nil pa n hv⟩

/-- … and the merge strategy along every path (there a void `add` is a deletion and is kept by the
    renderer; only `remove` is concerned) -/
theorem patchNode_merge_void_nil (sw : Bool) (n : Json) (pa : Path) (b a af : List Json) :
    patchNode sw true n (normPath pa) b [.void] a af = patchNode sw true n pa b [] a af :=
  patchNode_merge_VE sw _ _ _ _ _ _ _ _ VE_void_nil (VE.refl _) pa n

/-- the statement with `noEmptySetKeys d` -/
theorem patchAll_normDiff_of_noEmptySetKeys (sw : Bool) (d : Diff)
    (h1 : d.all rawHunk = true) (h2 : noEmptySetKeys d = true) (h3 : d.all voidOK = true) (c : Json) :
    patchAll sw c (normDiff d) = patchAll sw c d := by
  refine patchAll_normDiff_raw sw d ?_ c
  have h2' := setKeysOK_of_noEmptySetKeys h2
  simp only [List.all_eq_true, Bool.and_eq_true] at h1 h2' h3 ⊢
  exact fun h hh => ⟨⟨h1 h hh, h2' h hh⟩, h3 h hh⟩

/-- the hypothesis `noEmptySetKeys` cannot be dropped from it -/
theorem noEmptySetKeys_needed (sw : Bool) :
    ∃ (d : Diff) (c : Json), wfDiff d = true ∧ d.all rawHunk = true ∧ d.all voidOK = true ∧
      patchAll sw c (normDiff d) ≠ patchAll sw c d := by
  refine ⟨[ceKeys], .arr .raw [], by decide, by decide, by decide, ?_⟩
  obtain ⟨_, _, _, _, h5, h6⟩ := ceKeys_facts sw
  have hm : (normHunk ceKeys).merge = false := rfl
  have hm' : ceKeys.merge = false := rfl
  simp only [normDiff, List.map_cons, List.map_nil, patchAll, hm, hm', h5, h6]
  simp

/-- … nor can `voidOK` -/
theorem voidOK_needed (sw : Bool) :
    ∃ (d : Diff) (c : Json), wfDiff d = true ∧ d.all rawHunk = true ∧ noEmptySetKeys d = true ∧
      patchAll sw c (normDiff d) ≠ patchAll sw c d := by
  refine ⟨[ceSetVoid], .arr .raw [], by decide, by decide, by decide, ?_⟩
  obtain ⟨_, _, _, h5, h6⟩ := ceSetVoid_facts sw
  have hm : (normHunk ceSetVoid).merge = false := rfl
  have hm' : ceSetVoid.merge = false := rfl
  simp only [normDiff, List.map_cons, List.map_nil, patchAll, hm, hm', h5, h6]
  simp


/-! ### 2.10 list-mode documents, tagged payloads, strict hunks followed by merge hunks
    (the order `wfDiff` imposes: `mergeMono`) -/

theorem all_merge_of_mergeMono : ∀ d : Diff, mergeMono true d = true → d.all (·.merge) = true
  | [], _ => rfl
  | h :: d, hm => by
    simp only [mergeMono, Bool.not_true, Bool.false_or, Bool.and_eq_true] at hm
    have := all_merge_of_mergeMono d (by have h2 := hm.2; rw [hm.1] at h2; exact h2)
    simp [hm.1, this]

/-- per hunk: void entries harmless, and a strict hunk is on a key / index path with list-mode
    payloads; nothing more is asked of a merge hunk -/
def listHunkOK (h : Hunk) : Bool :=
  voidOK h && (h.merge || (strictPath h.path && hunkListDoc h))

theorem patchAll_normDiff_listMixed_gen (sw : Bool) (d : Diff)
    (hmono : mergeMono false d = true) (hd : d.all listHunkOK = true) :
    ∀ n n' : Json, untag n = untag n' → n.listDoc = true → n'.listDoc = true →
      Outcome.mapO untag (patchAll sw n (normDiff d)) = Outcome.mapO untag (patchAll sw n' d) := by
  induction d with
  | nil => intro n n' e _ _; simp [normDiff, patchAll, Outcome.mapO, e]
  | cons h d ih =>
    intro n n' e hn hn'
    cases hm : h.merge with
    | true =>
      -- from here on every hunk is a merge hunk
      have hall : (h :: d).all (·.merge) = true := by
        simp only [mergeMono, Bool.and_eq_true] at hmono
        have := all_merge_of_mergeMono d (by have h2 := hmono.2; rw [hm] at h2; exact h2)
        simp [hm, this]
      refine patchAll_normDiff_merge_gen sw (h :: d) ?_ n n' e
      simp only [List.all_eq_true, Bool.and_eq_true, listHunkOK] at hd hall ⊢
      exact fun x hx => ⟨hall x hx, (hd x hx).1⟩
    | false =>
      simp only [List.all_cons, Bool.and_eq_true] at hd
      obtain ⟨hh0, hd⟩ := hd
      simp only [listHunkOK, hm, Bool.false_or, Bool.and_eq_true] at hh0
      obtain ⟨hv, hp, hh⟩ := hh0
      simp only [mergeMono, hm, Bool.and_eq_true] at hmono
      have s1 := patch_normHunk_list sw n h hn hm hp hh hv
      have s2 := patchNode_strict_untag_congr sw e hn hn' h hp hh
      have hp' : strictPath (normHunk h).path = true := by
        show strictPath (normPath h.path) = true
        rw [normPath_strict h.path hp]; exact hp
      have l1 := patchNode_strict_listDoc sw n (normHunk h) (normHunk h).path hp' hn
        (hunkListDoc_normHunk h)
      have l2 := patchNode_strict_listDoc sw n' h h.path hp hn' hh
      have hm' : (normHunk h).merge = false := hm
      rw [hm'] at s1
      rw [hm] at s1
      simp only [normDiff, List.map_cons, patchAll, hm, hm']
      rw [s2] at s1
      revert s1 l1 l2
      generalize patchNode sw false n (normHunk h).path (normHunk h).before (normHunk h).remove
        (normHunk h).add (normHunk h).after = P
      generalize patchNode sw false n' h.path h.before h.remove h.add h.after = P'
      intro s1 l1 l2
      cases P <;> cases P' <;> simp [Outcome.mapO] at s1 ⊢
      exact ih hmono.2 hd _ _ s1 (l1 _ rfl) (l2 _ rfl)

/-- C02 on the text, list-mode: payloads may carry `jsonList` tags; the document read back has the
    same effect on every list-mode document up to the tags of the result -/
theorem read_render_same_effect_list (nc : NumCodec) (d : Diff) (text : String)
    (hw : wfDiff d = true) (hc : CodecOK nc d) (hr : renderM nc [] d = some text)
    (hd : d.all listHunkOK = true) :
    ∃ d', readDiffM nc text = .ok d' ∧
      ∀ c : Json, c.listDoc = true →
        Outcome.mapO untag (patchM c d') = Outcome.mapO untag (patchM c d) := by
  refine ⟨normDiff d, read_render nc d text hw hc hr, fun c hcl => ?_⟩
  have hmono : mergeMono false d = true := by
    simp only [wfDiff, Bool.and_eq_true] at hw; exact hw.2
  exact patchAll_normDiff_listMixed_gen true d hmono hd c c rfl hcl hcl

end Jd.Robust

/-! ### axioms -/

#print axioms Jd.Robust.readJsonM_ne_panic
#print axioms Jd.Robust.newPathM_ne_panic
#print axioms Jd.Robust.readDiffM_ne_panic
#print axioms Jd.Robust.readPointer_ne_panic
#print axioms Jd.Robust.readPatchM_ne_panic
#print axioms Jd.Robust.readMergeM_ne_panic
#print axioms Jd.Robust.renderPatchOps_ne_panic
#print axioms Jd.Robust.renderPatchM_ne_panic
#print axioms Jd.Robust.renderMergeDoc_ne_panic
#print axioms Jd.Robust.renderMergeM_ne_panic
#print axioms Jd.Robust.patch_readDiff_ne_panic
#print axioms Jd.Robust.patch_readPatch_ne_panic
#print axioms Jd.Robust.patch_readMerge_ne_panic
#print axioms Jd.Robust.read_then_patch_ne_panic
#print axioms Jd.Robust.patchNode_strict_VE
#print axioms Jd.Robust.patchNode_merge_VE
#print axioms Jd.Robust.patchNode_merge_untag
#print axioms Jd.Robust.patch_normHunk_raw
#print axioms Jd.Robust.patchAll_normDiff_raw
#print axioms Jd.Robust.patchAll_normDiff_of_noEmptySetKeys
#print axioms Jd.Robust.read_render_same_effect
#print axioms Jd.Robust.patch_normHunk_merge
#print axioms Jd.Robust.patchAll_normDiff_merge
#print axioms Jd.Robust.patch_normHunk_list
#print axioms Jd.Robust.patchAll_normDiff_list
#print axioms Jd.Robust.patchAll_normDiff_listMixed_gen
#print axioms Jd.Robust.read_render_same_effect_list
#print axioms Jd.Robust.noEmptySetKeys_needed
#print axioms Jd.Robust.voidOK_needed
#print axioms Jd.Robust.ceKeys_facts
#print axioms Jd.Robust.ceAppend_facts
#print axioms Jd.Robust.ceLen_facts
#print axioms Jd.Robust.ceLenMerge_facts
#print axioms Jd.Robust.ceAddVoid_facts
#print axioms Jd.Robust.ceSetVoid_facts
#print axioms Jd.Robust.ceTag_facts
