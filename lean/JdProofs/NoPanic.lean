/-
  JdProofs.NoPanic — property C13: applying any diff to any document never panics.
-/
import JdModel.Patch

namespace Jd

theorem Outcome.bind_ne_panic {α β} (x : Outcome α) (f : α → Outcome β)
    (hx : x ≠ .panic) (hf : ∀ a, x = .ok a → f a ≠ .panic) : (x >>= f) ≠ .panic := by
  cases x with
  | ok a => simpa using hf a rfl
  | err => simp
  | panic => exact absurd rfl hx

theorem idxP_ne_panic (l : List Json) (i : Int) (h0 : 0 ≤ i) (h1 : i < (l.length : Int)) :
    idxP l i ≠ .panic := by
  unfold idxP
  have h : i.toNat < l.length := by omega
  simp [show ¬ i < 0 by omega, List.getElem?_eq_getElem h]

theorem removeAtP_ne_panic (l : List Json) (i : Int) (h0 : 0 ≤ i) (h1 : i < (l.length : Int)) :
    removeAtP l i ≠ .panic := by
  unfold removeAtP
  have h : i.toNat < l.length := by omega
  simp [show ¬ i < 0 by omega, h]

theorem setAtP_ne_panic (l : List Json) (i : Int) (v : Json) (h0 : 0 ≤ i)
    (h1 : i < (l.length : Int)) : setAtP l i v ≠ .panic := by
  unfold setAtP
  have h : i.toNat < l.length := by omega
  simp [show ¬ i < 0 by omega, h]

theorem spliceP_ne_panic (l : List Json) (i : Int) (add : List Json) (h0 : 0 ≤ i)
    (h1 : i ≤ (l.length : Int)) : spliceP l i add ≠ .panic := by
  unfold spliceP
  simp [show ¬ i < 0 by omega, h1]

theorem checkBefore_ne_panic (l : List Json) (i : Int) (n : Nat) (j : Nat) (bs : List Json)
    (hi : i ≤ (l.length : Int)) (hj : j + bs.length = n) : checkBefore l i n j bs ≠ .panic := by
  induction bs generalizing j with
  | nil => simp [checkBefore]
  | cons b r ih =>
    have ih' := ih (j + 1) (by simp at hj; omega)
    simp only [checkBefore]
    split
    · split
      · exact ih'
      · simp
    · apply Outcome.bind_ne_panic
      · apply idxP_ne_panic
        · omega
        · simp at hj; omega
      · intro x _
        split
        · exact ih'
        · simp

theorem removeLoop_ne_panic (l : List Json) (i : Int) (rs : List Json) (h0 : 0 ≤ i) :
    removeLoop l i rs ≠ .panic := by
  induction rs generalizing l with
  | nil => simp [removeLoop]
  | cons r rs ih =>
    simp only [removeLoop]
    split
    · simp
    · apply Outcome.bind_ne_panic
      · apply idxP_ne_panic <;> omega
      · intro x _
        split
        · apply Outcome.bind_ne_panic
          · apply removeAtP_ne_panic <;> omega
          · intro l' _
            exact ih l'
        · simp

theorem removeLoop_length (l : List Json) (i : Int) (rs : List Json) (l' : List Json)
    (hi : i ≤ (l.length : Int)) (h0 : 0 ≤ i) (h : removeLoop l i rs = .ok l') :
    i ≤ (l'.length : Int) := by
  induction rs generalizing l with
  | nil =>
    simp [removeLoop] at h
    subst h; exact hi
  | cons r rs ih =>
    simp only [removeLoop] at h
    split at h
    · simp at h
    · rename_i hgt
      cases hx : idxP l i with
      | ok x =>
        rw [hx] at h
        simp only [Outcome.bind_ok] at h
        split at h
        · have hlt : i.toNat < l.length := by omega
          have hrm : removeAtP l i = .ok (l.eraseIdx i.toNat) := by
            unfold removeAtP
            simp [show ¬ i < 0 by omega, hlt]
          rw [hrm] at h
          simp only [Outcome.bind_ok] at h
          apply ih _ _ h
          rw [List.length_eraseIdx_of_lt hlt]
          omega
        · simp at h
      | err => rw [hx] at h; simp at h
      | panic => rw [hx] at h; simp at h

theorem checkAfter_ne_panic (l : List Json) (i : Int) (j : Nat) (as : List Json) (h0 : 0 ≤ i) :
    checkAfter l i j as ≠ .panic := by
  induction as generalizing j with
  | nil => simp [checkAfter]
  | cons a r ih =>
    simp only [checkAfter]
    split
    · split
      · exact ih _
      · simp
    · apply Outcome.bind_ne_panic
      · apply idxP_ne_panic <;> omega
      · intro x _
        split
        · exact ih _
        · simp

theorem patchListLeaf_ne_panic (l : List Json) (i : Int) (before remove add after : List Json) :
    patchListLeaf l i before remove add after ≠ .panic := by
  unfold patchListLeaf
  split
  · split <;> simp
  · split
    · simp
    · rename_i hne hr
      have h0 : 0 ≤ i := by simp at hr; omega
      have h1 : i ≤ (l.length : Int) := by simp at hr; omega
      apply Outcome.bind_ne_panic
      · exact checkBefore_ne_panic l i _ 0 before h1 (by simp)
      · intro _ _
        apply Outcome.bind_ne_panic
        · exact removeLoop_ne_panic l i remove h0
        · intro l' hl'
          apply Outcome.bind_ne_panic
          · exact spliceP_ne_panic l' i add h0 (removeLoop_length l i remove l' h1 h0 hl')
          · intro l2 _
            apply Outcome.bind_ne_panic
            · exact checkAfter_ne_panic l' i 0 after h0
            · intro _ _
              simp [pure]

theorem setRemoveLoop_ne_panic (m : Opts) (amap : List (UInt64 × Json)) (rs : List Json) :
    setRemoveLoop m amap rs ≠ .panic := by
  induction rs generalizing amap with
  | nil => simp [setRemoveLoop]
  | cons v r ih =>
    simp only [setRemoveLoop]
    split
    · simp
    · split
      · exact ih _
      · simp

theorem patchSetLeaf_ne_panic (m : Opts) (s remove add : List Json) :
    patchSetLeaf m s remove add ≠ .panic := by
  unfold patchSetLeaf
  apply Outcome.bind_ne_panic
  · exact setRemoveLoop_ne_panic _ _ _
  · intro _ _
    simp [pure]

theorem patchMsetLeaf_ne_panic (m : Opts) (a remove add : List Json) :
    patchMsetLeaf m a remove add ≠ .panic := by
  unfold patchMsetLeaf
  simp only
  split <;> simp

theorem patchFresh_ne_panic (merge : Bool) (n : Json) (pa : Path)
    (before remove add after : List Json) :
    patchFresh merge n pa before remove add after ≠ .panic := by
  fun_induction patchFresh merge n pa before remove add after <;> simp_all

theorem patchNew_ne_panic (merge isObj : Bool) (pa : Path)
    (before remove add after : List Json) :
    patchNew merge isObj pa before remove add after ≠ .panic := by
  fun_induction patchNew merge isObj pa before remove add after <;>
    simp_all [patchFresh_ne_panic]



theorem patch_mutual_ne_panic (sw : Bool) (before remove add after : List Json) :
    (∀ merge n pa, patchNode sw merge n pa before remove add after ≠ .panic) ∧
    (∀ i rest xs, i < xs.length → patchListChild sw i rest before remove add after xs ≠ .panic) ∧
    (∀ tol lf po rest pre xs, patchKeyed sw tol lf po rest before remove add after pre xs ≠ .panic) ∧
    (∀ merge kvs k rest, (alookup k kvs).isSome →
      patchObjChild sw merge kvs k rest before remove add after ≠ .panic) := by
  apply patchNode.mutual_induct sw before remove add after
    (motive1 := fun merge n pa => patchNode sw merge n pa before remove add after ≠ .panic)
    (motive2 := fun i rest xs => i < xs.length →
      patchListChild sw i rest before remove add after xs ≠ .panic)
    (motive3 := fun tol lf po rest pre xs =>
      patchKeyed sw tol lf po rest before remove add after pre xs ≠ .panic)
    (motive4 := fun merge kvs k rest => (alookup k kvs).isSome →
      patchObjChild sw merge kvs k rest before remove add after ≠ .panic)
  all_goals intros
  all_goals first
    | (rw [patchNode.eq_def]; simp_all [patchFresh_ne_panic, patchListLeaf_ne_panic,
        patchSetLeaf_ne_panic, patchMsetLeaf_ne_panic]; done)
    | (rw [patchListChild.eq_def]; simp_all; done)
    | (rw [patchKeyed.eq_def]; simp_all; done)
    | (rw [patchObjChild.eq_def]; simp_all [alookup]; done)
    | (rw [patchNode.eq_def]; simp_all; split <;> simp_all; done)
    | skip
  · -- existing object key: descend
    rename_i ih
    rw [patchNode.eq_def]; simp_all
    refine Outcome.bind_ne_panic _ _ ih ?_
    intro v _; split <;> simp [pure]
  · -- missing object key: patchNew
    rw [patchNode.eq_def]; simp_all
    refine Outcome.bind_ne_panic _ _ (patchNew_ne_panic _ _ _ _ _ _ _) ?_
    intro v _; split <;> simp [pure]
  · -- list index with more path ahead: descend, then l[i] = v
    rename_i xs _ i rest _ _ _ _ ih
    rw [patchNode.eq_def]; simp_all
    have h0 : 0 ≤ i := by omega
    have h1 : i < (xs.length : Int) := by omega
    rw [if_neg (by omega)]
    refine Outcome.bind_ne_panic _ _ (ih h1) ?_
    intro v _
    refine Outcome.bind_ne_panic _ _ (setAtP_ne_panic xs i v h0 h1) ?_
    intro l _; simp [pure]

/-- `n.patch(...)` never panics, for any node, path, strategy and hunk contents -/
theorem patchNode_ne_panic (sw merge : Bool) (n : Json) (pa : Path)
    (before remove add after : List Json) :
    patchNode sw merge n pa before remove add after ≠ .panic :=
  (patch_mutual_ne_panic sw before remove add after).1 merge n pa

/-- `l[i].patch(rest, …)` does not panic when the index is in range (the caller's guard) -/
theorem patchListChild_ne_panic (sw : Bool) (i : Nat) (rest : Path)
    (before remove add after : List Json) (xs : List Json) (h : i < xs.length) :
    patchListChild sw i rest before remove add after xs ≠ .panic :=
  (patch_mutual_ne_panic sw before remove add after).2.1 i rest xs h

theorem patchKeyed_ne_panic (sw tol : Bool) (lf : UInt64) (po : List (String × Json)) (rest : Path)
    (before remove add after : List Json) (pre xs : List Json) :
    patchKeyed sw tol lf po rest before remove add after pre xs ≠ .panic :=
  (patch_mutual_ne_panic sw before remove add after).2.2.1 tol lf po rest pre xs

/-- `o[k].patch(rest, …)` does not panic when the key is present (the caller's `alookup` guard) -/
theorem patchObjChild_ne_panic (sw merge : Bool) (kvs : List (String × Json)) (k : String)
    (rest : Path) (before remove add after : List Json) (h : (alookup k kvs).isSome) :
    patchObjChild sw merge kvs k rest before remove add after ≠ .panic :=
  (patch_mutual_ne_panic sw before remove add after).2.2.2 merge kvs k rest h

/-- C13: applying any diff to any document never panics -/
theorem patchAll_ne_panic (sw : Bool) (n : Json) (d : Diff) : patchAll sw n d ≠ .panic := by
  induction d generalizing n with
  | nil => simp [patchAll]
  | cons h d ih =>
    simp only [patchAll]
    have hp := patchNode_ne_panic sw h.merge n h.path h.before h.remove h.add h.after
    split
    · exact ih _
    · simp
    · rename_i he; exact absurd he hp

theorem patchM_ne_panic (n : Json) (d : Diff) : patchM n d ≠ .panic :=
  patchAll_ne_panic true n d

end Jd

#print axioms Jd.patchAll_ne_panic
